(* C08, wave 7: the TEXT side of DFXPReader at string level, for documents whose paragraphs are text lines separated by
   <br/> (what DFXPWriter writes for captions given as lines):
     _convert_tag_to_node on a NavigableString (pattern: optional group of 1+ line breaks and 0+ white space, then 1+ characters
     other than LF) - leading line breaks and indentation are dropped, the first line (up to the next \n) is the text; every further line of the string that is not blank is
     appended after one blank, left-stripped;  <br> -> BREAK.
   Modelled for strings that, after the leading line breaks and white space, still hold a character (a string that is
   white space only is matched by back-tracking into the indentation: outside, answered None).  A paragraph is read as
   its list of lines when its children alternate text / <br/> (else None = outside).  Definitions only. *)
From Coq Require Import List ZArith Bool.
From PV Require Import lib.Sx lib.Str lib.Result.
From PV Require Import model.TimeTree model.XmlRead.
Import ListNotations.
Open Scope Z_scope.

Definition is_nlcr (c : Z) : bool := (c =? 10) || (c =? 13).
Definition not_nl (c : Z) : bool := negb (c =? 10).

(* re.split on runs of LF / CR: the pieces between line breaks (empty pieces are blank and dropped by the caller) *)
Fixpoint nl_pieces (s cur : str) : list str :=
  match s with
  | [] => [rev cur]
  | c :: t => if is_nlcr c then rev cur :: nl_pieces t [] else nl_pieces t (c :: cur)
  end.

Definition dfxp_string_text (s : str) : option str :=
  let r2 := match take_while is_nlcr s with
            | [] => s
            | _ => drop_while is_space (drop_while is_nlcr s)
            end in
  match r2 with
  | [] => None
  | c :: _ =>
      if c =? 10 then None else
      Some (take_while not_nl r2
            ++ flat_map (fun l => match strip l with [] => [] | _ => 32 :: lstrip l end)
                        (nl_pieces (drop_while not_nl r2) []))
  end.

Fixpoint p_lines (kids : list hnode) : option (list str) :=
  match kids with
  | [HText s] => match dfxp_string_text s with Some t => Some [t] | None => None end
  | HText s :: HElem n _ [] :: rest =>
      if str_eqb n (lit "br") then
        match dfxp_string_text s, p_lines rest with
        | Some t, Some ls => Some (t :: ls)
        | _, _ => None
        end
      else None
  | _ => None
  end.

(* the children of every <p> that lies in a <div> and has visible text, in document order *)
Fixpoint ps_kids (in_div : bool) (n : hnode) : list (list hnode) :=
  match n with
  | HText _ => []
  | HElem name _ kids =>
      (if str_eqb name (lit "p") && in_div && visible (flat_map h_text kids) then [kids] else [])
      ++ flat_map (ps_kids (in_div || str_eqb name (lit "div"))) kids
  end.

Fixpoint opt_all {A} (l : list (option A)) : option (list A) :=
  match l with
  | [] => Some []
  | Some x :: t => match opt_all t with Some r => Some (x :: r) | None => None end
  | None :: _ => None
  end.

(* one language: the captions with their times (XmlRead.dfxp_read_string) and their text lines *)
Definition dfxp_read_lines (s : str) : result (list (Z * Z * list str)) :=
  match dfxp_read_string [] s with
  | Ok [(_, times)] =>
      match parse_doc s with
      | Some ns =>
          match opt_all (map p_lines (flat_map (ps_kids false) ns)) with
          | Some ls =>
              if (length ls =? length times)%nat
              then Ok (map (fun tl : (Z * Z) * list str => (fst (fst tl), snd (fst tl), snd tl)) (combine times ls))
              else Err EOutside
          | None => Err EOutside
          end
      | None => Err EOutside
      end
  | Ok _ => Err EOutside
  | Err e => Err e
  end.
