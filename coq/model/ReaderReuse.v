(* ReaderReuse.v - C10: the instance state of the SAMI / DFXP / MicroDVD / WebVTT reader OBJECTS across read() calls
   (definitions only).

   Generic part: a reader object has a state S that survives read() - also a read() that raised half way; a read() first
   applies the resets the code performs (`fs` = the fields it re-creates) and then consumes the document.
   Machines (what of each reader is modelled is ONLY its per-object scratch state; the parsing of the text is not):
     par  : SAMIReader (self.line, self.first_alignment) and DFXPReader (self.nodes): a document is a list of paragraphs,
            a paragraph a list of items (text / break / style / inline text-align / a point where the reader raises);
            sami.py _translate_p_tag..: `self.first_alignment = None` before and after each paragraph, `self.line = []`
            before it; dfxp/base.py _convert_p_tag_to_caption: `self.nodes = []`
     mdvd : MicroDVDReader: the frame rate (`fps = Fraction(25)` at the top of read(), replaced by a {0}{0}rate header)
     vtt  : WebVTTReader: the start of the previous cue (`captions[-1].start if captions else 0`), the constructor options
            ignore_timing_errors / time_shift_milliseconds (never assigned after __init__). *)
From Coq Require Import List ZArith QArith Bool.
From PV Require Import lib.Sx lib.Str lib.Result.
Import ListNotations.
Open Scope Z_scope.

(* ---- generic: one object, a sequence of documents --------------------------------------------------------------------- *)
Section Reuse.
  Variables (S D R F : Type).
  Variable prepare : list F -> S -> S.          (* what read() re-creates before it looks at the document *)
  Variable consume : list F -> S -> D -> S * R. (* the rest of read(): (state left in the object, result or exception) *)

  Definition obj_read (fs : list F) (s : S) (d : D) : S * R := consume fs (prepare fs s) d.

  Fixpoint obj_history (fs : list F) (s : S) (docs : list D) : list R :=
    match docs with
    | [] => []
    | d :: t => let (s1, r) := obj_read fs s d in r :: obj_history fs s1 t
    end.
End Reuse.

(* ---- par: paragraphs with a scratch node list and a first alignment ------------------------------------------------------ *)
Inductive pitem : Type := IText (z : Z) | IBreak | IStyle (on : bool) (z : Z) | IAlign (a : Z) | IFail.
Inductive pnode : Type := NText (z : Z) | NBreak | NStyle (on : bool) (z : Z).
Definition pdoc : Type := list (list pitem).
Record pstate := mkP { p_line : list pnode; p_fa : option Z }.
Definition pstate0 : pstate := mkP [] None.
Record pcap := mkPcap { pc_nodes : list pnode; pc_align : option Z }.
Definition pres : Type := result (list pcap).

Inductive pfld : Type := PLine | PFaPre | PFaPost.
Definition pfld_code (f : pfld) : Z := match f with PLine => 0 | PFaPre => 1 | PFaPost => 2 end.
Definition phas (fs : list pfld) (f : pfld) : bool := existsb (fun g => pfld_code g =? pfld_code f) fs.
(* the resets that matter (PFaPost is redundant, see ReaderReuseFacts) *)
Definition pcovers (fs : list pfld) : bool := phas fs PLine && phas fs PFaPre.

(* the items of one paragraph; None = the reader raised at an IFail *)
Fixpoint pitems (s : pstate) (its : list pitem) : pstate * bool :=
  match its with
  | [] => (s, true)
  | IText z :: t => pitems (mkP (p_line s ++ [NText z]) (p_fa s)) t
  | IBreak :: t => pitems (mkP (p_line s ++ [NBreak]) (p_fa s)) t
  | IStyle b z :: t => pitems (mkP (p_line s ++ [NStyle b z]) (p_fa s)) t
  | IAlign a :: t => pitems (mkP (p_line s) (match p_fa s with None => Some a | x => x end)) t
  | IFail :: _ => (s, false)
  end.

Fixpoint ppars (fs : list pfld) (s : pstate) (ps : pdoc) (acc : list pcap) : pstate * pres :=
  match ps with
  | [] => (s, Ok acc)
  | p :: t =>
      let s0 := mkP (if phas fs PLine then [] else p_line s) (if phas fs PFaPre then None else p_fa s) in
      let (s1, ok) := pitems s0 p in
      if ok then
        let cap := mkPcap (p_line s1) (p_fa s1) in
        ppars fs (mkP (p_line s1) (if phas fs PFaPost then None else p_fa s1)) t (acc ++ [cap])
      else (s1, Err ESyntax)
  end.

(* nothing is re-created at the top of read(): the resets are per paragraph *)
Definition pprepare (fs : list pfld) (s : pstate) : pstate := s.
Definition pconsume (fs : list pfld) (s : pstate) (d : pdoc) : pstate * pres := ppars fs s d [].
Definition par_history := obj_history pstate pdoc pres pfld pprepare pconsume.
Definition par_fresh (d : pdoc) : pres := snd (pconsume [PLine; PFaPre; PFaPost] pstate0 d).
Definition par_code_reset : list pfld := [PLine; PFaPre; PFaPost].

(* ---- mdvd: the frame rate -------------------------------------------------------------------------------------------------- *)
Inductive mline : Type := MHeader (num den : Z) | MCue (s e : Z) | MBad.
Definition mdoc : Type := list mline.
Record mstate := mkM { m_num : Z; m_den : Z }.
Definition mstate0 : mstate := mkM 25 1.
Definition mres : Type := result (list (Z * Z)).      (* (start, end) in microseconds *)
Inductive mfld : Type := MFps.
Definition mhas (fs : list mfld) : bool := match fs with [] => false | _ => true end.
Definition mcovers (fs : list mfld) : bool := mhas fs.

(* int(framenum * 10**6 / fps) on exact rationals, fps = num / den *)
Definition frames_us (f : Z) (s : mstate) : Z := (f * 1000000 * m_den s) / m_num s.

Fixpoint mlines (s : mstate) (ls : mdoc) (acc : list (Z * Z)) : mstate * mres :=
  match ls with
  | [] => (s, Ok acc)
  | MHeader n d :: t => mlines (mkM n d) t acc
  | MCue a b :: t => mlines s t (acc ++ [(frames_us a s, frames_us b s)])
  | MBad :: _ => (s, Err ESyntax)
  end.

Definition mprepare (fs : list mfld) (s : mstate) : mstate := if mhas fs then mstate0 else s.
Definition mconsume (fs : list mfld) (s : mstate) (d : mdoc) : mstate * mres := mlines s d [].
Definition mdvd_history := obj_history mstate mdoc mres mfld mprepare mconsume.
Definition mdvd_fresh (d : mdoc) : mres := snd (mconsume [MFps] mstate0 d).

(* ---- vtt: the previous cue's start, under the constructor options ----------------------------------------------------------- *)
Record vopts := mkV { v_strict : bool; v_shift : Z }.      (* ignore_timing_errors=False ; time_shift_milliseconds * 1000 *)
Definition vdoc : Type := list (Z * Z).                      (* (start, end) of the cues, microseconds as written *)
Record vstate := mkVs { v_prev : Z }.
Definition vstate0 : vstate := mkVs 0.
Definition vres : Type := result (list (Z * Z)).
Inductive vfld : Type := VPrev.
Definition vhas (fs : list vfld) : bool := match fs with [] => false | _ => true end.
Definition vcovers (fs : list vfld) : bool := vhas fs.

Fixpoint vcues (o : vopts) (s : vstate) (cs : vdoc) (acc : list (Z * Z)) : vstate * vres :=
  match cs with
  | [] => (s, Ok acc)
  | (a, b) :: t =>
      let a' := a + v_shift o in let b' := b + v_shift o in
      if v_strict o && ((b' <? a') || (a' <? v_prev s)) then (s, Err ETiming)
      else vcues o (mkVs a') t (acc ++ [(a', b')])
  end.

Definition vprepare (fs : list vfld) (s : vstate) : vstate := if vhas fs then vstate0 else s.
Definition vconsume (o : vopts) (fs : list vfld) (s : vstate) (d : vdoc) : vstate * vres := vcues o s d [].
Definition vtt_history (o : vopts) := obj_history vstate vdoc vres vfld vprepare (vconsume o).
Definition vtt_fresh (o : vopts) (d : vdoc) : vres := snd (vconsume o [VPrev] vstate0 d).
