(* Model of textwrap.fill(text, width, break_on_hyphens=False) as used by SCCWriter._layout_line
   (Python 3.12 textwrap.TextWrapper with its defaults: expand_tabs, replace_whitespace, drop_whitespace,
   break_long_words; no indents, no max_lines).  Definitions only.
   Out of the modelled domain: TAB characters (str.expandtabs is not modelled; a TAB is treated like the other
   ASCII whitespace characters, i.e. replaced by one space). *)
From Coq Require Import List ZArith Bool Arith.
From PV Require Import lib.Sx lib.Str.
Import ListNotations.
Open Scope Z_scope.

(* _munge_whitespace: text.translate(unicode_whitespace_trans): each of "\t\n\x0b\x0c\r " becomes ' ' *)
Definition tw_is_ws (c : Z) : bool := (c =? 32) || ((9 <=? c) && (c <=? 13)).
Definition munge (s : str) : str := map (fun c => if tw_is_ws c then 32 else c) s.

(* _split with wordsep_simple_re = r'([\t\n\x0b\x0c\r ]+)' on munged text, empty chunks removed:
   the maximal runs of spaces and of non-spaces, in order. *)
Definition is_sp (c : Z) : bool := c =? 32.
Fixpoint split_chunks (s : str) : list str :=
  match s with
  | [] => []
  | c :: t =>
      match split_chunks t with
      | (d :: ds) :: rest => if Bool.eqb (is_sp c) (is_sp d) then (c :: d :: ds) :: rest
                             else [c] :: (d :: ds) :: rest
      | [] :: rest => [c] :: rest
      | [] => [[c]]
      end
  end.

(* chunk.strip() == ''  (str.strip strips every Unicode whitespace character) *)
Definition is_ws_chunk (c : str) : bool := forallb is_space c.

(* the inner `while chunks:` loop: pop chunks while they fit. cur is the current line, newest chunk first. *)
Fixpoint take_fit (width : nat) (chunks : list str) (cur : list str) (cur_len : nat)
  : list str * nat * list str :=
  match chunks with
  | c :: rest =>
      if (cur_len + length c <=? width)%nat then take_fit width rest (c :: cur) (cur_len + length c)%nat
      else (cur, cur_len, chunks)
  | [] => (cur, cur_len, [])
  end.

(* _handle_long_word with break_long_words and not break_on_hyphens: move the first space_left characters *)
Definition handle_long (width : nat) (st : list str * nat * list str) : list str * list str :=
  match st with
  | (cur, cur_len, c :: r) =>
      if (width <? length c)%nat
      then (firstn (width - cur_len) c :: cur, skipn (width - cur_len) c :: r)
      else (cur, c :: r)
  | (cur, _, []) => (cur, [])
  end.

(* drop the last chunk of the line when it is all whitespace *)
Definition drop_last_ws (cur : list str) : list str :=
  match cur with
  | last :: t => if is_ws_chunk last then t else cur
  | [] => []
  end.

Definition drop_first_ws (chunks : list str) (have_lines : bool) : list str :=
  match chunks with
  | c0 :: rest0 => if is_ws_chunk c0 && have_lines then rest0 else chunks
  | [] => []
  end.

(* one iteration of the outer `while chunks:` loop of _wrap_chunks; lines newest first *)
Definition wrap_step (width : nat) (chunks : list str) (lines : list str) : list str * list str :=
  let chunks1 := drop_first_ws chunks (match lines with [] => false | _ => true end) in
  let '(cur', chunks3) := handle_long width (take_fit width chunks1 [] 0%nat) in
  match drop_last_ws cur' with
  | [] => (chunks3, lines)
  | cur'' => (chunks3, concat (rev cur'') :: lines)
  end.

Fixpoint wrap_loop (fuel : nat) (width : nat) (chunks : list str) (lines : list str) : list str :=
  match fuel with
  | O => rev lines
  | S f =>
      match chunks with
      | [] => rev lines
      | _ => let '(chunks', lines') := wrap_step width chunks lines in wrap_loop f width chunks' lines'
      end
  end.

(* every iteration removes a chunk or at least one character: |text| + #chunks bounds the iterations *)
Definition wrap (width : nat) (text : str) : list str :=
  let chunks := split_chunks (munge text) in
  wrap_loop (S (length text + length chunks)) width chunks [].

Definition fill (width : nat) (text : str) : str := join [10] (wrap width text).
