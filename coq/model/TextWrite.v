(* Models of the writers' text paths (C03, C11). Definitions only.
   Mirrors, at the repaired tree:
     xml.sax.saxutils.escape                      -> xml_escape
     DFXPWriter._recreate_text/_recreate_span     -> dfxp_payload  (extra = ' region="bottom"' for SinglePositioning)
     LegacyDFXPWriter._recreate_text/_recreate_span -> legacy_payload
     SAMIWriter._recreate_text/_recreate_line_style/_recreate_span/_recreate_style -> sami_payload
     WebVTTWriter._encode_illegal_characters, _group_cues_by_layout (one layout), _convert_caption, write -> vtt_*
     SRTWriter._recreate_line/_recreate_lang (with the blank-line repair)  -> srt_*
     MicroDVDWriter._recreate_line/_recreate_lang -> mdvd_*
   Timing fields are other properties' business (C02): the document-level models take the already formatted
   timing line / frame prefix of every caption as an argument. *)
From Coq Require Import List ZArith Bool.
From PV Require Import lib.Sx lib.Str model.TextNodes.
Import ListNotations.
Open Scope Z_scope.

(* ---- XML escaping ---------------------------------------------------------- *)
(* data.replace("&", "&amp;").replace(">", "&gt;").replace("<", "&lt;") *)
Definition xml_escape (s : str) : str :=
  replace (lit "<") (lit "&lt;") (replace (lit ">") (lit "&gt;") (replace (lit "&") (lit "&amp;") s)).

Definition str_nonempty (s : str) : bool := match s with [] => false | _ => true end.

(* ---- DFXP ------------------------------------------------------------------ *)
(* xml.sax.saxutils.quoteattr (the repaired writers quote attribute values with it) *)
Definition mem_ch (c : Z) (s : str) : bool := existsb (Z.eqb c) s.
Definition quoteattr (s : str) : str :=
  let d := replace [9] (lit "&#9;") (replace [13] (lit "&#13;") (replace [10] (lit "&#10;") (xml_escape s))) in
  if mem_ch 34 d then
    if mem_ch 39 d then [34] ++ replace [34] (lit "&quot;") d ++ [34] else [39] ++ d ++ [39]
  else [34] ++ d ++ [34].

(* _recreate_style(node.content): of the modelled keys only 'italics' (truthy value) and 'color' produce an attribute *)
Definition dfxp_style_attrs (st : style) : str :=
  (if st_i st then lit " tts:fontStyle=""italic""" else []) ++
  (match st_color st with Some c => lit " tts:color=" ++ quoteattr c | None => [] end).

(* repaired DFXP / legacy DFXP writers: line + '</span>' ; SAMI writer (and the pinned DFXP writers):
   line.rstrip() + '</span> ' *)
Definition close_span (line : str) : str := line ++ lit "</span>".
Definition close_span_sp (line : str) : str := rstrip line ++ lit "</span> ".
Definition br_markup : str := lit "<br/>" ++ [10] ++ lit "    ".

(* state = (line, self.open_span) *)
Definition span_step (attrs : style -> str) (line : str) (open : bool) (start : bool) (st : style) : str * bool :=
  if start then
    match attrs st with
    | [] => (line, open)
    | a => ((if open then close_span line else line) ++ lit "<span" ++ a ++ lit ">", true)
    end
  else if open then (close_span line, false) else (line, open).

Definition dfxp_step (extra : str) (acc : str * bool) (n : node) : str * bool :=
  let (line, open) := acc in
  match n with
  | NText s => (line ++ xml_escape s, open)
  | NBreak => (rstrip line ++ br_markup, open)
  | NStyle start st => span_step (fun st => dfxp_style_attrs st ++ extra) line open start st
  end.
Definition dfxp_run (extra : str) (open : bool) (ns : list node) : str * bool :=
  fold_left (dfxp_step extra) ns ([], open).
Definition dfxp_payload (extra : str) (ns : list node) : str := rstrip (fst (dfxp_run extra false ns)).

(* legacy (repaired: no blank after a text node any more; the step is DFXPWriter's without positioning) *)
Definition legacy_step (acc : str * bool) (n : node) : str * bool :=
  let (line, open) := acc in
  match n with
  | NText s => (line ++ xml_escape s, open)
  | NBreak => (rstrip line ++ br_markup, open)
  | NStyle start st => span_step dfxp_style_attrs line open start st
  end.
Definition legacy_run (open : bool) (ns : list node) : str * bool := fold_left legacy_step ns ([], open).
Definition legacy_payload (ns : list node) : str := rstrip (fst (legacy_run false ns)).

(* ---- SAMI ------------------------------------------------------------------ *)
(* _recreate_style: italics/bold/underline (value True) -> css; other keys verbatim (dict order i,b,u,color) *)
Definition sami_css (st : style) : str :=
  (if st_i st then lit "font-style:italic;" else []) ++
  (if st_b st then lit "font-weight:bold;" else []) ++
  (if st_u st then lit "text-decoration:underline;" else []) ++
  (match st_color st with Some c => lit "color:" ++ c ++ lit ";" | None => [] end).

(* _recreate_line_style + _recreate_span: a start node first closes an open span (without clearing the flag),
   then opens a new one only if there is something to say *)
Definition sami_step (acc : str * bool) (n : node) : str * bool :=
  let (line, open) := acc in
  match n with
  | NText s => (line ++ xml_escape s ++ lit " ", open)
  | NBreak => (rstrip line ++ br_markup, open)
  | NStyle true st =>
      let line1 := if open then close_span_sp line else line in
      match sami_css st with
      | [] => (line1, open)
      | css => (line1 ++ lit "<span style=""" ++ css ++ lit """>", true)
      end
  | NStyle false _ => if open then (close_span_sp line, false) else (line, open)
  end.
Definition sami_run (open : bool) (ns : list node) : str * bool := fold_left sami_step ns ([], open).
Definition sami_payload (ns : list node) : str := rstrip (fst (sami_run false ns)).

(* ---- WebVTT ---------------------------------------------------------------- *)
Definition vtt_encode (s : str) : str :=
  replace (lit "-->") (lit "--&gt;") (replace (lit "<") (lit "&lt;") (replace (lit "&") (lit "&amp;") s)).

Definition nbsp_ent : str := lit "&nbsp;".
Definition vtt_text (s : str) : str := match vtt_encode s with [] => nbsp_ent | e => e end.

(* styles = ['italics','underline','bold'], reversed for an end node *)
Definition vtt_open (st : style) : str :=
  (if st_i st then lit "<i>" else []) ++ (if st_u st then lit "<u>" else []) ++ (if st_b st then lit "<b>" else []).
Definition vtt_close (st : style) : str :=
  (if st_b st then lit "</b>" else []) ++ (if st_u st then lit "</u>" else []) ++ (if st_i st then lit "</i>" else []).

(* _group_cues_by_layout for nodes of one layout, as the loop it is.
   State: s, first = (i == 0), prev_text = (nodes[i-1] is TEXT).  After a text node the whole buffer is
   re-scanned for the arrow (repaired tree: "-->" may form across two text nodes). *)
Definition arrow_fix (s : str) : str := replace (lit "-->") (lit "--&gt;") s.

Definition vtt_step (arrowfix : bool) (acc : str * bool * bool) (n : node) : str * bool * bool :=
  let '(s, first, prev_text) := acc in
  match n with
  | NText t => let s1 := s ++ vtt_text t in ((if arrowfix then arrow_fix s1 else s1), false, true)
  | NStyle true st => (s ++ vtt_open st, false, false)
  | NStyle false st => (s ++ vtt_close st, false, false)
  | NBreak => (s ++ (if first then nbsp_ent else if prev_text then [] else nbsp_ent) ++ [10], false, false)
  end.
Definition vtt_cue_text_gen (arrowfix : bool) (ns : list node) : str :=
  fst (fst (fold_left (vtt_step arrowfix) ns ([], true, false))).
Definition vtt_cue_text (ns : list node) : str := vtt_cue_text_gen true ns.
(* the pinned code: no re-scan *)
Definition vtt_cue_text_prefix (ns : list node) : str := vtt_cue_text_gen false ns.

(* _convert_caption with an empty caption style and no layout: timing line, cue text; nothing if the text is empty *)
Definition vtt_caption (c : str * list node) : str :=
  match vtt_cue_text (snd c) with
  | [] => []
  | t => fst c ++ [10] ++ t ++ [10]
  end.
Definition vtt_doc (caps : list (str * list node)) : str :=
  lit "WEBVTT" ++ [10; 10] ++ join [10] (map vtt_caption caps).

(* ---- SRT ------------------------------------------------------------------- *)
Definition srt_piece (n : node) : str :=
  match n with NText s => s | NBreak => [10] | NStyle _ _ => [] end.
Definition srt_raw (ns : list node) : str := strip (concat (map srt_piece ns)).
Definition nonblank (l : str) : bool := str_nonempty (strip l).
(* repaired: '\n'.join(line for line in new_content.split('\n') if line.strip()) *)
Definition srt_content (ns : list node) : str := join [10] (filter nonblank (split_ch 10 (srt_raw ns))).
(* the pinned code: no filtering *)
Definition srt_content_prefix (ns : list node) : str := srt_raw ns.

Fixpoint srt_blocks_from (content : list node -> str) (k : Z) (caps : list (str * list node)) : str :=
  match caps with
  | [] => []
  | (tl, ns) :: t => dec_z k ++ [10] ++ tl ++ [10] ++ content ns ++ [10; 10] ++ srt_blocks_from content (k + 1) t
  end.
(* srt[:-1] *)
Definition drop_last (s : str) : str := firstn (length s - 1) s.
(* _recreate_lang first merges consecutive captions with the same (start, end) - here: the same timing line -
   into one caption: nodes + [BREAK] + nodes *)
Fixpoint srt_merge_aux (acc : list (str * list node)) (caps : list (str * list node)) : list (str * list node) :=
  match caps with
  | [] => rev acc
  | (tl, ns) :: t =>
      match acc with
      | (tl0, ns0) :: acc' => if str_eqb tl tl0 then srt_merge_aux ((tl0, ns0 ++ [NBreak] ++ ns) :: acc') t
                              else srt_merge_aux ((tl, ns) :: acc) t
      | [] => srt_merge_aux [(tl, ns)] t
      end
  end.
Definition srt_merge (caps : list (str * list node)) : list (str * list node) := srt_merge_aux [] caps.

Definition srt_doc_merged (caps : list (str * list node)) : str := drop_last (srt_blocks_from srt_content 1 caps).
Definition srt_doc (caps : list (str * list node)) : str := srt_doc_merged (srt_merge caps).
Definition srt_doc_prefix (caps : list (str * list node)) : str := drop_last (srt_blocks_from srt_content_prefix 1 caps).

(* ---- MicroDVD -------------------------------------------------------------- *)
(* a line end inside a text node (CR LF, CR, LF - also at its edges) is written as a line break '|'
   (re.sub('\r\n|\r|\n', '|', content)); every other character, U+2028 included, is written as it is *)
Fixpoint mdvd_nl (s : str) : str :=
  match s with
  | [] => []
  | c :: t =>
      if c =? 13 then 124 :: match t with
                             | d :: t' => if d =? 10 then mdvd_nl t' else mdvd_nl t
                             | [] => []
                             end
      else if c =? 10 then 124 :: mdvd_nl t
      else c :: mdvd_nl t
  end.
Definition mdvd_piece (n : node) : str :=
  match n with NText s => mdvd_nl s | NBreak => lit "|" | NStyle _ _ => [] end.

(* while p in s: s = s.replace(p, r) *)
Fixpoint while_replace (fuel : nat) (p r s : str) : str :=
  match fuel with
  | O => s
  | S f => if is_infix p s then while_replace f p r (replace p r s) else s
  end.
Definition mdvd_content (ns : list node) : str :=
  let c := strip (concat (map mdvd_piece ns)) ++ [10] in
  let c := while_replace (length c) [10; 10] [10] c in
  while_replace (length c) (lit "|" ++ [10]) [10] c.
Definition mdvd_doc (caps : list (str * list node)) : str :=
  concat (map (fun c => fst c ++ mdvd_content (snd c)) caps).
