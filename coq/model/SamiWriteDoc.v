(* C02 / C08, round 4: the DOCUMENT SAMIWriter.write prints for ONE language of captions given as text lines (TEXT nodes
   separated by BREAK nodes; no layout, no style), after BeautifulSoup.prettify: the head with the language class, then
   from <body> on one <sync start=ms> per event of the sync rule (TimeWrite.sami_write: a sync with the paragraph of every
   caption, a blank &nbsp; sync at the end millisecond unless the next caption starts there, nothing after the last),
   each holding one <p class=lang>.  The body is expressed in the abstract syntax of spec/SpecSamiText.v and printed by its
   renderer; the harness compares head + body with the real writer's text character by character (request 208).
   Definitions only. *)
From Coq Require Import List ZArith QArith Bool.
From PV Require Import lib.Sx lib.Str lib.Dec.
From PV Require Import model.TimeWrite spec.SpecSamiText.
Import ListNotations.
Open Scope Z_scope.

Definition snl (k : nat) : str := 10 :: repeat 32 k.
Definition slits (s : str) : srun := map ScLit s.
Definition sa1 (n v : str) : sattr := mkSa [32] n [] [] 34 v.

Definition scap : Type := (Z * Z * list str)%type.

(* the payload of a <p>: lines separated by <br/> + newline + 4 blanks *)
Fixpoint swcontent (lines : list str) : scontent :=
  match lines with
  | [] => ([], slits (snl 3))
  | [l] => ([], slits (snl 4 ++ l ++ snl 3))
  | l :: t => let c := swcontent t in ((slits (snl 4 ++ l), mkBr (lit "br") [] true) :: fst c, snd c)
  end.
Definition blank_content : scontent := ([], slits (snl 4) ++ [ScNbsp] ++ slits (snl 3)).

Definition ev_content (texts : list (list str)) (e : sev) : scontent :=
  match e with
  | SCue _ i => swcontent (nth i texts [])
  | SBlank _ => blank_content
  end.
Definition ev_ms (e : sev) : Z := match e with SCue ms _ => ms | SBlank ms => ms end.

Definition wsync (lang : str) (texts : list (list str)) (e : sev) (after : str) : ssync :=
  mkSsync (mkSt (lit "sync") [sa1 (lit "start") (sami_token (ev_ms e))] []) 0 (ev_ms e) (snl 3)
          [mkSpar (mkSt (lit "p") [sa1 (lit "class") lang] []) lang (ev_content texts e) (lit "p", []) (snl 2)]
          (lit "sync", []) after.

Fixpoint wsyncs (lang : str) (texts : list (list str)) (evs : list sev) : list ssync :=
  match evs with
  | [] => []
  | [e] => [wsync lang texts e (snl 1)]
  | e :: t => wsync lang texts e (snl 2) :: wsyncs lang texts t
  end.

Definition times_q (cs : list scap) : list (Q * Q) := map (fun c : scap => (inject_Z (fst (fst c)), inject_Z (snd (fst c)))) cs.

Definition wsdoc (lang : str) (cs : list scap) : sdoc :=
  mkSdoc (mkSt (lit "body") [] []) (snl 2) (wsyncs lang (map snd cs) (sami_write (times_q cs)))
         [((lit "body", []), snl 0); ((lit "sami", []), snl 0)].

Definition sami_head (lang : str) : str :=
  lit "<sami>" ++ snl 1 ++ lit "<head>" ++ snl 2 ++ lit "<style type=""text/css"">" ++ snl 3 ++ lit "<!--" ++ snl 4
  ++ [46] ++ lang ++ lit " {" ++ snl 5 ++ lit "lang: " ++ lang ++ [59] ++ snl 4 ++ [125] ++ snl 3 ++ lit "-->" ++ snl 2
  ++ lit "</style>" ++ snl 1 ++ lit "</head>" ++ snl 1.

Definition sami_body_text (lang : str) (cs : list scap) : str := render_sdoc (wsdoc lang cs).
Definition sami_write_doc (lang : str) (cs : list scap) : str := sami_head lang ++ sami_body_text lang cs.
