(* C17, wave 7: the domain of the re-read theorems (proofs/SccRereadDoc.v caps_ok) as a decidable predicate, so that the
   harness can tell on every generated case whether the theorems speak about it (request 1706).  Definitions only;
   proofs/SccRereadDomFacts.v proves  caps_ok_b caps = true -> caps_ok caps. *)
From Coq Require Import List ZArith QArith Bool.
From PV Require Import lib.Sx lib.Str lib.Result model.GenSccw model.SccWrap model.SccWrite spec.SpecSccw model.SccStash
     model.SccRoundTrip.
Import ListNotations.
Open Scope Z_scope.

Definition basic_char_b (c : Z) : bool := match assoc c sccw_character_to_code with Some _ => true | None => false end.
Definition basic_text_b (t : str) : bool := forallb (fun c => basic_char_b c || (c =? 10)) t.
Definition cap_dom_b (c : wcap) : bool := basic_text_b (w_text c) && (length (layout_rows (w_text c)) <=? 15)%nat.
Definition cap_words_b (c : wcap) : Q :=
  match text_to_words (w_text c) with Ok ws => inject_Z (Z.of_nat (length ws) + 8) | Err _ => 0%Q end.
Fixpoint spaced_b (prev_start : Q) (caps : list wcap) : bool :=
  match caps with
  | [] => true
  | c :: t => Qle_bool prev_start (w_start c - cap_words_b c * mpc) && Qle_bool (w_start c) (w_end c)
              && spaced_b (w_start c) t
  end.
Definition has_word_b (c : wcap) : bool := match words (w_text c) with [] => false | _ => true end.
Definition below_100h_b (c : wcap) : bool := negb (Qle_bool 360000000000 (w_end c)).
Definition caps_ok_b (caps : list wcap) : bool :=
  forallb cap_dom_b caps && spaced_b 0 caps && forallb has_word_b caps && forallb below_100h_b caps.

(* how the reader model answers: 0 captions, 1 line-length refusal, 2 flash refusal, 3 any other error, 4 writer error,
   5 not a document *)
Definition reread_class (caps : list wcap) : Z :=
  match reread caps with
  | RRWriteError _ => 4
  | RRNotADocument => 5
  | RRRead (ROk _) => 0
  | RRRead (RLen _) => 1
  | RRRead (RErr ETiming) => 2
  | RRRead (RErr _) => 3
  end.
