(* C20 (wave 7, round 3): the SCC writer FROM THE TEXT NODES.  SCCWriter.write takes the first language of the set;
   _layout_line starts from "".join(caption.get_text_nodes()), which is OwnWrite.cap_text.  Everything behind that
   point is the SCC builders' model model/SccWrite.v (used read-only): wrapping to 32 columns, rows, preamble address
   codes, character codes, alignment, pre-roll, timecodes.  Times are integers here, exact rationals there.
   An empty caption set gives the header alone, exactly what `write []` returns.  Definitions only. *)
From Coq Require Import List ZArith QArith Bool.
From PV Require Import lib.Sx lib.Str lib.Result model.SccWrite model.OwnWrite.
Import ListNotations.
Open Scope Z_scope.

Definition wcap_of (c : ocap) : wcap := mkWcap (cap_text c) (inject_Z (oc_start c)) (inject_Z (oc_end c)).
Definition scc_write (langs : list (list ocap)) : result str := write (map wcap_of (hd [] langs)).
