(* Model of the markup-producing parts of the DFXP writers (C07), mirroring the repaired code:
   xml.sax.saxutils.escape / quoteattr, bs4's quoted_attribute_value behind DFXPOutputFormatter (attribute values are
   escaped, text nodes written raw), _recreate_style (which style keys become which attributes), _recreate_text /
   _recreate_span of DFXPWriter and LegacyDFXPWriter (hand-assembled <p> payload with the open_span flag).
   Definitions only. *)
From Coq Require Import List ZArith Bool.
From PV Require Import lib.Sx lib.Str.
Import ListNotations.
Open Scope Z_scope.

(* str.replace with a one-character pattern *)
Definition replace_ch (c : Z) (r : str) (s : str) : str := flat_map (fun x => if x =? c then r else [x]) s.

(* xml.sax.saxutils.escape(data): "&" first, then ">" and "<" *)
Definition xml_escape (s : str) : str :=
  replace_ch 60 (lit "&lt;") (replace_ch 62 (lit "&gt;") (replace_ch 38 (lit "&amp;") s)).

Definition has (c : Z) (s : str) : bool := existsb (Z.eqb c) s.

(* bs4 Formatter.quoted_attribute_value, and the same rule at the end of saxutils.quoteattr *)
Definition quote_value (s : str) : str :=
  if has 34 s then
    if has 39 s then [34] ++ replace_ch 34 (lit "&quot;") s ++ [34]
    else [39] ++ s ++ [39]
  else [34] ++ s ++ [34].

(* an attribute of a bs4 tag as DFXPOutputFormatter serializes it *)
Definition attr_out (v : str) : str := quote_value (xml_escape v).
(* xml.sax.saxutils.quoteattr: escape, then \n \r \t as character references, then quote *)
Definition quoteattr (v : str) : str :=
  quote_value (replace_ch 9 (lit "&#9;") (replace_ch 13 (lit "&#13;") (replace_ch 10 (lit "&#10;") (xml_escape v)))).

(* ---- _recreate_style: style dictionary -> DFXP attributes (insertion order of the result dict) -------------- *)
Fixpoint lookup (k : str) (d : list (str * str)) : option str :=
  match d with [] => None | (k', v) :: t => if str_eqb k' k then Some v else lookup k t end.

Definition recreate_style (content : list (str * str)) (style_ids : list str) : list (str * str) :=
  (match lookup (lit "class") content with
   | Some c => if existsb (str_eqb c) style_ids then [(lit "style", c)] else []
   | None => [] end)
  ++ (match lookup (lit "text-align") content with Some v => [(lit "tts:textAlign", v)] | None => [] end)
  (* `if content.get('italics')`: a value is carried as a string, the empty string standing for False / None *)
  ++ (match lookup (lit "italics") content with Some (_ :: _) => [(lit "tts:fontStyle", lit "italic")] | _ => [] end)
  ++ (match lookup (lit "font-family") content with Some v => [(lit "tts:fontFamily", v)] | None => [] end)
  ++ (match lookup (lit "font-size") content with Some v => [(lit "tts:fontSize", v)] | None => [] end)
  ++ (match lookup (lit "color") content with Some v => [(lit "tts:color", v)] | None => [] end)
  ++ (match lookup (lit "display-align") content with Some v => [(lit "tts:displayAlign", v)] | None => [] end).

(* ---- the <p> payload ------------------------------------------------------------------------------------------ *)
Inductive pnode :=
| PText (s : str)
| PBreak
| PStyleStart (attrs : list (str * str))      (* the attributes the span would carry, in order *)
| PStyleEnd.

Definition span_attrs (attrs : list (str * str)) : str :=
  flat_map (fun kv => [32] ++ fst kv ++ [61] ++ quoteattr (snd kv)) attrs.

Definition close_span : str := lit "</span>".
Definition br_text : str := lit "<br/>" ++ [10; 32; 32; 32; 32].

(* one node of _recreate_text; legacy = LegacyDFXPWriter.  Since `fix: DFXP writer put a blank after every </span>`
   and `fix: legacy DFXP writer put a blank after every text node and every </span>` both writers assemble the same
   string: a text node is appended as it is, `</span>` follows the line without rstrip and without a blank *)
Definition payload_step (legacy : bool) (st : str * bool) (n : pnode) : str * bool :=
  let '(line, open) := st in
  match n with
  | PText s => (line ++ xml_escape s, open)
  | PBreak => (rstrip line ++ br_text, open)
  | PStyleStart attrs =>
      match span_attrs attrs with
      | [] => (line, open)
      | styles => ((if open then line ++ close_span else line) ++ lit "<span" ++ styles ++ [62], true)
      end
  | PStyleEnd => if open then (line ++ close_span, false) else (line, open)
  end.

(* returns the payload and the open_span flag left behind for the next caption *)
Definition recreate_text (legacy : bool) (open : bool) (nodes : list pnode) : str * bool :=
  let '(line, open') := fold_left (payload_step legacy) nodes ([], open) in (rstrip line, open').

(* LegacyDFXPWriter._recreate_style: as above, preceded by region= when the dictionary has a `region` key naming a
   <region> that exists in the document so far *)
Definition legacy_recreate_style (content : list (str * str)) (style_ids region_ids : list str) : list (str * str) :=
  (match lookup (lit "region") content with
   | Some r => if existsb (str_eqb r) region_ids then [(lit "region", r)] else []
   | None => [] end)
  ++ recreate_style content style_ids.
