(* WebVTTWriter._group_cues_by_layout / _convert_caption for captions whose nodes carry node-level layouts (wave 7).
   A layout is an identifier: 0 = no layout (None / a falsy Layout), equal identifiers = equal Layout objects.
   One cue per layout group, all with the caption's timing line; the cue settings of a group are supplied by the
   harness (a Layout with webvtt_positioning writes them literally; "" for no layout).  Definitions only. *)
From Coq Require Import List ZArith Bool.
From PV Require Import lib.Sx lib.Str model.TextNodes model.TextWrite.
Import ListNotations.
Open Scope Z_scope.

Definition lnode := (Z * node)%type.

(* state: s, current_layout, (i == 0), (nodes[i-1] is TEXT), finished groups (reversed) *)
Record gstate := mkG { g_s : str; g_cur : Z; g_first : bool; g_prev : bool; g_out : list (str * Z) }.

Definition lay_truthy (l : Z) : bool := negb (l =? 0).

Definition vttg_step (st : gstate) (ln : lnode) : gstate :=
  let (l, n) := ln in
  match n with
  | NText t =>
      (* if s and current_layout and node.layout_info != current_layout: close the group *)
      let cut := str_nonempty (g_s st) && lay_truthy (g_cur st) && negb (l =? g_cur st) in
      let s0 := if cut then [] else g_s st in
      let out0 := if cut then (g_s st, g_cur st) :: g_out st else g_out st in
      mkG (arrow_fix (s0 ++ vtt_text t)) l false true out0
  | NStyle start sty =>
      (* a span that begins in the next layout group opens in the cue of that group *)
      let cut := start && str_nonempty (g_s st) && lay_truthy (g_cur st) && lay_truthy l && negb (l =? g_cur st) in
      let s0 := if cut then [] else g_s st in
      let cur0 := if cut then l else g_cur st in
      let out0 := if cut then (g_s st, g_cur st) :: g_out st else g_out st in
      mkG (s0 ++ (if start then vtt_open sty else vtt_close sty)) cur0 false false out0
  | NBreak =>
      mkG (g_s st ++ (if g_first st then nbsp_ent else if g_prev st then [] else nbsp_ent) ++ [10])
          (g_cur st) false false (g_out st)
  end.

Definition vtt_groups (lns : list lnode) : list (str * Z) :=
  let st := fold_left vttg_step lns (mkG [] 0 true false []) in
  rev (match g_s st with [] => g_out st | s => (s, g_cur st) :: g_out st end).

(* _convert_caption, empty caption style: per group  timing ++ settings ++ "\n" ++ cue text ++ "\n" *)
Definition vtt_caption_g (settings : Z -> str) (c : str * list lnode) : str :=
  concat (map (fun g => fst c ++ settings (snd g) ++ [10] ++ fst g ++ [10]) (vtt_groups (snd c))).

Definition vtt_doc_g (settings : Z -> str) (caps : list (str * list lnode)) : str :=
  lit "WEBVTT" ++ [10; 10] ++ join [10] (map (vtt_caption_g settings) caps).
