(* Model of the line-length scan at the end of SCCReader.read (pycaption/scc/__init__.py), C15.

   The scan sees, for every stored caption, its formatted start time (the dict key) and its text
   "".join(get_text_nodes()) in which a BREAK node is "\n".  Definitions only.

       lines_too_long = defaultdict(list)
       for caption in self.caption_stash._collection:
           caption_start = caption.to_real_caption().format_start()
           caption_text = "".join(caption.to_real_caption().get_text_nodes())
           text_too_long = [line for line in caption_text.split("\n") if len(line) > 32]
           lines_too_long[caption_start].extend(text_too_long)           # after fix #5
       msg = ""
       if bool(lines_too_long.keys()):            # (no effect on the outcome: an empty dict gives an empty loop)
        for key in lines_too_long:
           if lines_too_long[key]:
               msg += f"around {key} - "
               for line in lines_too_long[key]:
                   msg += line + f" - Length { len(line)}" + "\n"
       if len(msg): raise CaptionLineLengthError(HEAD + msg)                                  *)
From Coq Require Import List ZArith Bool.
From PV Require Import lib.Sx lib.Str.
Import ListNotations.
Open Scope Z_scope.

(* (formatted start, text) *)
Definition lcap : Type := (str * str)%type.

Definition lines_of (text : str) : list str := split_ch 10 text.
Definition is_long (l : str) : bool := 32 <? Z.of_nat (length l).
Definition too_long (text : str) : list str := filter is_long (lines_of text).

(* a Python dict with list values: insertion order, update in place *)
Definition ldict : Type := list (str * list str).

(* d[k].extend(v) on a defaultdict(list) *)
Fixpoint dict_extend (d : ldict) (k : str) (v : list str) : ldict :=
  match d with
  | [] => [(k, v)]
  | (k', v') :: t => if str_eqb k' k then (k', v' ++ v) :: t else (k', v') :: dict_extend t k v
  end.

(* the code before fix #5:  if k in d: d[k] = v  else: d[k].extend(v) *)
Fixpoint dict_overwrite (d : ldict) (k : str) (v : list str) : ldict :=
  match d with
  | [] => [(k, v)]
  | (k', v') :: t => if str_eqb k' k then (k', v) :: t else (k', v') :: dict_overwrite t k v
  end.

Definition scan_with (upd : ldict -> str -> list str -> ldict) (caps : list lcap) : ldict :=
  fold_left (fun d c => upd d (fst c) (too_long (snd c))) caps [].

Definition scan : list lcap -> ldict := scan_with dict_extend.
Definition scan_prefix : list lcap -> ldict := scan_with dict_overwrite.

Definition render_line (l : str) : str :=
  l ++ lit " - Length " ++ dec_nonneg (Z.of_nat (length l)) ++ [10].

Definition render_entry (e : str * list str) : str :=
  match snd e with
  | [] => []
  | ls => lit "around " ++ fst e ++ lit " - " ++ concat (map render_line ls)
  end.

Definition render (d : ldict) : str := concat (map render_entry d).

Definition msg_head : str :=
  lit "32 character limit for caption cue in scc file." ++ [10] ++ lit "Lines longer than 32:" ++ [10].

(* None = the scan lets the captions through; Some m = CaptionLineLengthError(m) *)
Definition outcome_of (d : ldict) : option str :=
  match render d with
  | [] => None
  | m => Some (msg_head ++ m)
  end.

Definition length_check (caps : list lcap) : option str := outcome_of (scan caps).
Definition length_check_prefix (caps : list lcap) : option str := outcome_of (scan_prefix caps).
