(* C01, document level of the tree-based readers over ABSTRACT trees (what BeautifulSoup hands to the
   reader): DFXPReader.read -> one caption list per <div> (language resolution, dict semantics),
   _convert_div_to_caption_list (only <p> with visible text are converted), _find_and_convert_times on the
   attribute dictionary of each <p>; SAMIReader.read -> _translate_lang per language over the <p> elements
   selected by language, each under its <sync start=..>.  Definitions only. *)
From Coq Require Import List ZArith Bool.
From PV Require Import lib.Sx lib.Str lib.Result.
From PV Require Import model.Langs model.TimeRead.
Import ListNotations.
Open Scope Z_scope.

(* a tag's attribute dictionary as bs4 builds it from the parser's (name, value) list: a repeated name
   is replaced by the later value *)
Definition attrs : Type := list (str * str).
Definition attr_get (name : str) (a : attrs) : option str :=
  fold_left (fun acc nv => if str_eqb (fst nv) name then Some (snd nv) else acc) a None.

Record xp := mkXp { xp_attrs : attrs; xp_text : bool (* p_tag.get_text().strip() is non-empty *) }.

Definition xp_times (p : xp) : option str * option str * option str :=
  (attr_get (lit "begin") (xp_attrs p), attr_get (lit "end") (xp_attrs p), attr_get (lit "dur") (xp_attrs p)).

(* [convert(p) for p in div.find_all('p') if p.get_text().strip()] *)
Definition dfxp_div_caps (ps : list xp) : result (list (Z * Z)) :=
  dfxp_div_times (map xp_times (filter xp_text ps)).

Definition all_empty {A} (d : list (str * list A)) : bool :=
  forallb (fun kv => match snd kv with [] => true | _ => false end) d.

Definition as_dict {A} (l : list (str * A)) : list (str * A) :=
  fold_left (fun d kv => dict_set (fst kv) (snd kv) d) l [].

(* ---- whole DFXP documents (after the fix: commit "DFXP reader kept only the last <div> of a language") ----
   What the reader asks of the tree: find_all('div') and find_all('p') in document order; for a <p> its nearest
   enclosing <div>; for a <div> its own xml:lang and those of the enclosing <div>s.  A lang_chain lists the
   xml:lang attributes from the nearest <div> outward. *)
Definition lang_chain : Type := list (option str).

(* _find_div_language: the first xml:lang on the way out, else tt's, else DEFAULT_LANGUAGE_CODE *)
Fixpoint chain_lang (default : str) (tt_lang : option str) (ch : lang_chain) : str :=
  match ch with
  | Some l :: _ => l
  | None :: t => chain_lang default tt_lang t
  | [] => match tt_lang with Some l => l | None => default end
  end.

(* for div in find_all('div'): if lang not in caption_dict: caption_dict[lang] = CaptionList() *)
Definition first_seen (ls : list str) : list str :=
  fold_left (fun acc l => if existsb (str_eqb l) acc then acc else acc ++ [l]) ls [].

(* caption_dict[lang].append(caption) *)
Definition dict_push {A} (k : str) (v : A) (d : list (str * list A)) : list (str * list A) :=
  map (fun kv => if str_eqb (fst kv) k then (fst kv, snd kv ++ [v]) else kv) d.

(* for p in find_all('p'): div = p.find_parent('div'); if div is not None and p.get_text().strip(): ... *)
Definition dfxp_read_doc (default : str) (tt_lang : option str) (divs : list lang_chain)
           (ps : list (option lang_chain * xp)) : result (list (str * list (Z * Z))) :=
  do caps <- res_map (fun cp : option lang_chain * xp =>
                        match fst cp with
                        | Some ch =>
                            if xp_text (snd cp)
                            then do c <- (let '(b, e, d) := xp_times (snd cp) in dfxp_p_times b e d);
                                 Ok (Some (chain_lang default tt_lang ch, c))
                            else Ok None
                        | None => Ok None
                        end) ps;
  let d0 := map (fun l => (l, [])) (first_seen (map (chain_lang default tt_lang) divs)) in
  let d := fold_left (fun d o => match o with Some (l, c) => dict_push l c d | None => d end) caps d0 in
  if all_empty d then Err ENoCaptions else Ok d.

(* ---- SAMI -------------------------------------------------------------------------------------- *)
(* body = list of <sync>: the start attribute and its <p> elements (resolved language, has visible text) *)
Definition xsync : Type := (option str * list (str * bool))%type.

(* sami_soup.find_all('p', attrs={'lang': language}), each with p.parent.get('start') *)
Definition sami_select (lang : str) (body : list xsync) : list (option str * bool) :=
  flat_map (fun sy : xsync => map (fun p => (fst sy, snd p)) (filter (fun p => str_eqb (fst p) lang) (snd sy))) body.

(* for language in doc_langs: caption_dict[language] = _translate_lang(language, ...) *)
Definition sami_read_tree (langs : list str) (body : list xsync) : result (list (str * list (Z * Z))) :=
  do l <- res_map (fun lg => do caps <- sami_translate_str (sami_select lg body); Ok (lg, caps)) langs;
  let d := as_dict l in
  if all_empty d then Err ENoCaptions else Ok d.
