(* Model of pycaption/scc/__init__.py SCCWriter (C17), mirroring the repaired code:
   _layout_line (textwrap.fill(x, 32, break_on_hyphens=False)), _text_to_code, _print_character,
   _maybe_align, _maybe_space, write() PASS 2 (every caption pre-rolled, clamped at 0) and PASS 3,
   _format_timestamp.  Times are exact rationals; MICROSECONDS_PER_CODEWORD is modelled by the exact
   value 1001000/30 it approximates (GenSccw carries the binary64 value; SccWriteFacts bounds the distance).
   Definitions only. *)
From Coq Require Import List ZArith QArith Qround Bool Arith.
From PV Require Import lib.Sx lib.Str lib.Result model.GenSccw model.SccWrap.
Import ListNotations.
Open Scope Z_scope.

(* ---- table lookups ---------------------------------------------------------------------- *)
Fixpoint assoc (k : Z) (l : list (Z * Z)) : option Z :=
  match l with
  | [] => None
  | (a, b) :: t => if a =? k then Some b else assoc k t
  end.

(* Python list indexing with its negative-index rule; out of range = IndexError *)
Definition py_index (l : list Z) (i : Z) : result Z :=
  let n := Z.of_nat (length l) in
  let j := if i <? 0 then i + n else i in
  if (j <? 0) || (n <=? j) then Err IndexError else Ok (nth (Z.to_nat j) l 0).

(* what _print_character looks up: a one-byte basic code, or a two-byte word (special / extended /
   the substitute 91b6 for an unknown character) *)
Inductive ccode := CByte (b : Z) | CWord (hi lo : Z).
Definition unknown_char_word : ccode := CWord 145 182.     (* "91b6" *)
Definition char_code (c : Z) : ccode :=
  match assoc c sccw_character_to_code with
  | Some b => CByte b
  | None => match assoc c sccw_special_or_extended_to_code with
            | Some w => CWord (w / 256) (w mod 256)
            | None => unknown_char_word
            end
  end.

(* ---- the code string, exactly as the Python builds it ------------------------------------- *)
Definition hex_digit (d : Z) : Z := if d <? 10 then 48 + d else 87 + d.
(* a table entry that is not a hex byte (the 'xx' placeholder, generated as -1) prints as "xx" *)
Definition hex2 (b : Z) : str := if b <? 0 then [120; 120] else [hex_digit (b / 16); hex_digit (b mod 16)].

Definition len5 (code : str) : Z := Z.of_nat (length code) mod 5.
Definition maybe_align (code : str) : str := if len5 code =? 2 then code ++ lit "80 " else code.
Definition maybe_space (code : str) : str := if len5 code =? 4 then code ++ [32] else code.

Definition print_character (code : str) (c : Z) : str :=
  match char_code c with
  | CByte b => code ++ hex2 b
  | CWord hi lo => maybe_align code ++ hex2 hi ++ hex2 lo
  end.

Definition print_line (code : str) (line : str) : str :=
  fold_left (fun code c => maybe_space (print_character code c)) line code.

Definition pac_str (hi lo : Z) : str := hex2 hi ++ hex2 lo ++ [32].

(* rows: (row number, text) *)
Fixpoint code_rows (code : str) (rows : list (Z * str)) : result str :=
  match rows with
  | [] => Ok code
  | (row, line) :: t =>
      do hi <- py_index sccw_pac_high_byte_by_row row;
      do lo <- py_index sccw_pac_low_byte_by_row_restricted row;
      code_rows (maybe_align (print_line (code ++ pac_str hi lo ++ pac_str hi lo) line)) t
  end.

(* _layout_line: the caption text (text nodes, "\n" for breaks) split at "\n", each piece filled to 32 *)
Definition layout_line (text : str) : str :=
  join [10] (map (fill 32) (split_ch 10 text)).

Fixpoint number_rows (first : Z) (lines : list str) : list (Z * str) :=
  match lines with
  | [] => []
  | l :: t => (first, l) :: number_rows (first + 1) t
  end.

Definition layout_rows (text : str) : list (Z * str) :=
  let lines := split_ch 10 (layout_line text) in
  number_rows (16 - Z.of_nat (length lines)) lines.

Definition text_to_code (text : str) : result str := code_rows [] (layout_rows text).

(* ---- the same thing as a stream of byte pairs (used by the theorems; SccWriteFacts proves
        text_to_code = render of this stream) ---------------------------------------------------- *)
Definition wstate := (list (Z * Z) * option Z)%type.      (* words so far (newest first), pending half word *)

Definition ws_align (s : wstate) : wstate :=
  match s with (ws, Some p) => ((p, 128) :: ws, None) | _ => s end.
Definition ws_char (s : wstate) (c : Z) : wstate :=
  match char_code c with
  | CByte b => match s with
               | (ws, Some p) => ((p, b) :: ws, None)
               | (ws, None) => (ws, Some b)
               end
  | CWord hi lo => let '(ws, _) := ws_align s in ((hi, lo) :: ws, None)
  end.
Definition ws_line (s : wstate) (line : str) : wstate := fold_left ws_char line s.

Fixpoint words_rows (s : wstate) (rows : list (Z * str)) : result wstate :=
  match rows with
  | [] => Ok s
  | (row, line) :: t =>
      do hi <- py_index sccw_pac_high_byte_by_row row;
      do lo <- py_index sccw_pac_low_byte_by_row_restricted row;
      let '(ws, p) := s in
      words_rows (ws_align (ws_line ((hi, lo) :: (hi, lo) :: ws, p) line)) t
  end.
Definition text_to_words (text : str) : result (list (Z * Z)) :=
  do s <- words_rows ([], None) (layout_rows text); Ok (rev (fst s)).

Definition render_word (w : Z * Z) : str := hex2 (fst w) ++ hex2 (snd w) ++ [32].
Definition render_words (ws : list (Z * Z)) : str := flat_map render_word ws.

(* ---- timing --------------------------------------------------------------------------------- *)
Definition mpc : Q := 1001000 # 30.            (* microseconds per code word = one frame at 30000/1001 fps *)

Record wcap := mkWcap { w_text : str; w_start : Q; w_end : Q }.

Definition code_words (code : str) : Q := inject_Z (Z.of_nat (length code) / 5 + 8).

Definition pre_roll (code : str) (start : Q) : Q :=
  let t := (start - code_words code * mpc)%Q in if Qle_bool 0 t then t else 0%Q.

(* PASS 2. done_: captions already processed, newest first, with the clear-screen time (None = removed) *)
Fixpoint pass2 (done_ : list (str * Q * option Q)) (todo : list (str * Q * Q)) : list (str * Q * option Q) :=
  match todo with
  | [] => rev done_
  | (code, start, e) :: t =>
      let code_start := pre_roll code start in
      let done' := match done_ with
                   | (pc, ps, Some pe) :: d =>
                       if Qle_bool code_start (pe + 3 * mpc)%Q then (pc, ps, None) :: d else done_
                   | _ => done_
                   end in
      pass2 ((code, code_start, Some e) :: done') t
  end.

(* _format_timestamp: non-drop-frame timecode of floor(t * 30/1001000) frames *)
Definition tc_frames (t : Q) : Z := Qfloor (t * (30 # 1001000))%Q.
Definition two (z : Z) : str := if z <? 0 then dec_z z else zpad 2 (dec_nonneg z).
Definition format_frames (f : Z) : str :=
  two (f / 108000) ++ [58] ++ two ((f / 1800) mod 60) ++ [58] ++ two ((f / 30) mod 60) ++ [58] ++ two (f mod 30).
Definition format_timestamp (t : Q) : str := format_frames (tc_frames t).

Definition preamble : str := lit "94ae 94ae 9420 9420 ".
Definition postamble : str := lit "942c 942c 942f 942f".
Definition clear_words : str := lit "942c 942c".

Definition write_caption (c : str * Q * option Q) : str :=
  let '(code, start, e) := c in
  format_timestamp start ++ [9] ++ preamble ++ code ++ postamble ++ [10; 10]
  ++ match e with
     | Some e => format_timestamp e ++ [9] ++ clear_words ++ [10; 10]
     | None => []
     end.

Definition write (caps : list wcap) : result str :=
  do codes <- res_map (fun c => do code <- text_to_code (w_text c); Ok (code, w_start c, w_end c)) caps;
  Ok (sccw_header ++ [10; 10] ++ flat_map write_caption (pass2 [] codes)).
