(* C12 (wave 7): the cue settings WebVTTReader keeps from a timing line, and the timing line WebVTTWriter prints.
   TIMING_LINE_PATTERN = ^(\S+)\s+-->\s+(\S+)(?:\s+(.*?))?\s*$   (model/TimeRead.v vtt_timing_line gives groups 1 and 2)
   group 3: after the second token the optional group takes ALL the white space (greedy \s+), then the lazy .*? grows until
   the rest of the line is white space only - the remainder of the line, stripped on both sides; on a remainder of white
   space only it is the empty string.  _parse_timing_line: `if cue_settings: Layout(webvtt_positioning=cue_settings)`.
   Lines come from the reader's line splitting and contain no "\n" (the only character `.` does not match).
   Definitions only. *)
From Coq Require Import List ZArith QArith Bool.
From PV Require Import lib.Sx lib.Str lib.Result model.Geometry model.Positioning model.TimeRead.
Import ListNotations.
Open Scope Z_scope.

(* None: not a timing line (CaptionReadSyntaxError); Some None: no cue settings; Some (Some s): webvtt_positioning = s *)
Definition vtt_cue_settings (line : str) : option (option str) :=
  match vtt_timing_line line with
  | None => None
  | Some _ =>
      let r1 := drop_while not_space line in
      let r2 := drop_while is_space r1 in
      let r3 := skipn 3 r2 in
      let r4 := drop_while is_space r3 in
      let r5 := drop_while not_space r4 in
      match strip r5 with
      | [] => Some None
      | c :: t => Some (Some (c :: t))
      end
  end.

(* WebVTTWriter._convert_caption: timespan + cue_settings, where raw settings are written as " " + webvtt_positioning *)
Definition vtt_timing_text (t1 t2 : str) (o : vtt_out) : str :=
  t1 ++ lit " --> " ++ t2 ++ match o with VRaw s => 32 :: s | _ => [] end.
