(* HeapProg.v - C09 half 1 made honest: the writers as HEAP PROGRAMS (definitions only).

   Iso.write performs every assignment through the result of its deepcopy by construction of the Gallina term, so its
   footprint theorem has no writer-specific content.  Here a writer is a program of a small imperative language over the
   Store model: registers hold values, a command may LOAD from any object (the input included), STORE into whatever
   object a register points to (the input included - nothing in the semantics keeps a store away from an old location),
   copy deeply or shallowly, allocate, iterate, branch, raise.  `exec` is the semantics.  `check` is a static OWNERSHIP
   analysis (one bit per register: "points into the closed region this call allocated, or is a scalar"):
      deepcopy / allocation / primitive results are owned; a load from an owned object is owned; a load from anything
      else is not; a store / delete / append needs an owned target and owned operands; a shallow copy of a non-owned
      object is rejected (its cells would lead back to the input).
   proofs/HeapProgFacts.v proves the analysis sound for EVERY program, store, option and register file:
      check p = Some _  ->  inv st (store after exec p)          (normal and raising exits)
   The eight writer programs below transcribe what the code does on the heap, statement by statement (source lines
   quoted); that they pass `check` is the proof obligation (discharged by computation), and the variants that skip the
   copy, copy shallowly or assign before copying are REJECTED by `check` and refuted on a concrete store.
   The programs are executed against the real writers in every run (request 902, harness/props/C09.py). *)
From Coq Require Import List ZArith Bool Arith.
From PV Require Import lib.Sx lib.Str lib.Result model.Store model.Iso.
Import ListNotations.
Open Scope Z_scope.

Notation reg := nat (only parsing).

Inductive expr : Type :=
| EReg (r : reg)
| EInt (z : Z)
| EStr (s : str)
| ENone
| EOptLang            (* write(force=..) / write(lang=..) *)
| EOptPos.            (* SinglePositioning: default_positioning (a value object; its code) *)

Inductive cond : Type :=
| BIsNone (e : expr)
| BEq (a b : expr)
| BEmptyElems (r : reg)          (* `not caption_list`: no list element *)
| BEmptyItems (r : reg)          (* `style == {}` / `not d` *)
| BHas (r : reg) (k : expr)      (* `k in d` *)
| BNot (c : cond)
| BAnd (a b : cond)
| BTrue (e : expr)               (* python truthiness as Iso.is_true sees it on the snapshot *)
| BOptInline.                    (* self.write_inline_positioning *)

Inductive cmd : Type :=
| CSkip
| CSeq (a b : cmd)
| CMov (x : reg) (e : expr)
| CCopy (x y : reg)                               (* x = copy.deepcopy(y) *)
| CShallow (x y : reg)                            (* x = copy.copy(y) *)
| CGet (x y : reg) (k : expr)                     (* x = y.k / y[k] *)
| CKeys (x y : reg)                               (* x = list(y.keys()) : a NEW list of the (scalar) keys *)
| CSet (x : reg) (k e : expr)                     (* x.k = e / x[k] = e *)
| CDel (x : reg) (k : expr)                       (* x.pop(k) *)
| CAppend (x : reg) (e : expr)                    (* x.append(e) *)
| CNew (x : reg) (kind : Z) (its : list (expr * expr))
| COp (x : reg) (f : Z) (a : expr)                (* x = primitive f (a) on scalars; may raise *)
| CIf (b : cond) (t e : cmd)
| CLoop (elems_only : bool) (k x y : reg) (body : cmd)   (* for k, x in list(y.items()) / for x in list(y) *)
| COut (e : expr)                                 (* the rendering writes a token *)
| CRaise (e : err).

Record hstate := mkH {
  h_st : store;
  h_env : reg -> val;
  h_lim : nat;          (* objects below h_lim existed when the last deepcopy returned (or at entry) *)
  h_log : fp;           (* (kind, slot) of every store that changed the identity of a slot of such an object *)
  h_copies : Z;
  h_out : list Z       (* what the rendering emits: 1 "<span ..>", 2 "</span>", 3 SAMI blank sync *)
}.

Definition setr (env : reg -> val) (x : reg) (v : val) : reg -> val := fun r => if Nat.eqb r x then v else env r.

Definition ev (o : wopts) (env : reg -> val) (e : expr) : val :=
  match e with
  | EReg r => env r
  | EInt z => VInt z
  | EStr s => VStr s
  | ENone => VNone
  | EOptLang => vkey_of_tree (wo_lang o)
  | EOptPos => VInt (match wo_pos o with Some c => c | None => 0 end)
  end.

Definition scal (v : val) : val := match v with VLoc _ => VNone | x => x end.

Definition code_of (v : val) : option Z := match v with VInt c => Some c | _ => None end.
Definition ret_code (r : result (option Z)) : result val :=
  match r with Ok None => Ok VNone | Ok (Some c) => Ok (VInt c) | Err e => Err e end.

(* 1 BaseWriter._relativize_and_fit_to_screen on a layout code (None = the very same object comes back)
   2 `if lang_layout and self.relativize: lang_layout.as_percentage_of(..)` (None = nothing to assign)
   3 `layout_info and layout_info.padding`   4 truthiness of a layout   5 int(t // 1000) *)
Definition prim (o : wopts) (f : Z) (a : val) : result val :=
  if f =? 1 then ret_code (tr_code o (code_of a))
  else if f =? 2 then ret_code (tr_code_lang o (code_of a))
  else if f =? 3 then Ok (VInt (match a with VInt c => if flag fP c then 1 else 0 | _ => 0 end))
  else if f =? 4 then Ok (VInt (match a with VInt c => if flag fT c then 1 else 0 | _ => 0 end))
  else if f =? 5 then Ok (match a with VInt z => VInt (z / 1000) | x => x end)
  else Ok VNone.

Fixpoint evb (o : wopts) (st : store) (env : reg -> val) (c : cond) : bool :=
  match c with
  | BIsNone e => is_none (ev o env e)
  | BEq a b => val_eqb (ev o env a) (ev o env b)
  | BEmptyElems r => match elems st (env r) with [] => true | _ => false end
  | BEmptyItems r => match items_of st (env r) with [] => true | _ => false end
  | BHas r k => has_field st (env r) (ev o env k)
  | BNot c => negb (evb o st env c)
  | BAnd a b => evb o st env a && evb o st env b
  | BTrue e => match ev o env e with
               | VStr s => str_eqb s (lit "b:True")
               | VInt z => negb (z =? 0)
               | VNone => false
               | VLoc l => match items_of st (VLoc l) with [] => false | _ => true end
               end
  | BOptInline => wo_inline o
  end.

Definition slot_code (st : store) (ob k : val) : Z :=
  if kind_of st ob =? KDict then 0 else match k with VInt z => z | _ => 0 end.

Definition log_store (st : store) (lim : nat) (ob k : val) (changed : bool) (log : fp) : fp :=
  match ob with
  | VLoc l => if Nat.ltb l lim && changed then (kind_of st ob, slot_code st ob k) :: log else log
  | _ => log
  end.

(* the ordered STORE TRACE: every attribute assignment (also one that rebinds the same object) to a class instance
   (CaptionSet / CaptionList / Caption / CaptionNode) that existed when the last deepcopy returned, as (1000 + kind, slot);
   kept in the same list as the footprint entries (which have kind < 1000), newest first *)
Definition trace_store (st : store) (lim : nat) (ob k : val) (log : fp) : fp :=
  match ob with
  | VLoc l =>
      let kd := kind_of st ob in
      if Nat.ltb l lim && (2 <=? kd) && (kd <=? 5) then (1000 + kd, slot_code st ob k) :: log else log
  | _ => log
  end.
Definition fp_of (l : fp) : fp := filter (fun p => fst p <? 1000) l.
Definition trace_of (l : fp) : fp := rev (filter (fun p => 1000 <=? fst p) l).

Definition sel_items (elems_only : bool) (its : list (val * val)) : list (val * val) :=
  if elems_only then filter (fun kv => match fst kv with VNone => true | _ => false end) its else its.

Fixpoint exec (o : wopts) (c : cmd) (h : hstate) : hstate * option err :=
  let st := h_st h in
  let env := h_env h in
  match c with
  | CSkip => (h, None)
  | CSeq a b => match exec o a h with (h1, None) => exec o b h1 | r => r end
  | CMov x e => (mkH st (setr env x (ev o env e)) (h_lim h) (h_log h) (h_copies h) (h_out h), None)
  | CCopy x y =>
      match deepcopy (dc_fuel st) st (env y) with
      | Some (st1, v) => (mkH st1 (setr env x v) (length st1) (h_log h) (h_copies h + 1) (h_out h), None)
      | None => (h, Some EOutOfFuel)
      end
  | CShallow x y =>
      match env y with
      | VLoc _ =>
          let (st1, v) := new_obj st (kind_of st (env y)) (items_of st (env y)) in
          (mkH st1 (setr env x v) (h_lim h) (h_log h) (h_copies h) (h_out h), None)
      | v => (mkH st (setr env x v) (h_lim h) (h_log h) (h_copies h) (h_out h), None)
      end
  | CGet x y k => (mkH st (setr env x (field st (env y) (ev o env k))) (h_lim h) (h_log h) (h_copies h) (h_out h), None)
  | CKeys x y =>
      let (st1, v) := new_obj st KList (map (fun kv => (VNone, scal (fst kv))) (items_of st (env y))) in
      (mkH st1 (setr env x v) (h_lim h) (h_log h) (h_copies h) (h_out h), None)
  | CSet x k e =>
      let ob := env x in let kv := ev o env k in let nv := ev o env e in
      (mkH (set_field st ob kv nv) env (h_lim h)
           (log_store st (h_lim h) ob kv (negb (has_field st ob kv && val_eqb (field st ob kv) nv))
                      (trace_store st (h_lim h) ob kv (h_log h)))
           (h_copies h) (h_out h), None)
  | CDel x k =>
      let ob := env x in let kv := ev o env k in
      (mkH (del_field st ob kv) env (h_lim h) (log_store st (h_lim h) ob kv (has_field st ob kv) (h_log h))
           (h_copies h) (h_out h), None)
  | CAppend x e =>
      let ob := env x in
      (mkH (append_item st ob (ev o env e)) env (h_lim h) (log_store st (h_lim h) ob VNone true (h_log h))
           (h_copies h) (h_out h), None)
  | CNew x kind its =>
      let (st1, v) := new_obj st kind (map (fun p => (ev o env (fst p), ev o env (snd p))) its) in
      (mkH st1 (setr env x v) (h_lim h) (h_log h) (h_copies h) (h_out h), None)
  | COp x f a =>
      match prim o f (ev o env a) with
      | Ok v => (mkH st (setr env x (scal v)) (h_lim h) (h_log h) (h_copies h) (h_out h), None)
      | Err e => (h, Some e)
      end
  | CIf b t e => if evb o st env b then exec o t h else exec o e h
  | CLoop eo k x y body =>
      (fix loop (l : list (val * val)) (h : hstate) : hstate * option err :=
         match l with
         | [] => (h, None)
         | kv :: r =>
             match exec o body (mkH (h_st h) (setr (setr (h_env h) k (fst kv)) x (snd kv))
                                    (h_lim h) (h_log h) (h_copies h) (h_out h)) with
             | (h1, None) => loop r h1
             | res => res
             end
         end) (sel_items eo (items_of st (env y))) h
  | COut e =>
      (mkH st env (h_lim h) (h_log h) (h_copies h)
           (h_out h ++ [match ev o env e with VInt z => z | _ => -1 end]), None)
  | CRaise e => (h, Some e)
  end.

(* ---- the ownership analysis ------------------------------------------------------------------------------------ *)
Definition aenv := list reg.      (* the registers known to be owned *)

Definition own (a : aenv) (r : reg) : bool := existsb (Nat.eqb r) a.
Definition aset (a : aenv) (x : reg) (b : bool) : aenv :=
  if b then x :: a else filter (fun r => negb (Nat.eqb r x)) a.
Definition eown (a : aenv) (e : expr) : bool := match e with EReg r => own a r | _ => true end.
Definition sub (a a' : aenv) : bool := forallb (own a') a.
Definition meet (a a' : aenv) : aenv := filter (own a') a.

Fixpoint check (c : cmd) (a : aenv) : option aenv :=
  match c with
  | CSkip => Some a
  | CSeq p q => match check p a with Some a1 => check q a1 | None => None end
  | CMov x e => Some (aset a x (eown a e))
  | CCopy x y => Some (aset a x true)
  | CShallow x y => if own a y then Some (aset a x true) else None
  | CGet x y k => Some (aset a x (own a y))
  | CKeys x y => Some (aset a x true)
  | CSet x k e => if own a x && eown a k && eown a e then Some a else None
  | CDel x k => if own a x then Some a else None
  | CAppend x e => if own a x && eown a e then Some a else None
  | CNew x kind its =>
      if forallb (fun p => eown a (fst p) && eown a (snd p)) its then Some (aset a x true) else None
  | COp x f e => Some (aset a x true)
  | CIf b t e => match check t a, check e a with Some a1, Some a2 => Some (meet a1 a2) | _, _ => None end
  | CLoop eo k x y body =>
      let a0 := aset (aset a k (own a y)) x (own a y) in
      match check body a0 with
      | Some a1 => if sub a0 a1 then Some (meet a0 a) else None
      | None => None
      end
  | COut e => Some a
  | CRaise e => Some a
  end.

(* ---- "assigned before it is read": the registers a program may read before it has assigned them ----------------------- *)
Definition tainted (u : list reg) (r : reg) : bool := existsb (Nat.eqb r) u.
Definition clean (u : list reg) (x : reg) : list reg := filter (fun r => negb (Nat.eqb r x)) u.
Definition euse (u : list reg) (e : expr) : bool := match e with EReg r => negb (tainted u r) | _ => true end.

Fixpoint buse (u : list reg) (b : cond) : bool :=
  match b with
  | BIsNone e => euse u e
  | BEq a b => euse u a && euse u b
  | BEmptyElems r => negb (tainted u r)
  | BEmptyItems r => negb (tainted u r)
  | BHas r k => negb (tainted u r) && euse u k
  | BNot c => buse u c
  | BAnd a b => buse u a && buse u b
  | BTrue e => euse u e
  | BOptInline => true
  end.

(* du c u = Some u' : started with the registers u holding UNKNOWN values, c never reads one of them before assigning it;
   u' = the registers that may still hold an unknown value afterwards *)
Fixpoint du (c : cmd) (u : list reg) : option (list reg) :=
  match c with
  | CSkip => Some u
  | CSeq p q => match du p u with Some u1 => du q u1 | None => None end
  | CMov x e => if euse u e then Some (clean u x) else None
  | CCopy x y => if negb (tainted u y) then Some (clean u x) else None
  | CShallow x y => if negb (tainted u y) then Some (clean u x) else None
  | CKeys x y => if negb (tainted u y) then Some (clean u x) else None
  | CGet x y k => if negb (tainted u y) && euse u k then Some (clean u x) else None
  | CSet x k e => if negb (tainted u x) && euse u k && euse u e then Some u else None
  | CDel x k => if negb (tainted u x) && euse u k then Some u else None
  | CAppend x e => if negb (tainted u x) && euse u e then Some u else None
  | CNew x kind its => if forallb (fun p => euse u (fst p) && euse u (snd p)) its then Some (clean u x) else None
  | COp x f e => if euse u e then Some (clean u x) else None
  | CIf b t e =>
      if buse u b then match du t u, du e u with Some a, Some b => Some (a ++ b) | _, _ => None end else None
  | CLoop eo k x y body =>
      if negb (tainted u y) then
        match du body (clean (clean u k) x) with
        | Some u1 => if forallb (tainted u) u1 then Some u else None
        | None => None
        end
      else None
  | COut e => if euse u e then Some u else None
  | CRaise e => Some u
  end.

(* ---- the writers ------------------------------------------------------------------------------------------------ *)
Definition block (l : list cmd) : cmd := fold_right CSeq CSkip l.
Definition SCR : reg := 90%nat.
Definition CFor (x y : reg) (b : cmd) : cmd := CLoop true SCR x y b.
Definition CForKV (k x y : reg) (b : cmd) : cmd := CLoop false k x y b.

Definition new_layout (x : reg) (code : expr) : cmd := CNew x KLayout [(EInt 1, code); (EInt 2, ENone)].

(* ob.f = T(ob.f)    T = primitive `op`; registers 20-23 are scratch.
   via_get : the value is read through CaptionSet.get_layout_info (`if caption_list: return caption_list.layout_info`)
   always  : the slot is assigned even when T hands back the same object (false: the code assigns under a condition) *)
Definition assign_tr (op : Z) (ob : reg) (f : Z) (via_get always : bool) : cmd :=
  block [ (if via_get then CIf (BEmptyElems ob) (CMov 20 ENone) (CGet 20 ob (EInt f)) else CGet 20 ob (EInt f));
          CGet 21 20 (EInt 1);
          COp 22 op (EReg 21);
          CIf (BIsNone (EReg 22))
              (if always then CSet ob (EInt f) (EReg 20) else CSkip)
              (block [new_layout 23 (EReg 22); CSet ob (EInt f) (EReg 23)]) ]%nat.

(* for caption in captions: caption.layout_info = T(..); for node in caption.nodes: node.layout_info = T(..) *)
Definition caps_tr (cl : reg) : cmd :=
  CFor 11 cl (block [ assign_tr 1 11 5 false true;
                      CGet 12 11 (EInt 3);
                      CFor 13 12 (assign_tr 1 13 4 false true) ])%nat.

(* ---- writer INSTANCE state: registers that survive a write() on the same writer object -------------------------------- *)
Definition OPEN : reg := 100%nat.      (* self.open_span *)
Definition LAST : reg := 101%nat.      (* SAMIWriter.last_time *)
Definition GLOBAL : reg := 102%nat.    (* WebVTTWriter.global_layout *)
Definition inst_regs : list reg := [OPEN; LAST; GLOBAL].

Definition bor (a b : cond) : cond := BNot (BAnd (BNot a) (BNot b)).
Definition bfalse : cond := BNot (BEq ENone ENone).

(* `if self.open_span: close` *)
Definition close_if_open : cmd := CIf (BEq (EReg OPEN) (EInt 1)) (COut (EInt 2)) CSkip.

(* _recreate_span (DFXP mk = 4: the node's layout counts; Legacy mk = 8) / _recreate_line_style (SAMI mk = 5) on a STYLE
   node `n`: the open_span state machine; registers 70-75 are scratch *)
Definition node_tok (mk : Z) (n : reg) : cmd :=
  block [ CGet 70 n (EInt 1);
          CIf (BEq (EReg 70) (EInt 2))
              (block [ CGet 71 n (EInt 2); CGet 72 n (EInt 3);
                       CIf (BTrue (EReg 72))
                           (if Z.eqb mk 5%Z then
                              block [ close_if_open;
                                      CIf (BEmptyItems 71) CSkip (block [COut (EInt 1); CMov OPEN (EInt 1)]) ]
                            else
                              block [ CGet 73 n (EInt 4); CGet 74 73 (EInt 1); COp 75 4 (EReg 74);
                                      CIf (fold_right (fun k acc => bor (BHas 71 (EStr k)) acc)
                                                      (if Z.eqb mk 4%Z then BEq (EReg 75) (EInt 1) else bfalse) DFXP_KEYS)
                                          (block [close_if_open; COut (EInt 1); CMov OPEN (EInt 1)])
                                          CSkip ])
                           (block [close_if_open; CMov OPEN (EInt 0)]) ])
              CSkip ]%nat.

(* the body of the DFXP writers: for lang in langs: for caption ..: for node in caption.nodes: (span machine) *)
Definition render_dfxp (mk : Z) : cmd :=
  CFor 5 2 (block [ CGet 6 4 (EReg 5);
                    CFor 11 6 (block [ CGet 12 11 (EInt 3); CFor 13 12 (node_tok mk 13) ]) ])%nat.

(* dfxp/base.py DFXPWriter.write(caption_set = register `src`):
     langs = caption_set.get_languages(); if force in langs: langs = [force]      <- read from the ARGUMENT
     caption_set = deepcopy(caption_set)
     for lang in langs:
        lang_layout = caption_set.get_layout_info(lang)
        if lang_layout and self.relativize: caption_set.set_layout_info(lang, lang_layout.as_percentage_of(..))
        for caption in caption_set.get_captions(lang): caption.layout_info = ..; for node ..: node.layout_info = .. *)
Definition dfxp_body (src : reg) (copy : cmd) : cmd :=
  block [ CGet 1 src (EInt 1);
          CKeys 2 1;
          CIf (BHas 1 EOptLang) (CNew 2 KList [(ENone, EOptLang)]) CSkip;
          copy;
          (* if self.write_inline_positioning and self.relativize and caption_set.layout_info:
                 caption_set.layout_info = caption_set.layout_info.as_percentage_of(..) *)
          CIf BOptInline (assign_tr 2 3 3 false false) CSkip;
          CGet 4 3 (EInt 1);
          CFor 5 2 (block [ CGet 6 4 (EReg 5);
                            assign_tr 2 6 1 true false;
                            caps_tr 6 ]) ]%nat.

Definition prog_dfxp : cmd := block [dfxp_body 0 (CCopy 3 0); render_dfxp 4]%nat.

(* sami.py SAMIWriter.write:
     caption_set = deepcopy(caption_set)
     caption_set.layout_info = T(caption_set.layout_info)
     for lang in caption_set.get_languages():
        caption_set.set_layout_info(lang, T(caption_set.get_layout_info(lang)))
        for caption ..: caption.layout_info = T(..); for node ..: node.layout_info = T(..); (render the caption)
     _recreate_stylesheet: for attr, value in get_styles(): if value != {}: _recreate_style_block(attr, value, set layout)
        -> `if layout_info and layout_info.padding: rules.update({margin-top.., margin-right.., ..})` *)
(* _recreate_p_tag: time = int(caption.start // 1000); `if self.last_time is not None and time != self.last_time:` blank
   sync; self.last_time = int(caption.end // 1000); then the nodes through _recreate_line_style *)
Definition sami_caption : cmd :=
  block [ assign_tr 1 11 5 false true;
          CGet 12 11 (EInt 3);
          CFor 13 12 (assign_tr 1 13 4 false true);
          CGet 77 11 (EInt 1); COp 78 5 (EReg 77);
          CIf (BAnd (BNot (BIsNone (EReg LAST))) (BNot (BEq (EReg 78) (EReg LAST)))) (COut (EInt 3)) CSkip;
          CGet 79 11 (EInt 2); COp 80 5 (EReg 79); CMov LAST (EReg 80);
          CFor 13 12 (node_tok 5 13) ]%nat.

Definition sami_body (copy : cmd) : cmd :=
  block [ copy;
          assign_tr 1 3 3 false true;
          CGet 4 3 (EInt 1);
          CForKV 5 6 4 (block [ CMov LAST ENone;                       (* self.last_time = None, per language *)
                                assign_tr 1 6 1 true true;
                                CFor 11 6 sami_caption ]);
          CGet 20 3 (EInt 3); CGet 21 20 (EInt 1); COp 22 3 (EReg 21);
          CIf (BEq (EReg 22) (EInt 1))
              (block [ CGet 7 3 (EInt 2);
                       CForKV 8 9 7
                         (CIf (BEmptyItems 9) CSkip
                              (block [ CSet 9 (EStr (lit "s:margin-top")) (EStr (lit "s:m"));
                                       CSet 9 (EStr (lit "s:margin-right")) (EStr (lit "s:m"));
                                       CSet 9 (EStr (lit "s:margin-bottom")) (EStr (lit "s:m"));
                                       CSet 9 (EStr (lit "s:margin-left")) (EStr (lit "s:m")) ])) ])
              CSkip ]%nat.

Definition prog_sami : cmd := sami_body (CCopy 3 0)%nat.

(* base.py merge_concurrent_captions(caption_set = register 3):
     for lang in caption_set.get_languages():
        captions = caption_set.get_captions(lang); merged_captions = CaptionList()
        runs of captions with equal (start, end) -> merge(run): ONE new Caption(first.start, first.end, new_nodes,
        first.style) whose new node list holds the SAME node objects with a new break node between two captions
        if merged_captions: caption_set.set_captions(lang, merged_captions)
   (the run's Caption is created when the run starts and its node list is filled as the run goes on: same heap) *)
Definition break_node (x : reg) : cmd :=
  CNew x KNode [(EInt 1, EInt 3); (EInt 2, ENone); (EInt 3, ENone); (EInt 4, ENone); (EInt 5, ENone)].

Definition merge_body : cmd :=
  block [ CGet 4 3 (EInt 1);
          CMov 30 ENone; CMov 32 ENone; CMov 33 ENone; CMov 34 ENone; CMov 35 ENone;
          CMov 36 ENone; CMov 37 ENone; CMov 38 ENone; CMov 39 ENone; CMov 31 ENone;
          CForKV 5 6 4
            (block [ CNew 31 KCapList [(EInt 1, ENone)];
                     CMov 35 ENone;
                     CFor 11 6
                       (block [ CGet 36 11 (EInt 1); CGet 37 11 (EInt 2); CGet 12 11 (EInt 3);
                                CIf (BAnd (BNot (BIsNone (EReg 35)))
                                          (BAnd (BEq (EReg 36) (EReg 32)) (BEq (EReg 37) (EReg 33))))
                                    (block [ break_node 38; CAppend 34 (EReg 38);
                                             CFor 13 12 (CAppend 34 (EReg 13)) ])
                                    (block [ CNew 34 KList [];
                                             CFor 13 12 (CAppend 34 (EReg 13));
                                             CGet 39 11 (EInt 4);
                                             CNew 30 KCaption [(EInt 1, EReg 36); (EInt 2, EReg 37); (EInt 3, EReg 34);
                                                               (EInt 4, EReg 39); (EInt 5, ENone)];
                                             CAppend 31 (EReg 30);
                                             CMov 32 (EReg 36); CMov 33 (EReg 37); CMov 35 (EInt 1) ]) ]);
                     CIf (BEmptyElems 31) CSkip (CSet 4 (EReg 5) (EReg 31)) ]) ]%nat.

(* dfxp/extras.py LegacyDFXPWriter.write:
     caption_set = deepcopy(caption_set); caption_set = merge_concurrent_captions(caption_set)
     if force: langs = [self._force_language(force, caption_set.get_languages())]    (langs[-1] when absent)
     else: langs = caption_set.get_languages()
     for lang in langs: for caption ..: if caption.style: caption.style.update({'region': ..}) *)
Definition legacy_body (copy : cmd) (merge : cmd) : cmd :=
  block [ copy; merge;
          CGet 4 3 (EInt 1);
          CMov 24 ENone;
          CIf (BIsNone EOptLang) (CKeys 2 4)
              (CIf (BHas 4 EOptLang) (CNew 2 KList [(ENone, EOptLang)])
                   (CIf (BEmptyItems 4) (CRaise IndexError)
                        (block [ CForKV 5 6 4 (CMov 24 (EReg 5)); CNew 2 KList [(ENone, EReg 24)] ])));
          CFor 5 2 (block [ CGet 6 4 (EReg 5);
                            CFor 11 6 (block [ CGet 14 11 (EInt 4);
                                               CIf (BEmptyItems 14) CSkip
                                                   (CSet 14 (EStr (lit "s:region")) (EStr (lit "s:bottom"))) ]) ]) ]%nat.

Definition prog_legacy : cmd := block [legacy_body (CCopy 3 0)%nat merge_body; render_dfxp 8].

(* dfxp/extras.py SinglePositioningDFXPWriter._create_single_positioning_caption_set + DFXPWriter.write on its result:
     caption_set = deepcopy(caption_set); caption_set = merge_concurrent_captions(caption_set)
     caption_set.layout_info = positioning
     for lang ..: set_layout_info(lang, positioning); for caption ..: caption.layout_info = positioning;
                  for node ..: node.layout_info = positioning
     for _, style in get_styles(): if 'text-align' in style: style.pop('text-align')
   (positioning is a geometry value object: the program installs one private Layout cell with its code) *)
Definition single_body (copy : cmd) (dfxp : cmd) : cmd :=
  block [ copy; merge_body;
          new_layout 40 EOptPos;
          CSet 3 (EInt 3) (EReg 40);
          CGet 4 3 (EInt 1);
          CForKV 5 6 4 (block [ CSet 6 (EInt 1) (EReg 40);
                                CFor 11 6 (block [ CSet 11 (EInt 5) (EReg 40);
                                                   CGet 12 11 (EInt 3);
                                                   CFor 13 12 (CSet 13 (EInt 4) (EReg 40)) ]) ]);
          CGet 7 3 (EInt 2);
          CForKV 8 9 7 (CIf (BHas 9 (EStr (lit "s:text-align"))) (CDel 9 (EStr (lit "s:text-align"))) CSkip);
          CMov 41 (EReg 3);
          dfxp ]%nat.

Definition prog_single : cmd := block [single_body (CCopy 3 0)%nat (dfxp_body 41 (CCopy 3 41))%nat; render_dfxp 4].

(* webvtt.py / scc: `if caption_set.is_empty(): return output` (read on the ARGUMENT), then deepcopy; WebVTT keeps
   self.global_layout = caption_set.get_layout_info(lang) (register 60: a reference into the copy) *)
Definition is_empty_to (flagr src : reg) : cmd :=
  block [ CGet 1 src (EInt 1); CMov flagr (EInt 1);
          CForKV 5 6 1 (CIf (BEmptyElems 6) CSkip (CMov flagr (EInt 0))) ]%nat.

Definition prog_vtt : cmd :=
  block [ is_empty_to 50 0;
          CIf (BEq (EReg 50) (EInt 1)) CSkip
              (block [ CCopy 3 0; CGet 4 3 (EInt 1); CMov 24 ENone; CMov 25 ENone;
                       CIf (BIsNone EOptLang)
                           (CForKV 5 6 4 (CIf (BIsNone (EReg 25)) (block [CMov 24 (EReg 5); CMov 25 (EInt 1)]) CSkip))
                           (CMov 24 EOptLang);
                       CGet 6 4 (EReg 24);
                       CIf (BEmptyElems 6) (CMov 60 ENone) (CGet 60 6 (EInt 1));
                       CMov GLOBAL (EReg 60);                   (* self.global_layout = .. *)
                       (* _convert_caption: `layout = caption.layout_info or self.global_layout` *)
                       CFor 11 6 (CGet 76 GLOBAL (EInt 1)) ]) ]%nat.

Definition prog_scc : cmd :=
  block [ is_empty_to 50 0; CIf (BEq (EReg 50) (EInt 1)) CSkip (CCopy 3 0) ]%nat.

Definition prog_copy_only : cmd := CCopy 3 0%nat.       (* SRT, MicroDVD: deepcopy, then only reads *)

Definition body_of (k : Z) : cmd :=
  if k =? W_DFXP then prog_dfxp else if k =? W_SAMI then prog_sami else if k =? W_LEGACY then prog_legacy
  else if k =? W_SINGLE then prog_single else if k =? W_VTT then prog_vtt else if k =? W_SCC then prog_scc
  else prog_copy_only.

Definition is_span_kind (k : Z) : bool := (k =? W_DFXP) || (k =? W_SINGLE) || (k =? W_LEGACY) || (k =? W_SAMI).

(* `self.open_span = False` at the top of write() (fix: DFXP/SAMI writers carried an open span flag ...) *)
Definition reset_line (reset : bool) (k : Z) : cmd := if reset && is_span_kind k then CMov OPEN (EInt 0) else CSkip.

Definition prog_with (reset : bool) (k : Z) : cmd := CSeq (reset_line reset k) (body_of k).
Definition prog_of (k : Z) : cmd := prog_with true k.

(* ---- variants that break the copy discipline (what a careless edit of the code would produce) --------------------- *)
Definition alias_arg : cmd := CMov 3 (EReg 0)%nat.                    (* `caption_set = deepcopy(caption_set)` deleted *)
Definition prog_dfxp_nocopy : cmd := dfxp_body 0%nat alias_arg.
Definition prog_dfxp_shallow : cmd := dfxp_body 0%nat (CShallow 3 0)%nat.      (* copy.copy instead of deepcopy *)
Definition prog_sami_nocopy : cmd := sami_body alias_arg.
Definition prog_sami_shallow : cmd := sami_body (CShallow 3 0)%nat.
Definition prog_legacy_merge_first : cmd :=                               (* merge on the argument, then the copy *)
  legacy_body (block [CMov 3 (EReg 0); merge_body; CCopy 3 0])%nat CSkip.
Definition prog_single_nocopy : cmd := single_body alias_arg (dfxp_body 41 (CCopy 3 41))%nat.

(* the span writers and WebVTT without the line that (re)initialises their instance state *)
Definition prog_vtt_no_global : cmd :=
  block [ is_empty_to 50 0;
          CIf (BEq (EReg 50) (EInt 1)) CSkip
              (block [ CCopy 3 0; CGet 4 3 (EInt 1); CMov 24 ENone; CMov 25 ENone;
                       CIf (BIsNone EOptLang)
                           (CForKV 5 6 4 (CIf (BIsNone (EReg 25)) (block [CMov 24 (EReg 5); CMov 25 (EInt 1)]) CSkip))
                           (CMov 24 EOptLang);
                       CGet 6 4 (EReg 24);
                       CFor 11 6 (CGet 76 GLOBAL (EInt 1)) ]) ]%nat.

(* ---- a write through a program -------------------------------------------------------------------------------------- *)
Definition env0 (s : val) : reg -> val := fun r => match r with O => s | _ => VNone end.

Definition hstate0 (st : store) (s : val) : hstate := mkH st (env0 s) (length st) [] 0 [].

Definition run_prog (p : cmd) (o : wopts) (st : store) (s : val) : hstate * option err :=
  exec o p (hstate0 st s).

Definition inst_env (i : winst) (s : val) : reg -> val :=
  fun r => if Nat.eqb r 0 then s
           else if Nat.eqb r OPEN then VInt (if wi_open i then 1 else 0)
           else if Nat.eqb r LAST then vkey_of_tree (wi_last i)
           else if Nat.eqb r GLOBAL then wi_ref i
           else VNone.

Definition tree_of_val (v : val) : tree := match v with VInt z => TInt z | VStr s => TStr s | _ => TNone end.

Definition inst_of (env : reg -> val) : winst :=
  mkWinst (val_eqb (env OPEN) (VInt 1)) (tree_of_val (env LAST)) (env GLOBAL).

(* the write of writer kind k as a program, nothing taken from Iso.write: heap effect, footprint log, copy count, raising
   exit, the tokens the rendering emits and the instance state left in the writer object *)
Definition writeP (c : cfg) (k : Z) (o : wopts) (i : winst) (st : store) (s : val) : wres :=
  let (h, e) := exec o (prog_with (fix15 c) k) (mkH st (inst_env i s) (length st) [] 0 []) in
  mkWres (h_st h) (inst_of (h_env h))
         (match e with Some x => Err x | None => Ok (mkOut (h_out h) TNone) end)
         (h_log h) (h_copies h).

Definition stepP (c : cfg) (w : world) (op : Iso.op) : world * mobs :=
  match op with
  | OWrite wid k wo si =>
      match nth_error (w_sets w) si with
      | None => (w, mobs0)
      | Some s =>
          let wi := match lookup wid (w_writers w) with Some x => x | None => winst0 end in
          let r := writeP c k wo wi (w_st w) s in
          (mkWorld (wr_store r) (w_sets w) (w_readers w) (set_assoc wid (wr_inst r) (w_writers w)),
           mkMobs (match wr_result r with Ok _ => 0 | Err e => err_code e end)
                  (match wr_result r with Ok x => out_tokens x | Err _ => [] end)
                  (wi_open (wr_inst r)) (wr_fp r) (wr_copies r) (changed_below O (w_st w) (wr_store r)) [] [] false)
      end
  | _ => step c w op
  end.

Fixpoint runP (c : cfg) (w : world) (ops : list Iso.op) : list (mobs * list tree) :=
  match ops with
  | [] => []
  | o :: t =>
      let (w1, m) := stepP c w o in
      (m, map (snap FUEL (w_st w1)) (w_sets w1)) :: runP c w1 t
  end.

Fixpoint runP_world (c : cfg) (w : world) (ops : list Iso.op) : world :=
  match ops with
  | [] => w
  | o :: t => runP_world c (fst (stepP c w o)) t
  end.
