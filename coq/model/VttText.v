(* C13 / C12 (wave 7): the TEXT of the cue settings WebVTTWriter._convert_positioning returns:
   "" | " " + raw settings | [" align:<name>"] [" position:<size>"] [" line:<size>"] [" size:<size>"]   (sizes by Size.__str__;
   align omitted for center; a Size is always truthy, so a present offset / width is always printed).  Definitions only. *)
From Coq Require Import List ZArith QArith Bool.
From PV Require Import lib.Sx lib.Str lib.Result model.Geometry model.Positioning model.DfxpAlign.
Import ListNotations.
Open Scope Z_scope.

Definition setting_text (key : str) (o : option size) : str :=
  match o with Some z => key ++ size_str z | None => [] end.

Definition vtt_settings_text (o : vtt_out) : str :=
  match o with
  | VNone => []
  | VRaw s => 32 :: s
  | VSet v =>
      (match vs_align v with Some h => lit " align:" ++ halign_name h | None => [] end)
      ++ setting_text (lit " position:") (vs_position v) ++ setting_text (lit " line:") (vs_line v)
      ++ setting_text (lit " size:") (vs_size v)
  end.
