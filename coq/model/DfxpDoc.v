(* C07, wave 2: model of the WHOLE traversal of DFXPWriter.write as far as ids and references are concerned:
   styling section (which <style> elements are written, in sorted order, their own style= references), regions
   (model/DfxpRegion.v), then languages x captions x nodes: the style= of every <p> and <span>, the region= of every
   <div>, <p>, <span>; and the attribute dictionary of a <span> (style attributes, region, inline positioning).
   Definitions only. *)
From Coq Require Import List ZArith Bool.
From PV Require Import lib.Sx lib.Str model.DfxpXml model.DfxpRegion spec.SpecXmlAttr.
Import ListNotations.
Open Scope Z_scope.

(* ---- the styling section ------------------------------------------------------------------------------------ *)
(* for style_id, style in sorted(styles): if style != {}: _recreate_styling_tag -> appended iff it got an attribute
   besides xml:id.  `written`: ids of the <style> elements so far (what dfxp.find("style", {"xml:id": ..}) sees). *)
Definition style_step (acc : list str * list str) (st : str * list (str * str)) : list str * list str :=
  let '(written, refs) := acc in
  let attrs := recreate_style (snd st) written in
  match snd st, attrs with
  | [], _ => acc
  | _, [] => acc
  | _, _ => (written ++ [fst st],
             refs ++ match lookup (lit "style") attrs with Some c => [c] | None => [] end)
  end.

Definition default_style_id : str := lit "default".
(* if not caption_set.get_styles(): the default style is written *)
Definition styling (styles : list (str * list (str * str))) : list str * list str :=
  match styles with
  | [] => ([default_style_id], [])
  | _ => fold_left style_step styles ([], [])
  end.

(* ---- body ------------------------------------------------------------------------------------------------------ *)
(* a node: region part (layout, is-span-start) and, for a style-start node, its style dictionary *)
Record dnode := mkDnode { dn_r : rnode; dn_content : list (str * str) }.
(* a caption: layout, its style dictionary (None = caption.style empty -> {'class': 'default'}), nodes *)
Record dcap := mkDcap { dc_layout : lay; dc_style : option (list (str * str)); dc_nodes : list dnode }.
Record dlang := mkDlang { dl_layout : lay; dl_caps : list dcap }.
Record dset := mkDset { ds_layout : lay; ds_styles : list (str * list (str * str)); ds_langs : list dlang }.

Definition to_rset (d : dset) : rset :=
  mkRset (ds_layout d)
         (map (fun l => mkRlang (dl_layout l)
                                (map (fun c => mkRcap (dc_layout c) (map dn_r (dc_nodes c))) (dl_caps l)))
              (ds_langs d)).

(* _recreate_p_tag: style = 'p' if such a style was written, overridden by the caption's class if that is written *)
Definition p_style_ref (written : list str) (c : dcap) : list str :=
  let content := match dc_style c with Some s => s | None => [(lit "class", default_style_id)] end in
  match lookup (lit "style") (recreate_style content written) with
  | Some cl => [cl]
  | None => if existsb (str_eqb (lit "p")) written then [lit "p"] else []
  end.
Definition span_style_refs (written : list str) (c : dcap) : list str :=
  flat_map (fun n => if rn_span (dn_r n)
                     then match lookup (lit "style") (recreate_style (dn_content n) written) with Some cl => [cl] | None => [] end
                     else []) (dc_nodes c).

Definition body_style_refs (written : list str) (d : dset) : list str :=
  flat_map (fun l => flat_map (fun c => p_style_ref written c ++ span_style_refs written c) (dl_caps l)) (ds_langs d).

(* region ids as they are written: "bottom", "r0", "r1", ... *)
Definition region_id_str (id : Z) : str := if id <? 0 then lit "bottom" else 114 :: dec_nonneg id.

Record summary := mkSummary { s_ids : list str; s_style_ids : list str; s_region_ids : list str;
                              s_style_refs : list str; s_region_refs : list str }.

Definition summarize (d : dset) : summary :=
  let '(written, head_refs) := styling (ds_styles d) in
  let rs := to_rset d in
  let rids := map region_id_str (defined rs) in
  mkSummary (written ++ rids) written rids
            (head_refs ++ body_style_refs written d)
            (map region_id_str (all_refs rs)).

(* domain of the consistency theorem: style ids distinct (a dict), and no style id equal to a region id *)
Definition dom_doc (d : dset) : bool :=
  nodup_str (map fst (ds_styles d)) &&
  forallb (fun w => negb (existsb (str_eqb w) (s_region_ids (summarize d)))) (s_style_ids (summarize d)).

(* ---- the attributes of a <span> (after the repair: collected in a dict, positioning attributes win) -------- *)
Fixpoint dict_put (k v : str) (d : list (str * str)) : list (str * str) :=
  match d with
  | [] => [(k, v)]
  | (k', v') :: t => if str_eqb k' k then (k', v) :: t else (k', v') :: dict_put k v t
  end.
Definition dict_update (d upd : list (str * str)) : list (str * str) :=
  fold_left (fun acc kv => dict_put (fst kv) (snd kv) acc) upd d.

(* attributes = dict(_recreate_style(...)); if node.layout_info: ['region'] = id; if inline: update(region_attribs) *)
Definition span_attributes (style_attrs : list (str * str)) (region : option str) (inline : list (str * str))
  : list (str * str) :=
  match region with
  | None => style_attrs
  | Some r => dict_update (dict_put (lit "region") r style_attrs) inline
  end.

(* ---- LegacyDFXPWriter at document level (wave 3) ------------------------------------------------------------ *)
(* LegacyDFXPWriter.write: the styling section is written by the same rule as the main writer's (its own
   _recreate_style also knows a `region` key, but in the head no <region> exists yet, so the key never yields an
   attribute there); then the ONE fixed region "bottom" is defined (never removed); every <p> carries
   region="bottom" (the writer adds {'region': 'bottom'} to every caption style) and style= as in the main writer;
   a <span> carries region= only when its style dictionary has region = "bottom"; a <div> carries no region.
   `d` is the set AFTER merge_concurrent_captions, restricted to the written languages. *)
Definition legacy_region : str := lit "bottom".
Definition legacy_span_region (content : list (str * str)) : list str :=
  match lookup (lit "region") content with
  | Some r => if str_eqb r legacy_region then [legacy_region] else []
  | None => []
  end.
Definition legacy_region_refs (d : dset) : list str :=
  flat_map (fun l => flat_map (fun c => legacy_region
                                        :: flat_map (fun n => if rn_span (dn_r n) then legacy_span_region (dn_content n) else [])
                                                    (dc_nodes c)) (dl_caps l)) (ds_langs d).
Definition legacy_summarize (d : dset) : summary :=
  let '(written, head_refs) := styling (ds_styles d) in
  mkSummary (written ++ [legacy_region]) written [legacy_region]
            (head_refs ++ body_style_refs written d) (legacy_region_refs d).
(* domain: style ids distinct, none of the written ones is "bottom", at least one caption is written (otherwise the
   fixed region is unreferenced: known finding C07-legacy-empty-language-region) *)
Definition dom_legacy (d : dset) : bool :=
  nodup_str (map fst (ds_styles d)) &&
  negb (existsb (str_eqb legacy_region) (s_style_ids (legacy_summarize d))) &&
  existsb (fun l => match dl_caps l with [] => false | _ => true end) (ds_langs d).

(* ---- from caption nodes to the payload (wave 3: the glue the harness used to do) ---------------------------- *)
(* a caption node as the writer sees it: a style-start node comes with its style dictionary, the region id the
   RegionCreator assigns (None = no layout on the node) and the inline positioning attributes *)
Inductive cnode :=
| CText (s : str)
| CBreak
| CStart (content : list (str * str)) (region : option str) (inline : list (str * str))
| CEnd.
Definition to_pnode (style_ids : list str) (n : cnode) : pnode :=
  match n with
  | CText s => PText s
  | CBreak => PBreak
  | CStart content region inline => PStyleStart (span_attributes (recreate_style content style_ids) region inline)
  | CEnd => PStyleEnd
  end.
Definition caption_payload (legacy : bool) (style_ids : list str) (nodes : list cnode) : str * bool :=
  recreate_text legacy false (map (to_pnode style_ids) nodes).

(* ---- SinglePositioningDFXPWriter (wave 5) ------------------------------------------------------------------------ *)
(* _create_single_positioning_caption_set (after merge_concurrent_captions, which the models do not see): the layout
   of the set, of every language, caption and node becomes the ONE given positioning; `text-align` is removed from the
   styles of the set. The result goes through DFXPWriter.write, i.e. through `summarize`. *)
Definition strip_text_align (content : list (str * str)) : list (str * str) :=
  filter (fun kv => negb (str_eqb (fst kv) (lit "text-align"))) content.
Definition single_positioning (p : lay) (d : dset) : dset :=
  mkDset p (map (fun st => (fst st, strip_text_align (snd st))) (ds_styles d))
         (map (fun l => mkDlang p (map (fun c => mkDcap p (dc_style c)
                                           (map (fun n => mkDnode (mkRnode p (rn_span (dn_r n))) (dn_content n)) (dc_nodes c)))
                                       (dl_caps l))) (ds_langs d)).
(* the only region such a document can refer to: the default one, unless the positioning is a layout of its own that
   creates a region (then "r0") *)
Definition single_region (p : lay) : Z :=
  match p with Some (c, true, _) => if c =? 0 then default_id else 0 | _ => default_id end.
(* domain, on the INPUT: style ids distinct, and no written style is called like that one region *)
Definition dom_single (p : lay) (d : dset) : bool :=
  nodup_str (map fst (ds_styles d)) &&
  forallb (fun w => negb (str_eqb w (region_id_str (single_region p)))) (s_style_ids (summarize (single_positioning p d))).
