(* C02 / C08, wave 7: the DOCUMENT DFXPWriter.write prints for one language of captions given as text lines (TEXT nodes
   separated by BREAK nodes; no layout, no style: the region "bottom" and the style "default" of the writer's defaults),
   after BeautifulSoup.prettify: one element per line, indented by one blank per level; a <p> holds the payload
   _recreate_text assembles (lines escaped by xml.sax.saxutils.escape, joined by "<br/>" + newline + four blanks).
   The document is expressed in the abstract syntax of spec/SpecXmlDocT.v (so that it IS a rendering) and printed by
   render_doc; the harness compares the text with the real writer's character by character (request 207).
   The timing attributes are the C02 writer model's tokens (TimeWrite.dfxp_ts): DfxpWriteDocFacts.ts_texpr_token.
   Definitions only. *)
From Coq Require Import List ZArith Bool.
From PV Require Import lib.Sx lib.Str lib.Dec.
From PV Require Import model.TimeRead spec.SpecTime spec.SpecXmlDocT.
Import ListNotations.
Open Scope Z_scope.

Definition f1 : afmt := mkAf [32] [] [] true.             (*  name="value"  *)
Definition at1 (n v : str) : rattr := mkRa f1 n v.
Definition nl (k : nat) : str := 10 :: repeat 32 k.       (* prettify: newline, k blanks *)
Definition lits (s : str) : tstr := map (fun c => (c, false)) s.

(* hh:mm:ss.mmm of a whole number of microseconds below 24 h (Caption._format_timestamp through timedelta) *)
Definition ts_texpr (t : Z) : texpr :=
  let h := t / 1000000 / 3600 in
  let ms := t mod 1000000 / 1000 in
  Clock (if h <? 10 then 1%nat else 0%nat) h (t / 1000000 mod 3600 / 60) (t / 1000000 mod 3600 mod 60)
        (Frac [ms / 100; ms / 10 mod 10; ms mod 10]).

Definition wcap : Type := (Z * Z * list str)%type.

(* the payload of a <p>: line, <br/>, newline + 4 blanks, line, ..., then newline + 3 blanks before </p> *)
Fixpoint wcontent (lines : list str) : pcontent :=
  match lines with
  | [] => ([], lits (nl 3))
  | [l] => ([], lits (nl 4 ++ l ++ nl 3))
  | l :: t => let c := wcontent t in ((lits (nl 4 ++ l), PBr []) :: fst c, snd c)
  end.

Definition wp_attrs (c : wcap) : pattrs :=
  PaTimed [] [] [at1 (lit "region") (lit "bottom"); at1 (lit "style") (lit "default")] false f1 f1
          (mkP (ts_texpr (fst (fst c))) false (ts_texpr (snd (fst c)))).

Fixpoint wps (cs : list wcap) : dforest :=
  match cs with
  | [] => FEnd (nl 2)
  | c :: t => FP (nl 3) (wp_attrs c) [] (wcontent (snd c)) [] (wps t)
  end.

Definition whead : dforest -> dforest :=
  FElem (nl 1) (lit "head") (mkRt [] [])
    (FElem (nl 2) (lit "styling") (mkRt [] [])
       (FEmpty (nl 3) (lit "style")
          (mkRt [at1 (lit "tts:color") (lit "white"); at1 (lit "tts:fontFamily") (lit "monospace");
                 at1 (lit "tts:fontSize") (lit "1c"); at1 (lit "xml:id") (lit "default")] [])
          (FEnd (nl 2))) []
     (FElem (nl 2) (lit "layout") (mkRt [] [])
       (FEmpty (nl 3) (lit "region")
          (mkRt [at1 (lit "tts:displayAlign") (lit "after"); at1 (lit "tts:textAlign") (lit "start");
                 at1 (lit "xml:id") (lit "bottom")] [])
          (FEnd (nl 2))) []
     (FEnd (nl 1)))) [].

Definition wdoc (lang : str) (cs : list wcap) : xdoc :=
  mkXd (Some (lit "xml version=""1.0"" encoding=""utf-8""?")) (nl 0)
       [] (Some (f1, lit "en"))
       [at1 (lit "xmlns") (lit "http://www.w3.org/ns/ttml"); at1 (lit "xmlns:tts") (lit "http://www.w3.org/ns/ttml#styling")] []
       (whead
          (FElem (nl 1) (lit "body") (mkRt [] [])
             (FDiv (nl 2) [at1 (lit "region") (lit "bottom")] (Some (f1, lang)) [] [] (wps cs) [] (FEnd (nl 1)))
             [] (FEnd (nl 0))))
       [] (nl 0).

Definition dfxp_write_doc (lang : str) (cs : list wcap) : str := render_doc (wdoc lang cs).
