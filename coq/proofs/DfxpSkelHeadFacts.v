(* C07, wave 7: the <style> dictionaries the writer puts into the tree (model/DfxpSkelHead.v) are valid attribute
   dictionaries, and the ids / style= references read from them are those of the traversal model (DfxpDoc.styling). *)
From Coq Require Import List ZArith Lia Bool.
From PV Require Import lib.Sx lib.Str model.DfxpXml model.DfxpRegion model.DfxpDoc model.DfxpSkel spec.SpecXmlAttr spec.SpecXmlDoc.
From PV Require Import model.DfxpSkelHead.
From PV Require Import proofs.XmlAttrFacts proofs.DfxpPayloadFacts proofs.DfxpDocFacts proofs.DfxpSkelFacts.
Import ListNotations.
Open Scope Z_scope.

Lemma style_elem_attrs_ok : forall id content ids, forallb is_xml_char id = true ->
  (forall v, In v (map snd content) -> forallb is_xml_char v = true) ->
  attrs_ok ((xml_id, id) :: recreate_style content ids) [].
Proof.
  intros id content ids Hid H. unfold recreate_style.
  destruct (lookup (lit "class") content) as [c|] eqn:E1;
  [destruct (existsb (str_eqb c) ids)|];
  destruct (lookup (lit "text-align") content) as [v2|] eqn:E2;
  destruct (lookup (lit "italics") content) as [[|v3a v3]|] eqn:E3;
  destruct (lookup (lit "font-family") content) as [v4|] eqn:E4;
  destruct (lookup (lit "font-size") content) as [v5|] eqn:E5;
  destruct (lookup (lit "color") content) as [v6|] eqn:E6;
  destruct (lookup (lit "display-align") content) as [v7|] eqn:E7;
  cbn [app attrs_ok];
  repeat match goal with
         | |- _ /\ _ => split
         | |- valid_name _ = true => reflexivity
         | |- existsb _ _ = false => reflexivity
         | |- True => exact I
         | |- forallb is_xml_char (lit _) = true => reflexivity
         | |- forallb is_xml_char id = true => exact Hid
         | |- forallb is_xml_char ?v = true => apply H; eapply lookup_in; eassumption
         end.
Qed.

Lemma lookup_style_skip : forall id attrs, lookup (lit "style") ((xml_id, id) :: attrs) = lookup (lit "style") attrs.
Proof. reflexivity. Qed.
Lemma lookup_id_hit : forall id attrs, lookup xml_id ((xml_id, id) :: attrs) = Some id.
Proof. reflexivity. Qed.

Definition head_inv (a : list str * list (list (str * str))) (b : list str * list str) : Prop :=
  fst a = fst b /\ elem_ids (snd a) = fst b /\ elem_style_refs (snd a) = snd b.
Lemma elem_ids_app : forall a b, elem_ids (a ++ b) = elem_ids a ++ elem_ids b.
Proof. intros. unfold elem_ids. apply flat_map_app. Qed.
Lemma elem_refs_app : forall a b, elem_style_refs (a ++ b) = elem_style_refs a ++ elem_style_refs b.
Proof. intros. unfold elem_style_refs. apply flat_map_app. Qed.

Lemma head_step : forall a b st, head_inv a b -> head_inv (style_elem_step a st) (style_step b st).
Proof.
  intros [w e] [w' r] st (H1 & H2 & H3). cbn [fst snd] in *. subst w'. unfold style_elem_step, style_step.
  destruct (snd st) as [|kv content] eqn:Es; [repeat split; assumption|].
  destruct (recreate_style (kv :: content) w) as [|a0 attrs] eqn:Er; [repeat split; assumption|].
  repeat split; cbn [fst snd].
  - rewrite elem_ids_app, H2. unfold elem_ids at 1. cbn [flat_map]. rewrite lookup_id_hit. reflexivity.
  - rewrite elem_refs_app, H3. unfold elem_style_refs at 1. cbn [flat_map]. rewrite lookup_style_skip, app_nil_r. reflexivity.
Qed.
Lemma head_fold : forall styles a b, head_inv a b -> head_inv (fold_left style_elem_step styles a) (fold_left style_step styles b).
Proof. induction styles as [|st t IH]; intros a b H; [exact H|]. cbn [fold_left]. apply IH. apply head_step. exact H. Qed.

(* the ids and style= references read from the <style> dictionaries of the tree are those of the traversal model *)
Theorem style_elems_summary : forall styles,
  elem_ids (style_elems styles) = fst (styling styles) /\ elem_style_refs (style_elems styles) = snd (styling styles).
Proof.
  intros [|st t]; [split; reflexivity|]. unfold style_elems, styling.
  destruct (head_fold (st :: t) ([], []) ([], [])) as (H1 & H2 & H3); [repeat split|]. split; assumption.
Qed.

Definition style_entry_ok (st : str * list (str * str)) : Prop :=
  forallb is_xml_char (fst st) = true /\ forall v, In v (map snd (snd st)) -> forallb is_xml_char v = true.
Lemma style_step_ok : forall st w e, style_entry_ok st ->
  Forall (fun a => attrs_ok a []) e -> Forall (fun a => attrs_ok a []) (snd (style_elem_step (w, e) st)).
Proof.
  intros st w e [Hid Hv] He. unfold style_elem_step.
  destruct (snd st) as [|kv content] eqn:Es; [exact He|].
  destruct (recreate_style (kv :: content) w) as [|a0 attrs] eqn:Er; [exact He|]. cbn [snd].
  apply Forall_app. split; [exact He|]. constructor; [|constructor].
  rewrite <- Er. apply style_elem_attrs_ok; [exact Hid|exact Hv].
Qed.
Lemma style_fold_ok : forall styles w e, (forall st, In st styles -> style_entry_ok st) ->
  Forall (fun a => attrs_ok a []) e -> Forall (fun a => attrs_ok a []) (snd (fold_left style_elem_step styles (w, e))).
Proof.
  induction styles as [|st t IH]; intros w e H He; [exact He|]. cbn [fold_left].
  pose proof (style_step_ok st w e (H st (or_introl eq_refl)) He) as S.
  destruct (style_elem_step (w, e) st) as [w1 e1]. apply IH; [intros; apply H; right; assumption|exact S].
Qed.
(* ... and they are valid attribute dictionaries whenever ids and values are made of XML characters *)
Theorem style_elems_ok : forall styles, (forall st, In st styles -> style_entry_ok st) ->
  Forall (fun a => attrs_ok a []) (style_elems styles).
Proof.
  intros [|st t] H; [constructor; [cbn; repeat split|constructor]|]. unfold style_elems. apply style_fold_ok; [exact H|constructor].
Qed.

(* in the terms of the traversal model's summary *)
Theorem style_elems_vs_summarize : forall d,
  elem_ids (style_elems (ds_styles d)) = s_style_ids (summarize d) /\
  s_style_refs (summarize d) = elem_style_refs (style_elems (ds_styles d)) ++ body_style_refs (s_style_ids (summarize d)) d.
Proof.
  intros d. destruct (style_elems_summary (ds_styles d)) as [H1 H2]. unfold summarize.
  destruct (styling (ds_styles d)) as [written head_refs]. cbn [fst snd s_style_ids s_style_refs] in *. rewrite H1, H2. split; reflexivity.
Qed.

(* the whole document with the <styling> section the writer builds from the style table *)
Theorem document_with_styling : forall legacy table lang regions divs,
  (forall st, In st table -> style_entry_ok st) -> forallb is_xml_char lang = true ->
  Forall (fun a => attrs_ok a []) regions ->
  Forall (fun dv => attrs_ok (fst dv) [] /\ Forall (caption_ok (fst (styling table))) (snd dv)) divs ->
  exists evs, doc_parse (dfxp_document (doc_of_captions legacy (fst (styling table)) lang (style_elems table) regions divs)) = Some evs.
Proof.
  intros legacy table lang regions divs Ht Hl Hr Hd. apply document_of_captions_wellformed; try assumption.
  apply style_elems_ok. exact Ht.
Qed.
