(* C15, the order clause at the level of the STREAM, on the decoder model, inside the domain of the pop-on refinement:
   two transmissions of one load that differ only in the order of its rows (the rows of a load share a start time) are
   both read without the line-length error, by the same EOC instant, and each satisfies the screen oracle of its own
   row order. The domain (load_wf) bounds every row by 32 cells, so this says "no order makes the reader raise a spurious
   length error"; for loads with an over-long row the staged simulation does not apply and the order clause stays a
   correspondence obligation (every order is executed by the harness). *)
From Coq Require Import List ZArith QArith Lia Bool Permutation.
From PV Require Import lib.Sx lib.Str lib.Result model.GenScc model.SccLen model.SccTime model.SccStash model.SccDecoder
                       model.SccPopon spec.Spec608 spec.SpecScc05 proofs.SccPoponStage3 proofs.SccPoponStage8.
Import ListNotations. Open Scope Z_scope.

Lemma forallb_perm {A} (f : A -> bool) (l l' : list A) : Permutation l l' -> forallb f l = forallb f l'.
Proof.
  induction 1; cbn [forallb]; try congruence.
  - destruct (f x), (f y); reflexivity.
Qed.

Lemma mem_perm x (l l' : list Z) : Permutation l l' -> mem x l = mem x l'.
Proof.
  unfold mem. induction 1; cbn [existsb]; try congruence.
  - destruct (x =? y), (x =? x0); reflexivity.
Qed.

Lemma distinct_perm (l l' : list Z) : Permutation l l' -> distinct l = distinct l'.
Proof.
  induction 1; cbn [distinct]; try congruence.
  - rewrite IHPermutation, (mem_perm x l l' H). reflexivity.
  - cbn [mem existsb]. rewrite (Z.eqb_sym y x). unfold mem.
    destruct (x =? y), (existsb (Z.eqb x) l), (existsb (Z.eqb y) l), (distinct l); reflexivity.
Qed.

Lemma load_wf_perm (l l' : load) : Permutation l l' -> load_wf l = load_wf l'.
Proof.
  intro P. unfold load_wf.
  rewrite (forallb_perm row_ok l l' P), (distinct_perm _ _ (Permutation_map rw_row P)).
  destruct l, l'; try reflexivity.
  - apply Permutation_nil in P. discriminate.
  - apply Permutation_sym, Permutation_nil in P. discriminate.
Qed.

Lemma length_flat_map_perm {A B} (f : A -> list B) (l l' : list A) :
  Permutation l l' -> length (flat_map f l) = length (flat_map f l').
Proof.
  induction 1; cbn [flat_map]; rewrite ?app_length; try lia.
Qed.

Lemma length_emit_load_perm d (l l' : load) : Permutation l l' -> length (emit_load d l) = length (emit_load d l').
Proof.
  intro P. unfold emit_load. rewrite !app_length, (length_flat_map_perm (emit_row d) l l' P). reflexivity.
Qed.

(* one hypothesis set serves both orders: the End-Of-Caption code sits at the same word index in either order *)
Theorem popon_row_order_free : forall d l l' off tc tc2 t1 t2, Permutation l l' -> load_wf l = true ->
  get_time tc (Z.of_nat (length (emit_load d l)) - (if d then 2 else 1)) off = Ok t1 ->
  get_time tc2 0 off = Ok t2 -> (0 < t1)%Q -> (t1 < t2)%Q -> is_flash (mkPre t1 t2 [] None) = false ->
  exists caps caps',
    read off [(tc, emit_load d l); (tc2, emit_clear d)] = ROk caps /\
    read off [(tc, emit_load d l'); (tc2, emit_clear d)] = ROk caps' /\
    ok_c05 (mkProg d [l]) (Ok (map observe caps)) = true /\
    ok_c05 (mkProg d [l']) (Ok (map observe caps')) = true.
Proof.
  intros d l l' off tc tc2 t1 t2 P W T1 T2 H0 H1 F.
  destruct (popon_stage8 d l off tc tc2 t1 t2 W T1 T2 H0 H1 F) as (caps & R & K).
  assert (W' : load_wf l' = true) by (rewrite <- (load_wf_perm l l' P); exact W).
  assert (T1' : get_time tc (Z.of_nat (length (emit_load d l')) - (if d then 2 else 1)) off = Ok t1)
    by (rewrite <- (length_emit_load_perm d l l' P); exact T1).
  destruct (popon_stage8 d l' off tc tc2 t1 t2 W' T1' T2 H0 H1 F) as (caps' & R' & K').
  exists caps, caps'. repeat split; assumption.
Qed.
Print Assumptions popon_row_order_free.

(* non-vacuity: rows 15 and 3 (non-adjacent: two captions sharing a start) in either order *)
Definition ord_a : load := [mkRow 15 0 0 0 [Ch 97; Ch 98]; mkRow 3 4 1 0 [Ch 99]].
Definition ord_b : load := [mkRow 3 4 1 0 [Ch 99]; mkRow 15 0 0 0 [Ch 97; Ch 98]].
Example popon_row_order_free_instance :
  exists caps caps',
    read 0 [(lit "00:00:01;00", emit_load true ord_a); (lit "00:00:05;00", emit_clear true)] = ROk caps /\
    read 0 [(lit "00:00:01;00", emit_load true ord_b); (lit "00:00:05;00", emit_clear true)] = ROk caps' /\
    ok_c05 (mkProg true [ord_a]) (Ok (map observe caps)) = true /\
    ok_c05 (mkProg true [ord_b]) (Ok (map observe caps')) = true.
Proof.
  assert (T : exists t1, get_time (lit "00:00:01;00") (Z.of_nat (length (emit_load true ord_a)) - 2) 0 = Ok t1 /\
                         (0 < t1)%Q /\ (t1 < 5000000)%Q /\ is_flash (mkPre t1 5000000 [] None) = false).
  { eexists. split; [vm_compute; reflexivity|]. repeat split; vm_compute; reflexivity. }
  destruct T as (t1 & T1 & H0 & H1 & F).
  apply (popon_row_order_free true ord_a ord_b 0 (lit "00:00:01;00") (lit "00:00:05;00") t1 5000000);
    [apply perm_swap|vm_compute; reflexivity|exact T1|vm_compute; reflexivity|exact H0|exact H1|exact F].
Qed.
