(* C16, wider alphabet: conservation of characters in roll-up / paint-on streams that also carry extended characters
   and Erase-Displayed-Memory; the effect of backspace and of mid-row codes on the active buffer.

   An extended character is transmitted after a stand-in basic character and replaces it: the decoder first erases
   the LAST character of the ACTIVE buffer (unless the buffer holds no text, or that character is itself an extended
   character), then appends the extended character.  So the text of a caption is no longer the concatenation of the
   characters sent but the result of an edit script (`apply_word`) run per buffer: what was flushed into the caption
   list before the extended word arrives is out of reach of the implicit backspace.

   FORM PROVED: the GENERAL form - every stream over `rpb_word` (= `rpx_word` + backspace) that starts with a mode
   command, no well-formedness assumption on the stand-ins (`rollup_painton_conserved_ext`).  The expected text
   `sentx_text` is computed from the words alone (plus the decoder's doubling memory, exactly as `sent` does): flush
   words move the current buffer text to the finished text, every other executed word edits the current buffer text
   with `edit_word` (`apply_word`, or `removelast` for a backspace).
   Mid-row codes stay outside the stream theorem: whether they append a blank depends on the style state and on the
   NEXT word, and that blank can be the character an extended word erases; their effect is `rpx_step_mid`. *)
From Coq Require Import List ZArith QArith Lia Bool.
From PV Require Import lib.Sx lib.Str lib.Result model.GenScc model.SccLen model.SccTime model.SccStash model.SccDecoder
  proofs.SccStashFacts proofs.SccTableFacts proofs.SccItalicsFacts proofs.SccDoubleFacts proofs.SccConserveFacts.
Import ListNotations.
Open Scope Z_scope.

(* ---- definitions --------------------------------------------------------------------------------- *)
(* the wider alphabet: + extended characters, + Erase-Displayed-Memory (no pop-on cue is queued in these modes: no
   effect) *)
Definition rpx_word (w : Z) : bool :=
  rp_word w || (match extended_of w with Some _ => true | None => false end) || (w =? w_edm).

(* the effect of one executed, non-flushing word on the text of the active buffer *)
Definition apply_word (w : Z) (acc : str) : str :=
  match extended_of w with
  | Some t => (if (match acc with [] => true | _ => is_extended_value (last acc 0) end) then acc else removelast acc) ++ t
  | None => acc ++ word_chars w
  end.

(* ... and backspace, which erases one character of the active buffer *)
Definition rpb_word (w : Z) : bool := rpx_word w || (w =? w_bs).
Definition edit_word (w : Z) (acc : str) : str := if w =? w_bs then removelast acc else apply_word w acc.

(* the words that store the active buffer as a caption (when it holds text) and leave an empty active buffer *)
Definition is_flush (w : Z) : bool := (w =? w_ru2) || (w =? w_ru3) || (w =? w_ru4) || (w =? w_rdc) || (w =? w_cr).

(* (finished text, text of the active buffer) *)
Definition xstep (w : Z) (acc : str * str) : str * str :=
  if is_flush w then (fst acc ++ snd acc, []) else (fst acc, edit_word w (snd acc)).

(* the text expected from a word list run from state s; as in `sent`, the second copy of a doubled code counts once,
   as decided by the decoder's doubling memory *)
Fixpoint sentx (s : rstate) (ws : list Z) (acc : str * str) : str * str :=
  match ws with
  | [] => acc
  | w :: t => sentx (translate_word s w (match t with n :: _ => Some n | [] => None end)) t
                (if fst (handle_double s w) then acc else xstep w acc)
  end.

Fixpoint sentx_lines (s : rstate) (ls : list sline) (acc : str * str) : str * str :=
  match ls with
  | [] => acc
  | l :: t => sentx_lines (translate_line s l) t (sentx (set_clock s (fst l) 0) (snd l) acc)
  end.

Definition sentx_text (s : rstate) (ls : list sline) : str :=
  let acc := sentx_lines s ls ([], []) in fst acc ++ snd acc.

(* ---- small facts ---------------------------------------------------------------------------------- *)
Lemma core_stash : forall a b, core a = core b -> stash_text (r_stash a) = stash_text (r_stash b).
Proof. intros a b H. apply (core_eq a b H). Qed.

Lemma is_flush_command : forall w, is_flush w = true -> is_command w = true.
Proof.
  intros w H. destruct ctrl_commands as (C2 & C3 & C4 & Cd & Cc). unfold is_flush in H. rewrite !orb_true_iff in H.
  destruct H as [[[[H|H]|H]|H]|H]; apply Z.eqb_eq in H; subst w; assumption.
Qed.

Lemma not_flush : forall w, ~ In w [w_ru2; w_ru3; w_ru4; w_rdc; w_cr] -> is_flush w = false.
Proof.
  intros w H.
  assert (Hc : forall c, In c [w_ru2; w_ru3; w_ru4; w_rdc; w_cr] -> (w =? c) = false).
  { intros c Hin. apply Z.eqb_neq. intros ->. exact (H Hin). }
  unfold is_flush. rewrite (Hc w_ru2), (Hc w_ru3), (Hc w_ru4), (Hc w_rdc), (Hc w_cr) by (cbn [In]; tauto). reflexivity.
Qed.

Lemma not_command_not_flush : forall w, is_command w = false -> is_flush w = false.
Proof. intros w H. destruct (is_flush w) eqn:E; [|reflexivity]. apply is_flush_command in E. congruence. Qed.

Lemma apply_word_plain : forall w acc, extended_of w = None -> apply_word w acc = acc ++ word_chars w.
Proof. intros w acc H. unfold apply_word. rewrite H. reflexivity. Qed.

Lemma apply_word_nil : forall w acc, extended_of w = None -> word_chars w = [] -> apply_word w acc = acc.
Proof. intros w acc H H0. rewrite apply_word_plain, H0 by exact H. apply app_nil_r. Qed.

Lemma extended_classes : forall w t, extended_of w = Some t ->
  is_command w = false /\ is_pac w = false /\ special_of w = None /\ tab_of w = None.
Proof.
  intros w t H. destruct classes_disjoint as (Dspecial & Dext & _).
  assert (Hx : extended_of w <> None) by congruence.
  destruct (Dext w Hx) as (Hc & Hp & Ht). repeat split; try assumption.
  destruct (special_of w) as [x|] eqn:E; [|reflexivity].
  assert (Hs : special_of w <> None) by congruence. destruct (Dspecial w Hs) as (_ & _ & He & _). congruence.
Qed.

Lemma word_chars_command : forall w, (is_command w || is_pac w) = true -> word_chars w = [].
Proof. intros w H. unfold word_chars. rewrite H. reflexivity. Qed.

(* ---- the implicit backspace of an extended character ------------------------------------------------ *)
Lemma handle_backspace_ext_content : forall w t c, wf_nodes (cr_nodes c) -> extended_of w = Some t ->
  content (handle_backspace w c) =
  if (match content c with [] => true | _ => is_extended_value (last (content c) 0) end) then content c
  else removelast (content c).
Proof.
  intros w t c W He. unfold handle_backspace. pose proof (prev_text_spec drop_last (cr_nodes c) W) as P.
  change (content c) with (ncontent (cr_nodes c)).
  destruct (prev_text (cr_nodes c)) as [[tx b]|].
  - destruct P as (pre & H1 & H2 & H3). rewrite He, (extended_neq_bs w t He), orb_false_r. cbn [andb].
    unfold last_char. set (k := ncontent (cr_nodes c)) in *.
    assert (Hl : last k 0 = last tx 0) by (rewrite H1; apply last_app_ne; exact H2).
    assert (Hne : k <> []) by (rewrite H1; destruct pre; [exact H2|discriminate]).
    assert (Em : (match k with [] => true | _ => is_extended_value (last k 0) end) = is_extended_value (last tx 0)).
    { rewrite <- Hl. destruct k; [congruence|reflexivity]. }
    rewrite Em. destruct (is_extended_value (last tx 0)); cbn [negb].
    + reflexivity.
    + unfold content. cbn [cr_nodes]. fold (ncontent (upd_prev_text drop_last (cr_nodes c))).
      rewrite H3, H1. unfold drop_last. symmetry. apply removelast_app. exact H2.
  - change (content c) with (ncontent (cr_nodes c)). rewrite P. reflexivity.
Qed.

(* ---- fine-grained effect of the buffer operations --------------------------------------------------- *)
Lemma add_to_buf_fine : forall s txt, rp_inv s ->
  stash_text (r_stash (add_to_buf s txt)) = stash_text (r_stash s) /\
  content (buf (add_to_buf s txt)) = content (buf s) ++ txt /\ rp_inv (add_to_buf s txt).
Proof.
  intros s txt I. pose proof (inv_wf_buf s I) as W. unfold add_to_buf.
  pose proof (add_chars_wf (r_tk s) (buf s) txt W) as W'.
  pose proof (add_chars_content (r_tk s) (buf s) txt) as C'.
  destruct (add_chars (r_tk s) (buf s) txt) as [t c]. cbn [snd] in W', C'.
  assert (HC : core (set_buf (set_tk s t) c) = core (set_buf s c)) by apply core_set_buf, core_set_tk.
  split; [|split].
  - rewrite (core_stash _ _ HC), set_buf_stash. reflexivity.
  - rewrite (buf_core _ _ HC), set_buf_buf. exact C'.
  - apply (inv_core _ _ HC). apply set_buf_inv; assumption.
Qed.

Lemma do_interpret_fine : forall s w next, rp_inv s ->
  stash_text (r_stash (do_interpret s w next)) = stash_text (r_stash s) /\
  content (buf (do_interpret s w next)) = content (snd (fst (interpret_command (r_tk s) (buf s) w next))) /\
  rp_inv (do_interpret s w next).
Proof.
  intros s w next I. pose proof (inv_wf_buf s I) as W. unfold do_interpret.
  pose proof (interpret_command_wf (r_tk s) (buf s) w next W) as W'.
  destruct (interpret_command (r_tk s) (buf s) w next) as [[t c] e]. cbn [fst snd] in *.
  assert (HC : core (match e with Some x => set_err (set_buf (set_tk s t) c) x | None => set_buf (set_tk s t) c end)
               = core (set_buf s c)).
  { destruct e; [rewrite core_set_err|]; apply core_set_buf, core_set_tk. }
  split; [|split].
  - rewrite (core_stash _ _ HC), set_buf_stash. reflexivity.
  - rewrite (buf_core _ _ HC), set_buf_buf. reflexivity.
  - apply (inv_core _ _ HC). apply set_buf_inv; assumption.
Qed.

(* a word that is interpreted without touching the text *)
Lemma do_interpret_plain_fine : forall s w next, rp_inv s ->
  memz w scc_mid_row_codes = false -> memz w scc_background_color_codes = false -> w <> w_bs ->
  stash_text (r_stash (do_interpret s w next)) = stash_text (r_stash s) /\
  content (buf (do_interpret s w next)) = content (buf s) /\ rp_inv (do_interpret s w next).
Proof.
  intros s w next I Hm Hb Hw. destruct (do_interpret_fine s w next I) as (H1 & H2 & H3).
  split; [exact H1|split; [|exact H3]].
  rewrite H2. apply interpret_command_content_plain; try assumption. apply inv_wf_buf. exact I.
Qed.

Lemma flush_buffer_empty : forall s, rp_inv s -> content (buf (flush_buffer s)) = [].
Proof.
  intros s I. unfold flush_buffer. destruct (cr_is_empty (buf s)) eqn:E; [apply cr_is_empty_content; exact E|].
  destruct (flushed_spec s (r_time s) 0%Q I) as (_ & _ & C & _). exact C.
Qed.

(* ---- one executed word ------------------------------------------------------------------------------ *)
(* a flush: the text of the buffer moves to the caption list; an edit: the caption list is untouched *)
Definition flush_res (s X : rstate) : Prop := total X = total s /\ content (buf X) = [] /\ rp_inv X.
Definition edit_res (s X : rstate) (w : Z) : Prop :=
  stash_text (r_stash X) = stash_text (r_stash s) /\ content (buf X) = apply_word w (content (buf s)) /\ rp_inv X.

Lemma mode_switch_fine : forall s m, rp_inv s -> (m = MRoll \/ m = MPaint) ->
  let s2 := flush_buffer (activate s m) in
  let X := if (match r_err s2 with Some _ => true | None => false end) then s2
           else with_time s2 (fun t => set_time s2 t) in
  flush_res s X.
Proof.
  intros s m I Hm s2 X. destruct (mode_switch_spec s m I Hm) as [T IX]. fold s2 in T, IX. fold X in T, IX.
  split; [exact T|split; [|exact IX]].
  destruct (activate_spec s m I Hm) as (I1 & _).
  pose proof (switch_core s2) as HC. fold X in HC. rewrite (buf_core _ _ HC). apply flush_buffer_empty. exact I1.
Qed.

Lemma exec_ext : forall s w t next, rp_inv s -> extended_of w = Some t -> edit_res s (exec s w next) w.
Proof.
  intros s w t next I He. destruct (extended_classes w t He) as (Hc & Hp & Hs & _).
  unfold exec. rewrite Hc, Hp, Hs, He. cbn [orb].
  pose proof (inv_wf_buf s I) as W.
  assert (I1 : rp_inv (set_buf s (handle_backspace w (buf s)))) by (apply set_buf_inv; [exact I|apply handle_backspace_wf; exact W]).
  destruct (add_to_buf_fine _ t I1) as (H1 & H2 & H3). split; [|split; [|exact H3]].
  - rewrite H1, set_buf_stash. reflexivity.
  - rewrite H2, set_buf_buf, (handle_backspace_ext_content w t (buf s) W He). unfold apply_word. rewrite He. reflexivity.
Qed.

Lemma edm_facts : is_command w_edm = true /\ memz w_edm scc_mid_row_codes = false /\
  memz w_edm scc_background_color_codes = false /\ w_edm <> w_bs /\ extended_of w_edm = None /\ is_flush w_edm = false.
Proof. repeat split; try (vm_compute; reflexivity). discriminate. Qed.

Lemma tc_edm : forall s next, r_queue s = None -> translate_command s w_edm next = do_interpret s w_edm next.
Proof. intros s next H. unfold translate_command. rewrite H. reflexivity. Qed.

Lemma edit_plain : forall s X w, extended_of w = None -> word_chars w = [] ->
  stash_text (r_stash X) = stash_text (r_stash s) /\ content (buf X) = content (buf s) /\ rp_inv X -> edit_res s X w.
Proof.
  intros s X w He Hw (H1 & H2 & H3). split; [exact H1|split; [|exact H3]]. rewrite apply_word_nil; assumption.
Qed.

Lemma edit_add : forall s w txt, rp_inv s -> extended_of w = None -> word_chars w = txt -> edit_res s (add_to_buf s txt) w.
Proof.
  intros s w txt I He Hw. destruct (add_to_buf_fine s txt I) as (H1 & H2 & H3).
  split; [exact H1|split; [|exact H3]]. rewrite apply_word_plain, Hw by exact He. exact H2.
Qed.

Lemma flush_cmd : forall s X w, is_flush w = true -> flush_res s X ->
  if is_flush w then flush_res s X else edit_res s X w.
Proof. intros s X w H R. rewrite H. exact R. Qed.

Lemma edit_cmd : forall s X w, is_flush w = false -> edit_res s X w ->
  if is_flush w then flush_res s X else edit_res s X w.
Proof. intros s X w H R. rewrite H. exact R. Qed.

Lemma exec_fine : forall s w next, rp_inv s -> rpx_word w = true ->
  if is_flush w then flush_res s (exec s w next) else edit_res s (exec s w next) w.
Proof.
  intros s w next I Hw. destruct ctrl_commands as (C2 & C3 & C4 & Cd & Cc).
  destruct classes_disjoint as (Dspecial & Dext & Dpac & Dtab & _).
  unfold rpx_word in Hw. rewrite !orb_true_iff in Hw. destruct Hw as [[Hw|Hw]|Hw].
  - unfold rp_word in Hw. rewrite !orb_true_iff in Hw.
    destruct Hw as [[[[[[[[Hw|Hw]|Hw]|Hw]|Hw]|Hw]|Hw]|Hw]|Hw].
    + apply Z.eqb_eq in Hw. subst w. apply flush_cmd; [reflexivity|].
      destruct (exec_cmd s w_ru2 next) as [E1 _]; [rewrite C2; reflexivity|]. rewrite E1.
      rewrite tc_roll by auto. apply mode_switch_fine; auto.
    + apply Z.eqb_eq in Hw. subst w. apply flush_cmd; [reflexivity|].
      destruct (exec_cmd s w_ru3 next) as [E1 _]; [rewrite C3; reflexivity|]. rewrite E1.
      rewrite tc_roll by auto. apply mode_switch_fine; auto.
    + apply Z.eqb_eq in Hw. subst w. apply flush_cmd; [reflexivity|].
      destruct (exec_cmd s w_ru4 next) as [E1 _]; [rewrite C4; reflexivity|]. rewrite E1.
      rewrite tc_roll by auto. apply mode_switch_fine; auto.
    + apply Z.eqb_eq in Hw. subst w. apply flush_cmd; [reflexivity|].
      destruct (exec_cmd s w_rdc next) as [E1 _]; [rewrite Cd; reflexivity|]. rewrite E1.
      rewrite tc_paint. apply mode_switch_fine; auto.
    + apply Z.eqb_eq in Hw. subst w. apply flush_cmd; [reflexivity|].
      destruct (exec_cmd s w_cr next) as [E1 _]; [rewrite Cc; reflexivity|]. rewrite E1.
      rewrite tc_cr. destruct (cr_is_empty (buf s)) eqn:E.
      * split; [reflexivity|split; [apply cr_is_empty_content; exact E|exact I]].
      * destruct (roll_up_spec s I) as (I' & T & C & _). split; [exact T|split; [exact C|exact I']].
    + destruct (Dpac w Hw) as (_ & Hm & Hb & Hn).
      assert (Hx : extended_of w = None).
      { destruct (extended_of w) as [x|] eqn:E; [|reflexivity].
        destruct (extended_classes w x E) as (_ & Hp & _). congruence. }
      apply edit_cmd; [apply not_flush; intros Hin; apply Hn; cbn [In] in *; tauto|].
      destruct (exec_cmd s w next) as [E1 E2]; [rewrite Hw; apply orb_true_r|]. rewrite E1.
      apply edit_plain; [exact Hx|exact E2|].
      rewrite tc_other by (intros Hin; apply Hn; cbn [In] in *; tauto).
      apply do_interpret_plain_fine; [exact I|exact Hm|exact Hb|].
      intros ->. apply Hn. cbn [In]. tauto.
    + assert (Ht : tab_of w <> None) by (destruct (tab_of w); [discriminate|discriminate]).
      destruct (Dtab w Ht) as (Hc & Hm & Hb & _ & Hbs & Hn).
      destruct (tab_facts w Ht) as (_ & _ & _ & _ & Hx).
      apply edit_cmd; [apply not_flush; intros Hin; apply Hn; cbn [In] in *; tauto|].
      destruct (exec_cmd s w next) as [E1 E2]; [rewrite Hc; reflexivity|]. rewrite E1.
      apply edit_plain; [exact Hx|exact E2|].
      rewrite tc_other by exact Hn. apply do_interpret_plain_fine; assumption.
    + assert (Hs : special_of w <> None) by (destruct (special_of w); [discriminate|discriminate]).
      destruct (Dspecial w Hs) as (Hc & Hp & Hx & _).
      apply edit_cmd; [apply not_command_not_flush; exact Hc|].
      unfold exec. rewrite Hc, Hp. cbn [orb]. destruct (special_of w) as [txt|] eqn:Es; [|congruence].
      apply edit_add; [exact I|exact Hx|]. unfold word_chars. rewrite Hc, Hp, Es. reflexivity.
    + rewrite !andb_true_iff in Hw. destruct Hw as [[Hc Hp] Hx].
      apply negb_true_iff in Hc, Hp.
      assert (Hx' : extended_of w = None) by (destruct (extended_of w); [discriminate|reflexivity]).
      apply edit_cmd; [apply not_command_not_flush; exact Hc|].
      unfold exec. rewrite Hc, Hp. cbn [orb]. destruct (special_of w) as [txt|] eqn:Es.
      * apply edit_add; [exact I|exact Hx'|]. unfold word_chars. rewrite Hc, Hp, Es. reflexivity.
      * rewrite Hx'.
        assert (Hwc : word_chars w = match char_of (hi w), char_of (lo w) with Some a, Some b => a ++ b | _, _ => [] end).
        { unfold word_chars. rewrite Hc, Hp, Es, Hx'. reflexivity. }
        destruct (char_of (hi w)) as [a|]; [|apply edit_plain; [exact Hx'|exact Hwc|auto]].
        destruct (char_of (lo w)) as [b|]; [|apply edit_plain; [exact Hx'|exact Hwc|auto]].
        apply edit_add; [exact I|exact Hx'|exact Hwc].
  - destruct (extended_of w) as [t|] eqn:He; [|discriminate].
    destruct (extended_classes w t He) as (Hc & _).
    apply edit_cmd; [apply not_command_not_flush; exact Hc|]. apply (exec_ext s w t next I He).
  - apply Z.eqb_eq in Hw. subst w. destruct edm_facts as (Hc & Hm & Hb & Hbs & Hx & Hf).
    apply edit_cmd; [exact Hf|].
    destruct (exec_cmd s w_edm next) as [E1 E2]; [rewrite Hc; reflexivity|]. rewrite E1.
    apply edit_plain; [exact Hx|exact E2|].
    rewrite tc_edm by (apply I). apply do_interpret_plain_fine; assumption.
Qed.

(* ---- one word of the stream ------------------------------------------------------------------------- *)
Lemma tw_core : forall s w next, r_err s = None -> exists l d,
  core (translate_word s w next) = if fst (handle_double s w) then core s else core (exec (set_dbl s l d) w next).
Proof.
  intros s w next He. rewrite translate_word_unfold, He.
  destruct (handle_double_set s w) as (l & d & Hs). exists l, d.
  destruct (handle_double s w) as [skip s1]. cbn [fst snd] in *. subst s1. destruct skip; [reflexivity|].
  cbv zeta. destruct (r_err (exec (set_dbl s l d) w next)); reflexivity.
Qed.

Lemma flush_res_core : forall s s0 X X0, core s = core s0 -> core X = core X0 -> flush_res s0 X0 -> flush_res s X.
Proof.
  intros s s0 X X0 Hs HX (T & C & I). split; [|split].
  - rewrite (total_core _ _ HX), (total_core _ _ Hs). exact T.
  - rewrite (buf_core _ _ HX). exact C.
  - exact (inv_core _ _ HX I).
Qed.

Lemma edit_res_core : forall s s0 X X0 w, core s = core s0 -> core X = core X0 -> edit_res s0 X0 w -> edit_res s X w.
Proof.
  intros s s0 X X0 w Hs HX (T & C & I). split; [|split].
  - rewrite (core_stash _ _ HX), (core_stash _ _ Hs). exact T.
  - rewrite (buf_core _ _ HX), (buf_core _ _ Hs). exact C.
  - exact (inv_core _ _ HX I).
Qed.

(* every word of the wider alphabet: skipped (second copy of a doubled code), a flush, or an edit of the active buffer *)
Theorem rpx_step : forall s w next, rp_inv s -> rpx_word w = true -> r_err s = None ->
  let s' := translate_word s w next in
  if fst (handle_double s w)
  then stash_text (r_stash s') = stash_text (r_stash s) /\ content (buf s') = content (buf s) /\ rp_inv s'
  else if is_flush w then flush_res s s' else edit_res s s' w.
Proof.
  intros s w next I Hw He s'. subst s'. destruct (tw_core s w next He) as (l & d & HC).
  destruct (fst (handle_double s w)).
  - split; [exact (core_stash _ _ HC)|split; [rewrite (buf_core _ _ HC); reflexivity|exact (inv_core _ _ HC I)]].
  - assert (Hs : core s = core (set_dbl s l d)) by reflexivity.
    assert (I1 : rp_inv (set_dbl s l d)) by (apply (inv_core _ s); [reflexivity|exact I]).
    pose proof (exec_fine (set_dbl s l d) w next I1 Hw) as R. destruct (is_flush w).
    + exact (flush_res_core _ _ _ _ Hs HC R).
    + exact (edit_res_core _ _ _ _ _ Hs HC R).
Qed.

(* the extended step, on the RAW text of the active buffer *)
Theorem rpx_step_ext : forall s w next t, rp_inv s -> extended_of w = Some t -> r_err s = None ->
  fst (handle_double s w) = false ->
  let s' := translate_word s w next in
  stash_text (r_stash s') = stash_text (r_stash s) /\ content (buf s') = apply_word w (content (buf s)) /\ rp_inv s'.
Proof.
  intros s w next t I He Hr Hd s'. subst s'.
  assert (Hw : rpx_word w = true) by (unfold rpx_word; rewrite He, orb_true_r; reflexivity).
  pose proof (rpx_step s w next I Hw Hr) as R. cbv zeta in R. rewrite Hd in R.
  destruct (extended_classes w t He) as (Hc & _). rewrite (not_command_not_flush w Hc) in R. exact R.
Qed.

Theorem rpx_step_edm : forall s next, rp_inv s -> r_err s = None ->
  let s' := translate_word s w_edm next in r_err s' = None -> total s' = total s /\ rp_inv s'.
Proof.
  intros s next I Hr s' _. subst s'.
  assert (Hw : rpx_word w_edm = true) by (vm_compute; reflexivity).
  pose proof (rpx_step s w_edm next I Hw Hr) as R. cbv zeta in R.
  destruct edm_facts as (_ & _ & _ & _ & Hx & Hf). rewrite Hf in R.
  assert (E : stash_text (r_stash (translate_word s w_edm next)) = stash_text (r_stash s) /\
              content (buf (translate_word s w_edm next)) = content (buf s) /\ rp_inv (translate_word s w_edm next)).
  { destruct (fst (handle_double s w_edm)); [exact R|]. destruct R as (H1 & H2 & H3).
    rewrite apply_word_nil in H2 by (try exact Hx; vm_compute; reflexivity). auto. }
  destruct E as (H1 & H2 & H3). split; [|exact H3]. unfold total. rewrite H1, H2. reflexivity.
Qed.

(* ---- backspace ------------------------------------------------------------------------------------------ *)
Lemma interpret_command_bs_gen : forall t c w next,
  (w =? w_bs) = true -> memz w scc_background_color_codes = false -> memz w scc_style_setting_commands = false ->
  memz w scc_mid_row_codes = false ->
  snd (fst (interpret_command t c w next)) = handle_backspace w_bs c.
Proof.
  intros t c w next H1 H2 H3 H4. unfold interpret_command. cbv zeta. rewrite H1, H2, H3, H4. cbv beta iota.
  destruct (prev_text (cr_nodes (handle_backspace w_bs c))) as [[txt brk]|]; reflexivity.
Qed.

Lemma interpret_command_content_bs : forall t c next, wf_nodes (cr_nodes c) ->
  content (snd (fst (interpret_command t c w_bs next))) = removelast (content c).
Proof.
  intros t c next W. rewrite interpret_command_bs_gen by (vm_compute; reflexivity).
  apply backspace_deletes_one. exact W.
Qed.

Lemma bs_facts : is_command w_bs = true /\ is_flush w_bs = false /\ rpx_word w_bs = false /\
  ~ In w_bs [w_rcl; w_ru2; w_ru3; w_ru4; w_rdc; w_edm; w_cr; w_enm; w_eoc].
Proof.
  split; [vm_compute; reflexivity|]. split; [vm_compute; reflexivity|]. split; [vm_compute; reflexivity|].
  cbn [In]. intros H. repeat (destruct H as [H|H]; [discriminate H|]). exact H.
Qed.

(* an executed command that falls through to interpret_command *)
Lemma tw_interpreted : forall s w next, rp_inv s -> r_err s = None -> fst (handle_double s w) = false ->
  is_command w = true -> ~ In w [w_rcl; w_ru2; w_ru3; w_ru4; w_rdc; w_edm; w_cr; w_enm; w_eoc] ->
  let s' := translate_word s w next in
  stash_text (r_stash s') = stash_text (r_stash s) /\
  (exists t, content (buf s') = content (snd (fst (interpret_command t (buf s) w next)))) /\ rp_inv s'.
Proof.
  intros s w next I He Hd Hc Hn s'. subst s'. destruct (tw_core s w next He) as (l & d & HC). rewrite Hd in HC.
  assert (I1 : rp_inv (set_dbl s l d)) by (apply (inv_core _ s); [reflexivity|exact I]).
  destruct (exec_cmd (set_dbl s l d) w next) as [E1 _]; [rewrite Hc; reflexivity|].
  rewrite E1, tc_other in HC by exact Hn.
  destruct (do_interpret_fine (set_dbl s l d) w next I1) as (H1 & H2 & H3).
  split; [|split].
  - rewrite (core_stash _ _ HC), H1. reflexivity.
  - exists (r_tk (set_dbl s l d)). rewrite (buf_core _ _ HC), H2. reflexivity.
  - exact (inv_core _ _ HC H3).
Qed.

(* backspace erases exactly one character of the active buffer (none when it holds no text) *)
Theorem rpx_step_bs : forall s next, rp_inv s -> r_err s = None -> fst (handle_double s w_bs) = false ->
  let s' := translate_word s w_bs next in
  stash_text (r_stash s') = stash_text (r_stash s) /\ content (buf s') = removelast (content (buf s)) /\ rp_inv s'.
Proof.
  intros s next I He Hd s'. subst s'. destruct bs_facts as (Hc & _ & _ & Hn).
  destruct (tw_interpreted s w_bs next I He Hd Hc Hn) as (H1 & (t & H2) & H3).
  split; [exact H1|split; [|exact H3]].
  rewrite H2. apply interpret_command_content_bs. apply inv_wf_buf. exact I.
Qed.

(* ---- mid-row codes ------------------------------------------------------------------------------------- *)
Lemma interpret_command_content_mid : forall t c w next, wf_nodes (cr_nodes c) ->
  memz w scc_background_color_codes = false -> w <> w_bs ->
  content (snd (fst (interpret_command t c w next))) = content c \/
  content (snd (fst (interpret_command t c w next))) = content c ++ [32].
Proof.
  intros t c w next W Hb Hw. unfold interpret_command. cbv zeta.
  apply Z.eqb_neq in Hw. rewrite Hw, Hb. cbv beta iota.
  set (t1 := update_positioning t c w). clearbody t1.
  match goal with |- content (snd (fst (match ?X with pair _ _ => _ end))) = _ \/ _ => set (X3 := X) end.
  assert (C3 : content (snd X3) = content c /\ wf_nodes (cr_nodes (snd X3))).
  { subst X3. destruct (memz w scc_style_setting_commands); [|split; [reflexivity|exact W]].
    destruct (memz w scc_italics_commands); destruct (cr_style c); try (split; [reflexivity|exact W]);
      destruct (break_required t1); cbn [snd cr_nodes]; (split; [|wf_solve]);
      unfold content; cbn [cr_nodes]; fold (ncontent (cr_nodes c));
      repeat (rewrite ?map_app, ?concat_app); cbn [map concat i_text app]; rewrite ?app_nil_r; reflexivity. }
  clearbody X3. destruct X3 as [t3 c3]. cbn [snd] in C3. destruct C3 as [C3 W3].
  pose proof (prev_text_spec (fun s => s ++ [32]) (cr_nodes c3) W3) as P.
  destruct (prev_text (cr_nodes c3)) as [[txt brk]|]; [|left; exact C3].
  destruct (_ && _); [|left; exact C3]. right. rewrite <- C3.
  destruct P as (pre & H1 & H2 & H3).
  destruct (cr_style c3); try (cbn [snd fst]; unfold content; cbn [cr_nodes];
    fold (ncontent (upd_prev_text (fun s => s ++ [32]) (cr_nodes c3))); fold (ncontent (cr_nodes c3));
    rewrite H3, H1, app_assoc; reflexivity).
  pose proof (add_chars_content t3 c3 [32]) as A. destruct (add_chars t3 c3 [32]) as [t4 c4]. exact A.
Qed.

(* every mid-row code is a command that is neither a preamble address code, a background code, backspace nor one of
   the codes translate_command handles itself: computed over the whole table *)
Lemma midrow_table : forall w, memz w scc_mid_row_codes = true ->
  is_command w = true /\ is_pac w = false /\ memz w scc_background_color_codes = false /\ w <> w_bs /\
  ~ In w [w_rcl; w_ru2; w_ru3; w_ru4; w_rdc; w_edm; w_cr; w_enm; w_eoc].
Proof.
  intros w H. apply memz_In in H.
  pose proof (map_eq_pointwise
    (fun w => (is_command w, is_pac w, memz w scc_background_color_codes, w =? w_bs,
               memz w [w_rcl; w_ru2; w_ru3; w_ru4; w_rdc; w_edm; w_cr; w_enm; w_eoc]))
    (fun _ => (true, false, false, false, false)) scc_mid_row_codes ltac:(vmr) w H) as E.
  split_pairs E. repeat split; try assumption.
  - apply Z.eqb_neq. assumption.
  - apply memz_notIn. assumption.
Qed.

(* a mid-row code leaves the text of the ACTIVE buffer alone or appends one blank to it; nothing is stored.  (The side
   condition "w is not a preamble address code" is not needed: no mid-row code is one, `midrow_table`.) *)
Theorem rpx_step_mid : forall s w next, rp_inv s -> memz w scc_mid_row_codes = true -> r_err s = None ->
  let s' := translate_word s w next in
  stash_text (r_stash s') = stash_text (r_stash s) /\
  (content (buf s') = content (buf s) \/ content (buf s') = content (buf s) ++ [32]) /\
  nonspace (content (buf s')) = nonspace (content (buf s)) /\ rp_inv s'.
Proof.
  intros s w next I Hm He s'. subst s'.
  assert (G : forall X, stash_text (r_stash X) = stash_text (r_stash s) ->
            (content (buf X) = content (buf s) \/ content (buf X) = content (buf s) ++ [32]) -> rp_inv X ->
            stash_text (r_stash X) = stash_text (r_stash s) /\
            (content (buf X) = content (buf s) \/ content (buf X) = content (buf s) ++ [32]) /\
            nonspace (content (buf X)) = nonspace (content (buf s)) /\ rp_inv X).
  { intros X H1 H2 H3. split; [exact H1|split; [exact H2|split; [|exact H3]]].
    destruct H2 as [->| ->]; [reflexivity|]. rewrite nonspace_app. cbn [nonspace filter]. apply app_nil_r. }
  destruct (fst (handle_double s w)) eqn:Hd.
  - destruct (tw_core s w next He) as (l & d & HC). rewrite Hd in HC.
    apply G; [exact (core_stash _ _ HC)|left; rewrite (buf_core _ _ HC); reflexivity|exact (inv_core _ _ HC I)].
  - destruct (midrow_table w Hm) as (Hc & _ & Hb & Hbs & Hn).
    destruct (tw_interpreted s w next I He Hd Hc Hn) as (H1 & (t & H2) & H3).
    apply G; [exact H1| |exact H3]. rewrite H2.
    apply interpret_command_content_mid; [apply inv_wf_buf; exact I|exact Hb|exact Hbs].
Qed.

(* ---- every word of the alphabet with backspace ------------------------------------------------------- *)
Lemma rpx_not_bs : forall w, rpx_word w = true -> (w =? w_bs) = false.
Proof.
  intros w H. destruct (Z.eqb_spec w w_bs) as [->|]; [|reflexivity].
  destruct bs_facts as (_ & _ & F & _). congruence.
Qed.

Theorem rpb_step : forall s w next, rp_inv s -> rpb_word w = true -> r_err s = None ->
  let s' := translate_word s w next in
  if fst (handle_double s w)
  then stash_text (r_stash s') = stash_text (r_stash s) /\ content (buf s') = content (buf s) /\ rp_inv s'
  else if is_flush w then flush_res s s'
  else stash_text (r_stash s') = stash_text (r_stash s) /\ content (buf s') = edit_word w (content (buf s)) /\ rp_inv s'.
Proof.
  intros s w next I Hw He s'. subst s'. unfold rpb_word in Hw. apply orb_true_iff in Hw. destruct Hw as [Hw|Hw].
  - pose proof (rpx_step s w next I Hw He) as R. cbv zeta in R. unfold edit_word. rewrite (rpx_not_bs w Hw). exact R.
  - apply Z.eqb_eq in Hw. subst w. destruct bs_facts as (_ & Hf & _ & _). rewrite Hf.
    destruct (fst (handle_double s w_bs)) eqn:Hd.
    + destruct (tw_core s w_bs next He) as (l & d & HC). rewrite Hd in HC.
      split; [exact (core_stash _ _ HC)|split; [rewrite (buf_core _ _ HC); reflexivity|exact (inv_core _ _ HC I)]].
    + exact (rpx_step_bs s next I He Hd).
Qed.

(* ---- whole streams ---------------------------------------------------------------------------------- *)
Definition tracks (s : rstate) (acc : str * str) : Prop :=
  nonspace (stash_text (r_stash s)) = nonspace (fst acc) /\ content (buf s) = snd acc.

Lemma tracks_total : forall s acc, tracks s acc -> total s = nonspace (fst acc ++ snd acc).
Proof. intros s acc [H1 H2]. unfold total. rewrite H1, H2, nonspace_app. reflexivity. Qed.

Lemma rpx_step_tracks : forall s w next acc, rp_inv s -> rpb_word w = true -> r_err s = None -> tracks s acc ->
  tracks (translate_word s w next) (if fst (handle_double s w) then acc else xstep w acc) /\
  rp_inv (translate_word s w next).
Proof.
  intros s w next acc I Hw He Tr. pose proof (rpb_step s w next I Hw He) as R. cbv zeta in R.
  pose proof (tracks_total s acc Tr) as TT. destruct Tr as [T1 T2].
  destruct (fst (handle_double s w)).
  - destruct R as (H1 & H2 & H3). split; [|exact H3]. split; [rewrite H1; exact T1|rewrite H2; exact T2].
  - unfold xstep. destruct (is_flush w).
    + destruct R as (T & C & I'). split; [|exact I']. split; cbn [fst snd]; [|exact C].
      rewrite <- TT, <- T. unfold total. rewrite C. cbn [nonspace filter]. rewrite app_nil_r. reflexivity.
    + destruct R as (H1 & H2 & H3). split; [|exact H3]. split; cbn [fst snd]; [rewrite H1; exact T1|rewrite H2, T2; reflexivity].
Qed.

Theorem rpx_words : forall ws s acc, rp_inv s -> forallb rpb_word ws = true -> r_err s = None ->
  r_err (translate_words s ws) = None -> tracks s acc ->
  tracks (translate_words s ws) (sentx s ws acc) /\ rp_inv (translate_words s ws).
Proof.
  induction ws as [|w t IH]; intros s acc I Hws He Hfin Tr.
  - split; assumption.
  - cbn [forallb] in Hws. apply andb_true_iff in Hws. destruct Hws as [Hw Ht].
    cbn [translate_words sentx] in *.
    set (nx := match t with n :: _ => Some n | [] => None end) in *.
    pose proof (translate_words_ok _ _ Hfin) as He1.
    destruct (rpx_step_tracks s w nx acc I Hw He Tr) as [T1 I1].
    exact (IH _ _ I1 Ht He1 Hfin T1).
Qed.

Theorem rpx_lines : forall ls s acc, rp_inv s -> forallb (fun l => forallb rpb_word (snd l)) ls = true ->
  r_err s = None -> r_err (fold_left translate_line ls s) = None -> tracks s acc ->
  tracks (fold_left translate_line ls s) (sentx_lines s ls acc) /\ rp_inv (fold_left translate_line ls s).
Proof.
  induction ls as [|l t IH]; intros s acc I Hls He Hfin Tr.
  - split; assumption.
  - cbn [forallb] in Hls. apply andb_true_iff in Hls. destruct Hls as [Hl Ht].
    cbn [fold_left sentx_lines] in *.
    pose proof (translate_lines_ok _ _ Hfin) as He1.
    assert (El : translate_line s l = translate_words (set_clock s (fst l) 0) (snd l))
      by (unfold translate_line; rewrite He; reflexivity).
    rewrite El in *.
    assert (I0 : rp_inv (set_clock s (fst l) 0)) by (apply (inv_core _ s); [reflexivity|exact I]).
    assert (Tr0 : tracks (set_clock s (fst l) 0) acc) by exact Tr.
    destruct (rpx_words (snd l) _ acc I0 Hl He He1 Tr0) as [T1 I1].
    exact (IH _ _ I1 Ht He1 Hfin T1).
Qed.

(* entering the mode from the initial state: nothing stored, empty active buffer *)
Lemma rpx_enter : forall off tc w next, (w = w_ru2 \/ w = w_ru3 \/ w = w_ru4 \/ w = w_rdc) ->
  let s := translate_word (set_clock (rstate0 off) tc 0) w next in rp_inv s /\ tracks s ([], []).
Proof.
  intros off tc w next Hw s. subst s.
  assert (HC : exists m, (m = MRoll \/ m = MPaint) /\
             core (translate_word (set_clock (rstate0 off) tc 0) w next) = ([], creator0, creator0, creator0, m, None)).
  { destruct Hw as [->|[->|[->| ->]]].
    - exists MRoll. split; [auto|]. cbv -[get_time]. destruct (get_time _ _ _); reflexivity.
    - exists MRoll. split; [auto|]. cbv -[get_time]. destruct (get_time _ _ _); reflexivity.
    - exists MRoll. split; [auto|]. cbv -[get_time]. destruct (get_time _ _ _); reflexivity.
    - exists MPaint. split; [auto|]. cbv -[get_time]. destruct (get_time _ _ _); reflexivity. }
  destruct HC as (m & Hm & HC). set (s := translate_word _ _ _) in *.
  destruct (core_eq_full s m HC) as (H1 & H2 & H3 & H4 & H5 & H6).
  split.
  - unfold rp_inv. rewrite H2, H3, H4, H5, H6. repeat split; auto; try apply wf_creator0.
  - unfold tracks, buf. rewrite H1, H2, H3, H4, H5. destruct Hm as [->| ->]; split; reflexivity.
Qed.

(* C16 over the wider alphabet (extended characters, Erase-Displayed-Memory, backspace), general form *)
Theorem rollup_painton_conserved_ext : forall off tc0 w0 ws0 ls caps,
  (w0 = w_ru2 \/ w0 = w_ru3 \/ w0 = w_ru4 \/ w0 = w_rdc) ->
  forallb rpb_word ws0 = true -> forallb (fun l => forallb rpb_word (snd l)) ls = true ->
  read off ((tc0, w0 :: ws0) :: ls) = ROk caps ->
  nonspace (caps_text caps) = nonspace (sentx_text (rstate0 off) ((tc0, w0 :: ws0) :: ls)).
Proof.
  intros off tc0 w0 ws0 ls caps Hw0 Hws0 Hls Hread.
  unfold read, run_lines in Hread. cbv zeta in Hread. cbn [fold_left] in Hread.
  set (sA := translate_line (rstate0 off) (tc0, w0 :: ws0)) in *.
  set (S := fold_left translate_line ls sA) in *.
  destruct (r_err S) as [e|] eqn:ES; [rewrite ES in Hread; discriminate|].
  destruct (r_err (flush_implicit S)) as [e|] eqn:EF; [discriminate|].
  pose proof (translate_lines_ok ls sA ES) as EA.
  set (s0 := set_clock (rstate0 off) tc0 0).
  set (nx := match ws0 with n :: _ => Some n | [] => None end).
  set (s1 := translate_word s0 w0 nx).
  assert (ElA : sA = translate_words s1 ws0) by reflexivity.
  rewrite ElA in EA. pose proof (translate_words_ok _ _ EA) as E1.
  destruct (rpx_enter off tc0 w0 nx Hw0) as [I1 T1]. fold s0 s1 in I1, T1.
  destruct (rpx_words ws0 s1 _ I1 Hws0 E1 EA T1) as [TA IA]. rewrite <- ElA in TA, IA, EA.
  destruct (rpx_lines ls sA _ IA Hls EA ES TA) as [TS IS]. fold S in TS, IS.
  destruct (flush_implicit_spec S IS) as (_ & TF & CF & _).
  apply flash_rejected in Hread. destruct Hread as [-> _].
  unfold caps_text. fold ctext_of. rewrite stash_text_fix_last.
  assert (Etot : nonspace (stash_text (r_stash (flush_implicit S))) = total S).
  { rewrite <- TF. unfold total. rewrite CF. cbn [nonspace filter]. rewrite app_nil_r. reflexivity. }
  rewrite Etot, (tracks_total _ _ TS). f_equal.
  unfold sentx_text. cbv zeta. cbn [sentx_lines fst snd sentx]. fold s0 nx s1. fold sA.
  match goal with |- context [sentx s1 ws0 ?q] =>
    assert (X0 : q = ([], [])) by
      (destruct (fst (handle_double s0 w0)); [reflexivity|]; destruct Hw0 as [->|[->|[->| ->]]]; reflexivity);
    rewrite X0
  end.
  reflexivity.
Qed.

(* ---- the old alphabet is the special case: no edit, plain concatenation --------------------------------- *)
Lemma rp_word_not_ext : forall w, rp_word w = true -> extended_of w = None.
Proof.
  intros w Hw. destruct (extended_of w) as [x|] eqn:E; [|reflexivity]. exfalso.
  destruct (extended_classes w x E) as (Hc & Hp & Hs & Ht).
  destruct ctrl_commands as (C2 & C3 & C4 & Cd & Cc).
  unfold rp_word in Hw. rewrite Hp, Hs, Ht, E in Hw. rewrite andb_false_r, !orb_false_r in Hw.
  rewrite !orb_true_iff in Hw. destruct Hw as [[[[H|H]|H]|H]|H]; apply Z.eqb_eq in H; subst w; congruence.
Qed.

Theorem sentx_plain : forall ws s acc, forallb rp_word ws = true ->
  fst (sentx s ws acc) ++ snd (sentx s ws acc) = (fst acc ++ snd acc) ++ sent s ws.
Proof.
  induction ws as [|w t IH]; intros s acc H.
  - cbn [sentx sent]. rewrite app_nil_r. reflexivity.
  - cbn [forallb] in H. apply andb_true_iff in H. destruct H as [Hw Ht].
    cbn [sentx sent]. rewrite IH by exact Ht. rewrite app_assoc. f_equal.
    destruct (fst (handle_double s w)); [rewrite app_nil_r; reflexivity|].
    unfold xstep. destruct (is_flush w) eqn:F; cbn [fst snd].
    + rewrite word_chars_command by (rewrite (is_flush_command w F); reflexivity). rewrite !app_nil_r. reflexivity.
    + unfold edit_word. rewrite rpx_not_bs by (unfold rpx_word; rewrite Hw; reflexivity).
      rewrite apply_word_plain by (apply rp_word_not_ext; exact Hw). rewrite app_assoc. reflexivity.
Qed.

(* ---- the well-formed case: the stand-in is replaced -------------------------------------------------- *)
Lemma apply_word_replaces : forall w t pre c, extended_of w = Some t -> is_extended_value c = false ->
  apply_word w (pre ++ [c]) = pre ++ t.
Proof.
  intros w t pre c He Hc. unfold apply_word. rewrite He.
  assert (E : (match pre ++ [c] with [] => true | _ => is_extended_value (last (pre ++ [c]) 0) end) = false).
  { rewrite last_last. destruct (pre ++ [c]) eqn:E; [destruct pre; discriminate|exact Hc]. }
  rewrite E, removelast_last. reflexivity.
Qed.

Lemma apply_word_after_extended : forall w t pre c, extended_of w = Some t -> is_extended_value c = true ->
  apply_word w (pre ++ [c]) = pre ++ [c] ++ t.
Proof.
  intros w t pre c He Hc. unfold apply_word. rewrite He.
  assert (E : (match pre ++ [c] with [] => true | _ => is_extended_value (last (pre ++ [c]) 0) end) = true).
  { rewrite last_last. destruct (pre ++ [c]); [reflexivity|exact Hc]. }
  rewrite E, <- app_assoc. reflexivity.
Qed.

Lemma apply_word_empty : forall w t, extended_of w = Some t -> apply_word w [] = t.
Proof. intros w t He. unfold apply_word. rewrite He. reflexivity. Qed.

(* ---- examples (non-vacuity) ---------------------------------------------------------------------------- *)
(* roll-up 2, carriage return, PAC row 15, "ab": a roll-up state whose active buffer holds "ab" *)
Local Notation ex_enter := (translate_word (set_clock (rstate0 0) (lit "00:00:01:00") 0) w_ru2 (Some w_cr)).
Local Notation ex_state := (translate_words ex_enter [w_cr; 38000; 24930]).

Lemma ex_state_inv : rp_inv ex_state /\ r_err ex_state = None /\ content (buf ex_state) = [97; 98].
Proof.
  assert (E1 : r_err ex_enter = None) by (vm_compute; reflexivity).
  assert (Hfin : r_err ex_state = None) by (vm_compute; reflexivity).
  assert (Hf : forallb rp_word [w_cr; 38000; 24930] = true) by (vm_compute; reflexivity).
  destruct (rp_enter 0 (lit "00:00:01:00") w_ru2 (Some w_cr) ltac:(auto) E1) as [I1 _].
  destruct (rp_words [w_cr; 38000; 24930] _ I1 Hf E1 Hfin) as [_ I].
  split; [exact I|split; [exact Hfin|vm_compute; reflexivity]].
Qed.

(* 0x9220, extended A-acute, replaces the stand-in "b": "ab" -> "aÁ" *)
Example rpx_step_ext_example :
  extended_of 37408 = Some [193] /\ fst (handle_double ex_state 37408) = false /\
  apply_word 37408 [97; 98] = [97; 193] /\
  content (buf (translate_word ex_state 37408 None)) = [97; 193] /\ rp_inv (translate_word ex_state 37408 None).
Proof.
  destruct ex_state_inv as (I & He & C).
  assert (Hx : extended_of 37408 = Some [193]) by (vm_compute; reflexivity).
  assert (Hd : fst (handle_double ex_state 37408) = false) by (vm_compute; reflexivity).
  destruct (rpx_step_ext ex_state 37408 None [193] I Hx He Hd) as (_ & C' & I').
  split; [exact Hx|split; [exact Hd|split; [vm_compute; reflexivity|split; [|exact I']]]].
  rewrite C', C. vm_compute. reflexivity.
Qed.

Example rpx_step_bs_example :
  fst (handle_double ex_state w_bs) = false /\ content (buf (translate_word ex_state w_bs None)) = [97].
Proof.
  destruct ex_state_inv as (I & He & C).
  assert (Hd : fst (handle_double ex_state w_bs) = false) by (vm_compute; reflexivity).
  destruct (rpx_step_bs ex_state None I He Hd) as (_ & C' & _). split; [exact Hd|]. rewrite C', C. reflexivity.
Qed.

(* 0x9120, mid-row "white": appends a blank here; and that blank - not the "b" - is what a following extended character
   erases, which is why mid-row codes are kept out of the stream theorem *)
Example rpx_step_mid_example :
  memz 37152 scc_mid_row_codes = true /\
  content (buf (translate_word ex_state 37152 None)) = [97; 98; 32] /\
  content (buf (translate_word (translate_word ex_state 37152 (Some 37408)) 37408 None)) = [97; 98; 193].
Proof. repeat split; vm_compute; reflexivity. Qed.

(* why the extended step is stated on the raw text: `nonspace` does not commute with the implicit backspace *)
Example ext_step_not_on_total :
  nonspace (apply_word 37408 [97; 32]) = [97; 193] /\ apply_word 37408 (nonspace [97; 32]) = [193].
Proof. split; vm_compute; reflexivity. Qed.

(* a whole stream: "ab", extended (doubled: counted once) replaces "b"; carriage return; on the next line an extended
   character right after the flush finds nothing to erase; "ab", backspace (doubled: erases once),
   Erase-Displayed-Memory (no effect), "a" + blank, extended: erases the blank *)
Definition ex_lines : list sline :=
  [(lit "00:00:01:00", [w_ru2; w_cr; 38000; 24930; 37408; 37408; w_cr]);
   (lit "00:00:03:00", [38000; 37408; 24930; w_bs; w_bs; w_edm; 24864; 37408])].

Example rollup_painton_conserved_ext_example :
  exists caps, read 0 ex_lines = ROk caps /\
    forallb (fun l => forallb rpb_word (snd l)) ex_lines = true /\
    forallb (fun l => forallb rp_word (snd l)) ex_lines = false /\
    sentx_lines (rstate0 0) ex_lines ([], []) = ([97; 193], [193; 97; 97; 193]) /\
    nonspace (caps_text caps) = [97; 193; 193; 97; 97; 193].
Proof.
  destruct (read 0 ex_lines) as [caps| |] eqn:E; try (vm_compute in E; discriminate E).
  exists caps. split; [reflexivity|]. split; [vm_compute; reflexivity|]. split; [vm_compute; reflexivity|].
  split; [vm_compute; reflexivity|].
  rewrite (rollup_painton_conserved_ext 0 (lit "00:00:01:00") w_ru2 [w_cr; 38000; 24930; 37408; 37408; w_cr]
             [(lit "00:00:03:00", [38000; 37408; 24930; w_bs; w_bs; w_edm; 24864; 37408])] caps);
    [vm_compute; reflexivity|auto|vm_compute; reflexivity|vm_compute; reflexivity|exact E].
Qed.
