(* C03, WebVTT: the cue-text reading of encode(s) is s; encode(s) never contains "-->";
   the cue text assembled from any node list never has an empty line inside. *)
From Coq Require Import List ZArith Bool Lia ZifyBool.
From PV Require Import lib.Sx lib.Str model.TextNodes model.TextWrite spec.SpecTextVtt proofs.TextStrFacts.
Import ListNotations.
Open Scope Z_scope.

Definition arrow : str := [45; 45; 62].
Definition arrow_esc : str := lit "--&gt;".
Definition rep (s : str) : str := replace arrow arrow_esc s.

Definition vesc1 (c : Z) : str := if c =? 38 then lit "&amp;" else if c =? 60 then lit "&lt;" else [c].
Definition vesc (s : str) : str := flat_map vesc1 s.

Lemma vtt_encode_rep : forall s, vtt_encode s = rep (vesc s).
Proof.
  intros s. unfold vtt_encode, rep, vesc. change (lit "-->") with arrow. change (lit "--&gt;") with arrow_esc.
  f_equal. change (lit "&") with [38]. change (lit "<") with [60].
  rewrite !replace_single, flat_map_flat_map. apply flat_map_ext_str. intros x.
  unfold subst1 at 2. destruct (Z.eqb_spec x 38) as [->|H38]; [vm_compute; reflexivity|].
  cbn [flat_map]. rewrite app_nil_r. unfold subst1, vesc1.
  destruct (Z.eqb_spec x 38); [congruence|]. reflexivity.
Qed.

(* ---- rep: unfolding ------------------------------------------------------------ *)
Lemma rep_nil : rep [] = [].
Proof. reflexivity. Qed.

Lemma rep_cons : forall c t,
  rep (c :: t) = if is_prefix arrow (c :: t) then arrow_esc ++ rep (skipn 3 (c :: t)) else c :: rep t.
Proof. intros c t. unfold rep. rewrite replace_cons by discriminate. reflexivity. Qed.

Lemma rep_other : forall c t, c <> 45 -> rep (c :: t) = c :: rep t.
Proof.
  intros c t H. rewrite rep_cons. unfold arrow. cbn [is_prefix].
  destruct (Z.eqb_spec 45 c); [congruence|]. reflexivity.
Qed.

Lemma rep_arrow : forall t, rep (45 :: 45 :: 62 :: t) = arrow_esc ++ rep t.
Proof. intros t. rewrite rep_cons. reflexivity. Qed.

Lemma rep_dash : forall t, is_prefix [45; 62] t = false -> rep (45 :: t) = 45 :: rep t.
Proof.
  intros t H. rewrite rep_cons. unfold arrow. cbn [is_prefix]. rewrite Z.eqb_refl. cbn [andb].
  cbn [is_prefix] in H. rewrite H. reflexivity.
Qed.

Lemma prefix2_inv : forall a b t, is_prefix [a; b] t = true -> exists t', t = a :: b :: t'.
Proof. intros a b t H. destruct (is_prefix_inv _ _ H) as [t' ->]. exists t'. reflexivity. Qed.

Lemma arrow_inv : forall x, is_prefix arrow x = true -> exists t', x = 45 :: 45 :: 62 :: t'.
Proof. intros x H. destruct (is_prefix_inv _ _ H) as [t' ->]. exists t'. reflexivity. Qed.

(* the first two characters survive rep *)
Lemma rep_prefix1 : forall t, is_prefix [62] (rep t) = is_prefix [62] t.
Proof.
  intros [|b t]; [reflexivity|]. rewrite rep_cons.
  destruct (is_prefix arrow (b :: t)) eqn:E.
  - unfold arrow in E. cbn [is_prefix] in E. apply andb_true_iff in E. destruct E as [E _].
    apply Z.eqb_eq in E. subst b. reflexivity.
  - reflexivity.
Qed.

Lemma rep_prefix2 : forall t, is_prefix [45; 62] (rep t) = is_prefix [45; 62] t.
Proof.
  intros [|a t]; [reflexivity|]. rewrite rep_cons.
  destruct (is_prefix arrow (a :: t)) eqn:E.
  - destruct (arrow_inv _ E) as [t' ->]. reflexivity.
  - change (is_prefix [45; 62] (a :: rep t)) with ((45 =? a) && is_prefix [62] (rep t)).
    change (is_prefix [45; 62] (a :: t)) with ((45 =? a) && is_prefix [62] t).
    rewrite rep_prefix1. reflexivity.
Qed.

(* ---- encode never contains the arrow -------------------------------------------- *)
Lemma rep_no_arrow_n : forall n x, (length x <= n)%nat -> is_infix arrow (rep x) = false.
Proof.
  induction n as [|n IH]; intros x Hn.
  - destruct x; [reflexivity|simpl in Hn; lia].
  - destruct x as [|c t]; [reflexivity|]. rewrite rep_cons.
    destruct (is_prefix arrow (c :: t)) eqn:E.
    + destruct (arrow_inv _ E) as [t' Ht]. rewrite Ht. cbn [skipn].
      assert (Hr : is_infix arrow (rep t') = false).
      { apply IH. injection Ht as -> ->. cbn [length] in Hn. lia. }
      unfold arrow_esc. cbn [lit app is_infix]. unfold arrow in *. cbn. exact Hr.
    + cbn [is_infix]. rewrite IH by (cbn [length] in Hn; lia). rewrite orb_false_r.
      change (is_prefix arrow (c :: rep t)) with ((45 =? c) && is_prefix [45; 62] (rep t)).
      rewrite rep_prefix2. exact E.
Qed.

Theorem vtt_encode_no_arrow : forall s, is_infix (lit "-->") (vtt_encode s) = false.
Proof. intros s. rewrite vtt_encode_rep. apply (rep_no_arrow_n (length (vesc s))). lia. Qed.

(* ---- reading back ------------------------------------------------------------------ *)
Lemma vesc_prefix2 : forall t, is_prefix [45; 62] (vesc t) = is_prefix [45; 62] t.
Proof.
  intros [|a t]; [reflexivity|]. unfold vesc. cbn [flat_map]. fold (vesc t).
  unfold vesc1 at 1.
  destruct (Z.eqb_spec a 38) as [->|H38]; [reflexivity|].
  destruct (Z.eqb_spec a 60) as [->|H60]; [reflexivity|].
  cbn [app is_prefix]. destruct (45 =? a); [|reflexivity]. cbn [andb].
  destruct t as [|b t']; [reflexivity|]. unfold vesc. cbn [flat_map]. unfold vesc1 at 1.
  destruct (Z.eqb_spec b 38) as [->|B38]; [reflexivity|].
  destruct (Z.eqb_spec b 60) as [->|B60]; [reflexivity|].
  cbn [app is_prefix]. reflexivity.
Qed.

Lemma ent_amp : vtt_entity (lit "&amp") = Some [38]. Proof. vm_compute. reflexivity. Qed.
Lemma ent_lt : vtt_entity (lit "&lt") = Some [60]. Proof. vm_compute. reflexivity. Qed.
Lemma ent_gt : vtt_entity (lit "&gt") = Some [62]. Proof. vm_compute. reflexivity. Qed.

(* the three references the writer emits, read by the tokenizer from the data state *)
Lemma display_amp : forall R out, vtt_display_aux VData (lit "&amp;" ++ R) out = vtt_display_aux VData R (38 :: out).
Proof.
  intros R out. change (lit "&amp;" ++ R) with (38 :: 97 :: 109 :: 112 :: 59 :: R).
  cbn [vtt_display_aux]. change (38 =? 38) with true. cbv iota.
  change (97 =? 59) with false. change (109 =? 59) with false. change (112 =? 59) with false. cbv iota.
  change (is_alnum 97) with true. change (is_alnum 109) with true. change (is_alnum 112) with true. cbn [orb]. cbv iota.
  change (59 =? 59) with true. cbv iota. change (rev [112; 109; 97; 38]) with (lit "&amp"). rewrite ent_amp. reflexivity.
Qed.
Lemma display_lt : forall R out, vtt_display_aux VData (lit "&lt;" ++ R) out = vtt_display_aux VData R (60 :: out).
Proof.
  intros R out. change (lit "&lt;" ++ R) with (38 :: 108 :: 116 :: 59 :: R).
  cbn [vtt_display_aux]. change (38 =? 38) with true. cbv iota.
  change (108 =? 59) with false. change (116 =? 59) with false. cbv iota.
  change (is_alnum 108) with true. change (is_alnum 116) with true. cbn [orb]. cbv iota.
  change (59 =? 59) with true. cbv iota. change (rev [116; 108; 38]) with (lit "&lt"). rewrite ent_lt. reflexivity.
Qed.
Lemma display_gt : forall R out, vtt_display_aux VData (lit "&gt;" ++ R) out = vtt_display_aux VData R (62 :: out).
Proof.
  intros R out. change (lit "&gt;" ++ R) with (38 :: 103 :: 116 :: 59 :: R).
  cbn [vtt_display_aux]. change (38 =? 38) with true. cbv iota.
  change (103 =? 59) with false. change (116 =? 59) with false. cbv iota.
  change (is_alnum 103) with true. change (is_alnum 116) with true. cbn [orb]. cbv iota.
  change (59 =? 59) with true. cbv iota. change (rev [116; 103; 38]) with (lit "&gt"). rewrite ent_gt. reflexivity.
Qed.
Lemma display_char : forall c R out, c <> 38 -> c <> 60 ->
  vtt_display_aux VData (c :: R) out = vtt_display_aux VData R (c :: out).
Proof.
  intros c R out H1 H2. cbn [vtt_display_aux]. destruct (Z.eqb_spec c 38); [congruence|]. destruct (Z.eqb_spec c 60); [congruence|]. reflexivity.
Qed.

Lemma display_roundtrip_n : forall n s, (length s <= n)%nat -> forall out,
  vtt_display_aux VData (rep (vesc s)) out = rev out ++ s.
Proof.
  induction n as [|n IH]; intros s Hn out.
  - destruct s; [|simpl in Hn; lia]. cbn. rewrite app_nil_r. reflexivity.
  - destruct s as [|c t].
    { cbn. rewrite app_nil_r. reflexivity. }
    cbn [length] in Hn. unfold vesc. cbn [flat_map]. fold (vesc t). unfold vesc1.
    destruct (Z.eqb_spec c 38) as [->|H38].
    { change (lit "&amp;" ++ vesc t) with (38 :: 97 :: 109 :: 112 :: 59 :: vesc t).
      rewrite !rep_other by discriminate.
      change (38 :: 97 :: 109 :: 112 :: 59 :: rep (vesc t)) with (lit "&amp;" ++ rep (vesc t)).
      rewrite display_amp, IH by lia. cbn [rev]. rewrite <- app_assoc. reflexivity. }
    destruct (Z.eqb_spec c 60) as [->|H60].
    { change (lit "&lt;" ++ vesc t) with (38 :: 108 :: 116 :: 59 :: vesc t).
      rewrite !rep_other by discriminate.
      change (38 :: 108 :: 116 :: 59 :: rep (vesc t)) with (lit "&lt;" ++ rep (vesc t)).
      rewrite display_lt, IH by lia. cbn [rev]. rewrite <- app_assoc. reflexivity. }
    cbn [app].
    destruct (Z.eqb_spec c 45) as [->|H45].
    + destruct (is_prefix [45; 62] t) eqn:E.
      * destruct (prefix2_inv _ _ _ E) as [t' ->].
        unfold vesc. cbn [flat_map]. fold (vesc t'). change (vesc1 45) with [45]. change (vesc1 62) with [62].
        cbn [app]. rewrite rep_arrow. change (arrow_esc ++ rep (vesc t')) with (45 :: 45 :: lit "&gt;" ++ rep (vesc t')).
        rewrite !display_char by discriminate. rewrite display_gt.
        rewrite IH by (cbn [length] in Hn; lia). cbn [rev]. rewrite <- !app_assoc. reflexivity.
      * rewrite rep_dash by (rewrite vesc_prefix2; exact E).
        rewrite display_char by discriminate. rewrite IH by lia. cbn [rev]. rewrite <- app_assoc. reflexivity.
    + rewrite rep_other by exact H45.
      rewrite display_char by assumption. rewrite IH by lia. cbn [rev]. rewrite <- app_assoc. reflexivity.
Qed.

Theorem vtt_encode_roundtrip : forall s, vtt_display (vtt_encode s) = s.
Proof. intros s. unfold vtt_display. rewrite vtt_encode_rep. apply (display_roundtrip_n (length s)). lia. Qed.

(* ---- no empty line inside the cue text ------------------------------------------------ *)
(* left-to-right automaton: prev_nl = "at the start of a line"; fails on a line feed at a line start *)
Fixpoint nl_ok (prev_nl : bool) (s : str) : bool :=
  match s with
  | [] => true
  | c :: t => if c =? 10 then negb prev_nl && nl_ok true t else nl_ok false t
  end.

Definition no_nl (s : str) : bool := forallb (fun c => negb (c =? 10)) s.

Lemma split_ch_aux_nonnil : forall sep s cur, split_ch_aux sep s cur <> [].
Proof. induction s as [|c t IH]; intros cur; cbn [split_ch_aux]; [discriminate|]. destruct (c =? sep); [discriminate|apply IH]. Qed.

(* what nl_ok means: every line but the last is non-empty *)
Lemma nl_ok_lines_aux : forall s cur,
  forallb str_nonempty (removelast (split_ch_aux 10 s cur)) = nl_ok (negb (str_nonempty cur)) s.
Proof.
  induction s as [|c t IH]; intros cur; [reflexivity|].
  cbn [split_ch_aux nl_ok]. destruct (c =? 10).
  - pose proof (split_ch_aux_nonnil 10 t []) as Hn.
    destruct (split_ch_aux 10 t []) as [|x l] eqn:E; [congruence|].
    change (removelast (rev cur :: x :: l)) with (rev cur :: removelast (x :: l)). rewrite <- E. cbn [forallb]. rewrite (IH []). cbn [str_nonempty negb].
    rewrite negb_involutive. f_equal. destruct cur as [|a cur']; [reflexivity|].
    cbn [rev str_nonempty]. destruct (rev cur' ++ [a]) eqn:E2; [|reflexivity].
    apply app_eq_nil in E2. destruct E2; discriminate.
  - rewrite (IH (c :: cur)). reflexivity.
Qed.

Lemma nl_ok_lines : forall s, nl_ok true s = forallb str_nonempty (removelast (split_ch 10 s)).
Proof. intros s. unfold split_ch. rewrite nl_ok_lines_aux. reflexivity. Qed.

Lemma nl_ok_app : forall a pn rest, no_nl a = true ->
  nl_ok pn (a ++ rest) = nl_ok (if str_nonempty a then false else pn) rest.
Proof.
  induction a as [|c a IH]; intros pn rest Ha; [reflexivity|].
  cbn [no_nl forallb] in Ha. apply andb_true_iff in Ha. destruct Ha as [Hc Ha].
  cbn [app nl_ok str_nonempty]. destruct (c =? 10); [discriminate|].
  rewrite (IH false rest Ha). destruct (str_nonempty a); reflexivity.
Qed.

(* replace keeps a character predicate *)
Lemma forallb_skipn : forall (P : Z -> bool) n s, forallb P s = true -> forallb P (skipn n s) = true.
Proof.
  intros P n. induction n as [|n IH]; intros s H; [exact H|]. destruct s as [|c t]; [reflexivity|].
  cbn [skipn]. cbn [forallb] in H. apply andb_true_iff in H. apply IH. apply H.
Qed.

Lemma replace_forallb_n : forall (P : Z -> bool) p r, p <> [] -> forallb P r = true ->
  forall n s, (length s <= n)%nat -> forallb P s = true -> forallb P (replace p r s) = true.
Proof.
  intros P p r Hp Hr. induction n as [|n IH]; intros s Hn Hs.
  - destruct s; [rewrite replace_nil; reflexivity|simpl in Hn; lia].
  - destruct s as [|c t]; [rewrite replace_nil; reflexivity|].
    rewrite replace_cons by exact Hp. destruct (is_prefix p (c :: t)).
    + rewrite forallb_app, Hr. cbn [andb]. apply IH.
      * assert (length (skipn (length p) (c :: t)) < length (c :: t))%nat.
        { apply skipn_length_lt; [destruct p; [congruence|simpl; lia]|discriminate]. } lia.
      * apply forallb_skipn. exact Hs.
    + cbn [forallb] in Hs |- *. apply andb_true_iff in Hs. destruct Hs as [Hc Ht]. rewrite Hc. cbn [andb].
      apply IH; [cbn [length] in Hn; lia|exact Ht].
Qed.

Lemma replace_forallb : forall (P : Z -> bool) p r s, p <> [] -> forallb P r = true -> forallb P s = true ->
  forallb P (replace p r s) = true.
Proof. intros P p r s Hp Hr Hs. apply (replace_forallb_n P p r Hp Hr (length s)); [lia|exact Hs]. Qed.

Lemma vtt_encode_no_nl : forall s, no_nl s = true -> no_nl (vtt_encode s) = true.
Proof.
  intros s H. unfold vtt_encode, no_nl.
  repeat (apply replace_forallb; [discriminate|reflexivity|]). exact H.
Qed.

Lemma vtt_text_props : forall s, no_nl s = true -> no_nl (vtt_text s) = true /\ str_nonempty (vtt_text s) = true.
Proof.
  intros s H. unfold vtt_text. pose proof (vtt_encode_no_nl s H) as He.
  destruct (vtt_encode s) eqn:E; [split; reflexivity|]. split; [exact He|reflexivity].
Qed.

Fixpoint texts_no_nl (ns : list node) : bool :=
  match ns with
  | [] => true
  | NText s :: t => no_nl s && texts_no_nl t
  | _ :: t => texts_no_nl t
  end.

Lemma vtt_open_no_nl : forall st, no_nl (vtt_open st) = true.
Proof. intros [[] [] [] c]; reflexivity. Qed.
Lemma vtt_close_no_nl : forall st, no_nl (vtt_close st) = true.
Proof. intros [[] [] [] c]; reflexivity. Qed.

(* the automaton as a state transformer (None = an empty line was met) *)
Fixpoint nl_run (pn : bool) (s : str) : option bool :=
  match s with
  | [] => Some pn
  | c :: t => if c =? 10 then (if pn then None else nl_run true t) else nl_run false t
  end.

Lemma nl_ok_run : forall s pn, nl_ok pn s = match nl_run pn s with Some _ => true | None => false end.
Proof.
  induction s as [|c t IH]; intros pn; [reflexivity|]. cbn [nl_ok nl_run].
  destruct (c =? 10); [|apply IH]. destruct pn; cbn [negb andb]; [reflexivity|apply IH].
Qed.

Lemma nl_run_app : forall a b pn,
  nl_run pn (a ++ b) = match nl_run pn a with Some st => nl_run st b | None => None end.
Proof.
  induction a as [|c a IH]; intros b pn; [reflexivity|]. cbn [app nl_run].
  destruct (c =? 10); [|apply IH]. destruct pn; [reflexivity|apply IH].
Qed.

Lemma nl_run_no_nl : forall a pn, no_nl a = true -> nl_run pn a = Some (if str_nonempty a then false else pn).
Proof.
  induction a as [|c a IH]; intros pn H; [reflexivity|].
  cbn [no_nl forallb] in H. apply andb_true_iff in H. destruct H as [Hc Ha].
  cbn [nl_run str_nonempty]. destruct (c =? 10); [discriminate|]. rewrite (IH false Ha). destruct (str_nonempty a); reflexivity.
Qed.

Lemma nl_run_rep_n : forall n x, (length x <= n)%nat -> forall pn, nl_run pn (rep x) = nl_run pn x.
Proof.
  induction n as [|n IH]; intros x Hn pn.
  - destruct x; [reflexivity|simpl in Hn; lia].
  - destruct x as [|c t]; [reflexivity|]. rewrite rep_cons.
    destruct (is_prefix arrow (c :: t)) eqn:E.
    + destruct (arrow_inv _ E) as [t' Ht]. rewrite Ht. cbn [skipn]. unfold arrow_esc. cbn [lit app].
      cbn -[rep]. apply IH. injection Ht as -> ->. cbn [length] in Hn. lia.
    + cbn [nl_run]. cbn [length] in Hn. destruct (c =? 10); [destruct pn; [reflexivity|]|]; apply IH; lia.
Qed.

Lemma nl_run_rep : forall x pn, nl_run pn (rep x) = nl_run pn x.
Proof. intros x pn. apply (nl_run_rep_n (length x)). lia. Qed.

Lemma rep_no_arrow : forall x, is_infix arrow (rep x) = false.
Proof. intros x. apply (rep_no_arrow_n (length x)). lia. Qed.

(* appending a piece without '-' that does not start with '>' cannot create an arrow *)
Definition safe_piece (p : str) : bool := forallb (fun c => negb (c =? 45)) p && negb (is_prefix [62] p).

Lemma no_dash_no_arrow : forall p, forallb (fun c => negb (c =? 45)) p = true -> is_infix arrow p = false.
Proof.
  induction p as [|c p IH]; intros H; [reflexivity|].
  cbn [forallb] in H. apply andb_true_iff in H. destruct H as [Hc Hp].
  cbn [is_infix]. rewrite (IH Hp), orb_false_r. unfold arrow. cbn [is_prefix].
  rewrite Z.eqb_sym. destruct (c =? 45); [discriminate|reflexivity].
Qed.

Lemma no_arrow_app_safe : forall s p, is_infix arrow s = false -> safe_piece p = true -> is_infix arrow (s ++ p) = false.
Proof.
  intros s p Hs Hp. unfold safe_piece in Hp. apply andb_true_iff in Hp. destruct Hp as [Hd H62].
  induction s as [|c s IH].
  - cbn [app]. apply no_dash_no_arrow. exact Hd.
  - cbn [is_infix] in Hs. apply orb_false_iff in Hs. destruct Hs as [Hpre Hs].
    cbn [app is_infix]. rewrite (IH Hs), orb_false_r.
    unfold arrow in *. destruct s as [|d [|e s']]; cbn [app is_prefix] in *.
    + destruct (45 =? c); [|reflexivity]. cbn [andb]. destruct p as [|x p']; [reflexivity|].
      cbn [forallb] in Hd. apply andb_true_iff in Hd. destruct Hd as [Hx _].
      rewrite (Z.eqb_sym 45 x). destruct (x =? 45); [discriminate|reflexivity].
    + destruct (45 =? c); [|reflexivity]. destruct (45 =? d); [|reflexivity]. cbn [andb].
      destruct p as [|x p']; [reflexivity|]. cbn [is_prefix] in H62. rewrite andb_true_r in H62.
      destruct (62 =? x); [discriminate|reflexivity].
    + exact Hpre.
Qed.

Lemma vtt_open_safe : forall st, safe_piece (vtt_open st) = true.
Proof. intros [[] [] [] c]; reflexivity. Qed.
Lemma vtt_close_safe : forall st, safe_piece (vtt_close st) = true.
Proof. intros [[] [] [] c]; reflexivity. Qed.

(* generic invariant of a left fold *)
Lemma fold_left_inv : forall {A B} (P : A -> Prop) (Q : B -> Prop) (f : A -> B -> A) l a,
  (forall a b, P a -> Q b -> P (f a b)) -> Forall Q l -> P a -> P (fold_left f l a).
Proof.
  intros A B P Q f l. induction l as [|b l IH]; intros a Hstep Hl Ha; [exact Ha|].
  inversion Hl; subst. cbn [fold_left]. apply IH; [exact Hstep|assumption|]. apply Hstep; assumption.
Qed.

(* --- the cue text never contains the arrow (any node list) --- *)
Lemma vtt_step_no_arrow : forall acc n,
  is_infix arrow (fst (fst acc)) = false -> is_infix arrow (fst (fst (vtt_step true acc n))) = false.
Proof.
  intros [[s first] prev] n H. cbn [fst] in H. destruct n as [t| |[] st]; cbn [vtt_step fst].
  - apply rep_no_arrow.
  - apply no_arrow_app_safe; [exact H|]. destruct first; [reflexivity|]. destruct prev; reflexivity.
  - apply no_arrow_app_safe; [exact H|apply vtt_open_safe].
  - apply no_arrow_app_safe; [exact H|apply vtt_close_safe].
Qed.

Theorem vtt_cue_text_no_arrow : forall ns, is_infix (lit "-->") (vtt_cue_text ns) = false.
Proof.
  intros ns. unfold vtt_cue_text, vtt_cue_text_gen.
  apply (fold_left_inv (fun acc => is_infix arrow (fst (fst acc)) = false) (fun _ => True)).
  - intros a b Ha _. apply vtt_step_no_arrow. exact Ha.
  - apply Forall_forall. intros; exact I.
  - reflexivity.
Qed.

Theorem vtt_arrow_across_nodes_refuted : exists ns, is_infix (lit "-->") (vtt_cue_text_prefix ns) = true.
Proof. exists [NText (lit "a--"); NText (lit ">b")]. vm_compute. reflexivity. Qed.

(* --- no empty line inside the cue text --- *)
Definition vinv (acc : str * bool * bool) : Prop :=
  exists st, nl_run true (fst (fst acc)) = Some st /\
             (st = true -> snd (fst acc) = true \/ snd acc = false).

Definition node_no_nl (n : node) : Prop := match n with NText t => no_nl t = true | _ => True end.

Lemma vtt_step_vinv : forall acc n, vinv acc -> node_no_nl n -> vinv (vtt_step true acc n).
Proof.
  intros [[s first] prev] n [st [Hrun Hinv]] Hn. cbn [fst snd] in *. unfold vinv.
  destruct n as [t| |[] sty]; cbn [vtt_step fst snd].
  - destruct (vtt_text_props t Hn) as [H1 H2]. exists false. split; [|discriminate].
    change (arrow_fix (s ++ vtt_text t)) with (rep (s ++ vtt_text t)).
    rewrite nl_run_rep, nl_run_app, Hrun, (nl_run_no_nl _ st H1), H2. reflexivity.
  - exists true. split; [|intros _; right; reflexivity].
    rewrite nl_run_app, Hrun. destruct first.
    + rewrite nl_run_app, (nl_run_no_nl nbsp_ent st eq_refl). reflexivity.
    + destruct prev.
      * cbn [app nl_run]. change (10 =? 10) with true. cbv iota. destruct st; [|reflexivity].
        destruct (Hinv eq_refl); discriminate.
      * rewrite nl_run_app, (nl_run_no_nl nbsp_ent st eq_refl). reflexivity.
  - eexists. split; [rewrite nl_run_app, Hrun; apply nl_run_no_nl; apply vtt_open_no_nl|]. intros _. right. reflexivity.
  - eexists. split; [rewrite nl_run_app, Hrun; apply nl_run_no_nl; apply vtt_close_no_nl|]. intros _. right. reflexivity.
Qed.

Lemma texts_no_nl_Forall : forall ns, texts_no_nl ns = true -> Forall node_no_nl ns.
Proof.
  induction ns as [|n ns IH]; intros H; [constructor|].
  destruct n as [t| |a b]; cbn [texts_no_nl] in H.
  - apply andb_true_iff in H. destruct H as [Ht Hns]. constructor; [exact Ht|apply IH; exact Hns].
  - constructor; [exact I|apply IH; exact H].
  - constructor; [exact I|apply IH; exact H].
Qed.

(* every line of the cue text except possibly the last is non-empty: no blank line ends the cue early *)
Theorem vtt_cue_text_no_blank_line : forall ns, texts_no_nl ns = true ->
  forallb str_nonempty (removelast (split_ch 10 (vtt_cue_text ns))) = true.
Proof.
  intros ns H. rewrite <- nl_ok_lines, nl_ok_run. unfold vtt_cue_text, vtt_cue_text_gen.
  assert (G : vinv (fold_left (vtt_step true) ns ([], true, false))).
  { apply (fold_left_inv vinv node_no_nl).
    - intros a b Ha Hb. apply vtt_step_vinv; assumption.
    - apply texts_no_nl_Forall. exact H.
    - exists true. split; [reflexivity|]. intros _. left. reflexivity. }
  destruct G as [st [-> _]]. reflexivity.
Qed.
