(* C12 (wave 7): cue settings of a timing line are kept verbatim by the reader, and survive write -> read. *)
From Coq Require Import List ZArith QArith Bool Lia.
From PV Require Import lib.Sx lib.Str lib.Result model.Geometry model.Positioning model.TimeRead model.VttSettings.
From PV Require Import proofs.GeomStr.
Import ListNotations.
Open Scope Z_scope.

(* a token: non-empty, no white space; white space: non-empty, white space only; settings: non-empty, no white space at
   either end (inside anything but a line feed is allowed - blanks, tabs, commas, upper case) *)
Definition token (t : str) : Prop := t <> [] /\ forallb not_space t = true.
Definition blanks (w : str) : Prop := w <> [] /\ forallb is_space w = true.
Definition clean_settings (s : str) : Prop :=
  exists a mid, (s = [a] \/ exists b, s = a :: mid ++ [b] /\ is_space b = false) /\ is_space a = false.

Lemma clean_nonempty : forall s, clean_settings s -> exists a t, s = a :: t /\ is_space a = false.
Proof. intros s (a & mid & [->|(b & -> & _)] & Ha); eauto. Qed.

Lemma clean_last : forall s, clean_settings s -> s <> [] /\ is_space (last s 0) = false.
Proof.
  intros s (a & mid & [->|(b & -> & Hb)] & Ha); (split; [discriminate|]).
  - exact Ha.
  - change (a :: mid ++ [b]) with ((a :: mid) ++ [b]). rewrite last_last. exact Hb.
Qed.

Lemma not_space_false : forall c, is_space c = true -> not_space c = false.
Proof. intros c H. unfold not_space. rewrite H. reflexivity. Qed.
Lemma not_space_true : forall c, is_space c = false -> not_space c = true.
Proof. intros c H. unfold not_space. rewrite H. reflexivity. Qed.

Lemma stops_blanks : forall w rest, blanks w -> stops not_space (w ++ rest).
Proof.
  intros [|c w] rest [Hn Hw]; [contradiction|]. cbn [app stops]. cbn [forallb] in Hw. apply andb_true_iff in Hw.
  apply not_space_false. exact (proj1 Hw).
Qed.

Lemma stops_token : forall t rest, token t -> stops is_space (t ++ rest).
Proof.
  intros [|c t] rest [Hn Ht]; [contradiction|]. cbn [app stops]. cbn [forallb] in Ht. apply andb_true_iff in Ht.
  destruct Ht as [Hc _]. unfold not_space in Hc. destruct (is_space c); [discriminate|reflexivity].
Qed.

Lemma lstrip_blanks : forall w s, forallb is_space w = true -> stops is_space s -> lstrip_by is_space (w ++ s) = s.
Proof.
  induction w as [|c w IH]; intros s Hw Hs; cbn [app lstrip_by].
  - destruct s as [|x s]; [reflexivity|]. cbn [stops] in Hs. cbn [lstrip_by]. rewrite Hs. reflexivity.
  - cbn [forallb] in Hw. apply andb_true_iff in Hw. destruct Hw as [H1 H2]. rewrite H1. apply IH; assumption.
Qed.

Lemma rstrip_blanks : forall s w, forallb is_space w = true -> s <> [] -> is_space (last s 0) = false ->
  rstrip_by is_space (s ++ w) = s.
Proof.
  intros s w Hw Hn Hl. unfold rstrip_by. rewrite rev_app_distr.
  rewrite lstrip_blanks.
  - apply rev_involutive.
  - rewrite forallb_forall in *. intros x Hx. apply Hw. apply in_rev. exact Hx.
  - destruct (exists_last Hn) as (l & x & ->). rewrite last_last in Hl. rewrite rev_unit. cbn [stops]. exact Hl.
Qed.

Lemma strip_settings : forall w3 s w4, forallb is_space w3 = true -> forallb is_space w4 = true -> clean_settings s ->
  strip (w3 ++ s ++ w4) = s.
Proof.
  intros w3 s w4 H3 H4 Hs. unfold strip, strip_by. destruct (clean_nonempty s Hs) as (a & t & Es & Ha). destruct (clean_last s Hs) as [Hn Hl].
  rewrite lstrip_blanks; [|exact H3|rewrite Es; cbn [app stops]; exact Ha].
  apply rstrip_blanks; assumption.
Qed.

Definition arrow : str := lit "-->".

(* shape of every timing line the pattern accepts with settings: token, blanks, "-->", blanks, token, blanks, settings,
   optional trailing blanks *)
Section Line.
  Variables t1 t2 w1 w2 : str.
  Hypothesis T1 : token t1.
  Hypothesis T2 : token t2.
  Hypothesis W1 : blanks w1.
  Hypothesis W2 : blanks w2.

  Lemma arrow_stops_space : forall rest, stops is_space (arrow ++ rest).
  Proof. intros rest. cbn. reflexivity. Qed.

  Lemma timing_groups : forall tail, stops not_space tail ->
    vtt_timing_line (t1 ++ w1 ++ arrow ++ w2 ++ t2 ++ tail) = Some (t1, t2).
  Proof.
    intros tail Htail. unfold vtt_timing_line.
    destruct T1 as [N1 F1], T2 as [N2 F2], W1 as [M1 G1], W2 as [M2 G2].
    rewrite (take_while_app not_space t1 _ F1 (stops_blanks w1 _ W1)).
    rewrite (drop_while_app not_space t1 _ F1 (stops_blanks w1 _ W1)).
    rewrite (drop_while_app is_space w1 _ G1 (arrow_stops_space _)).
    change (skipn 3 (arrow ++ w2 ++ t2 ++ tail)) with (w2 ++ t2 ++ tail).
    rewrite (drop_while_app is_space w2 _ G2 (stops_token t2 tail T2)).
    rewrite (take_while_app not_space t2 _ F2 Htail).
    destruct t1 as [|a1 t1']; [contradiction|]. destruct t2 as [|a2 t2']; [contradiction|].
    assert (S1 : starts_space (w1 ++ arrow ++ w2 ++ (a2 :: t2') ++ tail) = true).
    { destruct w1 as [|c w]; [contradiction|]. cbn [app starts_space]. cbn [forallb] in G1. apply andb_true_iff in G1. exact (proj1 G1). }
    assert (S3 : starts_space (w2 ++ (a2 :: t2') ++ tail) = true).
    { destruct w2 as [|c w]; [contradiction|]. cbn [app starts_space]. cbn [forallb] in G2. apply andb_true_iff in G2. exact (proj1 G2). }
    rewrite S1, S3. change (is_prefix (lit "-->") (arrow ++ w2 ++ (a2 :: t2') ++ tail)) with true. reflexivity.
  Qed.

  (* the reader keeps the settings exactly: inner blanks, tabs, case, unknown keys - whatever stands between the white
     space after the end time and the trailing white space *)
  Theorem reader_keeps_settings : forall w3 s w4, blanks w3 -> forallb is_space w4 = true -> clean_settings s ->
    vtt_cue_settings (t1 ++ w1 ++ arrow ++ w2 ++ t2 ++ w3 ++ s ++ w4) = Some (Some s).
  Proof.
    intros w3 s w4 W3 H4 Hs. unfold vtt_cue_settings.
    rewrite (timing_groups (w3 ++ s ++ w4) (stops_blanks w3 _ W3)).
    destruct T1 as [N1 F1], T2 as [N2 F2], W1 as [M1 G1], W2 as [M2 G2].
    rewrite (drop_while_app not_space t1 _ F1 (stops_blanks w1 _ W1)).
    rewrite (drop_while_app is_space w1 _ G1 (arrow_stops_space _)).
    change (skipn 3 (arrow ++ w2 ++ t2 ++ w3 ++ s ++ w4)) with (w2 ++ t2 ++ w3 ++ s ++ w4).
    rewrite (drop_while_app is_space w2 _ G2 (stops_token t2 _ T2)).
    rewrite (drop_while_app not_space t2 _ F2 (stops_blanks w3 _ W3)).
    rewrite (strip_settings w3 s w4 (proj2 W3) H4 Hs).
    destruct (clean_nonempty s Hs) as (a & t & -> & _). reflexivity.
  Qed.

  (* a timing line without settings (nothing, or white space only, after the end time) gives no layout *)
  Theorem reader_no_settings : forall w4, forallb is_space w4 = true ->
    vtt_cue_settings (t1 ++ w1 ++ arrow ++ w2 ++ t2 ++ w4) = Some None.
  Proof.
    intros w4 H4. unfold vtt_cue_settings.
    assert (St : stops not_space w4).
    { destruct w4 as [|c w]; [exact I|]. cbn [stops]. cbn [forallb] in H4. apply andb_true_iff in H4. apply not_space_false. exact (proj1 H4). }
    rewrite (timing_groups w4 St).
    destruct T1 as [N1 F1], T2 as [N2 F2], W1 as [M1 G1], W2 as [M2 G2].
    rewrite (drop_while_app not_space t1 _ F1 (stops_blanks w1 _ W1)).
    rewrite (drop_while_app is_space w1 _ G1 (arrow_stops_space _)).
    change (skipn 3 (arrow ++ w2 ++ t2 ++ w4)) with (w2 ++ t2 ++ w4).
    rewrite (drop_while_app is_space w2 _ G2 (stops_token t2 _ T2)).
    rewrite (drop_while_app not_space t2 _ F2 St).
    assert (E : strip w4 = []).
    { unfold strip, strip_by. replace (lstrip_by is_space w4) with (@nil Z); [reflexivity|].
      rewrite <- (app_nil_r w4). symmetry. apply lstrip_blanks; [exact H4|exact I]. }
    rewrite E. reflexivity.
  Qed.
End Line.

(* whatever the reader keeps is clean: no white space at either end - so it is a fixed point of write -> read *)
Lemma lstrip_stops : forall s, stops is_space (lstrip_by is_space s).
Proof.
  induction s as [|c s IH]; [exact I|]. cbn [lstrip_by]. destruct (is_space c) eqn:E; [exact IH|]. cbn [stops]. exact E.
Qed.

Lemma strip_clean_or_empty : forall r, strip r = [] \/ clean_settings (strip r).
Proof.
  intros r. unfold strip, strip_by, rstrip_by. set (l := lstrip_by is_space r).
  pose proof (lstrip_stops (rev l)) as Hr. set (u := lstrip_by is_space (rev l)) in *.
  destruct u as [|b u'] eqn:Eu; [left; reflexivity|]. right. cbn [stops] in Hr.
  (* rev (b :: u') ends with b; its head is the head of l, which is not a space *)
  assert (Suffix : exists p, rev l = p ++ b :: u').
  { subst u. clear Hr. revert Eu. generalize (rev l) as x. induction x as [|c x IH]; intros Eu; [discriminate|].
    cbn [lstrip_by] in Eu. destruct (is_space c).
    - destruct (IH Eu) as (p & ->). exists (c :: p). reflexivity.
    - exists []. exact Eu. }
  destruct Suffix as (p & Hp).
  assert (Hl : l = rev u' ++ b :: rev p).
  { rewrite <- (rev_involutive l), Hp, rev_app_distr. cbn [rev]. rewrite <- app_assoc. reflexivity. }
  assert (Hhead : stops is_space l) by (apply lstrip_stops).
  cbn [rev]. destruct (rev u') as [|a m] eqn:Er.
  - cbn [app]. exists b, []. split; [left; reflexivity|exact Hr].
  - cbn [app]. exists a, m. split; [right; exists b; split; [reflexivity|exact Hr]|].
    rewrite Hl in Hhead. cbn [app stops] in Hhead. exact Hhead.
Qed.

Theorem reader_settings_clean : forall line s, vtt_cue_settings line = Some (Some s) -> clean_settings s.
Proof.
  intros line s H. unfold vtt_cue_settings in H. destruct (vtt_timing_line line); [|discriminate].
  match type of H with context [strip ?r] => destruct (strip_clean_or_empty r) as [E|C]; [rewrite E in H; discriminate|] end.
  match type of C with clean_settings ?x => destruct x as [|c t] eqn:Ex; [destruct (clean_nonempty _ C) as (a & t & Hx & _); discriminate|] end.
  inversion H; subst. exact C.
Qed.

(* write -> read: the line the writer prints for raw settings s (two time stamps, " --> ", one blank, s) reads back as s *)
Theorem settings_survive_write_read : forall ts1 ts2 s, token ts1 -> token ts2 -> clean_settings s ->
  vtt_cue_settings (vtt_timing_text ts1 ts2 (VRaw s)) = Some (Some s).
Proof.
  intros ts1 ts2 s H1 H2 Hs. unfold vtt_timing_text.
  change (ts1 ++ lit " --> " ++ ts2 ++ 32 :: s) with (ts1 ++ [32] ++ arrow ++ [32] ++ ts2 ++ [32] ++ s).
  rewrite <- (app_nil_r s) at 1.
  apply reader_keeps_settings; try assumption; try (split; [discriminate|reflexivity]). reflexivity.
Qed.

(* read -> write -> read: what was read from a file is what a second reading of the written file gives *)
Theorem settings_read_write_read : forall line s ts1 ts2, vtt_cue_settings line = Some (Some s) -> token ts1 -> token ts2 ->
  vtt_cue_settings (vtt_timing_text ts1 ts2 (VRaw s)) = Some (Some s).
Proof. intros line s ts1 ts2 H H1 H2. apply settings_survive_write_read; try assumption. eapply reader_settings_clean; eauto. Qed.
