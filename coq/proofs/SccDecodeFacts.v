(* C17: the CEA-608 decoder of the specification (spec.SpecSccw.decode_body), run on the word stream the
   writer model emits for a text over the basic character set, returns exactly the laid-out rows. *)
From Coq Require Import List ZArith Lia Bool ZifyBool Arith.
From PV Require Import lib.Sx lib.Str lib.Result model.GenSccw model.SccWrap model.SccWrite spec.SpecSccw
     proofs.SccWriteFacts.
Import ListNotations.
Open Scope Z_scope.
Ltac Zify.zify_post_hook ::= Z.to_euclidean_division_equations.

Definition is_basic (c : Z) : bool := match assoc c sccw_character_to_code with Some _ => true | None => false end.
Definition byte_of (c : Z) : Z := match assoc c sccw_character_to_code with Some b => b | None => 0 end.

Fixpoint pair_up (bs : list Z) : list (Z * Z) :=
  match bs with
  | a :: b :: t => (a, b) :: pair_up t
  | [a] => [(a, 128)]
  | [] => []
  end.

Definition opt_list (p : option Z) : list Z := match p with Some q => [q] | None => [] end.

(* ---- encoder side: a row of basic characters becomes the bytes, paired up, padded with the filler ---- *)
Lemma ws_line_basic : forall line ws p, forallb is_basic line = true ->
  ws_align (ws_line (ws, p) line) = (rev (pair_up (opt_list p ++ map byte_of line)) ++ ws, None).
Proof.
  induction line as [|c t IH]; intros ws p H.
  - destruct p; reflexivity.
  - simpl in H. apply andb_prop in H. destruct H as [H1 H2].
    unfold ws_line. cbn [fold_left]. fold (ws_line (ws_char (ws, p) c) t).
    unfold ws_char, char_code. unfold is_basic in H1. unfold byte_of at 1.
    destruct (assoc c sccw_character_to_code) as [b|] eqn:E; [|discriminate].
    destruct p as [q|].
    + rewrite IH by exact H2. cbn [opt_list app map pair_up rev]. rewrite E. rewrite <- app_assoc. reflexivity.
    + rewrite IH by exact H2. cbn [opt_list app map]. rewrite E. reflexivity.
Qed.

(* ---- decoder side ------------------------------------------------------------------------------------ *)
Definition basic_byte (b : Z) : Prop := exists c, cea_basic (b mod 128) = Some c.
Definition dec_byte (b : Z) : Z := match cea_basic (b mod 128) with Some c => c | None => 0 end.
Definition prev_ok (prev : option (Z * Z)) : Prop :=
  match prev with None => True | Some p => is_control p = false end.

Lemma basic_byte_facts : forall b, basic_byte b -> 32 <= b mod 128 /\ cea_basic (b mod 128) = Some (dec_byte b).
Proof.
  intros b [c H]. unfold dec_byte. rewrite H. split; [|reflexivity].
  unfold cea_basic in H. destruct ((b mod 128 <? 32) || (127 <? b mod 128)) eqn:E; [discriminate|]. lia.
Qed.

Lemma decode_text_word : forall a b t prev r txt rows c1,
  is_control (a, b) = false -> cea_basic (a mod 128) = Some c1 ->
  decode_body ((a, b) :: t) prev ((r, txt) :: rows)
  = if b mod 128 =? 0 then decode_body t (Some (a, b)) ((r, c1 :: txt) :: rows)
    else match cea_basic (b mod 128) with
         | Some c2 => decode_body t (Some (a, b)) ((r, c2 :: c1 :: txt) :: rows)
         | None => None
         end.
Proof.
  intros a b t prev r txt rows c1 C A.
  change (decode_body ((a, b) :: t) prev ((r, txt) :: rows)) with
    (if is_control (a, b) then
       if match prev with Some p => w_eqb p (a, b) | None => false end then decode_body t None ((r, txt) :: rows)
       else match pac_row (fst (a, b)) (snd (a, b)), pac_indent (snd (a, b)) with
            | Some r0, Some k => decode_body t (Some (a, b)) ((r0, repeat 32 (Z.to_nat k)) :: (r, txt) :: rows)
            | _, _ => None
            end
     else
       match cea_basic (fst (a, b) mod 128), (r, txt) :: rows with
       | Some c1, (r, txt) :: rows' =>
           if snd (a, b) mod 128 =? 0 then decode_body t (Some (a, b)) ((r, c1 :: txt) :: rows')
           else match cea_basic (snd (a, b) mod 128) with
                | Some c2 => decode_body t (Some (a, b)) ((r, c2 :: c1 :: txt) :: rows')
                | None => None
                end
       | _, _ => None
       end).
  rewrite C. cbn [fst snd]. rewrite A. reflexivity.
Qed.

Lemma decode_pairs : forall n bs rest prev r txt rows, (length bs <= n)%nat ->
  (forall b, In b bs -> basic_byte b) -> prev_ok prev ->
  exists prev', prev_ok prev' /\
    decode_body (pair_up bs ++ rest) prev ((r, txt) :: rows)
    = decode_body rest prev' ((r, rev (map dec_byte bs) ++ txt) :: rows).
Proof.
  induction n as [|n IH]; intros bs rest prev r txt rows L B P.
  - destruct bs; [|simpl in L; lia]. exists prev. split; [exact P|reflexivity].
  - destruct bs as [|a [|b t]].
    + exists prev. split; [exact P|reflexivity].
    + destruct (basic_byte_facts a (B a (or_introl eq_refl))) as [A1 A2].
      exists (Some (a, 128)). split; [unfold prev_ok, is_control; cbn [fst]; lia|].
      cbn [pair_up app].
      assert (C : is_control (a, 128) = false) by (unfold is_control; cbn [fst]; lia).
      rewrite (decode_text_word _ _ _ _ _ _ _ _ C A2). reflexivity.
    + destruct (basic_byte_facts a (B a (or_introl eq_refl))) as [A1 A2].
      destruct (basic_byte_facts b (B b (or_intror (or_introl eq_refl)))) as [B1 B2].
      destruct (IH t rest (Some (a, b)) r (dec_byte b :: dec_byte a :: txt) rows) as (prev' & P' & E).
      { simpl in L. lia. }
      { intros x Hx. apply B. right. right. exact Hx. }
      { unfold prev_ok, is_control. cbn [fst]. lia. }
      exists prev'. split; [exact P'|].
      cbn [pair_up app].
      assert (C : is_control (a, b) = false) by (unfold is_control; cbn [fst]; lia).
      rewrite (decode_text_word _ _ _ _ _ _ _ _ C A2).
      assert (NZ : (b mod 128 =? 0) = false) by lia. rewrite NZ, B2. etransitivity; [exact E|].
      cbn [map rev]. rewrite <- !app_assoc. reflexivity.
Qed.

(* the PAC of a valid row, sent twice, opens that row *)
Lemma tbl_pac_control :
  forallb (fun row => match py_index sccw_pac_high_byte_by_row row, py_index sccw_pac_low_byte_by_row_restricted row with
                      | Ok h, Ok l => is_control (h, l) | _, _ => false end) (map Z.of_nat (seq 1 15)) = true.
Proof. vm_compute. reflexivity. Qed.

Lemma w_eqb_refl : forall w, w_eqb w w = true.
Proof. intros [a b]. unfold w_eqb. cbn [fst snd]. rewrite !Z.eqb_refl. reflexivity. Qed.
Lemma w_eqb_control : forall p w, w_eqb p w = true -> is_control p = is_control w.
Proof.
  intros [a b] [c d] H. unfold w_eqb in H. cbn [fst snd] in H. apply andb_prop in H. destruct H as [H _].
  assert (a = c) by lia. subst. reflexivity.
Qed.

Lemma decode_pac : forall row h l rest prev rows, 1 <= row <= 15 ->
  py_index sccw_pac_high_byte_by_row row = Ok h -> py_index sccw_pac_low_byte_by_row_restricted row = Ok l ->
  prev_ok prev ->
  decode_body ((h, l) :: (h, l) :: rest) prev rows = decode_body rest None ((row, []) :: rows).
Proof.
  intros row h l rest prev rows R Hh Hl P.
  pose proof (pac_ok_row row R) as K. unfold pac_ok in K. rewrite Hh, Hl in K.
  assert (C : is_control (h, l) = true).
  { pose proof tbl_pac_control as T. rewrite forallb_forall in T.
    assert (I : In row (map Z.of_nat (seq 1 15))).
    { apply in_map_iff. exists (Z.to_nat row). split; [lia|]. apply in_seq. lia. }
    specialize (T row I). rewrite Hh, Hl in T. exact T. }
  destruct (pac_row h l) as [r'|] eqn:PR; [|rewrite andb_false_r in K; discriminate].
  destruct (pac_indent l) as [[| |]|] eqn:PI; try (rewrite andb_false_r in K; discriminate).
  assert (r' = row) by lia. subst r'.
  cbn [decode_body]. rewrite C.
  assert (N : match prev with Some p => w_eqb p (h, l) | None => false end = false).
  { destruct prev as [p|]; [|reflexivity]. destruct (w_eqb p (h, l)) eqn:Q; [|reflexivity].
    apply w_eqb_control in Q. unfold prev_ok in P. congruence. }
  rewrite N. cbn [fst snd]. rewrite PR, PI, w_eqb_refl. reflexivity.
Qed.

Definition rows_basic (rows : list (Z * str)) : Prop := forall r, In r rows -> forallb is_basic (snd r) = true.

Lemma is_basic_byte : forall c, is_basic c = true -> basic_byte (byte_of c) /\ dec_byte (byte_of c) = c.
Proof.
  intros c H. unfold is_basic in H. unfold byte_of, basic_byte, dec_byte.
  destruct (assoc c sccw_character_to_code) as [b|] eqn:E; [|discriminate].
  apply assoc_in in E. pose proof tbl_basic_is_cea as T. rewrite forallb_forall in T. specialize (T _ E).
  cbn [fst snd] in T. destruct (cea_basic (b mod 128)) as [c'|]; [|discriminate].
  assert (c' = c) by lia. subst. split; [eexists; reflexivity|reflexivity].
Qed.

Lemma words_rows_decode : forall rows ws0 s', rows_valid rows -> rows_basic rows ->
  words_rows (ws0, None) rows = Ok s' ->
  exists new, s' = (rev new ++ ws0, None) /\
    forall rest prev acc, prev_ok prev ->
      exists prev', prev_ok prev' /\
        decode_body (new ++ rest) prev acc
        = decode_body rest prev' (rev (map (fun r => (fst r, rev (snd r))) rows) ++ acc).
Proof.
  induction rows as [|[row line] t IH]; intros ws0 s' V B H; cbn [words_rows] in H.
  - inversion H; subst. exists []. split; [reflexivity|]. intros rest prev acc P. exists prev. split; [exact P|reflexivity].
  - assert (R : 1 <= row <= 15) by (apply (V (row, line)); left; reflexivity).
    destruct (py_index sccw_pac_high_byte_by_row row) as [h|] eqn:Hh; [|discriminate].
    destruct (py_index sccw_pac_low_byte_by_row_restricted row) as [l|] eqn:Hl; [|discriminate].
    cbn [bind] in H.
    assert (Bl : forallb is_basic line = true) by (apply (B (row, line)); left; reflexivity).
    rewrite ws_line_basic in H by exact Bl. cbn [opt_list app] in H.
    destruct (IH _ _ (fun r Hr => V r (or_intror Hr)) (fun r Hr => B r (or_intror Hr)) H) as (new & E & D).
    exists ((h, l) :: (h, l) :: pair_up (map byte_of line) ++ new). split.
    + rewrite E. cbn [rev]. rewrite rev_app_distr, <- !app_assoc. reflexivity.
    + intros rest prev acc P. cbn [app]. rewrite (decode_pac row h l _ prev acc R Hh Hl P).
      rewrite <- app_assoc.
      destruct (decode_pairs (length (map byte_of line)) (map byte_of line) (new ++ rest) None row [] acc
                  (le_n _)) as (prev1 & P1 & E1).
      { intros b Hb. apply in_map_iff in Hb. destruct Hb as [c [<- Hc]].
        rewrite forallb_forall in Bl. apply is_basic_byte. apply Bl. exact Hc. }
      { exact I. }
      destruct (D rest prev1 ((row, rev (map dec_byte (map byte_of line)) ++ []) :: acc) P1) as (prev2 & P2 & E2).
      exists prev2. split; [exact P2|]. etransitivity; [exact E1|]. etransitivity; [exact E2|]. cbn [map rev fst snd]. rewrite <- app_assoc. cbn [app].
      rewrite app_nil_r, map_map.
      assert (M : map (fun x => dec_byte (byte_of x)) line = line).
      { rewrite forallb_forall in Bl. rewrite <- (map_id line) at 2. apply map_ext_in. intros c Hc.
        apply is_basic_byte. apply Bl. exact Hc. }
      rewrite M. reflexivity.
Qed.

(* decode_rows: for a caption text laid out on at most 15 rows of basic characters, the specification's
   decoder reads the writer's word stream back as exactly the rows (row number, text) *)
Theorem decode_rows : forall text, (length (layout_rows text) <= 15)%nat -> rows_basic (layout_rows text) ->
  exists ws, text_to_words text = Ok ws /\ decode_body ws None [] = Some (layout_rows text).
Proof.
  intros text L B. destruct (all_bytes_odd_parity text L) as (ws & E & _). exists ws. split; [exact E|].
  unfold text_to_words in E. destruct (words_rows ([], None) (layout_rows text)) as [s'|] eqn:W; [|discriminate].
  cbn [bind] in E. inversion E; subst ws. clear E.
  destruct (words_rows_decode _ _ _ (layout_rows_valid text L) B W) as (new & E & D).
  subst s'. cbn [fst]. rewrite app_nil_r, rev_involutive.
  destruct (D [] None [] I) as (prev' & _ & E2). rewrite app_nil_r in E2. rewrite E2. cbn [decode_body].
  rewrite app_nil_r, <- map_rev, rev_involutive, map_map. f_equal.
  rewrite <- (map_id (layout_rows text)) at 2. apply map_ext. intros [r t]. cbn [fst snd]. rewrite rev_involutive. reflexivity.
Qed.
