(* C07: escaped text and serialized attribute values parse back to the original under the strict grammar. *)
From Coq Require Import List ZArith Lia Bool ZifyBool Arith.
From PV Require Import lib.Sx lib.Str model.DfxpXml spec.SpecXmlAttr.
Import ListNotations.
Open Scope Z_scope.

(* one escaper for all variants: nl = quoteattr's character references, quot = the &quot; substitution *)
Definition esc (nl quot : bool) (x : Z) : str :=
  if x =? 38 then lit "&amp;" else if x =? 62 then lit "&gt;" else if x =? 60 then lit "&lt;"
  else if nl && (x =? 10) then lit "&#10;" else if nl && (x =? 13) then lit "&#13;" else if nl && (x =? 9) then lit "&#9;"
  else if quot && (x =? 34) then lit "&quot;" else [x].

Lemma flat_map_flat_map' : forall (A B C : Type) (f : B -> list C) (g : A -> list B) l,
  flat_map f (flat_map g l) = flat_map (fun a => flat_map f (g a)) l.
Proof. induction l as [|a t IH]; [reflexivity|]. cbn [flat_map]. rewrite flat_map_app, IH. reflexivity. Qed.

Lemma replace_ch_flat_map : forall c r (f : Z -> str) s,
  replace_ch c r (flat_map f s) = flat_map (fun x => replace_ch c r (f x)) s.
Proof. intros. unfold replace_ch. apply flat_map_flat_map'. Qed.

Lemma replace_ch_id : forall c r s, replace_ch c r s = flat_map (fun x => if x =? c then r else [x]) s.
Proof. reflexivity. Qed.

Ltac esc_cases x :=
  destruct (x =? 38) eqn:?E38; [assert (x = 38) by lia; subst; reflexivity|];
  destruct (x =? 62) eqn:?E62; [assert (x = 62) by lia; subst; reflexivity|];
  destruct (x =? 60) eqn:?E60; [assert (x = 60) by lia; subst; reflexivity|].

Lemma xml_escape_esc : forall s, xml_escape s = flat_map (esc false false) s.
Proof.
  intros s. unfold xml_escape. rewrite (replace_ch_id 38), !replace_ch_flat_map. apply flat_map_ext. intros x.
  unfold esc. esc_cases x. cbn [andb]. unfold replace_ch.
  repeat (cbn [flat_map app]; rewrite ?E38, ?E62, ?E60). reflexivity.
Qed.

Lemma quoteattr_body_esc : forall s,
  replace_ch 9 (lit "&#9;") (replace_ch 13 (lit "&#13;") (replace_ch 10 (lit "&#10;") (xml_escape s)))
  = flat_map (esc true false) s.
Proof.
  intros s. rewrite xml_escape_esc, !replace_ch_flat_map. apply flat_map_ext. intros x.
  unfold esc. esc_cases x. cbn [andb].
  destruct (x =? 10) eqn:E10; [assert (x = 10) by lia; subst; reflexivity|].
  destruct (x =? 13) eqn:E13; [assert (x = 13) by lia; subst; reflexivity|].
  destruct (x =? 9) eqn:E9; [assert (x = 9) by lia; subst; reflexivity|].
  unfold replace_ch. repeat (cbn [flat_map app]; rewrite ?E10, ?E13, ?E9). reflexivity.
Qed.

Lemma quot_esc : forall nl s, replace_ch 34 (lit "&quot;") (flat_map (esc nl false) s) = flat_map (esc nl true) s.
Proof.
  intros nl s. rewrite replace_ch_flat_map. apply flat_map_ext. intros x. unfold esc. esc_cases x.
  destruct nl; cbn [andb].
  - destruct (x =? 10) eqn:E10; [assert (x = 10) by lia; subst; reflexivity|].
    destruct (x =? 13) eqn:E13; [assert (x = 13) by lia; subst; reflexivity|].
    destruct (x =? 9) eqn:E9; [assert (x = 9) by lia; subst; reflexivity|].
    unfold replace_ch. cbn [flat_map app]. destruct (x =? 34); reflexivity.
  - unfold replace_ch. cbn [flat_map app]. destruct (x =? 34); reflexivity.
Qed.

(* ---- the strict value machine decodes every variant ------------------------------------------------------- *)
Lemma vrun_app : forall a b st, vrun st (a ++ b) = match vrun st a with Some st' => vrun st' b | None => None end.
Proof. induction a as [|c t IH]; intros b st; cbn [app vrun]; [reflexivity|]. destruct (vstep st c); [apply IH|reflexivity]. Qed.

Lemma esc_step : forall nl quot x acc, is_xml_char x = true ->
  vrun (VNormal acc) (esc nl quot x) = Some (VNormal (x :: acc)).
Proof.
  intros nl quot x acc H. unfold esc.
  destruct (x =? 38) eqn:E38; [assert (x = 38) by lia; subst; reflexivity|].
  destruct (x =? 62) eqn:E62; [assert (x = 62) by lia; subst; reflexivity|].
  destruct (x =? 60) eqn:E60; [assert (x = 60) by lia; subst; reflexivity|].
  destruct (nl && (x =? 10)) eqn:E10; [assert (x = 10) by lia; subst; reflexivity|].
  destruct (nl && (x =? 13)) eqn:E13; [assert (x = 13) by lia; subst; reflexivity|].
  destruct (nl && (x =? 9)) eqn:E9; [assert (x = 9) by lia; subst; reflexivity|].
  destruct (quot && (x =? 34)) eqn:E34; [assert (x = 34) by lia; subst; reflexivity|].
  cbn [vrun vstep]. rewrite E38, E60, H. reflexivity.
Qed.

Lemma vrun_esc : forall nl quot s acc, forallb is_xml_char s = true ->
  vrun (VNormal acc) (flat_map (esc nl quot) s) = Some (VNormal (rev s ++ acc)).
Proof.
  induction s as [|x t IH]; intros acc H; [reflexivity|]. cbn [forallb] in H. apply andb_prop in H. destruct H as [H1 H2].
  cbn [flat_map]. rewrite vrun_app, esc_step by exact H1. rewrite IH by exact H2. cbn [rev]. rewrite <- app_assoc. reflexivity.
Qed.

(* escaped text contains no '>' at all, hence no ']]>' *)
Lemma has_gt_free : forall nl quot s, has 62 (flat_map (esc nl quot) s) = false.
Proof.
  intros nl quot s. unfold has. induction s as [|x t IH]; [reflexivity|]. cbn [flat_map]. rewrite existsb_app, IH, orb_false_r.
  unfold esc.
  destruct (x =? 38) eqn:E38; [reflexivity|]. destruct (x =? 62) eqn:E62; [reflexivity|]. destruct (x =? 60) eqn:E60; [reflexivity|].
  destruct (nl && (x =? 10)); [reflexivity|]. destruct (nl && (x =? 13)); [reflexivity|]. destruct (nl && (x =? 9)); [reflexivity|].
  destruct (quot && (x =? 34)); [reflexivity|]. cbn [existsb]. rewrite orb_false_r. lia.
Qed.
Lemma no_gt_no_cdata_end : forall s, has 62 s = false -> has_cdata_end s = false.
Proof.
  induction s as [|c t IH]; intros H; [reflexivity|]. unfold has in H. cbn [existsb] in H. apply orb_false_elim in H.
  destruct H as [_ H]. cbn [has_cdata_end]. rewrite (IH H), orb_false_r.
  destruct t as [|d [|e u]]; try (rewrite andb_false_r; reflexivity).
  unfold has in H. cbn [existsb] in H. apply orb_false_elim in H. destruct H as [_ H]. apply orb_false_elim in H. destruct H as [H _].
  assert (E : (e =? 62) = false) by lia. rewrite E, !andb_false_r. reflexivity.
Qed.

(* escaped text: character data (no ']]>' in it) that decodes to the text *)
Theorem escape_text_wellformed : forall s, forallb is_xml_char s = true -> text_parse (xml_escape s) = Some s.
Proof.
  intros s H. unfold text_parse. rewrite xml_escape_esc.
  rewrite (no_gt_no_cdata_end _ (has_gt_free false false s)).
  rewrite vrun_esc by exact H. rewrite app_nil_r, rev_involutive. reflexivity.
Qed.

(* ---- quoting -------------------------------------------------------------------------------------------------- *)
Lemma has_rev : forall c s, existsb (Z.eqb c) (rev s) = has c s.
Proof.
  intros c s. unfold has. induction s as [|x t IH]; [reflexivity|]. cbn [rev existsb]. rewrite existsb_app, IH. cbn [existsb].
  rewrite orb_false_r. apply orb_comm.
Qed.

Lemma has_quot_free : forall nl s, has 34 (flat_map (esc nl true) s) = false.
Proof.
  intros nl s. unfold has. induction s as [|x t IH]; [reflexivity|]. cbn [flat_map]. rewrite existsb_app, IH, orb_false_r.
  unfold esc.
  destruct (x =? 38) eqn:E38; [reflexivity|]. destruct (x =? 62) eqn:E62; [reflexivity|]. destruct (x =? 60) eqn:E60; [reflexivity|].
  destruct (nl && (x =? 10)); [reflexivity|]. destruct (nl && (x =? 13)); [reflexivity|]. destruct (nl && (x =? 9)); [reflexivity|].
  cbn [andb]. destruct (x =? 34) eqn:E34; [reflexivity|]. cbn [existsb]. rewrite orb_false_r. lia.
Qed.

Lemma attr_parse_quoted : forall q body v, (q = 34 \/ q = 39) -> has q body = false ->
  vrun (VNormal []) body = Some (VNormal (rev v)) -> attr_parse ([q] ++ body ++ [q]) = Some v.
Proof.
  intros q body v Hq Hh Hr. unfold attr_parse. cbn [app].
  assert (Q : (q =? 34) || (q =? 39) = true) by lia. rewrite Q.
  rewrite rev_app_distr. cbn [rev app]. rewrite Z.eqb_refl, has_rev, Hh. cbn [negb andb].
  rewrite rev_involutive, Hr, rev_involutive. reflexivity.
Qed.

Lemma quote_value_roundtrip : forall nl v, forallb is_xml_char v = true ->
  attr_parse (quote_value (flat_map (esc nl false) v)) = Some v.
Proof.
  intros nl v H. unfold quote_value. destruct (has 34 (flat_map (esc nl false) v)) eqn:H34.
  - destruct (has 39 (flat_map (esc nl false) v)) eqn:H39.
    + rewrite quot_esc. apply attr_parse_quoted; [left; reflexivity|apply has_quot_free|].
      rewrite vrun_esc by exact H. rewrite app_nil_r. reflexivity.
    + apply attr_parse_quoted; [right; reflexivity|exact H39|]. rewrite vrun_esc by exact H. rewrite app_nil_r. reflexivity.
  - apply attr_parse_quoted; [left; reflexivity|exact H34|]. rewrite vrun_esc by exact H. rewrite app_nil_r. reflexivity.
Qed.

(* attr_value_wellformed: whatever characters the value contains, the literal written for it is a well-formed
   attribute value that denotes exactly the value - for the bs4 path (DFXPOutputFormatter) and for the hand-written
   span attributes (quoteattr) *)
Theorem attr_value_wellformed : forall v, forallb is_xml_char v = true -> attr_parse (attr_out v) = Some v.
Proof. intros v H. unfold attr_out. rewrite xml_escape_esc. apply quote_value_roundtrip. exact H. Qed.

Theorem quoteattr_wellformed : forall v, forallb is_xml_char v = true -> attr_parse (quoteattr v) = Some v.
Proof. intros v H. unfold quoteattr. rewrite quoteattr_body_esc. apply quote_value_roundtrip. exact H. Qed.

(* the unrepaired serialization (the value written as it is, only quoted) is not well-formed *)
Theorem attr_unescaped_refuted : exists v, forallb is_xml_char v = true /\ attr_parse (quote_value v) = None.
Proof. exists (lit "r&d"). split; reflexivity. Qed.
