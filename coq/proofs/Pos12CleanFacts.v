(* C12 (wave 7): cleanup_regions (model/DfxpClean.v) - the reader never asks for a removed region, so the read-back of ANY
   document is unchanged by the cleanup; in the written document every referenced region is defined and every remaining
   region is referenced; the tree-level round trip theorem holds for the cleaned document. *)
From Coq Require Import List ZArith QArith Qabs Bool Lia.
From PV Require Import lib.Sx lib.Str lib.Result model.Geometry model.Positioning model.DfxpTree model.DfxpClean spec.SpecGeom spec.SpecPos.
From PV Require Import proofs.GeomStr proofs.GeomEq proofs.GeomPrint proofs.GeomFacts proofs.PosFacts proofs.Pos12Facts.
From PV Require Import proofs.DfxpTreeFacts proofs.Pos12RegionFacts.
Import ListNotations.
Open Scope Z_scope.

(* ---- lists ---------------------------------------------------------------------------------------------------------- *)
Lemma in_somes : forall {A} (l : list (option A)) r, In r (somes l) <-> In (Some r) l.
Proof.
  intros A l r. unfold somes. rewrite in_flat_map. split.
  - intros (o & Ho & Hr). destruct o as [a|]; [destruct Hr as [<-|[]]; exact Ho|destruct Hr].
  - intros H. exists (Some r). split; [exact H|left; reflexivity].
Qed.

Lemma rid_mem_iff : forall r l, rid_mem r l = true <-> In r l.
Proof.
  intros r l. unfold rid_mem. rewrite existsb_exists. split.
  - intros (x & Hx & E). apply region_id_eqb_eq in E. subst x. exact Hx.
  - intros H. exists r. split; [exact H|apply region_id_eqb_eq; reflexivity].
Qed.

Lemma find_filter : forall {A} (f g : A -> bool) l, (forall x, f x = true -> g x = true) ->
  List.find f (filter g l) = List.find f l.
Proof.
  intros A f g l H. induction l as [|x l IH]; [reflexivity|]. cbn [filter List.find].
  destruct (f x) eqn:Fx.
  - rewrite (H x Fx). cbn [List.find]. rewrite Fx. reflexivity.
  - destruct (g x); [cbn [List.find]; rewrite Fx|]; exact IH.
Qed.

Lemma res_map_ext_in : forall {A B} (f g : A -> result B) l, (forall x, In x l -> f x = g x) -> res_map f l = res_map g l.
Proof.
  intros A B f g l H. induction l as [|x l IH]; [reflexivity|]. cbn [res_map].
  rewrite (H x (or_introl eq_refl)), IH; [reflexivity|]. intros y Hy. apply H. right. exact Hy.
Qed.

(* induction over document items (spans hold lists of items) *)
Section XitemInd.
  Variable P : xitem -> Prop.
  Hypothesis Ht : forall w, P (XText w).
  Hypothesis Hb : P XBr.
  Hypothesis Hs : forall r body, Forall P body -> P (XSpan r body).
  Fixpoint xitem_ind' (it : xitem) : P it :=
    match it with
    | XText w => Ht w
    | XBr => Hb
    | XSpan r body =>
        Hs r body ((fix go (l : list xitem) : Forall P l :=
                      match l with [] => Forall_nil P | x :: t => Forall_cons x (xitem_ind' x) (go t) end) body)
    end.
End XitemInd.

(* ---- the reader only resolves ids that occur as region attributes ---------------------------------------------- *)
Lemma ancestors_in : forall anc r, region_from_ancestors anc = Some r -> In (Some r) anc.
Proof.
  induction anc as [|[a|] t IH]; intros r H; cbn [region_from_ancestors] in H; [discriminate| |right; apply IH; exact H].
  inversion H; subst. left. reflexivity.
Qed.

Lemma descendants_in : forall ds r, region_from_descendants ds = Some r -> In (Some r) ds.
Proof.
  intros [|d t] r H; cbn [region_from_descendants] in H; [discriminate|].
  destruct (forallb (opt_rid_eqb d) t); [subst d; left; reflexivity|discriminate].
Qed.

Lemma determine_in : forall own anc ds r, determine_region own anc ds = Some r -> In (Some r) (own :: anc ++ ds).
Proof.
  intros own anc ds r H. unfold determine_region in H. destruct own as [o|].
  - inversion H; subst. left. reflexivity.
  - right. apply in_or_app. destruct (region_from_ancestors anc) as [a|] eqn:E.
    + inversion H; subst. left. apply ancestors_in. exact E.
    + right. apply descendants_in. exact H.
Qed.

Section Cleanup.
  Variable regs : list (region_id * region_attrs).
  Variable R : list region_id.
  Let regs' := filter (fun kv : region_id * region_attrs => rid_mem (fst kv) R) regs.

  Lemma resolve_filter : forall id, (forall r, id = Some r -> In r R) -> resolve regs' id = resolve regs id.
  Proof.
    intros [r|] H; [|reflexivity]. unfold resolve, regs'.
    rewrite find_filter; [reflexivity|]. intros kv E. apply region_id_eqb_eq in E. rewrite E.
    apply rid_mem_iff. apply H. reflexivity.
  Qed.

  Lemma read_item_filter : forall it anc parent,
    (forall r, In (Some r) anc -> In r R) -> (forall r, In (Some r) (elem_regions it) -> In r R) ->
    read_item regs' anc parent it = read_item regs anc parent it.
  Proof.
    induction it as [w| |r body IH] using xitem_ind'; intros anc parent Ha Hi; [reflexivity|reflexivity|].
    rewrite !read_item_span_unfold. cbn [elem_regions] in Hi.
    rewrite resolve_filter.
    2:{ intros x Ex. apply determine_in in Ex. destruct Ex as [Ex|Ex].
        - apply Hi. left. exact Ex.
        - apply in_app_or in Ex. destruct Ex as [Ex|Ex]; [apply Ha; exact Ex|apply Hi; right; exact Ex]. }
    destruct (resolve regs _) as [lay|]; [|reflexivity]. cbn [bind].
    rewrite (res_map_ext_in (read_item regs' (r :: anc) lay) (read_item regs (r :: anc) lay)); [reflexivity|].
    intros x Hx. rewrite Forall_forall in IH. apply IH; [exact Hx| |].
    - intros y [Hy|Hy]; [apply Hi; left; exact Hy|apply Ha; exact Hy].
    - intros y Hy. apply Hi. right. apply in_flat_map. exists x. split; assumption.
  Qed.

  Lemma read_p_filter : forall dr p, (forall r, dr = Some r -> In r R) -> (forall r, In (Some r) (p_elem_regions p) -> In r R) ->
    read_p regs' dr p = read_p regs dr p.
  Proof.
    intros dr p Hd Hp. unfold read_p, p_elem_regions in *.
    rewrite resolve_filter.
    2:{ intros x Ex. apply determine_in in Ex. destruct Ex as [Ex|Ex]; [apply Hp; left; exact Ex|].
        apply in_app_or in Ex. destruct Ex as [[Ex|[]]|Ex]; [apply Hd; exact Ex|apply Hp; right; exact Ex]. }
    destruct (resolve regs _) as [lay|]; [|reflexivity]. cbn [bind].
    rewrite (res_map_ext_in (read_item regs' [xp_region p; dr] lay) (read_item regs [xp_region p; dr] lay)); [reflexivity|].
    intros x Hx. apply read_item_filter.
    - intros y [Hy|[Hy|[]]]; [apply Hp; left; exact Hy|apply Hd; exact Hy].
    - intros y Hy. apply Hp. right. apply in_flat_map. exists x. split; assumption.
  Qed.

  Lemma read_div_filter : forall d, (forall r, In r (div_refs d) -> In r R) -> read_div regs' d = read_div regs d.
  Proof.
    intros d Hd. unfold read_div.
    assert (H : forall r, In (Some r) (xd_region d :: flat_map p_elem_regions (xd_ps d)) -> In r R).
    { intros r Hr. apply Hd. unfold div_refs. apply in_somes. exact Hr. }
    rewrite resolve_filter.
    2:{ intros x Ex. apply determine_in in Ex. cbn [app] in Ex. apply H. exact Ex. }
    destruct (resolve regs _) as [lay|]; [|reflexivity]. cbn [bind].
    rewrite (res_map_ext_in (read_p regs' (xd_region d)) (read_p regs (xd_region d))); [reflexivity|].
    intros p Hp. apply read_p_filter.
    - intros r Er. apply H. left. exact Er.
    - intros r Hr. apply H. right. apply in_flat_map. exists p. split; assumption.
  Qed.
End Cleanup.

(* removing the regions no element refers to changes nothing of what the reader computes - for EVERY document *)
Theorem cleanup_read_invariant : forall d, read_doc (cleanup_regions d) = read_doc d.
Proof.
  intros d. unfold read_doc, cleanup_regions. cbn [x_regions x_divs]. apply res_map_ext_in. intros dv Hdv.
  apply read_div_filter. intros r Hr. unfold doc_refs. apply in_flat_map. exists dv. split; assumption.
Qed.

Theorem roundtrip_clean_eq : forall g s, dfxp_roundtrip_clean g s = dfxp_roundtrip g s.
Proof. intros g s. unfold dfxp_roundtrip_clean, write_doc_clean, dfxp_roundtrip. apply cleanup_read_invariant. Qed.

(* ---- the written document after the cleanup ------------------------------------------------------------------- *)
(* every region left in <layout> is referenced by an element, and was created by the writer *)
Theorem clean_regions_referenced : forall d id a, In (id, a) (x_regions (cleanup_regions d)) ->
  In id (doc_refs d) /\ In (id, a) (x_regions d).
Proof.
  intros d id a H. unfold cleanup_regions in H. cbn [x_regions] in H. apply filter_In in H. destruct H as [H1 H2].
  split; [apply rid_mem_iff; exact H2|exact H1].
Qed.

(* which ids the writer puts on elements: always an id of the region table *)
Definition id_in_table (m : list (layout * region_id)) (id : region_id) : Prop := exists k, In (k, id) m.

Section WrittenRefs.
  Variable m : list (layout * region_id).
  Hypothesis Hl : forall o, id_in_table m (region_lookup m o).

  Definition ok_item (x : xitem) : Prop := forall r, In (Some r) (elem_regions x) -> id_in_table m r.
  Definition open_ok (open : option (option region_id * list xitem)) : Prop :=
    match open with
    | Some (ro, body) => (forall r, ro = Some r -> id_in_table m r) /\ Forall ok_item body
    | None => True
    end.

  Lemma ok_text : forall w, ok_item (XText w).
  Proof. intros w r []. Qed.
  Lemma ok_br : ok_item XBr.
  Proof. intros r [H|[]]. discriminate. Qed.
  Lemma ok_span : forall ro body, (forall r, ro = Some r -> id_in_table m r) -> Forall ok_item body -> ok_item (XSpan ro body).
  Proof.
    intros ro body H1 H2 r Hr. cbn [elem_regions] in Hr. destruct Hr as [Hr|Hr]; [apply H1; exact Hr|].
    rewrite in_flat_map in Hr. destruct Hr as (x & Hx & Hxr). rewrite Forall_forall in H2. exact (H2 x Hx r Hxr).
  Qed.

  Lemma close_span_ok : forall open out, open_ok open -> Forall ok_item out -> Forall ok_item (close_span open out).
  Proof.
    intros [[ro body]|] out Ho Hout; cbn [close_span]; [|exact Hout]. destruct Ho as [H1 H2].
    constructor; [|exact Hout]. apply ok_span; [exact H1|apply Forall_rev; exact H2].
  Qed.

  Lemma write_nodes_ok : forall nodes open out, open_ok open -> Forall ok_item out ->
    Forall ok_item (write_nodes (region_lookup m) nodes open out).
  Proof.
    induction nodes as [|n t IH]; intros open out Ho Hout.
    - cbn [write_nodes]. apply Forall_rev. apply close_span_ok; assumption.
    - cbn [write_nodes].
      destruct (d_kind n =? 1).
      { destruct open as [[ro body]|]; apply IH; try exact Hout; try exact I.
        - destruct Ho as [H1 H2]. split; [exact H1|constructor; [apply ok_text|exact H2]].
        - constructor; [apply ok_text|exact Hout]. }
      destruct (d_kind n =? 3).
      { destruct open as [[ro body]|]; apply IH; try exact Hout; try exact I.
        - destruct Ho as [H1 H2]. split; [exact H1|constructor; [apply ok_br|exact H2]].
        - constructor; [apply ok_br|exact Hout]. }
      destruct (d_start n).
      + destruct (d_styled n || opt_layout_truthy (d_layout n)).
        * apply IH; [|apply close_span_ok; assumption]. split; [|constructor].
          intros r Er. destruct (opt_layout_truthy (d_layout n)); [inversion Er; subst; apply Hl|discriminate].
        * apply IH; assumption.
      + destruct open as [[ro body]|]; apply IH; try exact I; [apply close_span_ok; assumption|exact Hout].
  Qed.
End WrittenRefs.

(* no dangling reference: every region attribute of the written body names a region of the table ... *)
Theorem written_refs_in_table : forall g s r, In r (doc_refs (write_doc g s)) ->
  id_in_table (region_map (set_layouts s)) r.
Proof.
  intros g s r H. unfold doc_refs, write_doc in H. cbn [x_divs] in H. set (m := region_map (set_layouts s)) in *.
  assert (Hl : forall o, id_in_table m (region_lookup m o)) by (intros o; apply region_lookup_defined).
  rewrite in_flat_map in H. destruct H as (dv & Hdv & Hr). apply in_map_iff in Hdv. destruct Hdv as (lg & <- & _).
  unfold div_refs in Hr. apply in_somes in Hr. cbn [write_lang xd_region xd_ps] in Hr.
  destruct Hr as [Hr|Hr]; [inversion Hr; subst; apply Hl|].
  rewrite in_flat_map in Hr. destruct Hr as (p & Hp & Hr). apply in_map_iff in Hp. destruct Hp as (c & <- & _).
  unfold p_elem_regions, write_cap in Hr. cbn [xp_region xp_items] in Hr.
  destruct Hr as [Hr|Hr]; [inversion Hr; subst; apply Hl|].
  rewrite in_flat_map in Hr. destruct Hr as (x & Hx & Hxr).
  pose proof (write_nodes_ok m Hl (dc_nodes c) None [] I (Forall_nil _)) as W. rewrite Forall_forall in W.
  exact (W x Hx r Hxr).
Qed.

(* ... and that region is still in the document after the cleanup *)
Theorem written_refs_defined : forall g s r, In r (doc_refs (write_doc g s)) ->
  exists a, In (r, a) (x_regions (write_doc_clean g s)).
Proof.
  intros g s r H. destruct (written_refs_in_table g s r H) as (k & Hk).
  exists (layout_attrs k). unfold write_doc_clean, cleanup_regions. cbn [x_regions]. apply filter_In. split.
  - unfold write_doc. cbn [x_regions]. apply in_map_iff. exists (k, r). split; [reflexivity|exact Hk].
  - cbn [fst]. apply rid_mem_iff. exact H.
Qed.

(* both directions: the <region> elements of the written document are exactly the regions its elements refer to *)
Theorem written_regions_exact : forall g s r,
  In r (doc_refs (write_doc g s)) <-> exists a, In (r, a) (x_regions (write_doc_clean g s)).
Proof.
  intros g s r. split; [apply written_refs_defined|]. intros (a & Ha).
  apply clean_regions_referenced in Ha. exact (proj1 Ha).
Qed.

(* region ids stay unique in the cleaned document *)
Theorem clean_region_ids_unique : forall g s id a b,
  In (id, a) (x_regions (write_doc_clean g s)) -> In (id, b) (x_regions (write_doc_clean g s)) -> a = b.
Proof.
  intros g s id a b Ha Hb. apply clean_regions_referenced in Ha, Hb. destruct Ha as [_ Ha], Hb as [_ Hb].
  unfold write_doc in Ha, Hb. cbn [x_regions] in Ha, Hb. apply in_map_iff in Ha, Hb.
  destruct Ha as ([ka ia] & Ea & Ia), Hb as ([kb ib] & Eb & Ib). cbn [fst snd] in Ea, Eb.
  inversion Ea; subst. inversion Eb; subst.
  rewrite (region_map_ids_unique _ _ _ _ Ia Ib). reflexivity.
Qed.

(* ---- the tree-level round trip on the document as it is written (with the cleanup) --------------------------- *)
Theorem dfxp_layout_roundtrip_clean : forall langs, Forall opt_nonneg (set_layouts (map to_dlang langs)) ->
  Forall lang_harmless langs ->
  exists obs, dfxp_roundtrip_clean None (map to_dlang langs) = Ok obs /\ Forall2 lang_rel obs langs.
Proof. intros langs NN HH. rewrite roundtrip_clean_eq. apply dfxp_layout_roundtrip; assumption. Qed.
