(* C17, wave 7 (part 3b): the writer model's whole document read back by builder sccr's reader model - decoder, caption
   store (TimingCorrectingCaptionList.extend / _update_last_batch) and clock - for EVERY caption list of the domain.
     reread_stash : the decoder never raises on the writer's document; the caption store it ends with holds exactly one
                    caption per cue, in order, whose words refine the cue's words (a word split only when longer than 32)
                    and whose start is the instant of the load's End-Of-Caption, within three frames of the cue's start.
     reread_conditional : hence, whenever the reader returns captions at all, they satisfy the property's re-read clause
                    (spec.SpecSccw.ok_reread = 0).
   NOT proved here: that the two refusals at the end of SCCReader.read (line-length scan, flash check < 0.05 s) do not
   fire on these stores - they are evaluated on every generated case (request 1705). *)
From Coq Require Import List ZArith QArith Qround Qabs Lia Lqa Bool ZifyBool Arith.
From PV Require Import lib.Sx lib.Str lib.Result model.GenScc model.SccLen model.SccTime model.SccStash model.SccDecoder.
From PV Require Import model.GenSccw model.SccWrap model.SccWrite spec.SpecSccw model.SccRoundTrip.
From PV Require Import proofs.SccwStr proofs.SccWriteFacts proofs.SccTimingFacts proofs.SccWordsFacts proofs.SccDecodeFacts
     proofs.SccLayoutFacts proofs.SccDocFacts proofs.SccComposeFacts proofs.SccwBridgeFacts.
From PV Require Import proofs.SccRereadNodes proofs.SccRereadLines proofs.SccRereadLoad proofs.SccRereadTime.
From PV Require proofs.SccPoponStage2c proofs.SccRoundTripFacts.
Import ListNotations.
Open Scope Z_scope.

(* ---- words and strip ----------------------------------------------------------------------------------------------- *)
Definition okc (c : Z) : bool := negb (is_space c) || is_blank c.

Lemma words_aux_blanks : forall sp R cur, forallb is_blank sp = true -> blank_head R ->
  words_aux (sp ++ R) cur = words_aux R cur.
Proof.
  induction sp as [|c t IH]; intros R cur H HR; [reflexivity|]. cbn [forallb] in H. apply andb_prop in H. destruct H as [Hc Ht].
  cbn [app words_aux]. rewrite Hc. rewrite (words_aux_blank_head R cur HR).
  destruct cur as [|x cur']; cbn [flushw app]; rewrite (IH R [] Ht HR); reflexivity.
Qed.

Lemma space_sub_blank : forall s sp, forallb okc s = true -> (forall c, In c sp -> In c s) -> forallb is_space sp = true ->
  forallb is_blank sp = true.
Proof.
  intros s sp T Sub S. apply forallb_forall. intros c Hc. rewrite forallb_forall in T, S.
  specialize (T c (Sub c Hc)). specialize (S c Hc). unfold okc in T. rewrite S in T. exact T.
Qed.

Lemma words_strip : forall s, forallb okc s = true -> words (strip s) = words s.
Proof.
  intros s T. unfold strip, strip_by. destruct (SccPoponStage2c.lstrip_split is_space s) as (sp1 & E1 & S1).
  set (x := lstrip_by is_space s) in *. destruct (SccPoponStage2c.rstrip_split x) as (sp2 & E2 & S2).
  change (rstrip_by is_space x) with (rstrip x). unfold words.
  assert (B1 : forallb is_blank sp1 = true).
  { apply (space_sub_blank s sp1 T); [|exact S1]. intros c Hc. rewrite E1. apply in_or_app. left. exact Hc. }
  assert (B2 : forallb is_blank sp2 = true).
  { apply (space_sub_blank s sp2 T); [|exact S2]. intros c Hc. rewrite E1, E2. apply in_or_app. right. apply in_or_app. right. exact Hc. }
  clearbody x. rewrite E1.
  assert (P : forall y, words_aux (sp1 ++ y) [] = words_aux y []).
  { clear - B1. induction sp1 as [|c t IH]; intros y; [reflexivity|]. cbn [forallb] in B1. apply andb_prop in B1. destruct B1 as [Hc Ht].
    cbn [app words_aux]. rewrite Hc. apply IH. exact Ht. }
  rewrite P. rewrite E2 at 2. rewrite <- (app_nil_r (rstrip x)) at 1. apply words_aux_app_eq. intros cur.
  rewrite <- (app_nil_r sp2). symmetry. apply words_aux_blanks; [exact B2|left; reflexivity].
Qed.

Lemma tame_okc : forall s, tame s = true -> forallb okc s = true.
Proof.
  intros s H. unfold tame in H. apply forallb_forall. intros c Hc. rewrite forallb_forall in H. specialize (H c Hc). unfold okc.
  destruct (is_space c); [|reflexivity]. cbn [negb orb] in *. assert (c = 32) by lia. subst. reflexivity.
Qed.

Lemma ntext_okc : forall l, plain l = true -> forallb tame_node l = true -> forallb okc (ntext l) = true.
Proof.
  induction l as [|n t IH]; intros P T; [reflexivity|]. apply plain_cons in P. destruct P as [Pn Pt]. cbn [forallb] in T.
  apply andb_prop in T. destruct T as [Tn Tt]. change (ntext (n :: t)) with (node_str n ++ ntext t). rewrite forallb_app, (IH Pt Tt), andb_true_r.
  destruct n as [k tx p]. unfold plain_node, is_text, is_break in Pn. cbn [i_kind] in Pn. unfold node_str. cbn [i_kind i_text].
  destruct k; try discriminate; [apply tame_okc; exact Tn|reflexivity].
Qed.

Lemma sle_tame : forall l, forallb tame_node l = true -> forallb tame_node (strip_line_ends l) = true.
Proof.
  induction l as [|n t IH]; intros T; [reflexivity|]. cbn [forallb] in T. apply andb_prop in T. destruct T as [Tn Tt].
  cbn [strip_line_ends forallb]. rewrite (IH Tt), andb_true_r. destruct (is_text n && next_plain_is_sep t); [|exact Tn].
  unfold tame_node, rstrip_node. cbn [i_text]. unfold tame_node in Tn. destruct (SccPoponStage2c.rstrip_split (i_text n)) as (sp & E & _).
  unfold tame in *. rewrite E, forallb_app in Tn. apply andb_prop in Tn. exact (proj1 Tn).
Qed.

Lemma blank_ntext : forall nodes, plain nodes = true -> cr_is_empty (mkCr nodes SNone) = true -> forallb is_blank (ntext nodes) = true.
Proof.
  induction nodes as [|n t IH]; intros P E; [reflexivity|]. apply plain_cons in P. destruct P as [Pn Pt].
  unfold cr_is_empty in *. cbn [cr_nodes existsb] in *. apply negb_true_iff in E. apply orb_false_iff in E. destruct E as [E1 E2].
  change (ntext (n :: t)) with (node_str n ++ ntext t). rewrite forallb_app, (IH Pt), andb_true_r by (apply negb_true_iff; exact E2).
  destruct n as [k tx p]. unfold plain_node, is_text, is_break in Pn. cbn [i_kind i_text] in *. unfold node_str. cbn [i_kind i_text].
  destruct k; try discriminate; [|reflexivity]. destruct tx; [reflexivity|discriminate].
Qed.

Lemma words_blanks_nil : forall s, forallb is_blank s = true -> words s = [].
Proof. intros s H. unfold words. rewrite <- (app_nil_r s). rewrite words_aux_blanks; [reflexivity|exact H|left; reflexivity]. Qed.

(* the caption built from a plain buffer, as the property observes it (text stripped) *)
Lemma caption_strip : forall nodes s e, plain nodes = true -> forallb tame_node nodes = true ->
  exists cn lay, build_captions (format_italics nodes) s e [] (mkPre s e [] None) = [mkPre s e cn lay]
                 /\ words (strip (concat (map node_text cn))) = words (ntext nodes).
Proof.
  intros nodes s e P T. rewrite (format_plain nodes P).
  destruct (skip_empty_plain nodes P) as [P2 N2]. pose proof (sle_plain _ P2) as P3.
  destruct (build_plain (strip_line_ends (skip_empty_text nodes)) s e [] (mkPre s e [] None) P3) as (lay & E).
  cbn [pc_start pc_end pc_nodes app] in E. eexists _, lay. split; [exact E|].
  rewrite (cnode_text _ P3). rewrite words_strip by (apply ntext_okc; [exact P3|apply sle_tame, skip_empty_tame; exact T]).
  unfold words. destruct (sle_words (skip_empty_text nodes) P2 (skip_empty_tame nodes T)) as (W & _). rewrite W, N2. reflexivity.
Qed.

(* ---- the caption store ---------------------------------------------------------------------------------------------- *)
Definition tol : Q := 3 * frame_us + (1 # 1024).
Definition obs (c : precap) : Q * str := (pc_start c, strip (cap_text c)).
Definition R (cap : wcap) (pc : precap) : Prop :=
  refines 32 (words (w_text cap)) (words (strip (cap_text pc))) = true /\ q_within (pc_start pc) (w_start cap) tol = true.

Lemma R_set_end : forall cap pc e, R cap pc -> R cap (set_end e pc).
Proof. intros cap [s e0 n l] e H. exact H. Qed.

Lemma Forall2_map_r : forall caps l e, Forall2 R caps l -> Forall2 R caps (map (set_end e) l).
Proof. intros caps l e H. induction H; cbn [map]; constructor; [apply R_set_end; assumption|assumption]. Qed.

Lemma Forall2_map_tail : forall caps l n e, Forall2 R caps l -> Forall2 R caps (map_tail n (set_end e) l).
Proof.
  intros caps l n e H. unfold map_tail. set (k := (length l - n)%nat). rewrite <- (firstn_skipn k l) in H.
  apply Forall2_app_inv_r in H. destruct H as (c1 & c2 & H1 & H2 & ->). apply Forall2_app; [exact H1|]. apply Forall2_map_r. exact H2.
Qed.

Lemma ulb_R : forall caps st new, Forall2 R caps (st_caps st) -> Forall2 R caps (update_last_batch st new).
Proof.
  intros caps st new H. unfold update_last_batch. destruct new as [|n0 rest]; [exact H|].
  destruct (last (map Some (skipn (length (st_caps st) - st_batch st) (st_caps st))) None) as [b|]; [|exact H].
  destruct (Qeq_bool (pc_end b) 0 || negb (Qle_bool join_threshold (pc_start n0 - pc_end b))); [|exact H].
  apply Forall2_map_tail. exact H.
Qed.

Lemma extend_R : forall caps st cap P, Forall2 R caps (st_caps st) -> has_nodes P = true -> R cap P ->
  Forall2 R (caps ++ [cap]) (st_caps (stash_extend st [P])).
Proof.
  intros caps st cap P H N RP. unfold stash_extend. cbn [filter]. rewrite N. cbn [st_caps].
  apply Forall2_app; [apply ulb_R; exact H|]. constructor; [exact RP|constructor].
Qed.

Lemma ok_reread_R : forall caps pcs, Forall2 R caps pcs -> ok_reread (map to_cue caps) (map obs pcs) = 0.
Proof.
  intros caps pcs H. induction H as [|cap pc caps pcs [R1 R2] H IH]; [reflexivity|].
  cbn [map ok_reread obs to_cue q_text q_start]. rewrite R1. cbn [negb]. fold tol. rewrite R2. cbn [negb]. exact IH.
Qed.

Lemma obs_fix_last : forall l, map obs (fix_last l) = map obs l.
Proof.
  assert (A : forall l, map obs (fix_last_rev l) = map obs l).
  { induction l as [|c t IH]; [reflexivity|]. cbn [fix_last_rev]. destruct (Qeq_bool (pc_end c) 0); [|reflexivity].
    cbn [map]. rewrite IH. reflexivity. }
  intros l. unfold fix_last. rewrite map_rev, A, <- map_rev, rev_involutive. reflexivity.
Qed.

Lemma finish_obs : forall st pcs, finish_read st = ROk pcs -> map obs pcs = map obs (st_caps st).
Proof.
  intros st pcs H. unfold finish_read in H. destruct (length_check (map to_lcap (st_caps st))); [discriminate|].
  destruct (existsb is_flash (st_caps st)); [discriminate|]. destruct (st_caps st) as [|c t] eqn:E; [discriminate|].
  inversion H; subst. apply obs_fix_last.
Qed.

(* ---- closing the caption on display ------------------------------------------------------------------------------------ *)
Lemma closed_some : forall st nodes a t, plain nodes = true -> forallb tame_node nodes = true -> words (ntext nodes) <> [] ->
  exists P, closed st (Some (mkCr nodes SNone, a)) t = stash_extend st [P] /\ has_nodes P = true /\ pc_start P = a
            /\ words (strip (cap_text P)) = words (ntext nodes).
Proof.
  intros st nodes a t P T W. unfold closed, create_and_store.
  destruct (cr_is_empty (mkCr nodes SNone)) eqn:E.
  - exfalso. apply W. apply words_blanks_nil. apply blank_ntext; assumption.
  - cbn [cr_nodes]. destruct (caption_strip nodes a t P T) as (cn & lay & B & Wd). rewrite B.
    exists (mkPre a t cn lay). split; [reflexivity|]. split; [|split; [reflexivity|exact Wd]].
    unfold has_nodes. cbn [pc_nodes]. destruct cn; [|reflexivity]. exfalso. apply W. rewrite <- Wd. reflexivity.
Qed.

Inductive qinv (done : list wcap) (st : stash) : option (creator * Q) -> Prop :=
| QNone : Forall2 R done (st_caps st) -> qinv done st None
| QSome : forall done' cap nodes a, done = done' ++ [cap] -> Forall2 R done' (st_caps st) ->
    plain nodes = true -> forallb tame_node nodes = true ->
    refines 32 (words (w_text cap)) (words (ntext nodes)) = true -> words (ntext nodes) <> [] ->
    q_within a (w_start cap) tol = true -> qinv done st (Some (mkCr nodes SNone, a)).

Lemma closed_inv : forall done st q t, qinv done st q -> Forall2 R done (st_caps (closed st q t)).
Proof.
  intros done st q t H. destruct H as [H|done' cap nodes a -> H P T Rf W Qw]; [exact H|].
  destruct (closed_some st nodes a t P T W) as (Pc & -> & N & S & Wd). apply extend_R; [exact H|exact N|].
  split; [rewrite Wd; exact Rf|rewrite S; exact Qw].
Qed.

(* ---- round 4: line lengths and display durations of the stored captions ------------------------------------------- *)
Lemma all32_no_nl : forall sp, forallb (fun c => c =? 32) sp = true -> no_nl sp = true.
Proof.
  intros sp H. unfold no_nl. apply forallb_forall. intros c Hc. rewrite forallb_forall in H. specialize (H c Hc).
  assert (c = 32) by lia. subst. reflexivity.
Qed.

Lemma sle_runs : forall l, plain l = true -> forallb tame_node l = true ->
  forall k, runs_ok (ntext l) k = true -> runs_ok (ntext (strip_line_ends l)) k = true.
Proof.
  induction l as [|n t IH]; intros P T k H; [exact H|]. apply plain_cons in P. destruct P as [Pn Pt].
  cbn [forallb] in T. apply andb_prop in T. destruct T as [Tn Tt]. cbn [strip_line_ends].
  change (ntext (n :: t)) with (node_str n ++ ntext t) in H.
  match goal with |- context [ntext (?x :: strip_line_ends t)] =>
    change (ntext (x :: strip_line_ends t)) with (node_str x ++ ntext (strip_line_ends t)) end.
  destruct n as [k0 tx p]. unfold plain_node, is_text, is_break in Pn. cbn [i_kind] in Pn.
  destruct k0; try discriminate.
  - unfold is_text at 1. cbn [i_kind andb]. destruct (next_plain_is_sep t).
    + unfold rstrip_node, node_str in *. cbn [i_kind i_text i_pos] in *. destruct (tame_split tx Tn) as (sp & E & Sp).
      set (y := rstrip tx) in *. clearbody y. subst tx. rewrite <- app_assoc in H.
      apply (runs_ok_congr y (sp ++ ntext t)); [|exact H]. intros k1 X. apply (IH Pt Tt).
      apply (runs_ok_skip sp); [apply all32_no_nl; exact Sp|exact X].
    + unfold node_str in *. cbn [i_kind i_text] in *. apply (runs_ok_congr tx (ntext t)); [exact (IH Pt Tt)|exact H].
  - unfold is_text at 1. cbn [i_kind andb]. unfold node_str in *. cbn [i_kind] in *.
    apply (runs_ok_congr [10] (ntext t)); [exact (IH Pt Tt)|exact H].
Qed.

Lemma caption_strip_short : forall nodes s e, plain nodes = true -> forallb tame_node nodes = true ->
  exists cn lay, build_captions (format_italics nodes) s e [] (mkPre s e [] None) = [mkPre s e cn lay]
                 /\ words (strip (concat (map node_text cn))) = words (ntext nodes)
                 /\ (short (ntext nodes) = true -> short (concat (map node_text cn)) = true).
Proof.
  intros nodes s e P T. destruct (caption_strip nodes s e P T) as (cn & lay & B & W). exists cn, lay. split; [exact B|]. split; [exact W|].
  intros Sh. rewrite (format_plain nodes P) in B.
  destruct (skip_empty_plain nodes P) as [P2 N2]. pose proof (sle_plain _ P2) as P3.
  destruct (build_plain (strip_line_ends (skip_empty_text nodes)) s e [] (mkPre s e [] None) P3) as (lay' & E).
  cbn [pc_start pc_end pc_nodes app] in E. rewrite E in B. inversion B; subst cn. rewrite (cnode_text _ P3).
  unfold short. apply sle_runs; [exact P2|apply skip_empty_tame; exact T|]. rewrite N2. exact Sh.
Qed.

Definition fr (k : Z) : Q := inject_Z k * mpc.
(* a stored caption: short lines; displayed from frame ks to frame ke, at least two frames, its start at least two frames
   before frame B *)
Definition capG (B : Z) (pc : precap) : Prop :=
  short (cap_text pc) = true /\
  exists ks ke, 0 <= ks /\ pc_start pc == fr ks /\ pc_end pc == fr ke /\ ks + 2 <= ke /\ ks + 2 <= B.

Lemma capG_weaken : forall B B' pc, B <= B' -> capG B pc -> capG B' pc.
Proof. intros B B' pc H (S & ks & ke & A1 & A2 & A3 & A4 & A5). split; [exact S|]. exists ks, ke. repeat split; try assumption; lia. Qed.

Lemma capG_set_end : forall B pc a ka, capG B pc -> a == fr ka -> B <= ka -> capG B (set_end a pc).
Proof.
  intros B [s e n l] a ka (S & ks & ke & A1 & A2 & A3 & A4 & A5) Ea Hk. split; [exact S|]. exists ks, ka.
  cbn [set_end pc_start pc_end] in *. repeat split; try assumption; lia.
Qed.

Lemma Forall_map_tail : forall B l n a ka, Forall (capG B) l -> a == fr ka -> B <= ka ->
  Forall (capG B) (map_tail n (set_end a) l).
Proof.
  intros B l n a ka H Ea Hk. unfold map_tail. set (k := (length l - n)%nat). rewrite <- (firstn_skipn k l) in H.
  apply Forall_app in H. destruct H as [H1 H2]. apply Forall_app. split; [exact H1|].
  apply Forall_forall. intros x Hx. apply in_map_iff in Hx. destruct Hx as (y & <- & Hy). rewrite Forall_forall in H2.
  exact (capG_set_end B y a ka (H2 y Hy) Ea Hk).
Qed.

Lemma ulb_G : forall B st P rest ka, Forall (capG B) (st_caps st) -> pc_start P == fr ka -> B <= ka ->
  Forall (capG B) (update_last_batch st (P :: rest)).
Proof.
  intros B st P rest ka H Ea Hk. unfold update_last_batch.
  destruct (last (map Some (skipn (length (st_caps st) - st_batch st) (st_caps st))) None) as [b|]; [|exact H].
  destruct (Qeq_bool (pc_end b) 0 || negb (Qle_bool join_threshold (pc_start P - pc_end b))); [|exact H].
  exact (Forall_map_tail B _ _ _ ka H Ea Hk).
Qed.

Lemma frames_le : forall k t, (fr k <= t)%Q -> k <= tc_frames t.
Proof.
  intros k t H. unfold tc_frames. rewrite <- (Qfloor_Z k). apply Qfloor_resp_le. unfold fr, mpc in H.
  change (inject_Z k * (1001000 # 30) <= t)%Q in H. nra.
Qed.

Lemma fr_mono : forall a b, a <= b -> (fr a <= fr b)%Q.
Proof. intros a b H. unfold fr. apply Qmult_le_compat_r; [rewrite <- Zle_Qle; exact H|discriminate]. Qed.

Lemma capG_not_flash : forall B pc, capG B pc -> is_flash pc = false.
Proof.
  intros B pc (_ & ks & ke & _ & A2 & A3 & A4 & _). unfold is_flash.
  assert (X : (inject_Z 50000 <= pc_end pc - pc_start pc)%Q).
  { rewrite A2, A3. pose proof (fr_mono (ks + 2) ke A4) as M. unfold fr in *. rewrite inject_Z_plus in M.
    unfold mpc in *. change (inject_Z 2) with (2 # 1)%Q in M. change (inject_Z 50000) with (50000 # 1)%Q.
    assert (Y : ((inject_Z ks + (2 # 1)) * (1001000 # 30) == inject_Z ks * (1001000 # 30) + (2002000 # 30))%Q) by ring.
    rewrite Y in M. assert (Z0 : ((50000 # 1) <= (2002000 # 30))%Q) by (unfold Qle; cbn; lia). lra. }
  apply Qle_bool_iff in X. rewrite X. apply andb_false_r.
Qed.

(* ---- one cue: its load line and, if kept, its clear line ----------------------------------------------------------------- *)
Definition has_word (c : wcap) : Prop := words (w_text c) <> [].
Definition below_100h (c : wcap) : Prop := (w_end c < 360000000000)%Q.
Notation ST0 := (ST creator0 creator0 0).

Lemma frames_range : forall t, (0 <= t)%Q -> (t < 360000000000)%Q -> 0 <= tc_frames t < 10800000.
Proof.
  intros t H0 H1. unfold tc_frames. split.
  - change 0 with (Qfloor 0). apply Qfloor_resp_le. change (0 <= t * (30 # 1001000))%Q. nra.
  - rewrite Zlt_Qlt. eapply Qle_lt_trans; [apply Qfloor_le|]. change (inject_Z 10800000) with (10800000 # 1)%Q. nra.
Qed.

Lemma refines_nonnil : forall w ws, refines w ws [] = true -> ws = [].
Proof. intros w [|x t] H; [reflexivity|discriminate]. Qed.

(* the store after closing the caption on display at frame kp (kp not before the frame of the last cue's start) *)
Inductive ginv (p : Q) (st : stash) : option (creator * Q) -> Prop :=
| GNone : Forall (capG (tc_frames p)) (st_caps st) -> ginv p st None
| GSome : forall nodes a ka, a == fr ka -> 0 <= ka -> ka + 2 <= tc_frames p -> Forall (capG ka) (st_caps st) ->
    short (ntext nodes) = true -> plain nodes = true -> forallb tame_node nodes = true -> words (ntext nodes) <> [] ->
    ginv p st (Some (mkCr nodes SNone, a)).

Lemma closed_parts : forall st nodes a t, plain nodes = true -> forallb tame_node nodes = true -> words (ntext nodes) <> [] ->
  short (ntext nodes) = true ->
  exists cn lay, closed st (Some (mkCr nodes SNone, a)) t
                 = mkStash (update_last_batch st [mkPre a t cn lay] ++ [mkPre a t cn lay]) 1
                 /\ short (concat (map node_text cn)) = true.
Proof.
  intros st nodes a t P T W Sh. unfold closed, create_and_store.
  destruct (cr_is_empty (mkCr nodes SNone)) eqn:E.
  - exfalso. apply W. apply words_blanks_nil. apply blank_ntext; assumption.
  - cbn [cr_nodes]. destruct (caption_strip_short nodes a t P T) as (cn & lay & B & Wd & S). rewrite B.
    exists cn, lay. split; [|exact (S Sh)]. unfold stash_extend. cbn [filter].
    assert (N : has_nodes (mkPre a t cn lay) = true).
    { unfold has_nodes. cbn [pc_nodes]. destruct cn; [|reflexivity]. exfalso. apply W. rewrite <- Wd. reflexivity. }
    rewrite N. reflexivity.
Qed.

Lemma closed_G : forall p st q t kp, ginv p st q -> t == fr kp -> tc_frames p <= kp ->
  Forall (capG (tc_frames p)) (st_caps (closed st q t)).
Proof.
  intros p st q t kp H Et Hk. destruct H as [H|nodes a ka Ea K0 K2 H Sh P T W]; [exact H|].
  destruct (closed_parts st nodes a t P T W Sh) as (cn & lay & -> & S). cbn [st_caps]. apply Forall_app. split.
  - pose proof (ulb_G ka st (mkPre a t cn lay) [] ka H Ea (Z.le_refl ka)) as U.
    eapply Forall_impl; [|exact U]. intros x X. apply (capG_weaken ka); [lia|exact X].
  - constructor; [|constructor]. split; [exact S|]. exists ka, kp. cbn [pc_start pc_end]. repeat split; try assumption; lia.
Qed.

Lemma item_run : forall cap y p, good cap y -> cap_dom cap -> has_word cap -> below_100h cap ->
  (0 <= p)%Q -> (p <= w_start cap - cap_words cap * mpc)%Q -> (0 <= w_start cap)%Q -> (w_start cap <= w_end cap)%Q ->
  forall done st tk ds nodes q tm tc frm, qinv done st q -> ginv p st q ->
  exists st' tk' ds' nodes' q' tm' tc' fr',
    fold_left translate_line (map to_sline (map pline (item_ls y))) (ST0 st tk LNone ds nodes q tm tc frm)
    = ST0 st' tk' LNone ds' nodes' q' tm' tc' fr' /\ qinv (done ++ [cap]) st' q' /\ ginv (w_start cap) st' q'.
Proof.
  intros cap [[ws s] eo] p (G1 & G2 & G3 & G4) [B L] HW H100 P0p Sp S1 S2 done st tk ds nodes q tm tc frm I GI. cbn [fst snd] in *.
  assert (S0 : (0 <= w_start cap - cap_words cap * mpc)%Q) by lra.
  pose proof (text_words_explicit (w_text cap) ws L B G1) as Ews. subst ws.
  set (ws := flat_map roww (layout_rows (w_text cap))) in *.
  set (lines := split_ch 10 (layout_line (w_text cap))) in *.
  assert (Er : layout_rows (w_text cap) = number_rows (16 - Z.of_nat (length lines)) lines) by reflexivity.
  assert (Ll : (1 <= length lines <= 15)%nat).
  { pose proof (layout_rows_count (w_text cap)) as C. rewrite Er, number_rows_length in C, L. lia. }
  set (first := 16 - Z.of_nat (length lines)) in *.
  assert (Bl : Forall (fun line => forallb is_basic line = true) lines).
  { apply Forall_forall. intros line Hl. pose proof (layout_rows_basic (w_text cap) B) as RB. rewrite Er in RB.
    rewrite <- (number_rows_snd lines first) in Hl. apply in_map_iff in Hl. destruct Hl as (r & <- & Hr). exact (RB r Hr). }
  assert (Rs : rows_short lines).
  { apply Forall_forall. intros line Hl. apply (rows_le_32 (w_text cap)). rewrite Er, number_rows_snd. exact Hl. }
  assert (Rf : refines 32 (words (w_text cap)) (flat_map words lines) = true).
  { pose proof (layout_refines_words_basic (w_text cap) B) as X. rewrite Er, number_rows_snd in X. exact X. }
  assert (Wn : flat_map words lines <> []).
  { intros E. rewrite E in Rf. apply refines_nonnil in Rf. exact (HW Rf). }
  (* the clock *)
  assert (CW : cap_words cap = code_words (render_words ws)) by (unfold cap_words; rewrite G1, code_words_render; reflexivity).
  rewrite CW in S0, Sp. destruct (pre_roll_le (render_words ws) (w_start cap) S1) as [Pl P0]. rewrite <- G3 in Pl, P0.
  assert (Fr : 0 <= tc_frames s < 10800000) by (apply frames_range; [exact P0|unfold below_100h in H100; lra]).
  assert (Fp : tc_frames p <= tc_frames s).
  { apply tc_frames_mono. rewrite G3, (pre_roll_exact _ _ S0). exact Sp. }
  set (n := Z.of_nat (length ws)).
  destruct (get_time_frames (tc_frames s) (n + 4) Fr ltac:(lia)) as (t1 & Gt1 & Et1).
  destruct (get_time_frames (tc_frames s) (n + 6) Fr ltac:(lia)) as (t2 & Gt2 & Et2).
  pose proof (visible_within_3_frames (render_words ws) (w_start cap) S0) as Vis. cbv zeta in Vis.
  rewrite render_words_length in Vis.
  replace (Z.of_nat (5 * length ws) / 5) with n in Vis
    by (unfold n; rewrite Nat2Z.inj_mul; change (Z.of_nat 5) with 5; rewrite Z.mul_comm, Z.div_mul; lia).
  rewrite <- G3 in Vis. destruct Vis as [V1 V2]. pose proof mpc_pos as M.
  assert (Qw : q_within t2 (w_start cap) tol = true).
  { unfold q_within, tol. apply Qle_bool_iff. apply Qabs_Qle_condition. change frame_us with mpc. split; lra. }
  assert (Ka : tc_frames s + (n + 6) + 2 <= tc_frames (w_start cap)).
  { apply frames_le. unfold fr. rewrite inject_Z_plus. change (inject_Z 2) with (2 # 1)%Q. lra. }
  (* the load line *)
  unfold item_ls, cap_lines, unw. cbn [fst snd map].
  change (to_sline (pline (s, pre4 ++ ws ++ post3, EOC)))
    with (format_frames (tc_frames s), map word_z ((pre4 ++ ws ++ post3) ++ [EOC])).
  change (map word_z ((pre4 ++ ws ++ post3) ++ [EOC])) with (load_words first lines). cbn [fold_left].
  assert (H1f : 1 <= first) by (unfold first; lia).
  assert (H2f : first + Z.of_nat (length lines) <= 16) by (unfold first; lia).
  destruct (load_line_run creator0 creator0 0 lines first st tk ds nodes q tm tc frm (format_frames (tc_frames s)) t1 t2
              H1f H2f Bl Gt1 Gt2) as (tk1 & ds1 & nodes1 & E1 & P1 & T1 & W1 & Sh1).
  rewrite E1.
  assert (Wne : words (ntext nodes1) <> []) by (rewrite W1; exact Wn).
  assert (Ce : cr_is_empty (mkCr nodes1 SNone) = false).
  { destruct (cr_is_empty (mkCr nodes1 SNone)) eqn:E; [|reflexivity]. exfalso. apply Wne. apply words_blanks_nil. apply blank_ntext; assumption. }
  unfold after_eoc, queued. rewrite Ce.
  assert (I1 : qinv (done ++ [cap]) (closed st q t1) (Some (mkCr nodes1 SNone, t2))).
  { eapply QSome; [reflexivity|apply closed_inv; exact I|exact P1|exact T1|rewrite W1; exact Rf|exact Wne|exact Qw]. }
  assert (N0 : 0 <= n) by (unfold n; lia).
  assert (GI1 : ginv (w_start cap) (closed st q t1) (Some (mkCr nodes1 SNone, t2))).
  { apply (GSome _ _ nodes1 t2 (tc_frames s + (n + 6))); [exact Et2|lia|lia| |exact (Sh1 Rs)|exact P1|exact T1|exact Wne].
    eapply Forall_impl; [|exact (closed_G p st q t1 (tc_frames s + (n + 4)) GI Et1 ltac:(lia))].
    intros x. apply capG_weaken. lia. }
  destruct eo as [e|].
  - destruct G4 as [G4|G4]; [|discriminate]. inversion G4; subst e. cbn [map fold_left].
    change (to_sline (pline (w_end cap, [EDM], EDM))) with (format_frames (tc_frames (w_end cap)), [w_edm; w_edm]).
    assert (Fe : 0 <= tc_frames (w_end cap) < 10800000) by (apply frames_range; [lra|exact H100]).
    destruct (get_time_frames (tc_frames (w_end cap)) 0 Fe ltac:(lia)) as (t3 & Gt3 & Et3).
    destruct (clear_line_run creator0 creator0 0 (closed st q t1) tk1 ds1 [] (Some (mkCr nodes1 SNone, t2)) t2
                (format_frames (tc_frames s)) (Z.of_nat (length (flat_map roww (number_rows first lines))) + 8)
                (format_frames (tc_frames (w_end cap))) t3 Gt3) as (ds2 & E2).
    rewrite E2. eexists _, _, _, _, _, _, _, _. split; [reflexivity|]. split; [apply QNone; apply closed_inv; exact I1|].
    apply GNone. apply (closed_G (w_start cap) _ _ t3 (tc_frames (w_end cap) + 0) GI1 Et3).
    pose proof (tc_frames_mono _ _ S2). lia.
  - cbn [map fold_left]. eexists _, _, _, _, _, _, _, _. split; [reflexivity|split; [exact I1|exact GI1]].
Qed.

(* the spacing hypothesis without `end <= next start`: a cue may end after the next one starts (the writer then drops its
   clear line; the next load's EDM closes it) *)
Fixpoint spaced_w (prev_start : Q) (caps : list wcap) : Prop :=
  match caps with
  | [] => True
  | c :: t => (prev_start <= w_start c - cap_words c * mpc)%Q /\ (w_start c <= w_end c)%Q /\ spaced_w (w_start c) t
  end.
Lemma spaced_w_of : forall caps p, caps_spaced p caps -> spaced_w p caps.
Proof. induction caps as [|c t IH]; intros p S; [exact I|]. destruct S as (S1 & S2 & _ & S4). cbn [spaced_w]. auto. Qed.
Lemma spaced_w_each : forall caps prev, (0 <= prev)%Q -> spaced_w prev caps ->
  Forall (fun c => (0 <= w_start c - cap_words c * mpc)%Q /\ (0 <= w_start c)%Q /\ (0 <= w_end c)%Q) caps.
Proof.
  induction caps as [|c t IH]; intros prev P S; [constructor|]. destruct S as (S1 & S2 & S4).
  assert (CW : (0 <= cap_words c * mpc)%Q).
  { apply Qmult_le_0_compat; [|pose proof mpc_pos; lra]. unfold cap_words.
    destruct (text_to_words (w_text c)); [|lra]. change 0%Q with (inject_Z 0). rewrite <- Zle_Qle. lia. }
  constructor; [split; [lra|split; lra]|]. apply (IH (w_start c)); [lra|exact S4].
Qed.

Lemma items_run : forall caps out, Forall2 good caps out ->
  forall p, (0 <= p)%Q -> spaced_w p caps -> Forall cap_dom caps -> Forall has_word caps -> Forall below_100h caps ->
  forall done st tk ds nodes q tm tc frm, qinv done st q -> ginv p st q ->
  exists st' tk' ds' nodes' q' tm' tc' fr' p',
    fold_left translate_line (map to_sline (map pline (flat_map item_ls out))) (ST0 st tk LNone ds nodes q tm tc frm)
    = ST0 st' tk' LNone ds' nodes' q' tm' tc' fr' /\ qinv (done ++ caps) st' q' /\ ginv p' st' q'.
Proof.
  intros caps out G. induction G as [|cap y caps out Gy G IH]; intros p P0 S D HW H100 done st tk ds nodes q tm tc frm I GI.
  - cbn [flat_map map fold_left]. rewrite app_nil_r. eexists _, _, _, _, _, _, _, _, p. split; [reflexivity|split; assumption].
  - pose proof (spaced_w_each (cap :: caps) p P0 S) as Each. inversion Each as [|? ? (E1 & E2 & E3) _]; subst.
    destruct S as (S1 & S2 & S4).
    inversion D as [|? ? Dc Dt]; subst. inversion HW as [|? ? Wc Wt]; subst. inversion H100 as [|? ? Hc Ht]; subst.
    cbn [flat_map]. rewrite !map_app, fold_left_app.
    destruct (item_run cap y p Gy Dc Wc Hc P0 S1 E2 S2 done st tk ds nodes q tm tc frm I GI)
      as (st1 & tk1 & ds1 & n1 & q1 & tm1 & tc1 & fr1 & Ex & I1 & GI1).
    rewrite Ex. destruct (IH (w_start cap) E2 S4 Dt Wt Ht (done ++ [cap]) st1 tk1 ds1 n1 q1 tm1 tc1 fr1 I1 GI1)
      as (st2 & tk2 & ds2 & n2 & q2 & tm2 & tc2 & fr2 & p2 & E2' & I2 & GI2).
    rewrite E2'. rewrite <- app_assoc in I2. eexists _, _, _, _, _, _, _, _, p2. split; [reflexivity|split; assumption].
Qed.

(* the store at the end of the document: nothing for the two final checks of SCCReader.read to refuse *)
Lemma final_G : forall p st q, ginv p st q ->
  Forall (fun pc => is_flash pc = false /\ short (cap_text pc) = true) (st_caps (closed st q 0)).
Proof.
  intros p st q H. destruct H as [H|nodes a ka Ea K0 K2 H Sh P T W].
  - cbn [closed]. eapply Forall_impl; [|exact H]. intros x X. split; [exact (capG_not_flash _ x X)|exact (proj1 X)].
  - destruct (closed_parts st nodes a 0 P T W Sh) as (cn & lay & -> & S). cbn [st_caps]. apply Forall_app. split.
    + eapply Forall_impl; [|exact (ulb_G ka st (mkPre a 0 cn lay) [] ka H Ea (Z.le_refl ka))].
      intros x X. split; [exact (capG_not_flash _ x X)|exact (proj1 X)].
    + constructor; [|constructor]. split; [|exact S]. unfold is_flash. cbn [pc_start pc_end].
      assert (X : (0 - a <= 0)%Q).
      { rewrite Ea. unfold fr. assert (0 <= inject_Z ka)%Q by (change 0%Q with (inject_Z 0); rewrite <- Zle_Qle; exact K0).
        pose proof mpc_pos. nra. }
      apply Qle_bool_iff in X. rewrite X. reflexivity.
Qed.

Definition caps_ok (caps : list wcap) : Prop :=
  Forall cap_dom caps /\ spaced_w 0 caps /\ Forall has_word caps /\ Forall below_100h caps.

Lemma caps_ok_of_composed : forall caps, Forall cap_dom caps -> caps_spaced 0 caps -> Forall has_word caps ->
  Forall below_100h caps -> caps_ok caps.
Proof. intros caps D S W H. split; [exact D|split; [apply spaced_w_of; exact S|split; assumption]]. Qed.

Lemma doc_lines : forall caps doc, write caps = Ok doc -> Forall cap_dom caps -> spaced_w 0 caps ->
  exists out, Forall2 good caps out /\ parse_document doc = Some (map pline (flat_map item_ls out)).
Proof.
  intros caps doc W D S. unfold write in W.
  destruct (res_map (fun c => do code <- text_to_code (w_text c); Ok (code, w_start c, w_end c)) caps) as [codes|] eqn:R;
    [|discriminate]. cbn [bind] in W. inversion W; subst doc. clear W.
  destruct (caps_wcodes caps codes R D) as (wcodes & Ec & F1). subst codes.
  destruct (pass2_items wcodes) as (out & Ep & F2).
  pose proof (good_compose caps wcodes out F1 F2) as G.
  pose proof (spaced_w_each caps 0 (Qle_refl 0) S) as Each.
  exists out. split; [exact G|].
  assert (LS : forall l, In l (flat_map item_ls out) ->
               (0 <= fst (fst l))%Q /\ forallb byte_ok (snd (fst l)) = true /\ byte_ok (snd l) = true).
  { clear - G Each. revert out G Each. induction caps as [|c t IH]; intros out G Each; inversion G as [|? y ? yt Gy Gt]; subst;
      intros l Hl; [destruct Hl|].
    inversion Each as [|? ? Ec Et]; subst. cbn [flat_map] in Hl. apply in_app_iff in Hl. destruct Hl as [Hl|Hl]; [|exact (IH yt Gt Et l Hl)].
    destruct y as [[ws s] eo]. destruct Gy as (G1 & G2 & G3 & G4). destruct Ec as (E1 & E2 & E3). cbn [fst snd] in *.
    unfold item_ls, cap_lines, unw in Hl. cbn [fst snd] in Hl.
    assert (Bw : forallb byte_ok (pre4 ++ ws ++ post3) = true).
    { rewrite !forallb_app. rewrite (forallb_impl _ _ _ ws word_odd_byte_ok G2). reflexivity. }
    destruct Hl as [<-|Hl].
    - cbn [fst snd]. split; [subst s; apply pre_roll_le; exact E2|]. split; [exact Bw|reflexivity].
    - destruct eo as [e|]; [|destruct Hl]. destruct Hl as [<-|[]]. cbn [fst snd].
      destruct G4 as [G4|G4]; [|discriminate]. inversion G4; subst e. split; [exact E3|]. repeat split. }
  rewrite Ep, items_text. apply (doc_parses (flat_map item_ls out)). exact LS.
Qed.

Theorem reread_stash : forall caps, caps_ok caps ->
  exists stf, reread caps = RRRead (finish_read stf)
              /\ ok_reread (map to_cue caps) (map obs (st_caps stf)) = 0
              /\ length (st_caps stf) = length caps
              /\ Forall (fun pc => is_flash pc = false /\ short (cap_text pc) = true) (st_caps stf).
Proof.
  intros caps (D & S & HW & H100).
  assert (Wk : exists doc, write caps = Ok doc).
  { pose proof (spaced_w_each caps 0 (Qle_refl 0) S) as Each.
    assert (Hc : forall c, In c caps -> (0 <= w_start c)%Q /\ (0 <= w_end c)%Q /\ (length (layout_rows (w_text c)) <= 15)%nat).
    { rewrite Forall_forall in Each, D. intros c Hc. destruct (Each c Hc) as (_ & E2 & E3). destruct (D c Hc) as [_ Dr]. auto. }
    destruct (SccRoundTripFacts.reread_reaches_reader caps Hc) as (lines0 & R0 & _). unfold reread in R0.
    destruct (write caps) as [doc|e]; [exists doc; reflexivity|discriminate]. }
  destruct Wk as (doc & W).
  destruct (doc_lines caps doc W D S) as (out & G & PD).
  unfold reread. rewrite W, PD.
  destruct (items_run caps out G 0%Q (Qle_refl 0) S D HW H100 [] stash0 tracker0 false [] None 0%Q (lit "00:00:00;00") 0
              (QNone [] stash0 (Forall2_nil R)) (GNone 0 stash0 (Forall_nil _)))
    as (st' & tk' & ds' & n' & q' & tm' & tc' & fr' & p' & E & I & GI).
  cbn [app] in I.
  exists (closed st' q' 0). split; [|split; [|split]].
  - unfold read, run_lines. change (rstate0 0) with (ST0 stash0 tracker0 LNone false [] None 0%Q (lit "00:00:00;00") 0).
    rewrite E. cbn [r_err ST]. unfold flush_implicit. cbn [r_active r_queue ST].
    destruct q' as [[c0 a]|]; reflexivity.
  - apply ok_reread_R. apply closed_inv. exact I.
  - pose proof (closed_inv caps st' q' 0 I) as X. clear - X. induction X; cbn [length]; congruence.
  - exact (final_G p' st' q' GI).
Qed.

(* THE RE-READ CLAUSE, unconditional on the domain: the reader model returns captions for the writer model's document, one
   per cue, with the cue's words and a start within three frames *)
Theorem reread_store : forall caps, caps_ok caps -> caps <> [] ->
  exists pcs, reread caps = RRRead (ROk pcs) /\ ok_reread (map to_cue caps) (map obs pcs) = 0 /\ length pcs = length caps.
Proof.
  intros caps H Ne. destruct (reread_stash caps H) as (stf & E & O & L & F).
  assert (LC : length_check (map to_lcap (st_caps stf)) = None).
  { apply short_texts_pass_length_check. apply Forall_forall. intros c Hc. apply in_map_iff in Hc. destruct Hc as (pc & <- & Hp).
    rewrite Forall_forall in F. exact (proj2 (F pc Hp)). }
  assert (FL : existsb is_flash (st_caps stf) = false).
  { apply not_true_is_false. intros X. apply existsb_exists in X. destruct X as (pc & Hp & Hf). rewrite Forall_forall in F.
    rewrite (proj1 (F pc Hp)) in Hf. discriminate. }
  assert (FR : finish_read stf = ROk (fix_last (st_caps stf))).
  { unfold finish_read. rewrite LC, FL. destruct (st_caps stf) as [|c t] eqn:Ec; [|reflexivity].
    destruct caps; [congruence|discriminate]. }
  exists (fix_last (st_caps stf)). split; [rewrite E, FR; reflexivity|]. split.
  - rewrite obs_fix_last. exact O.
  - rewrite <- L. rewrite <- (map_length obs), obs_fix_last, map_length. reflexivity.
Qed.

Theorem roundtrip_ok_all : forall caps, caps_ok caps -> caps <> [] -> roundtrip_ok caps = true.
Proof.
  intros caps H Ne. destruct (reread_store caps H Ne) as (pcs & E & O & _). unfold roundtrip_ok.
  assert (Ob : reread_obs caps = Some (map obs pcs)) by (unfold reread_obs; rewrite E; reflexivity).
  rewrite Ob. change (map (fun c => mkCue (w_text c) (w_start c) (w_end c)) caps) with (map to_cue caps). rewrite O. reflexivity.
Qed.

(* whenever the reader model returns captions for the writer's document, they satisfy the re-read clause *)
Theorem reread_conditional : forall caps o, caps_ok caps -> reread_obs caps = Some o -> ok_reread (map to_cue caps) o = 0.
Proof.
  intros caps o H. destruct (reread_stash caps H) as (stf & E & O & _ & _). unfold reread_obs. rewrite E.
  destruct (finish_read stf) as [pcs| |] eqn:F; try discriminate. intros X. inversion X; subst o.
  change (map (fun c => (pc_start c, strip (cap_text c))) pcs) with (map obs pcs). rewrite (finish_obs stf pcs F). exact O.
Qed.

(* the only ways the reader model can refuse the writer's document are the two final checks of SCCReader.read *)
Theorem reread_refusals : forall caps, caps_ok caps -> caps <> [] ->
  (exists pcs, reread caps = RRRead (ROk pcs)) \/ (exists m, reread caps = RRRead (RLen m)) \/ reread caps = RRRead (RErr ETiming).
Proof.
  intros caps H Ne. destruct (reread_stash caps H) as (stf & E & _ & L & _). rewrite E. unfold finish_read.
  destruct (length_check (map to_lcap (st_caps stf))) as [m|]; [right; left; exists m; reflexivity|].
  destruct (existsb is_flash (st_caps stf)); [right; right; reflexivity|].
  destruct (st_caps stf) as [|c t]; [destruct caps; [congruence|discriminate]|]. left. eexists. reflexivity.
Qed.

(* in the terms of the boolean the harness evaluates (request 1705): on the domain, the composition check succeeds as soon as
   the reader model returns captions *)
Theorem roundtrip_ok_when_read : forall caps pcs, caps_ok caps -> reread caps = RRRead (ROk pcs) -> roundtrip_ok caps = true.
Proof.
  intros caps pcs H E. unfold roundtrip_ok.
  assert (O : reread_obs caps = Some (map obs pcs)) by (unfold reread_obs; rewrite E; reflexivity).
  rewrite O. change (map (fun c => mkCue (w_text c) (w_start c) (w_end c)) caps) with (map to_cue caps).
  rewrite (reread_conditional caps _ H O). reflexivity.
Qed.
