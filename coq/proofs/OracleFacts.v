(* OracleFacts.v - THE MODEL MEETS THE ORACLE.
   The property oracle of spec/SpecIso.v (the very function that is extracted and evaluated on the implementation's
   observations) is instantiated with D = tree and evaluated on the model's OWN observations of an arbitrary history
   (snapshots of all sets after every operation, outputs, pristine reads): it reports nothing.
   So:  correspondence (implementation observations = model observations, checked per run)
     +  these theorems (model observations satisfy ok_c09 / ok_c10, for ALL histories)
   compose to the property on the implementation, as far as the correspondence reaches. *)
From Coq Require Import List ZArith Bool Arith Lia.
From PV Require Import lib.Sx lib.Str lib.Result model.Store model.Iso spec.SpecIso
     proofs.StoreFacts proofs.IsoFacts proofs.RegionFacts proofs.SccReadFacts.
Import ListNotations.

(* ---- decidable equality on snapshots -------------------------------------------------------------------------------- *)
(* ---- the model's observations of a history ---------------------------------------------------------------------------- *)
Definition enc_out (r : result out) : tree :=
  match r with
  | Ok o => TNode 0 [(TInt 0, TNode 1 (map (fun z => (TNone, TInt z)) (out_tokens o))); (TInt 1, out_tree o)]
  | Err e => TNode 1 [(TNone, TInt (err_code e))]
  end.

Definition enc_key (k : Z) (o : wopts) : tree :=
  TNode 2 [(TInt k, TInt (Z.b2z (wo_rel o))); (TInt (Z.b2z (wo_fit o)), TInt (Z.b2z (wo_dims o)));
           (TNone, wo_lang o); (TNone, match wo_pos o with Some p => TInt p | None => TNone end);
           (TNone, TInt (Z.b2z (wo_inline o)))].

Lemma enc_key_inj : forall k o k' o', enc_key k o = enc_key k' o' -> k = k' /\ o = o'.
Proof.
  intros k [r f d l p q] k' [r' f' d' l' p' q'] H. unfold enc_key in H. cbn [wo_rel wo_fit wo_dims wo_lang wo_pos wo_inline] in H.
  injection H as Hk Hr Hf Hd Hl Hp Hq. split; [exact Hk|].
  assert (q = q') by (destruct q, q'; simpl in Hq; congruence).
  assert (r = r') by (destruct r, r'; simpl in Hr; congruence).
  assert (f = f') by (destruct f, f'; simpl in Hf; congruence).
  assert (d = d') by (destruct d, d'; simpl in Hd; congruence).
  assert (p = p') by (destruct p, p'; congruence).
  subst. reflexivity.
Qed.

(* the same read in a pristine process: fresh reader object, initial store *)
Definition pristine_of (c : cfg) (rk : Z) (t : tree) : tree :=
  let '(st, _, s) := read c rk rinst0 t store0 in snap FUEL st s.

Definition digests_of (w : world) : list tree := map (snap FUEL (w_st w)) (w_sets w).

Definition obs_of (c : cfg) (w : world) (o : op) : iobs tree :=
  let digs := digests_of (fst (step c w o)) in
  let n := Z.of_nat (length (w_sets w)) in
  match o with
  | OBuild _ => mkIobs 0%Z n TNone TNone TNone digs
  | ORead _ rk t => mkIobs 1%Z n TNone TNone (pristine_of c rk t) digs
  | OWrite wid k wo si =>
      match nth_error (w_sets w) si with
      | Some s =>
          let wi := match lookup wid (w_writers w) with Some x => x | None => winst0 end in
          mkIobs 2%Z (Z.of_nat si) (enc_key k wo) (enc_out (wr_result (write c k wo wi (w_st w) s))) TNone digs
      | None => mkIobs 0%Z n TNone TNone TNone digs
      end
  | OEdit si _ =>
      match nth_error (w_sets w) si with
      | Some _ => mkIobs 3%Z (Z.of_nat si) TNone TNone TNone digs
      | None => mkIobs 0%Z n TNone TNone TNone digs
      end
  end.

Fixpoint model_obs (c : cfg) (w : world) (ops : list op) : list (iobs tree) :=
  match ops with
  | [] => []
  | o :: t => obs_of c w o :: model_obs c (fst (step c w o)) t
  end.

(* ---- list lemmas about the oracle's comparisons ------------------------------------------------------------------------- *)
Lemma prefix_same_map : forall (f g : val -> tree) sets extra,
  (forall sk, In sk sets -> g sk = f sk) ->
  prefix_same tree tree_eqb (map f sets) (map g (sets ++ extra)) = true.
Proof.
  intros f g sets extra H. induction sets as [|x t IH]; simpl; auto.
  rewrite (H x (or_introl eq_refl)), tree_eqb_refl. simpl. apply IH. intros sk Hs. apply H. right. exact Hs.
Qed.

Lemma prefix_same_but_map : forall (f g : val -> tree) sets z,
  (forall k sk, nth_error sets k = Some sk -> Z.of_nat k <> z -> g sk = f sk) ->
  prefix_same_but tree tree_eqb z (map f sets) (map g sets) = true.
Proof.
  intros f g sets. induction sets as [|x t IH]; intros z H; simpl; auto.
  apply andb_true_iff. split.
  - destruct (Z.eqb_spec z 0) as [->|Hz]; [reflexivity|]. simpl.
    rewrite (H O x eq_refl) by (simpl; lia). apply tree_eqb_refl.
  - apply IH. intros k sk Hk Hz. apply (H (S k) sk Hk). lia.
Qed.

Lemma dnth_map : forall (f : val -> tree) sets si s,
  nth_error sets si = Some s -> dnth tree TCut (map f sets) (Z.of_nat si) = f s.
Proof.
  intros f sets si s H. unfold dnth. rewrite Nat2Z.id.
  revert si H. induction sets as [|x t IH]; intros [|si] H; simpl in *; try discriminate.
  - inversion H; subst. reflexivity.
  - apply IH. exact H.
Qed.

Lemma dnth_map_last : forall (f : val -> tree) sets s,
  dnth tree TCut (map f (sets ++ [s])) (Z.of_nat (length sets)) = f s.
Proof.
  intros f sets s. apply dnth_map. rewrite nth_error_app2 by lia. rewrite Nat.sub_diag. reflexivity.
Qed.

(* ---- C09: the model meets ok_c09 ------------------------------------------------------------------------------------------ *)
Definition seen_ok (seen : list (tree * tree * tree)) : Prop :=
  Forall (fun e => exists k o, fst (fst e) = enc_key k o /\ snd e = enc_out (output_of k o (snd (fst e)))) seen.

Lemma conflicting_false : forall k o dg seen,
  seen_ok seen -> conflicting tree tree_eqb (enc_key k o) dg (enc_out (output_of k o dg)) seen = false.
Proof.
  intros k o dg seen H. induction H as [|[[key d] out] t (k0 & o0 & Hk & Ho) Ht IH]; simpl; auto.
  simpl in Hk, Ho. rewrite IH. rewrite orb_false_r.
  destruct (tree_eqb key (enc_key k o)) eqn:E1; [|reflexivity].
  destruct (tree_eqb d dg) eqn:E2; [|reflexivity]. cbn [andb].
  apply tree_eqb_eq in E1. apply tree_eqb_eq in E2. subst key d.
  symmetry in E1. destruct (enc_key_inj _ _ _ _ E1) as [-> ->]. subst out. rewrite tree_eqb_refl. reflexivity.
Qed.

Lemma step_sets_write : forall c w wid k wo si, w_sets (fst (step c w (OWrite wid k wo si))) = w_sets w.
Proof. intros. unfold step. destruct (nth_error (w_sets w) si); reflexivity. Qed.

Lemma c09_gen : forall c ops w i seen,
  repaired c -> fix15 c = true -> wf_world w -> seen_ok seen ->
  check_hist tree tree_eqb TCut true false i (digests_of w) seen (model_obs c w ops) = [].
Proof.
  intros c ops. induction ops as [|o t IH]; intros w i seen Hc Hf Hw Hseen; [reflexivity|].
  cbn [model_obs check_hist].
  pose proof (step_wf_world c w o Hc Hw) as Hw1.
  destruct o as [tr|rid rk tr|wid k wo si|si e].
  - (* build *) cbn [obs_of io_kind io_digests]. cbn [Z.eqb andb app]. apply IH; auto.
  - (* read *) cbn [obs_of io_kind io_digests]. cbn [Z.eqb Pos.eqb andb app]. apply IH; auto.
  - (* write *)
    cbn [obs_of]. destruct (nth_error (w_sets w) si) as [s|] eqn:Es.
    + cbn [io_kind io_digests io_key io_out io_set]. cbn [Z.eqb Pos.eqb andb].
      set (wi := match lookup wid (w_writers w) with Some x => x | None => winst0 end).
      destruct (step_write_preserves c w wid k wo si Hw) as (_ & S1 & P1).
      assert (Hsame : digests_of (fst (step c w (OWrite wid k wo si))) = digests_of w).
      { unfold digests_of. rewrite S1. apply map_ext_in. intros v Hv. apply P1.
        destruct Hw as [_ Hs]. rewrite Forall_forall in Hs. auto. }
      rewrite Hsame.
      assert (Hps : prefix_same tree tree_eqb (digests_of w) (digests_of w) = true).
      { unfold digests_of. rewrite <- (app_nil_r (w_sets w)) at 2. apply prefix_same_map. auto. }
      rewrite Hps. cbn [negb app].
      assert (Hdg : dnth tree TCut (digests_of w) (Z.of_nat si) = snap FUEL (w_st w) s) by (apply dnth_map; exact Es).
      rewrite Hdg.
      assert (Hb : below (length (w_st w)) s) by (eapply nth_error_Forall; [exact (proj2 Hw)|exact Es]).
      assert (Hres : wr_result (write c k wo wi (w_st w) s) = output_of k wo (snap FUEL (w_st w) s)).
      { apply write_result_is_output_of; auto. exact (proj1 Hw). }
      fold wi. rewrite Hres. rewrite conflicting_false by exact Hseen. cbn [app].
      rewrite <- Hsame. apply IH; auto.
      constructor; [|exact Hseen]. exists k, wo. cbn [fst snd]. split; reflexivity.
    + cbn [io_kind io_digests]. cbn [Z.eqb andb app]. apply IH; auto.
  - (* edit *)
    cbn [obs_of]. destruct (nth_error (w_sets w) si) as [s|] eqn:Es;
      cbn [io_kind io_digests]; cbn [Z.eqb Pos.eqb andb app]; apply IH; auto.
Qed.

(* For every history of reads, builds, edits and writes (shared / fresh objects), after the repairs, the oracle
   ok_c09 - instantiated on the model's own snapshots and outputs - finds nothing: no write changes any set, and equal
   (writer, options, snapshot) give equal results *)
Theorem model_meets_ok_c09 : forall c ops,
  repaired c -> fix15 c = true ->
  check_hist tree tree_eqb TCut true false 0 [] [] (model_obs c world0 ops) = [].
Proof.
  intros c ops Hc Hf. apply (c09_gen c ops world0 0%Z [] Hc Hf wf_world0 (Forall_nil _)).
Qed.

(* ---- C10: the model meets ok_c10 ------------------------------------------------------------------------------------------ *)
Lemma FUEL_4 : FUEL = S (S (S (S 60))).
Proof. reflexivity. Qed.

Lemma pristine_eq : forall c rk ri t st st' ri' s,
  repaired c -> read c rk ri t st = (st', ri', s) -> snap FUEL st' s = pristine_of c rk t.
Proof.
  intros c rk ri t st st' ri' s Hc H. unfold pristine_of.
  destruct (read c rk rinst0 t store0) as [[st0 r0] s0] eqn:E0. rewrite FUEL_4.
  rewrite (read_result_function_of_document c rk ri t st st' ri' s 60 Hc (le_n _) H).
  rewrite (read_result_function_of_document c rk rinst0 t store0 st0 r0 s0 60 Hc (le_n _) E0). reflexivity.
Qed.

Lemma c10_gen : forall c ops w i seen,
  repaired c -> isolated w ->
  check_hist tree tree_eqb TCut false true i (digests_of w) seen (model_obs c w ops) = [].
Proof.
  intros c ops. induction ops as [|o t IH]; intros w i seen Hc Hw; [reflexivity|].
  cbn [model_obs check_hist].
  destruct (step_isolated c w o Hc Hw) as [Hw1 Hkeep].
  destruct o as [tr|rid rk tr|wid k wo si|si e].
  - (* build *)
    cbn [obs_of io_kind io_digests]. cbn [Z.eqb andb].
    assert (Hps : prefix_same tree tree_eqb (digests_of w) (digests_of (fst (step c w (OBuild tr)))) = true).
    { unfold digests_of, step. destruct (build (dflt c) tr (w_st w)) as [st1 s] eqn:Eb. cbn [fst w_st w_sets].
      apply prefix_same_map. intros sk Hs. destruct (In_nth_error _ _ Hs) as [k Hk].
      assert (A := Hkeep k sk Hk). unfold step in A. rewrite Eb in A. cbn [fst w_st w_sets] in A.
      apply (proj2 (A (fun H => H))). }
    rewrite Hps. cbn [negb app]. apply IH; auto.
  - (* read *)
    cbn [obs_of io_kind io_digests io_set io_pristine]. cbn [Z.eqb Pos.eqb andb].
    unfold step in *. set (ri := match lookup rid (w_readers w) with Some r => r | None => rinst0 end) in *.
    destruct (read c rk ri tr (w_st w)) as [[st1 ri1] s] eqn:Er. cbn [fst w_st w_sets] in *.
    unfold digests_of at 2 3. cbn [w_st w_sets].
    assert (Hps : prefix_same tree tree_eqb (digests_of w) (map (snap FUEL st1) (w_sets w ++ [s])) = true).
    { apply prefix_same_map. intros sk Hs. destruct (In_nth_error _ _ Hs) as [k Hk].
      apply (proj2 (Hkeep k sk Hk (fun H => H))). }
    rewrite Hps. rewrite dnth_map_last. rewrite (pristine_eq c rk ri tr (w_st w) st1 ri1 s Hc Er).
    rewrite tree_eqb_refl. cbn [negb app]. apply (IH _ _ _ Hc Hw1).
  - (* write: ok_c10 asks nothing of writes *)
    cbn [obs_of]. destruct (nth_error (w_sets w) si) as [s|] eqn:Es.
    + cbn [io_kind io_digests]. cbn [Z.eqb Pos.eqb andb app]. apply IH; auto.
    + cbn [io_kind io_digests]. cbn [Z.eqb andb].
      assert (Hsame : fst (step c w (OWrite wid k wo si)) = w) by (unfold step; rewrite Es; reflexivity).
      rewrite Hsame.
      assert (Hps : prefix_same tree tree_eqb (digests_of w) (digests_of w) = true).
      { unfold digests_of. rewrite <- (app_nil_r (w_sets w)) at 2. apply prefix_same_map. auto. }
      rewrite Hps. cbn [negb app]. apply IH; auto.
  - (* edit *)
    cbn [obs_of]. destruct (nth_error (w_sets w) si) as [s|] eqn:Es.
    + cbn [io_kind io_digests io_set]. cbn [Z.eqb Pos.eqb andb].
      assert (Hsets : w_sets (fst (step c w (OEdit si e))) = w_sets w) by (unfold step; rewrite Es; reflexivity).
      assert (Hps : prefix_same_but tree tree_eqb (Z.of_nat si) (digests_of w)
                                    (digests_of (fst (step c w (OEdit si e)))) = true).
      { unfold digests_of. rewrite Hsets. apply prefix_same_but_map. intros k sk Hk Hne.
        apply (proj2 (Hkeep k sk Hk ltac:(simpl; lia))). }
      rewrite Hps. cbn [negb app]. apply IH; auto.
    + cbn [io_kind io_digests]. cbn [Z.eqb andb].
      assert (Hsame : fst (step c w (OEdit si e)) = w) by (unfold step; rewrite Es; reflexivity).
      rewrite Hsame.
      assert (Hps : prefix_same tree tree_eqb (digests_of w) (digests_of w) = true).
      { unfold digests_of. rewrite <- (app_nil_r (w_sets w)) at 2. apply prefix_same_map. auto. }
      rewrite Hps. cbn [negb app]. apply IH; auto.
Qed.

(* For every history, after the repairs, ok_c10 on the model's own observations finds nothing: no read / build changes
   an older set, every read equals the same read in the initial world by a fresh reader, no edit changes another set *)
Theorem model_meets_ok_c10 : forall c ops,
  repaired c -> check_hist tree tree_eqb TCut false true 0 [] [] (model_obs c world0 ops) = [].
Proof. intros c ops Hc. apply (c10_gen c ops world0 0%Z [] Hc isolated_world0). Qed.
