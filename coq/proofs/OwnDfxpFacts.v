(* C20 (round 4): every document of the DFXP string-level writer model ends the root element with "</tt>", so it is an
   instance of the DFXP skeleton and is detected as DFXP - for EVERY caption list and language code, whatever the text. *)
From Coq Require Import List ZArith Bool.
From PV Require Import lib.Sx lib.Str lib.Result model.Generated model.Detect spec.SpecOwn model.OwnWrite spec.SpecOwnNodes
  proofs.DetectFacts proofs.DetectOwnFacts proofs.DetectNodeFacts proofs.DetectVttFacts
  spec.SpecXmlDocT model.DfxpWriteDoc model.OwnWriteDfxp.
Import ListNotations.
Open Scope Z_scope.

Lemma render_doc_skeleton : forall d, xd_cw d = [] -> exists pre, render_doc d = dfxp_document pre (xd_post d).
Proof.
  intros d H. unfold render_doc, render_close, dfxp_document. rewrite H.
  change ([60; 47] ++ lit "tt" ++ [] ++ [62]) with dfxp_marker.
  exists ((match xd_pi d with Some c => [60; 63] ++ c ++ [62] | None => [] end)
          ++ xd_pre d ++ render_open (lit "tt") (lang_attrs (xd_l1 d) (xd_lang d) (xd_l2 d)) (xd_e d) false
          ++ render_forest (xd_body d)).
  rewrite <- !app_assoc. reflexivity.
Qed.

Theorem own_dfxp_doc : forall lang cs, detect_format (dfxp_write_doc lang cs) = Ok (Some R_DFXP).
Proof.
  intros lang cs. unfold dfxp_write_doc.
  destruct (render_doc_skeleton (wdoc lang cs) eq_refl) as [pre E]. rewrite E. apply own_dfxp_skeleton.
Qed.

Theorem own_nodes_dfxp : forall lang caps, detect_format (dfxp_write_nodes lang caps) = Ok (Some R_DFXP).
Proof. intros lang caps. apply own_dfxp_doc. Qed.
