(* C15: facts about the line-length scan (model/SccLen.v) against spec/SpecSccLen.v. *)
From Coq Require Import List ZArith Lia Bool ZifyBool Permutation.
From PV Require Import lib.Sx lib.Str model.SccLen spec.SpecSccLen.
Import ListNotations.
Open Scope Z_scope.

(* ---- substring lemmas ------------------------------------------------------------------ *)
Lemma is_prefix_app : forall p s, is_prefix p (p ++ s) = true.
Proof. induction p as [|x p IH]; intros s; simpl; [reflexivity|]. rewrite Z.eqb_refl, IH. reflexivity. Qed.

Lemma is_prefix_app_r : forall p s b, is_prefix p s = true -> is_prefix p (s ++ b) = true.
Proof.
  induction p as [|x p IH]; intros s b H; simpl; [reflexivity|].
  destruct s as [|y s]; simpl in *; [discriminate|].
  apply andb_true_iff in H. destruct H as [H1 H2]. rewrite H1, (IH _ _ H2). reflexivity.
Qed.

Lemma is_infix_unfold : forall p s,
  is_infix p s = is_prefix p s || match s with [] => false | _ :: s' => is_infix p s' end.
Proof. intros p s. destruct s; reflexivity. Qed.

Lemma is_infix_app_r : forall p a s, is_infix p s = true -> is_infix p (a ++ s) = true.
Proof.
  induction a as [|x a IH]; intros s H; simpl app; [exact H|].
  rewrite is_infix_unfold. rewrite (IH _ H). apply orb_true_r.
Qed.

Lemma is_infix_app_l : forall p s b, is_infix p s = true -> is_infix p (s ++ b) = true.
Proof.
  intros p s. induction s as [|x s IH]; intros b H.
  - rewrite is_infix_unfold in H. rewrite orb_false_r in H.
    destruct p; [|simpl in H; discriminate].
    rewrite is_infix_unfold. reflexivity.
  - rewrite is_infix_unfold in H. apply orb_true_iff in H. destruct H as [H|H].
    + rewrite is_infix_unfold. rewrite (is_prefix_app_r _ _ b H). reflexivity.
    + change ((x :: s) ++ b) with (x :: (s ++ b)). rewrite is_infix_unfold.
      rewrite (IH _ H). apply orb_true_r.
Qed.

Lemma is_infix_mid : forall p a b, is_infix p (a ++ p ++ b) = true.
Proof.
  intros p a b. apply is_infix_app_r. rewrite is_infix_unfold. rewrite is_prefix_app. reflexivity.
Qed.

Lemma is_infix_concat : forall (p : str) (l : list str), In p l -> is_infix p (concat l) = true.
Proof.
  intros p l. induction l as [|a l IH]; intros H; [destruct H|].
  simpl concat. destruct H as [->|H].
  - rewrite <- (app_nil_l (p ++ concat l)). apply is_infix_mid.
  - apply is_infix_app_r. apply IH. exact H.
Qed.

(* ---- the message names every line of the dict ----------------------------------------- *)
Lemma names_is_render_line : forall msg l, names msg l = is_infix (render_line l) msg.
Proof. reflexivity. Qed.

Lemma render_entry_names : forall e l, In l (snd e) -> is_infix (render_line l) (render_entry e) = true.
Proof.
  intros [k ls] l H. unfold render_entry. cbn [fst snd] in *.
  destruct ls as [|a ls']; [destruct H|].
  apply is_infix_app_r. apply is_infix_app_r. apply is_infix_app_r.
  apply is_infix_concat. apply in_map. exact H.
Qed.

Lemma render_names : forall d l, In l (concat (map snd d)) -> is_infix (render_line l) (render d) = true.
Proof.
  intros d l H. apply in_concat in H. destruct H as [ls [Hls Hl]].
  apply in_map_iff in Hls. destruct Hls as [e [He Hin]]. subst ls.
  unfold render. 
  assert (Hc : is_infix (render_entry e) (concat (map render_entry d)) = true).
  { apply is_infix_concat. apply in_map. exact Hin. }
  pose proof (render_entry_names e l Hl) as Hr.
  (* infix is transitive through concat: redo directly *)
  clear Hc. induction d as [|e' d IH]; [destruct Hin|].
  simpl. destruct Hin as [->|Hin].
  - apply is_infix_app_l. exact Hr.
  - apply is_infix_app_r. apply IH. exact Hin.
Qed.

Lemma render_entry_nil : forall e, render_entry e = [] <-> snd e = [].
Proof.
  intros [k ls]. unfold render_entry. cbn [fst snd]. destruct ls; split; intros H; try reflexivity; discriminate.
Qed.

Lemma render_nil : forall d, render d = [] <-> concat (map snd d) = [].
Proof.
  induction d as [|e d IH]; [split; reflexivity|].
  unfold render in *. simpl. split; intros H.
  - apply app_eq_nil in H. destruct H as [H1 H2]. apply render_entry_nil in H1. rewrite H1.
    apply IH in H2. exact H2.
  - apply app_eq_nil in H. destruct H as [H1 H2]. apply render_entry_nil in H1. rewrite H1.
    apply IH in H2. rewrite H2. reflexivity.
Qed.

(* ---- the dict collects exactly the offending lines ------------------------------------- *)
Lemma dict_extend_values : forall d k v,
  Permutation (concat (map snd (dict_extend d k v))) (concat (map snd d) ++ v).
Proof.
  induction d as [|[k' v'] d IH]; intros k v; simpl.
  - rewrite app_nil_r. apply Permutation_refl.
  - destruct (str_eqb k' k); simpl.
    + rewrite <- !app_assoc. apply Permutation_app_head. apply Permutation_app_comm.
    + rewrite <- app_assoc. apply Permutation_app_head. apply IH.
Qed.

Lemma too_long_spec : forall t, too_long t = filter spec_long (spec_lines t).
Proof. reflexivity. Qed.

Lemma scan_values_gen : forall caps d,
  Permutation (concat (map snd (fold_left (fun d c => dict_extend d (fst c) (too_long (snd c))) caps d)))
              (concat (map snd d) ++ offending caps).
Proof.
  induction caps as [|c caps IH]; intros d; simpl.
  - unfold offending. simpl. rewrite app_nil_r. apply Permutation_refl.
  - eapply Permutation_trans; [apply IH|].
    unfold offending. simpl. rewrite app_assoc. apply Permutation_app_tail.
    apply dict_extend_values.
Qed.

Definition named_lines (caps : list lcap) : list str := concat (map snd (scan caps)).

Lemma scan_names_exactly : forall caps, Permutation (named_lines caps) (offending caps).
Proof. intros caps. unfold named_lines, scan, scan_with. apply (scan_values_gen caps []). Qed.

Lemma perm_nil_iff : forall (A : Type) (a b : list A), Permutation a b -> (a = [] <-> b = []).
Proof.
  intros A a b H. split; intros E; subst.
  - apply Permutation_nil. exact H.
  - apply Permutation_nil. apply Permutation_sym. exact H.
Qed.

Lemma length_check_none_iff : forall caps, length_check caps = None <-> offending caps = [].
Proof.
  intros caps. unfold length_check, outcome_of.
  pose proof (render_nil (scan caps)) as Hr.
  pose proof (perm_nil_iff _ _ _ (scan_names_exactly caps)) as Hp. unfold named_lines in Hp.
  destruct (render (scan caps)) eqn:E.
  - split; [intros _|reflexivity]. apply Hp. apply Hr. reflexivity.
  - split; [discriminate|]. intros H. apply Hp in H. apply Hr in H. discriminate.
Qed.

Lemma length_check_message : forall caps msg, length_check caps = Some msg ->
  msg = msg_head ++ render (scan caps).
Proof.
  intros caps msg. unfold length_check, outcome_of. destruct (render (scan caps)); intros H; inversion H. reflexivity.
Qed.

(* ---- main statements ------------------------------------------------------------------- *)
Lemma offending_nil_all_short : forall caps, offending caps = [] ->
  forall c l, In c caps -> In l (spec_lines (snd c)) -> (length l <= 32)%nat.
Proof.
  intros caps H c l Hc Hl.
  destruct (spec_long l) eqn:E; [|unfold spec_long in E; lia].
  exfalso. assert (Hin : In l (offending caps)).
  { unfold offending. apply in_concat. exists (filter spec_long (spec_lines (snd c))). split.
    - apply in_map_iff. exists c. split; [reflexivity|exact Hc].
    - apply filter_In. split; assumption. }
  rewrite H in Hin. destruct Hin.
Qed.

Theorem length_check_sound_complete : forall caps,
  match length_check caps with
  | Some msg => offending caps <> [] /\
                (forall l, In l (offending caps) -> names msg l = true) /\
                Permutation (named_lines caps) (offending caps) /\
                msg = msg_head ++ render (scan caps)
  | None => forall c l, In c caps -> In l (spec_lines (snd c)) -> (length l <= 32)%nat
  end.
Proof.
  intros caps. destruct (length_check caps) as [msg|] eqn:E.
  - split; [|split; [|split]].
    + intros H. apply length_check_none_iff in H. congruence.
    + intros l Hl. rewrite (length_check_message _ _ E). rewrite names_is_render_line.
      apply is_infix_app_r. apply render_names.
      eapply Permutation_in; [apply Permutation_sym; apply scan_names_exactly|exact Hl].
    + apply scan_names_exactly.
    + apply length_check_message. exact E.
  - apply offending_nil_all_short. apply length_check_none_iff. exact E.
Qed.

Theorem length_check_meets_oracle : forall caps, ok_c15 caps (length_check caps) = true.
Proof.
  intros caps. pose proof (length_check_sound_complete caps) as H. unfold ok_c15.
  destruct (length_check caps) as [msg|] eqn:E.
  - destruct H as [Hne [Hn _]]. destruct (offending caps) as [|o0 os0] eqn:Eo; [congruence|]. cbn [nil_b negb andb].
    apply forallb_forall. intros l Hl. apply Hn. exact Hl.
  - apply length_check_none_iff in E. rewrite E. reflexivity.
Qed.

Definition is_some {A} (o : option A) : bool := match o with Some _ => true | None => false end.

Lemma existsb_concat : forall (A : Type) (f : A -> bool) (ll : list (list A)),
  existsb f (concat ll) = existsb (existsb f) ll.
Proof. intros A f ll. induction ll as [|a ll IH]; simpl; [reflexivity|]. rewrite existsb_app, IH. reflexivity. Qed.

Lemma offending_nil_must_raise : forall caps, nil_b (offending caps) = negb (must_raise (line_lengths caps)).
Proof.
  intros caps. unfold offending, must_raise, line_lengths.
  assert (Hf : forall ls : list str,
             nil_b (filter spec_long ls) = negb (existsb (fun n => 32 <? Z.of_nat n) (map (@length Z) ls))).
  { induction ls as [|l ls IHl]; [reflexivity|]. simpl. unfold spec_long at 1.
    destruct (32 <? Z.of_nat (length l)); simpl; [reflexivity|exact IHl]. }
  induction caps as [|c caps IH]; [reflexivity|].
  cbn [map concat existsb].
  specialize (Hf (spec_lines (snd c))).
  remember (existsb (fun n : nat => 32 <? Z.of_nat n) (map (@length Z) (spec_lines (snd c)))) as X.
  destruct (filter spec_long (spec_lines (snd c))) as [|l0 ls0].
  - cbn [app]. rewrite IH. destruct X; [discriminate|]. reflexivity.
  - cbn [app nil_b]. destruct X; [reflexivity|discriminate].
Qed.

(* which of the two outcomes happens is a function of the line lengths alone *)
Theorem length_check_lengths_only : forall caps,
  is_some (length_check caps) = must_raise (line_lengths caps).
Proof.
  intros caps. pose proof (length_check_none_iff caps) as H. pose proof (offending_nil_must_raise caps) as Hm.
  destruct (length_check caps); simpl.
  - destruct (offending caps) eqn:E; [destruct H as [_ H]; specialize (H eq_refl); discriminate|].
    simpl in Hm. destruct (must_raise (line_lengths caps)); [reflexivity|discriminate].
  - destruct H as [H _]. rewrite (H eq_refl) in Hm. simpl in Hm.
    destruct (must_raise (line_lengths caps)); [discriminate|reflexivity].
Qed.

Corollary length_check_key_free : forall caps caps',
  line_lengths caps = line_lengths caps' -> is_some (length_check caps) = is_some (length_check caps').
Proof. intros caps caps' H. rewrite !length_check_lengths_only, H. reflexivity. Qed.

Lemma offending_perm : forall caps caps', Permutation caps caps' -> Permutation (offending caps) (offending caps').
Proof.
  intros caps caps' H. unfold offending. induction H; simpl.
  - apply Permutation_refl.
  - apply Permutation_app_head. exact IHPermutation.
  - rewrite !app_assoc. apply Permutation_app_tail. apply Permutation_app_comm.
  - eapply Permutation_trans; eassumption.
Qed.

(* the outcome, and the multiset of named lines, do not depend on the order of the captions *)
Theorem length_check_order_free : forall caps caps', Permutation caps caps' ->
  is_some (length_check caps) = is_some (length_check caps') /\
  Permutation (named_lines caps) (named_lines caps').
Proof.
  intros caps caps' H. pose proof (offending_perm _ _ H) as Hp. split.
  - pose proof (length_check_none_iff caps) as H1. pose proof (length_check_none_iff caps') as H2.
    pose proof (perm_nil_iff _ _ _ Hp) as Hn.
    destruct (length_check caps), (length_check caps'); simpl; try reflexivity.
    + destruct H2 as [H2 _]. specialize (H2 eq_refl). apply Hn in H2. apply H1 in H2. discriminate.
    + destruct H1 as [H1 _]. specialize (H1 eq_refl). apply Hn in H1. apply H2 in H1. discriminate.
  - eapply Permutation_trans; [apply scan_names_exactly|].
    eapply Permutation_trans; [exact Hp|]. apply Permutation_sym. apply scan_names_exactly.
Qed.

(* ---- the code before fix #5 (overwrite on an existing key) ------------------------------ *)
Definition long34 : str := repeat 97 34.
Definition wit_a : list lcap := [(lit "00:00:02.002", long34); (lit "00:00:02.002", lit "bbbbbbbbbb")].
Definition wit_b : list lcap := [(lit "00:00:02.002", lit "bbbbbbbbbb"); (lit "00:00:02.002", long34)].

Theorem length_overwrite_refuted :
  length_check_prefix wit_a = None /\ offending wit_a <> [] /\
  Permutation wit_a wit_b /\ is_some (length_check_prefix wit_b) = true.
Proof.
  split; [vm_compute; reflexivity|]. split; [vm_compute; discriminate|]. split; [apply perm_swap|vm_compute; reflexivity].
Qed.
