(* C07: invariants of the RegionCreator model (model/DfxpRegion.v). *)
From Coq Require Import List ZArith Lia Bool ZifyBool Arith.
From PV Require Import model.DfxpRegion.
Import ListNotations.
Open Scope Z_scope.

Lemma create_ids_ge : forall u seed x, In x (map snd (create_regions u seed)) -> seed <= x.
Proof.
  induction u as [|[c b] t IH]; intros seed x H; cbn [create_regions] in H; [destruct H|].
  destruct b; cbn [map snd] in H.
  - destruct H as [<-|H]; [lia|]. apply IH in H. lia.
  - apply IH. exact H.
Qed.
Lemma create_ids_nodup : forall u seed, NoDup (map snd (create_regions u seed)).
Proof.
  induction u as [|[c b] t IH]; intros seed; cbn [create_regions]; [constructor|].
  destruct b; cbn [map snd]; [|apply IH]. constructor; [|apply IH].
  intros H. apply create_ids_ge in H. lia.
Qed.

Lemma created_nodup : forall cs, NoDup (created cs).
Proof.
  intros cs. unfold created. constructor; [|apply create_ids_nodup].
  intros H. apply create_ids_ge in H. unfold default_id in H. lia.
Qed.

(* ids unique *)
Theorem region_ids_unique : forall cs, NoDup (defined cs).
Proof. intros cs. unfold defined. apply NoDup_filter. apply created_nodup. Qed.

Lemma map_get_in : forall c m id, map_get c m = Some id -> In id (map snd m).
Proof.
  induction m as [|[k v] t IH]; intros id H; cbn [map_get] in H; [discriminate|].
  destruct (k =? c); [inversion H; subst; left; reflexivity|right; apply IH; exact H].
Qed.

Lemma region_of_created : forall cs l, In (region_of (region_map cs) l) (created cs).
Proof.
  intros cs l. unfold region_of, created. destruct l as [[[c b] b2]|]; [|left; reflexivity].
  destruct (map_get c (region_map cs)) as [id|] eqn:E; [|left; reflexivity].
  apply map_get_in in E. unfold region_map in E. rewrite map_app in E. apply in_app_iff in E.
  destruct E as [E|[E|[]]]; [right; exact E|left; exact E].
Qed.

Lemma all_refs_created : forall cs r, In r (all_refs cs) -> In r (created cs).
Proof.
  intros cs r H. unfold all_refs, refs in H. apply in_flat_map in H. destruct H as [d [Hd Hr]].
  apply in_map_iff in Hd. destruct Hd as [l [<- _]]. cbn [fst snd] in Hr.
  destruct Hr as [<-|Hr]; [apply region_of_created|].
  apply in_flat_map in Hr. destruct Hr as [p [Hp Hr]]. apply in_map_iff in Hp. destruct Hp as [c [<- _]].
  cbn [fst snd] in Hr. destruct Hr as [<-|Hr]; [apply region_of_created|].
  apply in_map_iff in Hr. destruct Hr as [n [<- _]]. apply region_of_created.
Qed.

Lemma existsb_eqb_In : forall r l, existsb (Z.eqb r) l = true <-> In r l.
Proof.
  intros r l. rewrite existsb_exists. split.
  - intros [x [H1 H2]]. assert (r = x) by lia. subst. exact H1.
  - intros H. exists r. split; [exact H|lia].
Qed.

(* every region= reference resolves to a region that is defined (exactly one, by uniqueness) *)
Theorem regions_resolve : forall cs r, In r (all_refs cs) -> In r (defined cs).
Proof.
  intros cs r H. unfold defined. apply filter_In. split; [apply all_refs_created; exact H|].
  apply existsb_eqb_In. exact H.
Qed.

(* every region left after cleanup_regions is referenced *)
Theorem no_unreferenced_region : forall cs r, In r (defined cs) -> In r (all_refs cs).
Proof. intros cs r H. unfold defined in H. apply filter_In in H. destruct H as [_ H]. apply existsb_eqb_In. exact H. Qed.

(* and the regions kept are exactly the referenced ones, in creation order *)
Theorem defined_iff_referenced : forall cs r, In r (defined cs) <-> In r (all_refs cs).
Proof. intros. split; [apply no_unreferenced_region|apply regions_resolve]. Qed.
