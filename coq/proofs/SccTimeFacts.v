(* Facts about the SCC time translator model (C06): decimal round trip, exactness of get_time on rendered
   timecodes, the 1001/1000 relation, the 1/3-microsecond lattice, and the slack of the joining threshold. *)
From Coq Require Import List ZArith QArith Qabs Lia Bool ZifyBool.
From PV Require Import lib.Sx lib.Str lib.Result model.GenScc model.SccTime model.SccStash spec.SpecSccTime.
Import ListNotations.

Local Open Scope Z_scope.

(* ------------------------------------------------------------------------------------------------ *)
(* 1. decimal printing round trip                                                                    *)

Definition dfold (ds : str) (a : Z) : Z := fold_left (fun a c => a * 10 + (c - 48)) ds a.

Lemma dva_fold : forall ds a, forallb is_digit ds = true -> digits_val_acc ds a = Some (dfold ds a).
Proof.
  induction ds as [|c t IH]; intros a H.
  - reflexivity.
  - simpl in H. apply andb_prop in H. destruct H as [Hc Ht].
    simpl. rewrite Hc. unfold digit_val. rewrite IH by assumption. reflexivity.
Qed.

Lemma dec_aux_spec : forall fuel z acc, 0 <= z -> z < 2 ^ Z.of_nat fuel -> (1 <= fuel)%nat ->
  exists ds, dec_aux fuel z acc = ds ++ acc /\ ds <> [] /\ forallb is_digit ds = true /\ dfold ds 0 = z.
Proof.
  induction fuel as [|f IH]; intros z acc Hz Hlt Hf; [lia|].
  change (dec_aux (S f) z acc) with
    (if z <? 10 then (48 + z mod 10) :: acc else dec_aux f (z / 10) ((48 + z mod 10) :: acc)).
  destruct (z <? 10) eqn:E.
  - exists [48 + z mod 10]. split; [reflexivity|]. split; [discriminate|].
    assert (z mod 10 = z) by (apply Z.mod_small; lia).
    rewrite H. split.
    + cbn [forallb]. unfold is_digit. lia.
    + unfold dfold; cbn [fold_left]. lia.
  - assert (Hf1 : (1 <= f)%nat). { destruct f; [simpl in Hlt; lia | lia]. }
    rewrite Nat2Z.inj_succ, Z.pow_succ_r in Hlt by lia.
    destruct (IH (z / 10) ((48 + z mod 10) :: acc)) as (ds & E1 & E2 & E3 & E4).
    + apply Z.div_pos; lia.
    + apply Z.div_lt_upper_bound; lia.
    + assumption.
    + exists (ds ++ [48 + z mod 10]). rewrite E1. split.
      { rewrite <- app_assoc. reflexivity. }
      split.
      { intro H; apply app_eq_nil in H; destruct H; discriminate. }
      split.
      { rewrite forallb_app, E3. cbn [forallb]. unfold is_digit. pose proof (Z.mod_pos_bound z 10). lia. }
      unfold dfold in *. rewrite fold_left_app, E4. cbn [fold_left]. pose proof (Z.div_mod z 10). lia.
Qed.

Lemma dec_nonneg_spec : forall z, 0 <= z ->
  dec_nonneg z <> [] /\ forallb is_digit (dec_nonneg z) = true /\ dfold (dec_nonneg z) 0 = z.
Proof.
  intros z Hz. unfold dec_nonneg.
  destruct (dec_aux_spec (S (Z.to_nat (Z.log2 z))) z [] Hz) as (ds & E1 & E2 & E3 & E4).
  - rewrite Nat2Z.inj_succ, Z2Nat.id by apply Z.log2_nonneg.
    destruct (Z.eq_dec z 0) as [->|Hn].
    + simpl. lia.
    + apply Z.log2_spec. lia.
  - lia.
  - rewrite E1, app_nil_r. auto.
Qed.

Lemma dec_nonneg_digits : forall z, 0 <= z -> forallb is_digit (dec_nonneg z) = true /\ dec_nonneg z <> [].
Proof. intros z Hz. destruct (dec_nonneg_spec z Hz) as (A & B & C). auto. Qed.

Lemma dec_nonneg_val : forall z, 0 <= z -> int_of_digits (dec_nonneg z) = Some z.
Proof.
  intros z Hz. destruct (dec_nonneg_spec z Hz) as (A & B & C).
  unfold int_of_digits. destruct (dec_nonneg z) eqn:E; [congruence|].
  rewrite dva_fold by assumption. congruence.
Qed.

(* ------------------------------------------------------------------------------------------------ *)
(* 2. two-digit fields                                                                               *)

Lemma str_eqb_eq : forall a b, str_eqb a b = true -> a = b.
Proof.
  induction a as [|x a IH]; destruct b as [|y b]; simpl; intro H; try discriminate; auto.
  apply andb_prop in H. destruct H as [H1 H2]. apply Z.eqb_eq in H1. f_equal; auto.
Qed.

Lemma two_digits : forall z, 0 <= z < 100 -> two z = [48 + z / 10; 48 + z mod 10].
Proof.
  assert (H : forallb (fun z => str_eqb (two z) [48 + z / 10; 48 + z mod 10]) (map Z.of_nat (seq 0 100)) = true)
    by (vm_compute; reflexivity).
  intros z Hz. rewrite forallb_forall in H. apply str_eqb_eq. apply (H z).
  replace z with (Z.of_nat (Z.to_nat z)) by lia. apply in_map. apply in_seq. lia.
Qed.

Lemma two_is : forall z, 0 <= z < 100 ->
  exists a b, two z = [a; b] /\ is_digit a = true /\ is_digit b = true /\ (a - 48) * 10 + (b - 48) = z.
Proof.
  intros z Hz. exists (48 + z / 10), (48 + z mod 10). split; [apply two_digits; assumption|].
  pose proof (Z.div_mod z 10). pose proof (Z.mod_pos_bound z 10).
  assert (0 <= z / 10 < 10) by (split; [apply Z.div_pos; lia | apply Z.div_lt_upper_bound; lia]).
  unfold is_digit. lia.
Qed.

(* ------------------------------------------------------------------------------------------------ *)
(* 3. get_time on a rendered timecode                                                                *)

Lemma digit_range : forall c, is_digit c = true -> 48 <= c <= 57.
Proof. unfold is_digit; intros; lia. Qed.

Lemma int2 : forall a b, is_digit a = true -> is_digit b = true ->
  int_of_digits [a; b] = Some ((a - 48) * 10 + (b - 48)).
Proof.
  intros a b Ha Hb. unfold int_of_digits. cbn [digits_val_acc]. rewrite Ha, Hb. unfold digit_val.
  f_equal; lia.
Qed.

Definition semi2colon (c : Z) : Z := if c =? c_semi then c_colon else c.

Lemma map_semi_digits : forall ds, forallb is_digit ds = true -> map semi2colon ds = ds.
Proof.
  induction ds as [|c t IH]; intro H; [reflexivity|].
  cbn [forallb] in H. apply andb_prop in H. destruct H as [H1 H2]. apply digit_range in H1.
  cbn [map]. rewrite IH by assumption. unfold semi2colon, c_semi.
  destruct (c =? 59) eqn:E; [lia | reflexivity].
Qed.

Lemma split_digits_end : forall ds cur, forallb is_digit ds = true -> split_ch_aux 58 ds cur = [rev cur ++ ds].
Proof.
  induction ds as [|c t IH]; intros cur H.
  - cbn [split_ch_aux]. rewrite app_nil_r. reflexivity.
  - cbn [forallb] in H. apply andb_prop in H. destruct H as [H1 H2]. apply digit_range in H1.
    cbn [split_ch_aux]. destruct (c =? 58) eqn:E; [lia|].
    rewrite IH by assumption. cbn [rev]. rewrite <- app_assoc. reflexivity.
Qed.

Lemma split_digits_sep : forall ds cur rest, forallb is_digit ds = true ->
  split_ch_aux 58 (ds ++ 58 :: rest) cur = (rev cur ++ ds) :: split_ch_aux 58 rest [].
Proof.
  induction ds as [|c t IH]; intros cur rest H.
  - cbn [app split_ch_aux]. rewrite Z.eqb_refl, app_nil_r. reflexivity.
  - cbn [forallb] in H. apply andb_prop in H. destruct H as [H1 H2]. apply digit_range in H1.
    cbn [app split_ch_aux]. destruct (c =? 58) eqn:E; [lia|].
    rewrite IH by assumption. cbn [rev]. rewrite <- app_assoc. reflexivity.
Qed.

Lemma has_semi_digits : forall ds, forallb is_digit ds = true -> existsb (Z.eqb c_semi) ds = false.
Proof.
  induction ds as [|c t IH]; intro H; [reflexivity|].
  cbn [forallb] in H. apply andb_prop in H. destruct H as [H1 H2]. apply digit_range in H1.
  cbn [existsb]. rewrite IH by assumption. unfold c_semi. destruct (59 =? c) eqn:E; [lia | reflexivity].
Qed.

Lemma fields_of_stamp : forall x y z w sep,
  forallb is_digit x = true -> forallb is_digit y = true -> forallb is_digit z = true ->
  forallb is_digit w = true -> sep = 58 \/ sep = 59 ->
  split_ch c_colon (map semi2colon (x ++ 58 :: y ++ 58 :: z ++ sep :: w)) = [x; y; z; w].
Proof.
  intros x y z w sep Hx Hy Hz Hw Hsep.
  rewrite map_app. cbn [map]. rewrite map_app. cbn [map]. rewrite map_app. cbn [map].
  rewrite !map_semi_digits by assumption.
  assert (E58 : semi2colon 58 = 58) by reflexivity.
  assert (Esep : semi2colon sep = 58) by (destruct Hsep; subst; reflexivity).
  rewrite E58, Esep. unfold split_ch, c_colon.
  rewrite !split_digits_sep by assumption. rewrite split_digits_end by assumption. reflexivity.
Qed.

Lemma semi_of_stamp : forall x y z w sep,
  forallb is_digit x = true -> forallb is_digit y = true -> forallb is_digit z = true ->
  forallb is_digit w = true -> sep = 58 \/ sep = 59 ->
  has_semi (x ++ 58 :: y ++ 58 :: z ++ sep :: w) = (sep =? 59).
Proof.
  intros x y z w sep Hx Hy Hz Hw Hsep. unfold has_semi.
  rewrite existsb_app. cbn [existsb]. rewrite existsb_app. cbn [existsb]. rewrite existsb_app. cbn [existsb].
  rewrite !has_semi_digits by assumption.
  destruct Hsep; subst; reflexivity.
Qed.

Lemma translate_ok : forall a b c d e f sep ds ff off,
  is_digit a = true -> is_digit b = true -> is_digit c = true -> is_digit d = true ->
  is_digit e = true -> is_digit f = true -> sep = 58 \/ sep = 59 ->
  forallb is_digit ds = true -> ds <> [] -> int_of_digits ds = Some ff ->
  translate_time (a :: b :: 58 :: c :: d :: 58 :: e :: f :: sep :: ds) off
  = Ok (time_formula ((a - 48) * 10 + (b - 48)) ((c - 48) * 10 + (d - 48)) ((e - 48) * 10 + (f - 48)) ff
          (sep =? 59) off).
Proof.
  intros a b c d e f sep ds ff off Ha Hb Hc Hd He Hf Hsep Hds Hne Hint.
  unfold translate_time.
  assert (P : tc_prefix_ok (a :: b :: 58 :: c :: d :: 58 :: e :: f :: sep :: ds) = true).
  { destruct ds as [|x ds']; [congruence|]. cbn [forallb] in Hds. cbn [tc_prefix_ok].
    unfold c_colon, c_semi, is_digit in *. lia. }
  rewrite P. cbn [negb].
  change (a :: b :: 58 :: c :: d :: 58 :: e :: f :: sep :: ds)
    with ([a; b] ++ 58 :: [c; d] ++ 58 :: [e; f] ++ sep :: ds).
  assert (D2 : forall u v, is_digit u = true -> is_digit v = true -> forallb is_digit [u; v] = true).
  { intros u v Hu Hv. cbn [forallb]. rewrite Hu, Hv. reflexivity. }
  change (fun c0 : Z => if c0 =? c_semi then c_colon else c0) with semi2colon.
  rewrite fields_of_stamp by auto. rewrite semi_of_stamp by auto.
  rewrite !int2 by assumption. rewrite Hint. reflexivity.
Qed.

Local Open Scope Q_scope.

Lemma floor0_qmax0 : forall a b, a == b -> floor0 a == qmax0 b.
Proof.
  intros a b H. unfold floor0, qmax0.
  assert (E : Qle_bool 0 a = Qle_bool 0 b) by (apply Qleb_comp; [reflexivity | assumption]).
  rewrite E. destruct (Qle_bool 0 b); [assumption | reflexivity].
Qed.

Lemma formula_spec : forall tc k off,
  time_formula (tc_h tc) (tc_m tc) (tc_s tc) (tc_f tc + k) (tc_drop tc) off == spec_instant tc k off.
Proof.
  intros tc k off. unfold time_formula, spec_instant. cbv zeta. apply floor0_qmax0. rewrite Qred_correct.
  replace (tc_h tc * 3600 + tc_m tc * 60 + tc_s tc)%Z with (3600 * tc_h tc + 60 * tc_m tc + tc_s tc)%Z by ring.
  unfold rate, us_per_s, million, Qdiv. destruct (tc_drop tc); ring.
Qed.

Theorem get_time_exact : forall tc k off, tc_wf tc = true -> (0 <= k)%Z ->
  exists t, get_time (render_tc tc) k off = Ok t /\ (t == spec_instant tc k off)%Q.
Proof.
  intros tc k off Hwf Hk. unfold tc_wf in Hwf.
  assert (Hb : (0 <= tc_h tc < 100 /\ 0 <= tc_m tc < 100 /\ 0 <= tc_s tc < 100 /\ 0 <= tc_f tc < 100)%Z) by lia.
  destruct Hb as (Hh & Hm & Hs & Hf).
  destruct (two_is _ Hh) as (a & b & Eab & Da & Db & Vab).
  destruct (two_is _ Hm) as (c & d & Ecd & Dc & Dd & Vcd).
  destruct (two_is _ Hs) as (e & f & Eef & De & Df & Vef).
  destruct (two_is _ Hf) as (g & h & Egh & Dg & Dh & Vgh).
  unfold render_tc. rewrite Eab, Ecd, Eef, Egh.
  set (sep := if tc_drop tc then 59%Z else 58%Z).
  assert (Hsep : sep = 58%Z \/ sep = 59%Z) by (subst sep; destruct (tc_drop tc); auto).
  unfold get_time.
  change (last2 ([a; b] ++ [58%Z] ++ [c; d] ++ [58%Z] ++ [e; f] ++ [sep] ++ [g; h])) with [g; h].
  change (but_last2 ([a; b] ++ [58%Z] ++ [c; d] ++ [58%Z] ++ [e; f] ++ [sep] ++ [g; h]))
    with [a; b; 58%Z; c; d; 58%Z; e; f; sep].
  rewrite int2 by assumption. rewrite Vgh.
  unfold dec_z. destruct (tc_f tc + k <? 0)%Z eqn:E; [lia|].
  assert (Hfk : (0 <= tc_f tc + k)%Z) by lia.
  destruct (dec_nonneg_digits _ Hfk) as [Hd Hne]. pose proof (dec_nonneg_val _ Hfk) as Hv.
  cbn [app].
  rewrite (translate_ok a b c d e f sep _ (tc_f tc + k)%Z off) by assumption.
  eexists. split; [reflexivity|].
  rewrite Vab, Vcd, Vef.
  replace (sep =? 59)%Z with (tc_drop tc) by (subst sep; destruct (tc_drop tc); reflexivity).
  apply formula_spec.
Qed.

(* ------------------------------------------------------------------------------------------------ *)
(* 4. non-drop-frame time is 1001/1000 of drop-frame time                                            *)

Lemma floor0_nonneg : forall q, 0 <= q -> floor0 q == q.
Proof. intros q H. unfold floor0. apply Qle_bool_iff in H. rewrite H. reflexivity. Qed.

Lemma secs_nonneg : forall S F, (0 <= S)%Z -> (0 <= F)%Z -> 0 <= inject_Z S + inject_Z F / inject_Z 30.
Proof.
  intros S F HS HF. apply Qle_trans with (inject_Z S + 0).
  - rewrite Qplus_0_r. change 0 with (inject_Z 0). rewrite <- Zle_Qle. assumption.
  - apply Qplus_le_r. apply Qle_shift_div_l; [reflexivity|]. rewrite Qmult_0_l.
    change 0 with (inject_Z 0). rewrite <- Zle_Qle. assumption.
Qed.

Lemma scaled_nonneg : forall X r, 0 <= X -> 0 <= r -> 0 <= Qred (X * r * us_per_s - 0).
Proof.
  intros X r HX Hr. rewrite Qred_correct.
  setoid_replace (X * r * us_per_s - 0) with (X * (r * us_per_s)) by ring.
  apply Qmult_le_0_compat; [assumption|]. apply Qmult_le_0_compat; [assumption|].
  unfold us_per_s. change 0 with (inject_Z 0). rewrite <- Zle_Qle. lia.
Qed.

Theorem ndf_is_1001_1000_of_df : forall h m s ff, (0 <= h)%Z -> (0 <= m)%Z -> (0 <= s)%Z -> (0 <= ff)%Z ->
  (time_formula h m s ff false 0 == time_formula h m s ff true 0 * (1001 # 1000))%Q.
Proof.
  intros h m s ff Hh Hm Hs Hf. unfold time_formula.
  set (X := inject_Z (h * 3600 + m * 60 + s) + inject_Z ff / inject_Z 30).
  assert (HX : 0 <= X) by (apply secs_nonneg; lia).
  rewrite (floor0_nonneg (Qred (X * rate false * us_per_s - 0))).
  2:{ apply scaled_nonneg; [assumption|]. unfold rate. unfold Qle; simpl; lia. }
  rewrite (floor0_nonneg (Qred (X * rate true * us_per_s - 0))).
  2:{ apply scaled_nonneg; [assumption|]. unfold rate. unfold Qle; simpl; lia. }
  rewrite !Qred_correct. unfold rate. ring.
Qed.

(* ------------------------------------------------------------------------------------------------ *)
(* 5. lattice: instants with a whole-second offset are multiples of 1/3 microsecond                  *)

Theorem scc_time_lattice : forall tc k (off_s : Z),
  exists n : Z, (spec_instant tc k (inject_Z off_s * inject_Z 1000000) == n # 3)%Q.
Proof.
  intros tc k off_s. unfold spec_instant. cbv zeta. unfold qmax0, million.
  generalize (3600 * tc_h tc + 60 * tc_m tc + tc_s tc)%Z (tc_f tc + k)%Z. intros S F.
  match goal with |- context [Qle_bool 0 ?x] => destruct (Qle_bool 0 x) end.
  2:{ exists 0%Z. reflexivity. }
  destruct (tc_drop tc).
  - exists ((S * 30 + F) * 100000 - off_s * 3000000)%Z.
    unfold Qeq, Qminus, Qplus, Qmult, Qdiv, Qinv, Qopp, inject_Z. simpl. lia.
  - exists ((S * 30 + F) * 100100 - off_s * 3000000)%Z.
    unfold Qeq, Qminus, Qplus, Qmult, Qdiv, Qinv, Qopp, inject_Z. simpl. lia.
Qed.

(* ------------------------------------------------------------------------------------------------ *)
(* 6. slack of the joining threshold on the frame lattice                                            *)

Definition jt_value : Q := Eval vm_compute in join_threshold.

Lemma join_threshold_value : join_threshold = jt_value.
Proof. vm_compute. reflexivity. Qed.

Theorem join_threshold_slack : forall (n : Z) (drop : bool),
  let gap := (inject_Z n * ((inject_Z 1000000 / inject_Z 30) * rate drop))%Q in
  (n <= 5 -> (gap + (1 # 2) < join_threshold)%Q)%Z /\ (6 <= n -> (join_threshold + (1 # 2) < gap)%Q)%Z.
Proof.
  intros n drop gap. subst gap. rewrite join_threshold_value. unfold jt_value.
  destruct drop; unfold rate, Qlt, Qplus, Qmult, Qdiv, Qinv, inject_Z; simpl; split; intro H; lia.
Qed.

Lemma join_threshold_close : (thr_hi - (1 # 1000000) < join_threshold)%Q /\ (join_threshold <= thr_hi)%Q.
Proof.
  split.
  - unfold Qlt. vm_compute. reflexivity.
  - unfold Qle. vm_compute. discriminate.
Qed.
