(* C15, the order clause at the level of the STREAM, on the decoder model, for loads with OVER-LONG rows (the half that the
   staged pop-on simulation does not reach: its domain load_wf bounds every row by 32 cells).

   Domain: a load of PLAIN rows: preamble at column 0 (no indent, no tab offset, plain white), a non-empty run of basic
   visible characters (no blank) of ANY length, screen rows 1..15 pairwise at least two apart (so that every row becomes
   a caption of its own: "captions sharing a start time"), control codes single or doubled.

   Results: the decoder buffers one text node per row whatever the row length (the decoder has no width limit before the
   final scan); `read` is exactly the final scan on one caption per row; it raises the line-length error iff some row
   is longer than 32 characters, the message names every over-long row; hence the outcome is the same for every
   transmission order of the rows. *)
From Coq Require Import List ZArith QArith Qabs Lia Bool ZifyBool Permutation.
From PV Require Import lib.Sx lib.Str lib.Result model.GenScc model.SccLen model.SccTime model.SccStash model.SccDecoder model.SccLayout
                       spec.Spec608 spec.SpecScc05 spec.SpecSccLen proofs.SccTableFacts proofs.SccDoubleFacts
                       proofs.SccLenFacts proofs.SccLenLooseFacts proofs.SccStashFacts proofs.SccPoponStage1 proofs.SccPoponStage3
                       proofs.SccOrderFacts.
Import ListNotations. Open Scope Z_scope.

(* performance only (see stage 1): the kernel must not evaluate the filter inside basic_code on a variable *)
Local Strategy 1000 [basic_code is_basic].

(* ---- 1. the domain -------------------------------------------------------------------------------------------------- *)
Definition vis_char (c : Z) : bool := is_basic c && negb (c =? 32).

(* mkRow r 0 0 0 (map Ch cs), 1 <= r <= 15, cs a non-empty run of basic characters other than the blank; any length *)
Definition plain_row (r : row) : bool :=
  (1 <=? rw_row r) && (rw_row r <=? 15) && (rw_indent r =? 0) && (rw_tab r =? 0) && (rw_style r =? 0)
  && forallb basic_item (rw_items r) && forallb vis_char (row_text r) && negb (nil_b (rw_items r)).

(* pairwise at least two screen rows apart (in particular distinct) *)
Fixpoint apart (l : list Z) : bool :=
  match l with [] => true | x :: t => forallb (fun y => 2 <=? Z.abs (x - y)) t && apart t end.

Definition plain_load (l : load) : bool := negb (nil_b l) && forallb plain_row l && apart (map rw_row l).

Definition long_row (r : row) : bool := 32 <? Z.of_nat (length (row_text r)).

Lemma vis_char_parts : forall c, vis_char c = true -> is_basic c = true /\ c <> 32.
Proof.
  intros c H. unfold vis_char in H. generalize dependent (is_basic c). intros b H.
  apply andb_true_iff in H. destruct H as [H1 H2]. split; [exact H1|]. apply negb_true_iff in H2. lia.
Qed.

Lemma plain_row_facts : forall r, plain_row r = true ->
  1 <= rw_row r <= 15 /\ rw_indent r = 0 /\ rw_tab r = 0 /\ rw_style r = 0 /\
  flat_map toks_of_item (rw_items r) = map TCh (row_text r) /\ forallb is_basic (row_text r) = true /\
  row_text r <> [] /\ (forall c, In c (row_text r) -> is_basic c = true /\ c <> 32).
Proof.
  intros r H. unfold plain_row in H.
  apply andb_true_iff in H. destruct H as [H Hnn]. apply andb_true_iff in H. destruct H as [H Hv].
  apply andb_true_iff in H. destruct H as [H Hbi].
  repeat (apply andb_true_iff in H; let H' := fresh "H" in destruct H as [H H']).
  assert (Hall : forall c, In c (row_text r) -> is_basic c = true /\ c <> 32).
  { intros c Hc. apply vis_char_parts. exact (proj1 (forallb_forall _ _) Hv c Hc). }
  repeat split; try lia.
  - unfold row_text. clear -Hbi. induction (rw_items r) as [|it t IH]; [reflexivity|].
    rewrite forallb_cons in Hbi. apply andb_true_iff in Hbi. destruct Hbi as [Hi Ht].
    destruct it; try discriminate Hi. cbn [flat_map toks_of_item map app]. rewrite (IH Ht). reflexivity.
  - apply forallb_forall. intros c Hc. exact (proj1 (Hall c Hc)).
  - unfold row_text. destruct (rw_items r); [discriminate Hnn|discriminate].
  - apply Hall; assumption.
  - apply Hall; assumption.
Qed.

(* ---- 2. the preamble of a plain row is the preamble of a one-character row (to which stage 1/3 lemmas apply) --------- *)
Definition proxy (rr : Z) : row := mkRow rr 0 0 0 [Ch 97].

Lemma proxy_basic : forall rr, 1 <= rr <= 15 -> basic_row (proxy rr) = true.
Proof.
  intros rr H. assert (C : In rr [1;2;3;4;5;6;7;8;9;10;11;12;13;14;15]) by (cbn [In]; lia).
  cbn [In] in C. repeat (destruct C as [<-|C]; [vm_compute; reflexivity|]). destruct C.
Qed.

Lemma pac_unit_proxy : forall d r, plain_row r = true -> pac_unit d r = pac_unit d (proxy (rw_row r)).
Proof.
  intros d r H. destruct (plain_row_facts r H) as (_ & Hi & Ht & Hs & _).
  unfold pac_unit, pac_attr, proxy. cbn [rw_row rw_indent rw_tab rw_style]. rewrite Hi, Ht, Hs. reflexivity.
Qed.

Definition rpos (r : row) : pos := (rw_row r, 0).

(* the buffer after the first row: one text node per further row, preceded by the (empty text, reposition) pair *)
Fixpoint far_nodes (t : load) : list inode :=
  match t with
  | [] => []
  | r :: t' => mkI IText [] (rpos r) :: mkI IRepos [] (rpos r) :: mkI IText (row_text r) (rpos r) :: far_nodes t'
  end.
Definition lnodes (l : load) : list inode :=
  match l with [] => [] | r :: t => mkI IText (row_text r) (rpos r) :: far_nodes t end.

(* each row is neither on nor right below the row transmitted before it *)
Fixpoint chainL (lastrow : Z) (t : load) : Prop :=
  match t with [] => True | r :: t' => rw_row r <> lastrow /\ rw_row r <> lastrow + 1 /\ chainL (rw_row r) t' end.

Section RunL.
Variables (st : stash) (ds : bool) (pa ro : creator) (q : option (creator * Q)) (tm : Q) (tc : str) (off : Q).
Notation SGs := (SG st ds pa ro q tm tc off).

(* ---- 3. one row of any length -------------------------------------------------------------------------------------- *)
Lemma row_runL : forall r d tk l nodes fr nx tk0 tk1 pre p, plain_row r = true -> has_break_before nodes = false ->
  last_contains l (pac_word (rw_row r) 0) = false -> pac_ready tk nodes ->
  tracker_update tk (rw_row r, 0) = tk0 ->
  (forall s, add_chars tk0 (mkCr nodes SNone) s = (tk1, mkCr (pre ++ [mkI IText s p]) SNone)) ->
  (forall txt s, add_chars tk1 (mkCr (pre ++ [mkI IText txt p]) SNone) s = (tk1, mkCr (pre ++ [mkI IText (txt ++ s) p]) SNone)) ->
  exists l', tws (SGs tk l nodes fr) (emit_row d r) nx
             = SGs tk1 l' (pre ++ [mkI IText (row_text r) p]) (fr + Z.of_nat (length (emit_row d r))) /\ charlast l'.
Proof.
  intros r d tk l nodes fr nx tk0 tk1 pre p Hrow Hbb Hl Hrd Etk H0 H1.
  destruct (plain_row_facts r Hrow) as (Hr & _ & _ & _ & Hf & Hb & Hne & _).
  unfold emit_row. rewrite Hf, (pac_unit_proxy d r Hrow), tws_app, app_length, Nat2Z.inj_add.
  destruct (pac_unit_run3 st ds pa ro q tm tc off (proxy (rw_row r)) d tk l nodes fr
              (nxt (pack d (map TCh (row_text r)) None) nx) (proxy_basic _ Hr) Hbb Hl Hrd) as (l1 & E1).
  assert (E1' : tws (SGs tk l nodes fr) (pac_unit d (proxy (rw_row r))) (nxt (pack d (map TCh (row_text r)) None) nx)
                = SGs tk0 l1 nodes (fr + Z.of_nat (length (pac_unit d (proxy (rw_row r))))))
    by (rewrite <- Etk; exact E1).
  rewrite E1'.
  destruct (chars_run3 st ds pa ro q tm tc off tk0 tk1 nodes pre p H0 H1 d nx (row_text r) l1
              (fr + Z.of_nat (length (pac_unit d (proxy (rw_row r))))) Hb Hne) as (l2 & E2 & Hl2).
  exists l2. split; [|exact Hl2]. rewrite E2. f_equal. lia.
Qed.

Lemma proxy_pac : forall rr, 1 <= rr <= 15 -> is_pac (pac_word rr 0) = true /\ interpreted (pac_word rr 0).
Proof.
  intros rr H. destruct (pac_row_facts (proxy rr) (proxy_basic rr H)) as (_ & Hpac & _ & I). split; [exact Hpac|exact I].
Qed.

(* ---- 4. the further rows: each one starts a new caption --------------------------------------------------------------- *)
Lemma rows_runL : forall d t, Forall (fun r => plain_row r = true) t ->
  forall nx pre txt (cur : pos) lastrow c0 dflt l fr, chainL lastrow t -> charlast l -> cur = (lastrow, c0) ->
  exists tk' l', tws (SGs (mkTk [cur] None false dflt) l (pre ++ [mkI IText txt cur]) fr)
                     (flat_map (emit_row d) t) nx
     = SGs tk' l' (pre ++ mkI IText txt cur :: far_nodes t) (fr + Z.of_nat (length (flat_map (emit_row d) t)))
     /\ charlast l'.
Proof.
  intros d t F. induction F as [|r t Hrow F IH]; intros nx pre txt cur lastrow c0 dflt l fr Hch Hl Hcur.
  - exists (mkTk [cur] None false dflt), l. cbn [flat_map tws length far_nodes]. rewrite Z.add_0_r.
    split; [reflexivity|exact Hl].
  - destruct Hch as (Hne & Nadj & Hch). cbn [flat_map]. rewrite tws_app, app_length, Nat2Z.inj_add.
    destruct (plain_row_facts r Hrow) as (Hr & _).
    destruct (proxy_pac (rw_row r) Hr) as [Hpac _].
    pose proof (charlast_pac l _ Hl Hpac) as Hlc.
    pose proof (no_break_before_text pre txt cur) as Hbb.
    assert (Hlast : last (map Some [cur]) None = Some (lastrow, c0)) by (rewrite Hcur; reflexivity).
    destruct (row_runL r d (mkTk [cur] None false dflt) l (pre ++ [mkI IText txt cur]) fr
                (nxt (flat_map (emit_row d) t) nx)
                (mkTk [rpos r] None true (rpos r)) (mkTk [rpos r] None false (rpos r))
                (pre ++ [mkI IText txt cur; mkI IText [] (rpos r); mkI IRepos [] (rpos r)]) (rpos r) Hrow Hbb Hlc
                (pac_ready_nonempty _ _ _)) as (l1 & E1 & Hl1).
    + exact (tracker_far [cur] lastrow c0 dflt (rw_row r) 0 0 Hlast ltac:(lia) Hne Nadj).
    + intros s. apply add_chars_repos.
    + intros txt0 s. apply add_chars_plain.
    + rewrite E1.
      destruct (IH nx (pre ++ [mkI IText txt cur; mkI IText [] (rpos r); mkI IRepos [] (rpos r)]) (row_text r)
                  (rpos r) (rw_row r) 0 (rpos r) l1 (fr + Z.of_nat (length (emit_row d r))) Hch Hl1 eq_refl)
        as (tk' & l' & E & Hl').
      exists tk', l'. split; [|exact Hl']. refine (eq_trans E _). cbn [far_nodes]. rewrite <- app_assoc. cbn [app].
      f_equal. lia.
Qed.
End RunL.

(* ---- 5. the whole load, up to the End-Of-Caption ---------------------------------------------------------------------- *)
Lemma apart_chain : forall t r, apart (map rw_row (r :: t)) = true -> chainL (rw_row r) t.
Proof.
  induction t as [|b t IH]; intros r H; [exact I|].
  cbn [map apart forallb] in H. apply andb_true_iff in H. destruct H as [H Hb].
  apply andb_true_iff in H. destruct H as [H _].
  cbn [chainL]. split; [lia|split; [lia|]]. apply IH. exact Hb.
Qed.

Lemma plain_load_parts : forall l, plain_load l = true ->
  exists r t, l = r :: t /\ plain_row r = true /\ Forall (fun r => plain_row r = true) t /\ chainL (rw_row r) t.
Proof.
  intros l H. unfold plain_load in H. apply andb_true_iff in H. destruct H as [H Ha].
  apply andb_true_iff in H. destruct H as [Hn Hb].
  destruct l as [|r t]; [discriminate Hn|]. exists r, t.
  rewrite forallb_cons in Hb. apply andb_true_iff in Hb. destruct Hb as [Hr Ht].
  split; [reflexivity|split; [exact Hr|split]].
  - apply Forall_forall. intros x Hx. exact (proj1 (forallb_forall _ _) Ht x Hx).
  - apply apart_chain. exact Ha.
Qed.

Lemma plain_load_rows : forall l, plain_load l = true -> Forall (fun r => plain_row r = true) l.
Proof.
  intros l H. destruct (plain_load_parts l H) as (r & t & -> & Hr & Ht & _). constructor; assumption.
Qed.

Lemma stateL : forall d l off tc nx t, plain_load l = true ->
  get_time tc (Z.of_nat (length (emit_load d l)) - (if d then 2 else 1)) off = Ok t ->
  exists tk lc ds,
   tws (start_state off tc) (emit_load d l) nx =
     mkR stash0 tk lc ds creator0 creator0 creator0 MPop
         (Some (mkCr (lnodes l) SNone, t)) t tc (Z.of_nat (length (emit_load d l))) off None
   /\ last_is lc w_edm = false.
Proof.
  intros d l off tc nx t H Hg. destruct (plain_load_parts l H) as (r & rest & -> & Hrow & Frest & Hch).
  destruct (plain_row_facts r Hrow) as (Hr & _ & _ & _ & _ & _ & Hne & _).
  assert (El : emit_load d (r :: rest) = (ctl d (ctrl_word 46) ++ ctl d (ctrl_word 32)) ++ emit_row d r
               ++ flat_map (emit_row d) rest ++ ctl d (ctrl_word 47)).
  { unfold emit_load. cbn [flat_map]. rewrite <- !app_assoc. reflexivity. }
  rewrite El in *. rewrite !app_length, !Nat2Z.inj_add, !ctl_length in *.
  rewrite (tws_app (ctl d (ctrl_word 46) ++ ctl d (ctrl_word 32))), (tws_app (emit_row d r)),
          (tws_app (flat_map (emit_row d) rest)).
  destruct (prologue_run d off tc (nxt (emit_row d r ++ flat_map (emit_row d) rest ++ ctl d (ctrl_word 47)) nx))
    as (l0 & ds0 & -> & Hl0).
  destruct (proxy_pac (rw_row r) Hr) as [_ I].
  assert (Hc0 : last_contains l0 (pac_word (rw_row r) 0) = false).
  { destruct Hl0 as [->| ->]; [reflexivity|]. cbn [last_contains]. apply Z.eqb_neq. intros E. apply (in_ctl _ I).
    rewrite <- E. unfold ctl_words. cbn [In]. tauto. }
  destruct (row_runL stash0 ds0 creator0 creator0 None 0%Q tc off r d tracker0 l0 [] (if d then 4 else 2)
              (nxt (flat_map (emit_row d) rest ++ ctl d (ctrl_word 47)) nx)
              (mkTk [rpos r] None false (rpos r)) (mkTk [rpos r] None false (rpos r)) [] (rpos r)
              Hrow eq_refl Hc0 (or_intror eq_refl)) as (l1 & E1 & Hl1).
  { reflexivity. }
  { intros s. apply add_chars_first. }
  { intros txt s. apply (add_chars_plain (rpos r) [] (rpos r) []). }
  unfold SG, rpos in E1. fold creator0 in E1. rewrite E1.
  destruct (rows_runL stash0 ds0 creator0 creator0 None 0%Q tc off d rest Frest (nxt (ctl d (ctrl_word 47)) nx)
              [] (row_text r) (rpos r) (rw_row r) 0 (rpos r) l1
              ((if d then 4 else 2) + Z.of_nat (length (emit_row d r))) Hch Hl1 eq_refl) as (tk2 & l2 & E2 & Hl2).
  unfold SG, rpos in E2. rewrite E2. cbn [app].
  set (fr := (if d then 4 else 2) + Z.of_nat (length (emit_row d r)) + Z.of_nat (length (flat_map (emit_row d) rest))) in *.
  replace ((if d then 2 else 1) + (if d then 2 else 1) + (Z.of_nat (length (emit_row d r)) +
           (Z.of_nat (length (flat_map (emit_row d) rest)) + (if d then 2 else 1))) - (if d then 2 else 1)) with fr in Hg
    by (unfold fr; destruct d; lia).
  destruct (eoc_run3 d stash0 tk2 l2 ds0 (mkI IText (row_text r) (rw_row r, 0) :: far_nodes rest)
              creator0 creator0 0%Q tc fr off nx t) as (l3 & ds3 & E3 & Hl3).
  { unfold cr_is_empty. cbn [cr_nodes existsb i_text]. destruct (row_text r); [congruence|reflexivity]. }
  { apply charlast_not_eoc. exact Hl2. }
  { exact Hg. }
  exists tk2, l3, ds3. split; [|exact Hl3]. rewrite E3. cbn [lnodes]. unfold rpos. f_equal. unfold fr. destruct d; lia.
Qed.

(* ---- 6. the caption creator: one caption per row ---------------------------------------------------------------------- *)
Definition capL (t1 t2 : Q) (r : row) : precap := mkPre t1 t2 [CText (row_text r) (rpos r)] (Some (rpos r)).

Lemma plain_rstrip : forall r, plain_row r = true -> rstrip (row_text r) = row_text r.
Proof.
  intros r H. destruct (plain_row_facts r H) as (_ & _ & _ & _ & _ & _ & Hne & Hall).
  apply rstrip_id; [exact Hne|]. destruct (is_space (last (row_text r) 0)) eqn:E; [|reflexivity]. exfalso.
  assert (Hin : In (last (row_text r) 0) (row_text r)).
  { destruct (exists_last Hne) as (l & x & ->). rewrite last_last. apply in_or_app. right. left. reflexivity. }
  destruct (Hall _ Hin) as [Hb Hn]. apply Hn. exact (basic_space _ Hb E).
Qed.

Lemma far_nodes_plain : forall t, Forall (fun r => plain_row r = true) t ->
  plain_nodes (far_nodes t) /\ Forall (fun n => rstrip_node n = n) (far_nodes t).
Proof.
  intros t F. induction F as [|r t Hrow F [I1 I2]]; [split; constructor|].
  assert (Ht : rstrip_node (mkI IText (row_text r) (rpos r)) = mkI IText (row_text r) (rpos r)).
  { unfold rstrip_node. cbn [i_kind i_text i_pos]. rewrite (plain_rstrip r Hrow). reflexivity. }
  cbn [far_nodes]. split; repeat (constructor; [first [reflexivity|exact Ht]|]); assumption.
Qed.

Lemma build_far : forall t1 t2 t, Forall (fun r => plain_row r = true) t -> forall done r0,
  build_captions (far_nodes t) t1 t2 done (capL t1 t2 r0) = done ++ map (capL t1 t2) (r0 :: t).
Proof.
  intros t1 t2 t F. induction F as [|r t Hrow F IH]; intros done r0; [reflexivity|].
  destruct (plain_row_facts r Hrow) as (_ & _ & _ & _ & _ & _ & Hne & _).
  cbn [far_nodes build_captions i_kind i_text i_pos nonempty]. rewrite (nonempty_true _ Hne).
  change (mkPre (pc_start (mkPre t1 t2 [] None)) (pc_end (mkPre t1 t2 [] None))
            (pc_nodes (mkPre t1 t2 [] None) ++ [CText (row_text r) (rpos r)]) (Some (rpos r))) with (capL t1 t2 r).
  rewrite IH. cbn [map]. rewrite <- app_assoc. reflexivity.
Qed.

Lemma has_nodes_capL : forall t1 t2 l, filter has_nodes (map (capL t1 t2) l) = map (capL t1 t2) l.
Proof. intros t1 t2. induction l as [|r l IH]; [reflexivity|]. cbn [map filter has_nodes capL pc_nodes]. rewrite IH. reflexivity. Qed.

Lemma storeL : forall t1 t2 r t, plain_row r = true -> Forall (fun r => plain_row r = true) t ->
  create_and_store stash0 (mkCr (lnodes (r :: t)) SNone) t1 t2
  = mkStash (map (capL t1 t2) (r :: t)) (length (r :: t)).
Proof.
  intros t1 t2 r t Hrow F. destruct (plain_row_facts r Hrow) as (_ & _ & _ & _ & _ & _ & Hne & _).
  destruct (far_nodes_plain t F) as [P1 P2]. unfold create_and_store.
  assert (E : cr_is_empty (mkCr (lnodes (r :: t)) SNone) = false).
  { unfold cr_is_empty. cbn [cr_nodes lnodes existsb i_text]. destruct (row_text r); [congruence|reflexivity]. }
  rewrite E. cbn [cr_nodes]. rewrite format_plain.
  - rewrite build_skip_empty. cbn [lnodes build_captions i_kind i_text i_pos]. rewrite (nonempty_true _ Hne).
    change (mkPre (pc_start (mkPre t1 t2 [] None)) (pc_end (mkPre t1 t2 [] None))
              (pc_nodes (mkPre t1 t2 [] None) ++ [CText (row_text r) (rpos r)]) (Some (rpos r))) with (capL t1 t2 r).
    rewrite (build_far t1 t2 t F [] r). cbn [app]. rewrite stash_extend0, has_nodes_capL, map_length. reflexivity.
  - cbn [lnodes]. constructor; [reflexivity|exact P1].
  - cbn [lnodes]. constructor; [|exact P2]. unfold rstrip_node. cbn [i_kind i_text i_pos]. rewrite (plain_rstrip r Hrow). reflexivity.
Qed.

(* ---- 7. `read` on a plain load is the final scan on one caption per row ------------------------------------------------- *)
Theorem plain_load_read : forall d l off tc tc2 t1 t2, plain_load l = true ->
  get_time tc (Z.of_nat (length (emit_load d l)) - (if d then 2 else 1)) off = Ok t1 ->
  get_time tc2 0 off = Ok t2 ->
  read off [(tc, emit_load d l); (tc2, emit_clear d)] = finish_read (mkStash (map (capL t1 t2) l) (length l)).
Proof.
  intros d l off tc tc2 t1 t2 H Hg1 Hg2.
  destruct (stateL d l off tc None t1 H Hg1) as (tk & lc & ds & E & Hl).
  destruct (plain_load_parts l H) as (r & rest & -> & Hrow & Frest & _).
  destruct (edm_run d stash0 tk lc ds creator0 creator0 (mkCr (lnodes (r :: rest)) SNone) t1 t1 tc2 0 off t2 Hl Hg2)
    as (l' & ds' & fr' & E2).
  assert (S1 : translate_line (rstate0 off) (tc, emit_load d (r :: rest))
               = translate_words (start_state off tc) (emit_load d (r :: rest))) by reflexivity.
  rewrite tws_words, E in S1.
  unfold read, run_lines. cbn [fold_left]. rewrite S1. unfold translate_line, set_clock.
  cbn [r_err fst snd r_stash r_tk r_last r_dstart r_pop r_paint r_roll r_active r_queue r_time r_tc r_frames r_offset].
  unfold emit_clear. rewrite E2. cbn [r_err flush_implicit r_active r_queue r_stash].
  rewrite (storeL t1 t2 r rest Hrow Frest). reflexivity.
Qed.

(* ---- 8. the final scan ---------------------------------------------------------------------------------------------------- *)
Lemma offendingL : forall t1 t2 l, Forall (fun r => plain_row r = true) l ->
  offending (map to_lcap (map (capL t1 t2) l)) = filter spec_long (map row_text l).
Proof.
  intros t1 t2 l F. unfold offending. induction F as [|r l Hrow F IH]; [reflexivity|].
  destruct (plain_row_facts r Hrow) as (_ & _ & _ & _ & _ & _ & _ & Hall).
  cbn [map concat]. rewrite IH. unfold to_lcap, cap_text, capL. cbn [snd pc_nodes map node_text concat].
  rewrite app_nil_r. unfold spec_lines, split_ch. rewrite split_no_sep.
  - cbn [rev app filter]. destruct (spec_long (row_text r)); reflexivity.
  - intros c Hc E. pose proof (is_basic_ge32 c (proj1 (Hall c Hc))). lia.
Qed.

Lemma filter_nil_existsb : forall A (f : A -> bool) l, filter f l = [] <-> existsb f l = false.
Proof.
  intros A f. induction l as [|a l IH]; [split; reflexivity|]. cbn [filter existsb]. destruct (f a); cbn [orb].
  - split; discriminate.
  - exact IH.
Qed.

Lemma existsb_map : forall A B (g : A -> B) (f : B -> bool) l, existsb f (map g l) = existsb (fun x => f (g x)) l.
Proof. intros A B g f. induction l as [|a l IH]; [reflexivity|]. cbn [map existsb]. rewrite IH. reflexivity. Qed.

Lemma offendingL_nil : forall t1 t2 l, Forall (fun r => plain_row r = true) l ->
  offending (map to_lcap (map (capL t1 t2) l)) = [] <-> existsb long_row l = false.
Proof.
  intros t1 t2 l F. rewrite (offendingL t1 t2 l F), filter_nil_existsb, existsb_map. reflexivity.
Qed.

Lemma pos_end_nonzero : forall t1 t2 : Q, (0 < t1)%Q -> (t1 < t2)%Q -> Qeq_bool t2 0 = false.
Proof.
  intros t1 t2 H0 H1. destruct (Qeq_bool t2 0) eqn:E; [|reflexivity]. apply Qeq_bool_eq in E. exfalso.
  assert (X : (0 < t2)%Q) by (eapply Qlt_trans; eassumption). rewrite E in X. exact (Qlt_irrefl _ X).
Qed.

(* (1) OUTCOME *)
Theorem plain_load_outcome : forall d l off tc tc2 t1 t2, plain_load l = true ->
  get_time tc (Z.of_nat (length (emit_load d l)) - (if d then 2 else 1)) off = Ok t1 ->
  get_time tc2 0 off = Ok t2 -> (0 < t1)%Q -> (t1 < t2)%Q -> is_flash (mkPre t1 t2 [] None) = false ->
  let res := read off [(tc, emit_load d l); (tc2, emit_clear d)] in
  (existsb long_row l = false -> res = ROk (map (capL t1 t2) l)) /\
  (existsb long_row l = true ->
     exists msg, res = RLen msg /\
       forall r, In r l -> long_row r = true -> names msg (row_text r) = true /\ mentions msg (row_text r) = true).
Proof.
  intros d l off tc tc2 t1 t2 H Hg1 Hg2 H0 H1 Hfl res. unfold res. clear res.
  rewrite (plain_load_read d l off tc tc2 t1 t2 H Hg1 Hg2).
  pose proof (plain_load_rows l H) as F. pose proof (offendingL_nil t1 t2 l F) as Hoff.
  unfold finish_read. cbn [st_caps]. split.
  - intros Hs. apply Hoff in Hs. apply length_check_none_iff in Hs. rewrite Hs.
    assert (Hf : existsb is_flash (map (capL t1 t2) l) = false).
    { clear -Hfl. induction l as [|e es IH]; [reflexivity|]. cbn [map existsb]. rewrite IH.
      change (is_flash (capL t1 t2 e)) with (is_flash (mkPre t1 t2 [] None)). rewrite Hfl. reflexivity. }
    rewrite Hf. destruct l as [|r l]; [discriminate H|]. cbn [map]. rewrite fix_last_ended; [reflexivity|].
    intros c Hc. change (capL t1 t2 r :: map (capL t1 t2) l) with (map (capL t1 t2) (r :: l)) in Hc.
    apply in_map_iff in Hc. destruct Hc as (e' & <- & _). exact (pos_end_nonzero t1 t2 H0 H1).
  - intros Hs. pose proof (length_check_sound_complete (map to_lcap (map (capL t1 t2) l))) as K.
    destruct (length_check (map to_lcap (map (capL t1 t2) l))) as [msg|] eqn:El.
    + exists msg. split; [reflexivity|]. intros r Hin Hlong. destruct K as (_ & K & _).
      assert (Hn : names msg (row_text r) = true).
      { apply K. rewrite (offendingL t1 t2 l F). apply filter_In. split; [apply in_map; exact Hin|exact Hlong]. }
      split; [exact Hn|exact (names_mentions _ _ Hn)].
    + exfalso. apply length_check_none_iff in El. apply Hoff in El. congruence.
Qed.
Print Assumptions plain_load_outcome.

(* ---- 9. (2) ORDER ------------------------------------------------------------------------------------------------------------ *)
Lemma existsb_perm {A} (f : A -> bool) (l l' : list A) : Permutation l l' -> existsb f l = existsb f l'.
Proof.
  induction 1; cbn [existsb]; try congruence.
  - destruct (f x), (f y); reflexivity.
Qed.

Lemma apart_perm (l l' : list Z) : Permutation l l' -> apart l = apart l'.
Proof.
  induction 1; cbn [apart forallb]; try congruence.
  - rewrite IHPermutation, (forallb_perm _ l l' H). reflexivity.
  - replace (Z.abs (x - y)) with (Z.abs (y - x)) by lia.
    destruct (2 <=? Z.abs (y - x)), (forallb (fun y0 => 2 <=? Z.abs (y - y0)) l),
             (forallb (fun y0 => 2 <=? Z.abs (x - y0)) l), (apart l); reflexivity.
Qed.

Lemma plain_load_perm (l l' : load) : Permutation l l' -> plain_load l = plain_load l'.
Proof.
  intro P. unfold plain_load.
  rewrite (forallb_perm plain_row l l' P), (apart_perm _ _ (Permutation_map rw_row P)).
  destruct l, l'; try reflexivity.
  - apply Permutation_nil in P. discriminate.
  - apply Permutation_sym, Permutation_nil in P. discriminate.
Qed.

Definition raises (r : read_result) : Prop := exists msg, r = RLen msg.
Definition returns (r : read_result) : Prop := exists caps, r = ROk caps.

(* one hypothesis set serves both orders: the End-Of-Caption code sits at the same word index in either order *)
Theorem plain_load_order_free : forall d l l' off tc tc2 t1 t2, Permutation l l' -> plain_load l = true ->
  get_time tc (Z.of_nat (length (emit_load d l)) - (if d then 2 else 1)) off = Ok t1 ->
  get_time tc2 0 off = Ok t2 -> (0 < t1)%Q -> (t1 < t2)%Q -> is_flash (mkPre t1 t2 [] None) = false ->
  let res := read off [(tc, emit_load d l); (tc2, emit_clear d)] in
  let res' := read off [(tc, emit_load d l'); (tc2, emit_clear d)] in
  (raises res <-> raises res') /\ (returns res <-> returns res') /\
  (raises res <-> existsb long_row l = true) /\ (returns res <-> existsb long_row l = false).
Proof.
  intros d l l' off tc tc2 t1 t2 P W T1 T2 H0 H1 Hfl res res'.
  assert (W' : plain_load l' = true) by (rewrite <- (plain_load_perm l l' P); exact W).
  assert (T1' : get_time tc (Z.of_nat (length (emit_load d l')) - (if d then 2 else 1)) off = Ok t1)
    by (rewrite <- (length_emit_load_perm d l l' P); exact T1).
  destruct (plain_load_outcome d l off tc tc2 t1 t2 W T1 T2 H0 H1 Hfl) as [A B].
  destruct (plain_load_outcome d l' off tc tc2 t1 t2 W' T1' T2 H0 H1 Hfl) as [A' B'].
  fold res in A, B. fold res' in A', B'. rewrite <- (existsb_perm long_row l l' P) in A', B'.
  unfold raises, returns.
  destruct (existsb long_row l).
  - destruct (B eq_refl) as (m & -> & _). destruct (B' eq_refl) as (m' & -> & _).
    repeat split; intros; eauto; try discriminate; match goal with H : exists _, _ |- _ => destruct H; discriminate end.
  - rewrite (A eq_refl), (A' eq_refl).
    repeat split; intros; eauto; try discriminate; match goal with H : exists _, _ |- _ => destruct H; discriminate end.
Qed.
Print Assumptions plain_load_order_free.

(* ---- 10. corollaries -------------------------------------------------------------------------------------------------------- *)
(* ONE row of any length: the reader raises iff the row has more than 32 characters *)
Corollary plain_row_one : forall d r off tc tc2 t1 t2, plain_row r = true ->
  get_time tc (Z.of_nat (length (emit_load d [r])) - (if d then 2 else 1)) off = Ok t1 ->
  get_time tc2 0 off = Ok t2 -> (0 < t1)%Q -> (t1 < t2)%Q -> is_flash (mkPre t1 t2 [] None) = false ->
  let res := read off [(tc, emit_load d [r]); (tc2, emit_clear d)] in
  (raises res <-> (32 < length (row_text r))%nat) /\ (returns res <-> (length (row_text r) <= 32)%nat).
Proof.
  intros d r off tc tc2 t1 t2 H T1 T2 H0 H1 Hfl res.
  assert (W : plain_load [r] = true) by (unfold plain_load; cbn [nil_b negb forallb map apart andb]; rewrite H; reflexivity).
  destruct (plain_load_order_free d [r] [r] off tc tc2 t1 t2 (Permutation_refl _) W T1 T2 H0 H1 Hfl) as (_ & _ & A & B).
  fold res in A, B. cbn [existsb] in A, B. rewrite orb_false_r in A, B. unfold long_row in A, B.
  split; [rewrite A|rewrite B]; lia.
Qed.

(* (3) the outcome of `read` on a plain load meets the C15 oracle (weakest and exact reading of "naming") on the captions
   one per row, whose offending lines are exactly the texts of the over-long rows in transmission order *)
Theorem plain_load_meets_c15 : forall d l off tc tc2 t1 t2, plain_load l = true ->
  get_time tc (Z.of_nat (length (emit_load d l)) - (if d then 2 else 1)) off = Ok t1 ->
  get_time tc2 0 off = Ok t2 ->
  let caps := map to_lcap (map (capL t1 t2) l) in
  offending caps = filter spec_long (map row_text l) /\
  forall msg, read off [(tc, emit_load d l); (tc2, emit_clear d)] = RLen msg ->
    ok_c15 caps (Some msg) = true /\ ok_c15_loose caps (Some msg) = true.
Proof.
  intros d l off tc tc2 t1 t2 H T1 T2 caps. split; [exact (offendingL t1 t2 l (plain_load_rows l H))|].
  intros msg R. rewrite (plain_load_read d l off tc tc2 t1 t2 H T1 T2) in R. unfold finish_read in R. cbn [st_caps] in R.
  fold caps in R. pose proof (length_check_meets_oracle caps) as K.
  destruct (length_check caps) as [m|].
  - injection R as ->. split; [exact K|exact (ok_c15_implies_loose _ _ K)].
  - destruct (existsb is_flash (map (capL t1 t2) l)); [discriminate R|]. destruct (map (capL t1 t2) l); discriminate R.
Qed.
Print Assumptions plain_load_meets_c15.

(* ---- 11. non-vacuity: a row of 34 characters on row 15 and a short row on row 3, in either order ---------------------------- *)
Definition long_a : load := [mkRow 15 0 0 0 (map Ch (repeat 97 34)); mkRow 3 0 0 0 [Ch 98; Ch 99]].
Definition long_b : load := [mkRow 3 0 0 0 [Ch 98; Ch 99]; mkRow 15 0 0 0 (map Ch (repeat 97 34))].
Definition short_a : load := [mkRow 15 0 0 0 (map Ch (repeat 97 32)); mkRow 3 0 0 0 [Ch 98; Ch 99]].
Definition short_b : load := [mkRow 3 0 0 0 [Ch 98; Ch 99]; mkRow 15 0 0 0 (map Ch (repeat 97 32))].

Example long_order_instance :
  (exists m, read 0 [(lit "00:00:01;00", emit_load true long_a); (lit "00:00:05;00", emit_clear true)] = RLen m /\
             mentions m (repeat 97 34) = true) /\
  (exists m, read 0 [(lit "00:00:01;00", emit_load true long_b); (lit "00:00:05;00", emit_clear true)] = RLen m /\
             mentions m (repeat 97 34) = true).
Proof.
  assert (T : forall l, plain_load l = true -> length (emit_load true l) = length (emit_load true long_a) ->
              In (mkRow 15 0 0 0 (map Ch (repeat 97 34))) l ->
              exists m, read 0 [(lit "00:00:01;00", emit_load true l); (lit "00:00:05;00", emit_clear true)] = RLen m /\
                        mentions m (repeat 97 34) = true).
  { intros l W Hlen Hin.
    assert (X : exists t1, get_time (lit "00:00:01;00") (Z.of_nat (length (emit_load true long_a)) - 2) 0 = Ok t1 /\
                           (0 < t1)%Q /\ (t1 < 5000000)%Q /\ is_flash (mkPre t1 5000000 [] None) = false).
    { eexists. split; [vm_compute; reflexivity|]. repeat split; vm_compute; reflexivity. }
    destruct X as (t1 & T1 & H0 & H1 & F). rewrite <- Hlen in T1.
    destruct (plain_load_outcome true l 0 (lit "00:00:01;00") (lit "00:00:05;00") t1 5000000 W T1
                ltac:(vm_compute; reflexivity) H0 H1 F) as [_ B].
    destruct B as (m & R & N).
    - apply existsb_exists. eexists. split; [exact Hin|vm_compute; reflexivity].
    - exists m. split; [exact R|]. exact (proj2 (N _ Hin ltac:(vm_compute; reflexivity))). }
  split; apply T; try (vm_compute; reflexivity); cbn [long_a long_b In]; tauto.
Qed.

(* the same two streams evaluated directly, and the 32-character variant returning two captions in either order *)
Example long_order_direct :
  (exists m, read 0 [(lit "00:00:01;00", emit_load true long_a); (lit "00:00:05;00", emit_clear true)] = RLen m) /\
  (exists m, read 0 [(lit "00:00:01;00", emit_load false long_b); (lit "00:00:05;00", emit_clear false)] = RLen m) /\
  (exists c1 c2, read 0 [(lit "00:00:01;00", emit_load true short_a); (lit "00:00:05;00", emit_clear true)] = ROk [c1; c2]) /\
  (exists c1 c2, read 0 [(lit "00:00:01;00", emit_load false short_b); (lit "00:00:05;00", emit_clear false)] = ROk [c1; c2]) /\
  plain_load long_a = true /\ plain_load long_b = true /\ plain_load short_a = true /\ plain_load short_b = true /\
  Permutation long_a long_b.
Proof.
  repeat split; try (vm_compute; reflexivity); try (eexists; vm_compute; reflexivity);
    try (eexists; eexists; vm_compute; reflexivity). apply perm_swap.
Qed.

(* ---- 12. "depends only on the line lengths": two plain loads (different texts, rows, orders, timecodes, single or doubled
        codes) whose row lengths are the same up to order have the same outcome ------------------------------------------------ *)
Definition row_lengths (l : load) : list nat := map (fun r => length (row_text r)) l.

Theorem plain_load_lengths_only : forall d d' l l' off off' tc tc' tc2 tc2' t1 t2 t1' t2',
  plain_load l = true -> plain_load l' = true -> Permutation (row_lengths l) (row_lengths l') ->
  get_time tc (Z.of_nat (length (emit_load d l)) - (if d then 2 else 1)) off = Ok t1 ->
  get_time tc2 0 off = Ok t2 -> (0 < t1)%Q -> (t1 < t2)%Q -> is_flash (mkPre t1 t2 [] None) = false ->
  get_time tc' (Z.of_nat (length (emit_load d' l')) - (if d' then 2 else 1)) off' = Ok t1' ->
  get_time tc2' 0 off' = Ok t2' -> (0 < t1')%Q -> (t1' < t2')%Q -> is_flash (mkPre t1' t2' [] None) = false ->
  let res := read off [(tc, emit_load d l); (tc2, emit_clear d)] in
  let res' := read off' [(tc', emit_load d' l'); (tc2', emit_clear d')] in
  (raises res <-> raises res') /\ (returns res <-> returns res').
Proof.
  intros d d' l l' off off' tc tc' tc2 tc2' t1 t2 t1' t2' W W' P T1 T2 H0 H1 F T1' T2' H0' H1' F' res res'.
  destruct (plain_load_order_free d l l off tc tc2 t1 t2 (Permutation_refl _) W T1 T2 H0 H1 F) as (_ & _ & A & B).
  destruct (plain_load_order_free d' l' l' off' tc' tc2' t1' t2' (Permutation_refl _) W' T1' T2' H0' H1' F') as (_ & _ & A' & B').
  fold res in A, B. fold res' in A', B'.
  assert (E : existsb long_row l = existsb long_row l').
  { unfold long_row. rewrite <- (existsb_map _ _ (fun r => length (row_text r)) (fun n => 32 <? Z.of_nat n) l),
                             <- (existsb_map _ _ (fun r => length (row_text r)) (fun n => 32 <? Z.of_nat n) l').
    exact (existsb_perm _ _ _ P). }
  rewrite A, B, A', B', E. split; reflexivity.
Qed.
Print Assumptions plain_load_lengths_only.
