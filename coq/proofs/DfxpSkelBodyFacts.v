(* C07, round 4: the ids and references READ FROM THE TREE (model/DfxpSkelBody.v: <style>, <region>, <div>, <p>, <span>
   dictionaries as DFXPWriter.write builds them) are those of the traversal model `summarize`; hence the oracle ok_refs
   holds of the tree itself. *)
From Coq Require Import List ZArith Lia Bool.
From PV Require Import lib.Sx lib.Str model.DfxpXml model.DfxpRegion model.DfxpDoc model.DfxpSkel model.DfxpSkelHead model.DfxpSkelBody spec.SpecXmlAttr.
From PV Require Import proofs.LangsFacts proofs.DfxpRegionFacts proofs.DfxpPayloadFacts proofs.DfxpDocFacts proofs.DfxpSkelHeadFacts.
Import ListNotations.
Open Scope Z_scope.

(* ---- lookup in a dict that was put into / updated ------------------------------------------------------------------ *)
Lemma str_eqb_neq : forall a b, a <> b -> str_eqb a b = false.
Proof. intros a b N. destruct (str_eqb a b) eqn:E; [apply str_eqb_eq in E; contradiction|reflexivity]. Qed.

Lemma lookup_put_same : forall k v d, lookup k (dict_put k v d) = Some v.
Proof.
  intros k v d. induction d as [|[k' v'] t IH]; cbn [dict_put lookup].
  - rewrite str_eqb_refl'. reflexivity.
  - destruct (str_eqb k' k) eqn:E; cbn [lookup]; rewrite E; [reflexivity|exact IH].
Qed.
Lemma lookup_put_other : forall k k2 v d, k <> k2 -> lookup k (dict_put k2 v d) = lookup k d.
Proof.
  intros k k2 v d N. induction d as [|[k' v'] t IH]; cbn [dict_put lookup].
  - rewrite str_eqb_neq; [reflexivity|intro E; apply N; symmetry; exact E].
  - destruct (str_eqb k' k2) eqn:E; cbn [lookup].
    + apply str_eqb_eq in E. subst k'. rewrite str_eqb_neq; [reflexivity|intro E; apply N; symmetry; exact E].
    + destruct (str_eqb k' k); [reflexivity|exact IH].
Qed.
Lemma lookup_update_other : forall k upd d, ~ In k (map fst upd) -> lookup k (dict_update d upd) = lookup k d.
Proof.
  intros k upd. unfold dict_update. induction upd as [|[k2 v2] t IH]; intros d N; [reflexivity|].
  cbn [fold_left fst snd]. rewrite IH.
  - apply lookup_put_other. intro E. apply N. left. symmetry. exact E.
  - intro H. apply N. right. exact H.
Qed.
Lemma dict_update_app : forall d a b, dict_update d (a ++ b) = dict_update (dict_update d a) b.
Proof. intros. unfold dict_update. apply fold_left_app. Qed.
Lemma lookup_notin : forall k d, ~ In k (map fst d) -> lookup k d = None.
Proof.
  intros k d. induction d as [|[k' v'] t IH]; intros N; [reflexivity|]. cbn [lookup].
  rewrite str_eqb_neq; [apply IH; intro H; apply N; right; exact H|intro E; apply N; left; exact E].
Qed.

(* the tail of _recreate_style (everything but style=) has no style key *)
Lemma lookup_style_update_recreate : forall base content ids,
  lookup style_key (dict_update base (recreate_style content ids)) =
  match lookup style_key (recreate_style content ids) with Some v => Some v | None => lookup style_key base end.
Proof.
  intros base content ids. unfold recreate_style.
  match goal with |- context [dict_update _ (?H0 ++ ?T0)] => set (T := T0) end.
  assert (NT : ~ In style_key (map fst T)).
  { subst T.
    destruct (lookup (lit "text-align") content) as [v2|];
    destruct (lookup (lit "italics") content) as [[|v3a v3]|];
    destruct (lookup (lit "font-family") content) as [v4|];
    destruct (lookup (lit "font-size") content) as [v5|];
    destruct (lookup (lit "color") content) as [v6|];
    destruct (lookup (lit "display-align") content) as [v7|];
    cbn [app map fst In]; intros H; repeat (destruct H as [H|H]; [discriminate|]); exact H. }
  rewrite dict_update_app, lookup_update_other by exact NT.
  destruct (lookup (lit "class") content) as [c|]; [destruct (existsb (str_eqb c) ids)|].
  - cbn [app]. unfold dict_update at 1. cbn [fold_left fst snd]. rewrite lookup_put_same. reflexivity.
  - cbn [app]. rewrite (lookup_notin _ T NT). reflexivity.
  - cbn [app]. rewrite (lookup_notin _ T NT). reflexivity.
Qed.

Lemma style_region_neq : style_key <> region_key. Proof. discriminate. Qed.
Lemma region_style_neq : region_key <> style_key. Proof. discriminate. Qed.

(* ---- the dictionaries of div / p / span --------------------------------------------------------------------------- *)
Lemma div_style : forall code r inline, noref inline -> attr_ref style_key (divtag_attrs code r inline) = [].
Proof.
  intros code r inline (N1 & _ & _). unfold attr_ref, divtag_attrs.
  rewrite lookup_update_other by exact N1. rewrite lookup_put_other by exact style_region_neq. reflexivity.
Qed.
Lemma div_region : forall code r inline, noref inline -> attr_ref region_key (divtag_attrs code r inline) = [r].
Proof.
  intros code r inline (_ & N2 & _). unfold attr_ref, divtag_attrs.
  rewrite lookup_update_other by exact N2. rewrite lookup_put_same. reflexivity.
Qed.
Lemma p_region : forall written c r, noref (xc_inline c) -> attr_ref region_key (ptag_attrs written c r) = [r].
Proof.
  intros written c r (_ & N2 & _). unfold attr_ref, ptag_attrs.
  rewrite lookup_update_other by exact N2. rewrite lookup_put_same. reflexivity.
Qed.
Lemma p_style : forall written c r, noref (xc_inline c) ->
  attr_ref style_key (ptag_attrs written c r) = p_style_ref written (erase_cap c).
Proof.
  intros written c r (N1 & _ & _). unfold attr_ref, ptag_attrs, p_style_ref, cap_content, erase_cap. cbn [dc_style].
  rewrite lookup_update_other by exact N1. rewrite lookup_put_other by exact style_region_neq.
  rewrite lookup_style_update_recreate. fold style_key.
  destruct (lookup style_key (recreate_style match xc_style c with Some s => s | None => [(lit "class", default_style_id)] end written));
    [reflexivity|].
  destruct (existsb (str_eqb (lit "p")) written); reflexivity.
Qed.
Lemma span_style : forall written n r, noref (xn_inline n) ->
  attr_ref style_key (span_dict written n r) =
  match lookup style_key (recreate_style (dn_content (xn_node n)) written) with Some cl => [cl] | None => [] end.
Proof.
  intros written n r (N1 & _ & _). unfold attr_ref, span_dict, span_attributes.
  destruct (truthy (rn_layout (dn_r (xn_node n)))); [|reflexivity].
  rewrite lookup_update_other by exact N1. rewrite lookup_put_other by exact style_region_neq. reflexivity.
Qed.
Lemma span_region : forall written n r, noref (xn_inline n) ->
  attr_ref region_key (span_dict written n r) = if truthy (rn_layout (dn_r (xn_node n))) then [r] else [].
Proof.
  intros written n r (_ & N2 & _). unfold attr_ref, span_dict, span_attributes.
  destruct (truthy (rn_layout (dn_r (xn_node n)))).
  - rewrite lookup_update_other by exact N2. rewrite lookup_put_same. reflexivity.
  - rewrite lookup_notin; [reflexivity|apply recreate_style_no_region].
Qed.

(* ---- the spans of one caption --------------------------------------------------------------------------------------- *)
Lemma spans_style : forall written (rf : xnode -> str) ns, Forall (fun n => noref (xn_inline n)) ns ->
  flat_map (attr_ref style_key)
           (flat_map (fun n => if rn_span (dn_r (xn_node n)) then [span_dict written n (rf n)] else []) ns)
  = flat_map (fun n => if rn_span (dn_r n)
                       then match lookup (lit "style") (recreate_style (dn_content n) written) with Some cl => [cl] | None => [] end
                       else []) (map xn_node ns).
Proof.
  intros written rf ns H. induction H as [|n t Hn Ht IH]; [reflexivity|]. cbn [flat_map map].
  destruct (rn_span (dn_r (xn_node n))).
  - cbn [app flat_map]. rewrite (span_style _ _ _ Hn), IH. reflexivity.
  - cbn [app]. exact IH.
Qed.
Lemma spans_region : forall written (rz : rnode -> Z) ns, Forall (fun n => noref (xn_inline n)) ns ->
  flat_map (attr_ref region_key)
           (flat_map (fun n => if rn_span (dn_r (xn_node n)) then [span_dict written n (region_id_str (rz (dn_r (xn_node n))))] else []) ns)
  = map region_id_str (map rz (filter (fun n => rn_span n && truthy (rn_layout n)) (map dn_r (map xn_node ns)))).
Proof.
  intros written rz ns H. induction H as [|n t Hn Ht IH]; [reflexivity|]. cbn [flat_map map filter].
  destruct (rn_span (dn_r (xn_node n))); cbn [andb].
  - cbn [app flat_map]. rewrite (span_region _ _ _ Hn), IH.
    destruct (truthy (rn_layout (dn_r (xn_node n)))); reflexivity.
  - cbn [app]. exact IH.
Qed.

(* ---- the body ----------------------------------------------------------------------------------------------------- *)
Definition cap_deco_ok (c : xcap) : Prop := noref (xc_inline c) /\ Forall (fun n => noref (xn_inline n)) (xc_nodes c).
Definition lang_deco_ok (l : xlang) : Prop := noref (xl_inline l) /\ Forall cap_deco_ok (xl_caps l).

Theorem body_style_refs_tree : forall written x, Forall lang_deco_ok (xs_langs x) ->
  body_refs style_key (body_tree written x) = body_style_refs written (erase x).
Proof.
  intros written x H. unfold body_refs, body_tree, body_style_refs, erase. cbn [ds_langs].
  set (m := region_map _). clearbody m.
  induction H as [|l t [Hl Hc] Ht IH]; [reflexivity|]. cbn [map flat_map fst snd].
  rewrite IH. f_equal. rewrite (div_style _ _ _ Hl). cbn [app erase_lang dl_caps].
  clear IH Ht Hl. induction Hc as [|c cs [Hc Hn] Hcs IHc]; [reflexivity|]. cbn [map flat_map fst snd].
  rewrite IHc. f_equal. rewrite (p_style _ _ _ Hc). f_equal.
  unfold span_style_refs, erase_cap. cbn [dc_nodes].
  exact (spans_style written _ _ Hn).
Qed.

Theorem body_region_refs_tree : forall written x, Forall lang_deco_ok (xs_langs x) ->
  body_refs region_key (body_tree written x) = map region_id_str (all_refs (to_rset (erase x))).
Proof.
  intros written x H. unfold body_refs, body_tree, all_refs, refs.
  set (m := region_map _). clearbody m.
  unfold to_rset, erase. cbn [ds_langs ds_layout rs_langs rs_layout].
  induction H as [|l t [Hl Hc] Ht IH]; [reflexivity|]. cbn [map flat_map fst snd].
  rewrite map_app, <- IH. f_equal. rewrite (div_region _ _ _ Hl). cbn [app map rl_layout rl_caps erase_lang dl_layout dl_caps].
  f_equal. clear IH Ht Hl. induction Hc as [|c cs [Hc Hn] Hcs IHc]; [reflexivity|]. cbn [map flat_map fst snd].
  rewrite map_app, <- IHc. f_equal. rewrite (p_region _ _ _ Hc). cbn [app map rc_layout rc_nodes erase_cap dc_layout dc_nodes].
  f_equal.
  exact (spans_region written (fun n => region_of m (pick (rn_layout n) (xc_layout c) (xl_layout l) (xs_layout x))) _ Hn).
Qed.

(* ---- the head ----------------------------------------------------------------------------------------------------- *)
Lemma region_elems_ids : forall extra d, elem_ids (region_elems extra d) = map region_id_str (defined (to_rset d)).
Proof.
  intros extra d. unfold region_elems, elem_ids. induction (defined (to_rset d)) as [|id t IH]; [reflexivity|].
  cbn [map flat_map]. rewrite lookup_id_hit, IH. reflexivity.
Qed.
Lemma region_elems_norefs : forall extra d, (forall id, noref (extra id)) ->
  elem_style_refs (region_elems extra d) = [] /\ flat_map (attr_ref region_key) (region_elems extra d) = [].
Proof.
  intros extra d H. unfold region_elems, elem_style_refs. induction (defined (to_rset d)) as [|id t [IH1 IH2]]; [split; reflexivity|].
  destruct (H id) as (N1 & N2 & _). cbn [map flat_map]. rewrite IH1, IH2. unfold attr_ref.
  assert (E1 : lookup (lit "style") ((xml_id, region_id_str id) :: extra id) = None)
    by (cbn [lookup]; change (str_eqb xml_id (lit "style")) with false; cbv iota; apply lookup_notin; exact N1).
  assert (E2 : lookup region_key ((xml_id, region_id_str id) :: extra id) = None)
    by (cbn [lookup]; change (str_eqb xml_id region_key) with false; cbv iota; apply lookup_notin; exact N2).
  rewrite E1, E2. split; reflexivity.
Qed.
Lemma style_elem_step_noregion : forall acc st,
  flat_map (attr_ref region_key) (snd acc) = [] -> flat_map (attr_ref region_key) (snd (style_elem_step acc st)) = [].
Proof.
  intros [w e] st H. unfold style_elem_step. destruct (snd st) as [|kv content] eqn:Es; [exact H|].
  destruct (recreate_style (kv :: content) w) as [|a0 attrs] eqn:Er; [exact H|]. cbn [snd] in *.
  rewrite flat_map_app, H. cbn [flat_map app]. rewrite app_nil_r. rewrite <- Er. unfold attr_ref. cbn [lookup].
  change (str_eqb xml_id region_key) with false. cbv iota.
  rewrite lookup_notin; [reflexivity|apply recreate_style_no_region].
Qed.
Lemma style_elems_noregion : forall styles, flat_map (attr_ref region_key) (style_elems styles) = [].
Proof.
  intros [|st t]; [reflexivity|]. unfold style_elems.
  assert (G : forall l acc, flat_map (attr_ref region_key) (snd acc) = [] ->
                            flat_map (attr_ref region_key) (snd (fold_left style_elem_step l acc)) = []).
  { induction l as [|s l IH]; intros acc H; [exact H|]. cbn [fold_left]. apply IH. apply style_elem_step_noregion. exact H. }
  apply G. reflexivity.
Qed.

(* ---- the tree against the summary --------------------------------------------------------------------------------- *)
Theorem tree_is_the_summary : forall extra x, deco_ok extra x ->
  let t := tree_of extra x in let s := summarize (erase x) in
  tree_ids t = s_ids s /\ tree_style_ids t = s_style_ids s /\ tree_region_ids t = s_region_ids s /\
  tree_style_refs t = s_style_refs s /\ tree_region_refs t = s_region_refs s.
Proof.
  intros extra x [He Hl]. cbn zeta.
  assert (HL : Forall lang_deco_ok (xs_langs x)).
  { eapply Forall_impl; [|exact Hl]. intros l [A B]. split; [exact A|]. eapply Forall_impl; [|exact B]. intros c C. exact C. }
  destruct (style_elems_summary (xs_styles x)) as [S1 S2].
  destruct (region_elems_norefs extra (erase x) He) as [R1 R2].
  unfold tree_ids, tree_style_ids, tree_region_ids, tree_style_refs, tree_region_refs, tree_of.
  cbn [t_styles t_regions t_body]. rewrite region_elems_ids, R1, R2, style_elems_noregion.
  rewrite body_style_refs_tree, body_region_refs_tree by exact HL. rewrite S1, S2.
  unfold summarize. change (ds_styles (erase x)) with (xs_styles x).
  destruct (styling (xs_styles x)) as [written head_refs].
  cbn [fst snd s_ids s_style_ids s_region_ids s_style_refs s_region_refs app]. repeat split; reflexivity.
Qed.

(* ... hence the oracle holds of the ids / references read from the tree *)
Theorem document_references_resolved : forall extra x, deco_ok extra x -> dom_doc (erase x) = true ->
  let t := tree_of extra x in
  ok_refs (tree_ids t) (tree_style_ids t) (tree_region_ids t) (tree_style_refs t) (tree_region_refs t) = 0.
Proof.
  intros extra x D Dom. cbn zeta. destruct (tree_is_the_summary extra x D) as (E1 & E2 & E3 & E4 & E5).
  rewrite E1, E2, E3, E4, E5. exact (doc_consistent (erase x) Dom).
Qed.

(* every dset is the erasure of a decorated set: the theorem speaks about every caption set of the domain *)
Definition plain (d : dset) : xset :=
  mkXset (ds_layout d) (ds_styles d)
         (map (fun l => mkXlang (dl_layout l)
                                (map (fun c => mkXcap (dc_layout c) (dc_style c) (map (fun n => mkXnode n []) (dc_nodes c)) [] [] [])
                                     (dl_caps l)) [] []) (ds_langs d)).
Lemma erase_plain : forall d, erase (plain d) = d.
Proof.
  intros [l s ls]. unfold erase, plain. cbn [xs_layout xs_styles xs_langs ds_layout ds_styles ds_langs]. f_equal.
  rewrite map_map. rewrite <- (map_id ls) at 2. apply map_ext. intros [ll cs]. unfold erase_lang. cbn [xl_layout xl_caps dl_layout dl_caps].
  f_equal. rewrite map_map. rewrite <- (map_id cs) at 2. apply map_ext. intros [cl st ns]. unfold erase_cap.
  cbn [xc_layout xc_style xc_nodes dc_layout dc_style dc_nodes]. f_equal. rewrite map_map. rewrite <- (map_id ns) at 2. apply map_ext.
  intros n. reflexivity.
Qed.
Lemma plain_deco_ok : forall d, deco_ok (fun _ => []) (plain d).
Proof.
  intros d. assert (N : noref []) by (repeat split; intros []). split; [intros; exact N|]. unfold plain. cbn [xs_langs].
  apply Forall_forall. intros l Hl. apply in_map_iff in Hl. destruct Hl as [l0 [<- _]]. cbn [xl_inline xl_caps]. split; [exact N|].
  apply Forall_forall. intros c Hc. apply in_map_iff in Hc. destruct Hc as [c0 [<- _]]. cbn [xc_inline xc_nodes]. split; [exact N|].
  apply Forall_forall. intros n Hn. apply in_map_iff in Hn. destruct Hn as [n0 [<- _]]. exact N.
Qed.
Theorem every_set_has_a_resolved_tree : forall d, dom_doc d = true ->
  exists x, erase x = d /\ deco_ok (fun _ => []) x /\ let t := tree_of (fun _ => []) x in
            ok_refs (tree_ids t) (tree_style_ids t) (tree_region_ids t) (tree_style_refs t) (tree_region_refs t) = 0.
Proof.
  intros d D. exists (plain d). split; [apply erase_plain|]. split; [apply plain_deco_ok|].
  apply document_references_resolved; [apply plain_deco_ok|rewrite erase_plain; exact D].
Qed.
