(* C17, wave 2: the writer model composed with the full SCC reader model (model/SccRoundTrip.v).
   Finite, complete-table statements (every basic character of the working tree's table, in both byte positions of
   a code word, and next to each punctuation / boundary character), decided by vm_compute through BOTH models.
   The statement for arbitrary texts is checked by the extracted composition on every generated case
   (harness/props/C17.py, request 1705); no general induction over the decoder is claimed here. *)
From Coq Require Import List ZArith QArith Bool.
From PV Require Import lib.Sx lib.Str lib.Result model.GenSccw model.SccWrap model.SccWrite model.SccRoundTrip spec.SpecSccw.
From PV Require Import model.SccDecoder proofs.SccWriteFacts proofs.SccDocFacts proofs.SccComposeFacts.
Import ListNotations.
Open Scope Z_scope.

Definition basic_cps : list Z := map fst sccw_character_to_code.
Definition one_cap (t : str) : list wcap := [mkWcap t (10000000 # 1) (12000000 # 1)].
Definition neighbours : list Z := map (fun c => c) [46; 33; 63; 44; 45; 39; 34; 48; 65; 122; 241; 247].   (* . ! ? , - apostrophe quote 0 A z n-tilde division-sign *)

(* every basic character survives writer -> document -> reader, as first and as second byte of a word *)
Lemma roundtrip_every_basic_char :
  forallb (fun c => roundtrip_ok (one_cap (lit "a" ++ [c] ++ lit "b")) && roundtrip_ok (one_cap ([c] ++ lit "ab c")))
          (filter (fun c => negb (c =? 32)) basic_cps) = true.
Proof. vm_compute. reflexivity. Qed.

(* ... and every basic character followed by each of the neighbours above, sharing one code word *)
Lemma roundtrip_basic_pairs :
  forallb (fun c1 => forallb (fun c2 => roundtrip_ok (one_cap ([c1; c2]))) neighbours)
          (filter (fun c => negb (c =? 32)) basic_cps) = true.
Proof. vm_compute. reflexivity. Qed.

(* shapes: several rows, a word longer than 32 (split), two captions with the clear-screen line removed / kept *)
Lemma roundtrip_shapes :
  roundtrip_ok (one_cap (lit "first line" ++ [10] ++ lit "second line" ++ [10] ++ lit "third")) = true /\
  roundtrip_ok (one_cap (lit "ab xxxxxxxxxxxxxxxxxxxxxxxxxxxxxxxxxxxxxxxx cd")) = true /\
  roundtrip_ok [mkWcap (lit "one") (10000000 # 1) (12000000 # 1); mkWcap (lit "two") (12000000 # 1) (13000000 # 1);
                mkWcap (lit "three four") (20000000 # 1) (21000000 # 1)] = true /\
  roundtrip_ok (one_cap (lit "a b c d e f g h i j k l m n o p q r s t u v w x y z a b c d e f g h i j k l m n o p q r s t")) = true.
Proof. vm_compute. repeat split. Qed.

(* the composition always reaches the reader model: for cues with non-negative times on <= 15 rows the writer model
   does not fail and its document is split into lines (frame numbers of the times written, odd-parity words) *)
Theorem reread_reaches_reader : forall caps,
  (forall c, In c caps -> (0 <= w_start c)%Q /\ (0 <= w_end c)%Q /\ (length (layout_rows (w_text c)) <= 15)%nat) ->
  exists lines, reread caps = RRRead (read 0 (map to_sline lines))
                /\ forallb (fun l => forallb word_odd (snd l)) lines = true.
Proof.
  intros caps D. unfold reread. destruct (write caps) as [doc|e] eqn:W.
  - destruct (document_parses caps doc W D) as (codes & lines & _ & P & _ & O). rewrite P. exists lines. split; [reflexivity|exact O].
  - exfalso. unfold write in W.
    destruct (res_map (fun c => do code <- text_to_code (w_text c); Ok (code, w_start c, w_end c)) caps) as [codes|e'] eqn:R;
      [discriminate|].
    clear W. revert e' R. induction caps as [|c t IH]; intros e' R; cbn [res_map] in R; [discriminate|].
    destruct (D c (or_introl eq_refl)) as (_ & _ & Dr).
    destruct (SccWriteFacts.all_bytes_odd_parity (w_text c) Dr) as (ws & Ew & _).
    rewrite SccWriteFacts.word_stream_shape, Ew in R. cbn [bind] in R.
    destruct (res_map (fun c0 => do code <- text_to_code (w_text c0); Ok (code, w_start c0, w_end c0)) t) as [rest|e2] eqn:R2;
      [discriminate|]. apply (IH (fun x Hx => D x (or_intror Hx)) e2 eq_refl).
Qed.

(* wave 3: under the statement's hypotheses the writer model does not fail, its document satisfies the WHOLE output
   oracle (SccComposeFacts.write_meets_oracle), and the lines the reader model is run on are exactly the lines the
   oracle judged.  What the reader model RETURNS for them is not proved for arbitrary texts (roundtrip tables below,
   request 1705 on every generated case) - hence `_partial` in props/C17.v *)
Theorem reread_input_ok : forall caps, Forall SccComposeFacts.cap_dom caps -> SccComposeFacts.caps_spaced 0 caps ->
  exists doc lines, write caps = Ok doc /\ parse_document doc = Some lines
                    /\ ok_output (map SccComposeFacts.to_cue caps) doc = 0
                    /\ reread caps = RRRead (read 0 (map to_sline lines)).
Proof.
  intros caps D S.
  assert (H : forall c, In c caps -> (0 <= w_start c)%Q /\ (0 <= w_end c)%Q /\ (length (layout_rows (w_text c)) <= 15)%nat).
  { pose proof (SccComposeFacts.caps_spaced_each caps 0 (Qle_refl 0) S) as E. rewrite Forall_forall in E, D.
    intros c Hc. destruct (E c Hc) as (_ & E2 & E3). destruct (D c Hc) as [_ Dr]. auto. }
  destruct (reread_reaches_reader caps H) as (lines0 & R0 & _).
  unfold reread in *. destruct (write caps) as [doc|e] eqn:W; [|discriminate].
  pose proof (SccComposeFacts.write_meets_oracle caps doc W D S) as O.
  destruct (parse_document doc) as [lines|] eqn:P.
  - exists doc, lines. auto.
  - unfold ok_output in O. rewrite P in O. discriminate.
Qed.

(* wave 5: every number of rows 1..15 (hence every preamble address code of the writer's table, in its INDENT form with
   indent 0 - see proofs/SccwBridgeFacts.v), as explicit lines and as rows produced by wrapping, in sets of one and of
   three cues (so that the EDM EDM EOC EOC ending of a load meets a displayed caption), through BOTH models *)
Definition n_lines (n : nat) : str := join [10] (map (fun i => lit "row " ++ dec_nonneg (Z.of_nat i) ++ lit " x") (seq 1 n)).
Definition n_wrapped (n : nat) : str := join [32] (repeat (lit "seventeen-letters") n).
Definition three_caps (t : str) : list wcap :=
  [mkWcap t (10000000 # 1) (12000000 # 1); mkWcap (lit "between") (20000000 # 1) (21000000 # 1);
   mkWcap t (30000000 # 1) (30500000 # 1)].
Lemma roundtrip_every_row_count :
  forallb (fun n => roundtrip_ok (one_cap (n_lines n)) && roundtrip_ok (three_caps (n_lines n))
                    && roundtrip_ok (one_cap (n_wrapped n))) (seq 1 15) = true.
Proof. vm_compute. reflexivity. Qed.
