(* Proofs for C01, document level: the line-based readers of the model return exactly one
   caption per non-empty cue, in order, with the denoted times and the text lines, on every
   rendering (LF / CRLF, any padding, any number of extra blank lines) of every document of the
   domain.  MicroDVD, SRT, WebVTT. *)
From Coq Require Import List ZArith QArith Qround Lia Bool ZifyBool.
From PV Require Import lib.Sx lib.Str lib.Result lib.Dec.
From PV Require Import model.TimeRead spec.SpecTime proofs.TimeStrFacts proofs.TimeReadFacts.
Import ListNotations.
Open Scope Z_scope.
#[local] Ltac Zify.zify_post_hook ::= Z.to_euclidean_division_equations.

Lemma nl_is_nl_of : forall crlf, nl crlf = nl_of crlf.
Proof. destruct crlf; reflexivity. Qed.

Lemma no_linebreak_no_lb : forall l, no_linebreak l = no_lb l.
Proof. reflexivity. Qed.

Lemma digits_no_lb : forall s, forallb is_digit s = true -> no_lb s = true.
Proof.
  intros s H. unfold no_lb. apply (forallb_impl is_digit); [|exact H].
  intros x Hx. unfold is_digit in Hx. lia.
Qed.

Lemma no_lb_app : forall a b, no_lb (a ++ b) = no_lb a && no_lb b.
Proof. intros. unfold no_lb. apply forallb_app. Qed.

(* ============================== MicroDVD ===================================== *)
Lemma mdvd_line_render : forall a b txt,
  a <> [] -> b <> [] -> forallb is_digit a = true -> forallb is_digit b = true ->
  mdvd_line (brace a ++ brace b ++ txt) = Some (a, b, txt).
Proof.
  intros a b txt Ha Hb Da Db. unfold brace. cbn [app].
  rewrite <- !app_assoc. cbn [app]. unfold mdvd_line.
  rewrite take_while_app_stop, drop_while_app_stop by (first [exact Da|reflexivity]).
  destruct a as [|a0 ar]; [congruence|].
  rewrite take_while_app_stop, drop_while_app_stop by (first [exact Db|reflexivity]).
  destruct b as [|b0 br]; [congruence|]. reflexivity.
Qed.

Lemma padded_is_zero : forall k n, 0 <= n -> str_eqb (padded k n) (lit "0") = true -> k = 0%nat /\ n = 0.
Proof.
  intros k n Hn H. apply str_eqb_eq in H. change (lit "0") with [48] in H.
  destruct k as [|k].
  - split; [reflexivity|]. unfold padded in H. cbn [repeat app] in H.
    pose proof (int_of_dec n Hn) as I. rewrite H in I. cbv in I. congruence.
  - exfalso. unfold padded in H. cbn [repeat app] in H. inversion H as [H1].
    apply app_eq_nil in H1. destruct H1 as [_ H1]. exact (dec_nonneg_nonempty n H1).
Qed.

Lemma fps_frames_all : forall f, fps_dom f = true ->
  exists fps, (match f with Some l => mdvd_fps (fps_render l) | None => Ok (25, 1) end) = Ok fps /\
              forall n, frames_to_micro n fps = Ok (us (frame_instant f n)).
Proof.
  intros f Hd. destruct (mdvd_frames_exact f 0 Hd) as [fps [P _]]. exists fps. split; [exact P|].
  intros n. destruct (mdvd_frames_exact f n Hd) as [fps' [P' F']]. rewrite P in P'.
  inversion P'; subst. exact F'.
Qed.

Definition mdvd_cue_line (c : mdvd_cue) : str :=
  brace (padded (mc_pad0 c) (mc_n0 c)) ++ brace (padded (mc_pad1 c) (mc_n1 c)) ++ join [124] (mc_lines c).

Lemma mdvd_keep_join : forall ls, forallb mdvd_line_ok ls = true ->
  mdvd_keep (join [124] ls) = nonempty_lines ls.
Proof.
  intros ls H. unfold mdvd_keep, nonempty_lines.
  destruct ls as [|l ls']; [reflexivity|].
  rewrite split_ch_join; [reflexivity|discriminate|].
  apply forallb_forall. intros x Hx. rewrite forallb_forall in H. specialize (H x Hx).
  unfold mdvd_line_ok in H. apply andb_true_iff in H. destruct H as [_ H].
  unfold lacks. apply forallb_forall. intros y Hy.
  destruct (y =? 124) eqn:E; [|reflexivity].
  exfalso. apply Z.eqb_eq in E. subst y.
  assert (X : existsb (Z.eqb 124) x = true) by (apply existsb_exists; exists 124; split; [exact Hy|reflexivity]).
  rewrite X in H. discriminate.
Qed.

Lemma nonempty_lines_nil_iff : forall c, mdvd_nonempty c = false -> nonempty_lines (mc_lines c) = [].
Proof.
  intros c H. unfold mdvd_nonempty in H. unfold nonempty_lines.
  induction (mc_lines c) as [|l ls IH]; [reflexivity|].
  cbn [existsb] in H. apply orb_false_iff in H. destruct H as [H1 H2].
  cbn [filter]. rewrite H1. apply IH. exact H2.
Qed.

Lemma nonempty_lines_cons_iff : forall c, mdvd_nonempty c = true -> nonempty_lines (mc_lines c) <> [].
Proof.
  intros c H. unfold mdvd_nonempty in H. unfold nonempty_lines.
  induction (mc_lines c) as [|l ls IH]; [discriminate|].
  cbn [existsb] in H. cbn [filter]. destruct (negb (str_eqb l [])); [discriminate|].
  apply IH. exact H.
Qed.

Lemma mdvd_loop_cues : forall fps f cues acc,
  (forall n, frames_to_micro n fps = Ok (us (frame_instant f n))) ->
  forallb mdvd_cue_dom cues = true ->
  mdvd_loop (map mdvd_cue_line cues) fps acc = Ok (acc ++ mdvd_expected_caps f cues).
Proof.
  intros fps f cues acc Hf. revert acc. induction cues as [|c cues IH]; intros acc Hd.
  - cbn [map mdvd_loop mdvd_expected_caps flat_map]. rewrite app_nil_r. reflexivity.
  - cbn [forallb] in Hd. apply andb_true_iff in Hd. destruct Hd as [Hc Hcs].
    unfold mdvd_cue_dom in Hc.
    apply andb_true_iff in Hc. destruct Hc as [Hc Hnz].
    apply andb_true_iff in Hc. destruct Hc as [Hc Hl].
    apply andb_true_iff in Hc. destruct Hc as [H0 H1].
    assert (N0 : 0 <= mc_n0 c) by lia. assert (N1 : 0 <= mc_n1 c) by lia.
    cbn [map mdvd_loop].
    assert (NE : mdvd_cue_line c <> []) by (unfold mdvd_cue_line, brace; cbn [app]; discriminate).
    destruct (mdvd_cue_line c) as [|h0 hr] eqn:EH; [congruence|]. rewrite <- EH. unfold mdvd_cue_line at 1.
    rewrite mdvd_line_render
      by (first [apply padded_nonempty | apply padded_digits; assumption]).
    assert (Z0 : (str_eqb (padded (mc_pad0 c) (mc_n0 c)) (lit "0") && str_eqb (padded (mc_pad1 c) (mc_n1 c)) (lit "0")) = false).
    { destruct (str_eqb (padded (mc_pad0 c) (mc_n0 c)) (lit "0")) eqn:E0; [|reflexivity].
      destruct (str_eqb (padded (mc_pad1 c) (mc_n1 c)) (lit "0")) eqn:E1; [|reflexivity].
      destruct (padded_is_zero _ _ N0 E0) as [K0 M0]. destruct (padded_is_zero _ _ N1 E1) as [K1 M1].
      rewrite K0, K1, M0, M1 in Hnz. discriminate. }
    rewrite Z0.
    rewrite !py_int_padded by assumption. cbn [bind]. rewrite !Hf. cbn [bind].
    rewrite mdvd_keep_join by exact Hl.
    cbn [mdvd_expected_caps flat_map]. fold (mdvd_expected_caps f cues).
    destruct (mdvd_nonempty c) eqn:NEc.
    + pose proof (nonempty_lines_cons_iff c NEc) as Hne.
      destruct (nonempty_lines (mc_lines c)) as [|l0 lr] eqn:EL; [congruence|].
      rewrite IH by exact Hcs. rewrite <- app_assoc. reflexivity.
    + rewrite (nonempty_lines_nil_iff c NEc). rewrite IH by exact Hcs. reflexivity.
Qed.

Lemma mdvd_cue_line_no_lb : forall c, mdvd_cue_dom c = true -> no_lb (mdvd_cue_line c) = true.
Proof.
  intros c Hc. unfold mdvd_cue_dom in Hc.
  apply andb_true_iff in Hc. destruct Hc as [Hc Hnz].
  apply andb_true_iff in Hc. destruct Hc as [Hc Hl].
  apply andb_true_iff in Hc. destruct Hc as [H0 H1].
  unfold mdvd_cue_line, brace. rewrite !no_lb_app. cbn [no_lb forallb].
  rewrite !no_lb_app. cbn [no_lb forallb].
  fold (no_lb (padded (mc_pad0 c) (mc_n0 c))). fold (no_lb (padded (mc_pad1 c) (mc_n1 c))).
  rewrite !digits_no_lb by (apply padded_digits; lia).
  change ((123 =? 10) || (123 =? 13)) with false. change ((125 =? 10) || (125 =? 13)) with false. cbn [negb andb].
  fold (no_lb (join [124] (mc_lines c))).
  induction (mc_lines c) as [|l ls IH]; [reflexivity|].
  cbn [forallb] in Hl. apply andb_true_iff in Hl. destruct Hl as [Hl1 Hl2].
  unfold mdvd_line_ok in Hl1. apply andb_true_iff in Hl1. destruct Hl1 as [Hl1 _].
  destruct ls as [|l2 ls'].
  - cbn [join]. exact Hl1.
  - change (join [124] (l :: l2 :: ls')) with (l ++ [124] ++ join [124] (l2 :: ls')).
    rewrite !no_lb_app. rewrite (IH Hl2). rewrite no_linebreak_no_lb in Hl1. rewrite Hl1. reflexivity.
Qed.

Lemma mdvd_render_lines : forall crlf cues,
  flat_map (mdvd_render_cue crlf) cues = flat_map (fun l => l ++ nl_of crlf) (map mdvd_cue_line cues).
Proof.
  intros crlf cues. induction cues as [|c t IH]; [reflexivity|].
  cbn [flat_map map]. rewrite IH. unfold mdvd_render_cue, mdvd_cue_line. rewrite nl_is_nl_of.
  rewrite <- !app_assoc. reflexivity.
Qed.

(* whole MicroDVD documents: default rate or a declared one *)
Theorem mdvd_doc_exact : forall crlf f cues, fps_dom f = true -> forallb mdvd_cue_dom cues = true ->
  mdvd_read (mdvd_render crlf f cues) = read_result (mdvd_expected_caps f cues).
Proof.
  intros crlf f cues Hf Hd.
  destruct (fps_frames_all f Hf) as [fps [P F]].
  assert (NL : forallb no_lb (map mdvd_cue_line cues) = true).
  { apply forallb_forall. intros l Hl. apply in_map_iff in Hl. destruct Hl as [c [<- Hc]].
    apply mdvd_cue_line_no_lb. rewrite forallb_forall in Hd. apply Hd. exact Hc. }
  unfold mdvd_read, mdvd_render. rewrite mdvd_render_lines.
  destruct f as [l|].
  - assert (HL : no_lb (brace (lit "0") ++ brace (lit "0") ++ fps_render l) = true).
    { unfold fps_render. unfold fps_dom in Hf.
      apply andb_true_iff in Hf. destruct Hf as [Hf _]. apply andb_true_iff in Hf. destruct Hf as [Hip Hfr].
      change (brace (lit "0")) with [123; 48; 125]. cbn [app no_lb forallb].
      change ((123 =? 10) || (123 =? 13)) with false. change ((48 =? 10) || (48 =? 13)) with false. change ((125 =? 10) || (125 =? 13)) with false.
      cbn [negb andb]. fold (no_lb (padded (fp_pad l) (fp_ip l) ++ match fp_fr l with [] => [] | _ :: _ => 46 :: digits_str (fp_fr l) end)).
      rewrite no_lb_app. rewrite digits_no_lb by (apply padded_digits; lia).
      destruct (fp_fr l) as [|d ds] eqn:EF; [reflexivity|].
      cbn [no_lb forallb]. change ((46 =? 10) || (46 =? 13)) with false. cbn [negb andb].
      fold (no_lb (digits_str (d :: ds))). apply digits_no_lb. apply digits_str_digits. exact Hfr. }
    assert (ML : mdvd_line (brace (lit "0") ++ brace (lit "0") ++ fps_render l) = Some (lit "0", lit "0", fps_render l))
      by (apply mdvd_line_render; first [discriminate|reflexivity]).
    remember (brace (lit "0") ++ brace (lit "0") ++ fps_render l) as hdr eqn:EH.
    assert (R : (hdr ++ nl crlf) ++ flat_map (fun l0 => l0 ++ nl_of crlf) (map mdvd_cue_line cues)
                = flat_map (fun l0 => l0 ++ nl_of crlf) (hdr :: map mdvd_cue_line cues)).
    { cbn [flat_map]. rewrite nl_is_nl_of. reflexivity. }
    assert (R0 : (brace (lit "0") ++ brace (lit "0") ++ fps_render l ++ nl crlf) = hdr ++ nl crlf).
    { rewrite EH. rewrite <- !app_assoc. reflexivity. }
    rewrite R0, R. rewrite splitlines_lines by (cbn [forallb]; rewrite HL, NL; reflexivity).
    destruct hdr as [|h0 hr]; [discriminate EH|].
    cbn [mdvd_loop]. rewrite ML.
    change (str_eqb (lit "0") (lit "0") && str_eqb (lit "0") (lit "0")) with true. cbv iota.
    rewrite P. cbn [bind].
    rewrite (mdvd_loop_cues fps (Some l) cues [] F Hd). cbn [app].
    unfold read_result, no_captions_if_empty. destruct (mdvd_expected_caps (Some l) cues); reflexivity.
  - cbn [app]. rewrite splitlines_lines by exact NL.
    inversion P; subst fps.
    rewrite (mdvd_loop_cues (25, 1) None cues [] F Hd). cbn [app].
    unfold read_result, no_captions_if_empty. destruct (mdvd_expected_caps None cues); reflexivity.
Qed.

(* ============================== SRT ========================================== *)
(* ---- str.split('-->') on a line with exactly one arrow ------------------------------- *)
Lemma is_prefix_arrow_no : forall c s, c <> 45 -> is_prefix (lit "-->") (c :: s) = false.
Proof.
  intros c s H. change (lit "-->") with [45; 45; 62]. cbn [is_prefix].
  assert (E : (45 =? c) = false) by lia. rewrite E. reflexivity.
Qed.

Lemma split_aux_lacks : forall fuel b cur, lacks 45 b = true ->
  split_aux fuel (lit "-->") b cur = [rev cur ++ b].
Proof.
  induction fuel as [|f IH]; intros b cur H; [reflexivity|].
  destruct b as [|c b]; [cbn [split_aux]; rewrite app_nil_r; reflexivity|].
  cbn [lacks forallb] in H. apply andb_true_iff in H. destruct H as [Hc Hb].
  cbn [split_aux]. rewrite is_prefix_arrow_no by lia.
  rewrite IH by exact Hb. cbn [rev]. rewrite <- app_assoc. reflexivity.
Qed.

Lemma split_aux_hit : forall a fuel cur b, lacks 45 a = true -> (length a < fuel)%nat ->
  split_aux fuel (lit "-->") (a ++ lit "-->" ++ b) cur
  = (rev cur ++ a) :: split_aux (fuel - length a - 1) (lit "-->") b [].
Proof.
  induction a as [|c a IH]; intros fuel cur b H Hf.
  - destruct fuel as [|f]; [cbn in Hf; lia|].
    cbn [app length]. change (lit "-->") with [45; 45; 62]. cbn [app split_aux is_prefix].
    change (45 =? 45) with true. change (62 =? 62) with true. cbn [andb skipn length].
    rewrite app_nil_r. replace (S f - 0 - 1)%nat with f by lia. reflexivity.
  - destruct fuel as [|f]; [cbn in Hf; lia|].
    cbn [lacks forallb] in H. apply andb_true_iff in H. destruct H as [Hc Ha].
    cbn [app split_aux]. rewrite is_prefix_arrow_no by lia.
    cbn [length] in Hf. rewrite IH by (first [exact Ha|lia]).
    cbn [rev length]. rewrite <- app_assoc. cbn [app]. f_equal.
Qed.

Lemma split_arrow : forall a b, lacks 45 a = true -> lacks 45 b = true ->
  split (lit "-->") (a ++ lit "-->" ++ b) = [a; b].
Proof.
  intros a b Ha Hb. unfold split.
  rewrite split_aux_hit by (first [exact Ha | rewrite app_length; lia]).
  cbn [rev app]. f_equal. rewrite split_aux_lacks by exact Hb. reflexivity.
Qed.

(* ---- strip(' \r\n') around a stamp ------------------------------------------------------ *)
Definition in3 (c : Z) : bool := (c =? 32) || (c =? 13) || (c =? 10).

Lemma lstrip_by_keep : forall f s, match s with c :: _ => f c = false | [] => True end -> lstrip_by f s = s.
Proof. intros f [|c s] H; [reflexivity|]. cbn [lstrip_by]. rewrite H. reflexivity. Qed.

Lemma strip3_stamp : forall s, s <> [] -> forallb (fun c => negb (in3 c)) s = true ->
  strip3 (s ++ [32]) = s /\ strip3 (32 :: s) = s.
Proof.
  intros s Hne H.
  assert (Hhead : match s with c :: _ => in3 c = false | [] => True end).
  { destruct s as [|c s']; [exact I|]. cbn [forallb] in H. apply andb_true_iff in H. destruct H as [H _].
    destruct (in3 c); [discriminate|reflexivity]. }
  assert (Hrev : forallb (fun c => negb (in3 c)) (rev s) = true).
  { apply forallb_forall. intros x Hx. rewrite forallb_forall in H. apply H. apply in_rev. exact Hx. }
  assert (Hlast : match rev s with c :: _ => in3 c = false | [] => True end).
  { destruct (rev s) as [|c r']; [exact I|]. cbn [forallb] in Hrev. apply andb_true_iff in Hrev.
    destruct Hrev as [Hr _]. destruct (in3 c); [discriminate|reflexivity]. }
  assert (R : rstrip_by in3 s = s).
  { unfold rstrip_by. rewrite lstrip_by_keep by exact Hlast. apply rev_involutive. }
  unfold strip3. fold in3. unfold strip_by. split.
  - rewrite lstrip_by_keep.
    + unfold rstrip_by. rewrite rev_app_distr. cbn [rev app lstrip_by]. change (in3 32) with true. cbv iota.
      rewrite lstrip_by_keep by exact Hlast. apply rev_involutive.
    + destruct s as [|c s']; [congruence|]. exact Hhead.
  - cbn [lstrip_by]. change (in3 32) with true. cbv iota.
    rewrite lstrip_by_keep by exact Hhead. exact R.
Qed.

Definition srt_char (c : Z) : bool := is_digit c || (c =? 58) || (c =? 44).

Lemma srt_render_chars : forall t, srt_stamp_dom t = true -> forallb srt_char (srt_render_stamp t) = true.
Proof.
  intros [k h m s f] Hd. unfold srt_stamp_dom in Hd. cbn [sr_h sr_m sr_s sr_ms] in Hd.
  unfold srt_render_stamp. cbn [sr_pad sr_h sr_m sr_s sr_ms].
  assert (D : forall x, forallb is_digit x = true -> forallb srt_char x = true).
  { intros x Hx. apply (forallb_impl is_digit); [|exact Hx]. intros y Hy. unfold srt_char. rewrite Hy. reflexivity. }
  repeat first [rewrite forallb_app | progress cbn [forallb]].
  rewrite (D _ (padded_digits k h ltac:(lia))), (D _ (two_digits m ltac:(lia))), (D _ (two_digits s ltac:(lia))).
  change (srt_char 58) with true. cbn [andb].
  destruct f as [f|]; [|reflexivity].
  cbn [forallb]. change (srt_char 44) with true. rewrite (D _ (three_digits f ltac:(lia))). reflexivity.
Qed.

Lemma srt_render_nonempty : forall t, srt_render_stamp t <> [].
Proof.
  intros t H. unfold srt_render_stamp in H. apply app_eq_nil in H. destruct H as [H _].
  exact (padded_nonempty _ _ H).
Qed.

Definition srt_timing (c : srt_cue) : str := srt_render_stamp (sc_t0 c) ++ arrow ++ srt_render_stamp (sc_t1 c).

Lemma srt_timing_parse : forall c, srt_stamp_dom (sc_t0 c) = true -> srt_stamp_dom (sc_t1 c) = true ->
  let timing := split (lit "-->") (srt_timing c) in
  exists a b, nth_str timing 0 = Ok a /\ nth_str timing 1 = Ok b /\
              srt_to_micro (strip3 a) = Ok (us (srt_instant (sc_t0 c))) /\
              srt_to_micro (strip3 b) = Ok (us (srt_instant (sc_t1 c))).
Proof.
  intros c H0 H1. cbv zeta. unfold srt_timing.
  assert (L : forall t, srt_stamp_dom t = true -> lacks 45 (srt_render_stamp t) = true /\
                        forallb (fun c => negb (in3 c)) (srt_render_stamp t) = true).
  { intros t Ht. pose proof (srt_render_chars t Ht) as C. split.
    - unfold lacks. apply (forallb_impl srt_char); [|exact C].
      intros x Hx. unfold srt_char, is_digit in Hx. lia.
    - apply (forallb_impl srt_char); [|exact C].
      intros x Hx. unfold srt_char, is_digit in Hx. unfold in3. lia. }
  destruct (L _ H0) as [L0 S0]. destruct (L _ H1) as [L1 S1].
  assert (E : srt_render_stamp (sc_t0 c) ++ arrow ++ srt_render_stamp (sc_t1 c)
              = (srt_render_stamp (sc_t0 c) ++ [32]) ++ lit "-->" ++ (32 :: srt_render_stamp (sc_t1 c))).
  { rewrite <- app_assoc. reflexivity. }
  rewrite E. rewrite split_arrow.
  - eexists. eexists. split; [reflexivity|]. split; [reflexivity|].
    destruct (strip3_stamp _ (srt_render_nonempty (sc_t0 c)) S0) as [A _].
    destruct (strip3_stamp _ (srt_render_nonempty (sc_t1 c)) S1) as [_ B].
    rewrite A, B. split; apply srt_stamp_exact; assumption.
  - rewrite lacks_app, L0. reflexivity.
  - cbn [lacks forallb]. fold (lacks 45 (srt_render_stamp (sc_t1 c))). rewrite L1. reflexivity.
Qed.

(* ---- _find_text_line ---------------------------------------------------------------------- *)
Lemma ftl_nonblank : forall ls rest k, forallb (fun l => negb (is_blank l)) ls = true ->
  ftl (ls ++ rest) false k = ftl rest false (k + length ls).
Proof.
  induction ls as [|l ls IH]; intros rest k H; [cbn [app length]; f_equal; lia|].
  cbn [forallb] in H. apply andb_true_iff in H. destruct H as [Hl Hls].
  cbn [app ftl]. destruct (is_blank l); [discriminate|].
  rewrite IH by exact Hls. cbn [length]. f_equal. lia.
Qed.

Lemma is_blank_nil : is_blank [] = true. Proof. reflexivity. Qed.

Lemma ftl_blanks : forall g rest found k,
  ftl (repeat [] (S g) ++ rest) found k = ftl rest true (k + S g).
Proof.
  induction g as [|g IH]; intros rest found k.
  - cbn [repeat app ftl]. rewrite is_blank_nil. f_equal. lia.
  - change (repeat [] (S (S g))) with (@nil Z :: repeat [] (S g)). cbn [app ftl]. rewrite is_blank_nil.
    rewrite IH. f_equal. lia.
Qed.

Definition srt_cue_lines (c : srt_cue) : list str :=
  dec_nonneg (sc_idx c) :: srt_timing c :: sc_lines c ++ repeat [] (S (sc_gap c)).

Lemma visible_not_blank : forall l, visible_line l = true -> is_blank l = false.
Proof. intros l H. unfold visible_line in H. unfold is_blank. destruct (strip l); [discriminate|reflexivity]. Qed.

Lemma strip_stamp_chars : forall s, s <> [] -> forallb (fun c => negb (is_space c)) s = true -> strip s = s.
Proof.
  intros s Hne H. unfold strip, strip_by, rstrip_by.
  assert (L : forall x, forallb (fun c => negb (is_space c)) x = true -> lstrip_by is_space x = x).
  { intros x Hx. apply lstrip_by_keep. destruct x as [|c x']; [exact I|].
    cbn [forallb] in Hx. apply andb_true_iff in Hx. destruct Hx as [Hc _]. destruct (is_space c); [discriminate|reflexivity]. }
  rewrite (L s H). rewrite L; [apply rev_involutive|].
  apply forallb_forall. intros x Hx. rewrite forallb_forall in H. apply H. apply in_rev. exact Hx.
Qed.

Lemma digits_not_blank : forall s, s <> [] -> forallb is_digit s = true -> is_blank s = false.
Proof.
  intros s Hne H. unfold is_blank. rewrite strip_stamp_chars; [destruct s; [congruence|reflexivity]|exact Hne|].
  apply (forallb_impl is_digit); [|exact H]. intros x Hx. unfold is_digit in Hx. unfold is_space. lia.
Qed.

Lemma lstrip_by_witness : forall f s, (exists x, In x s /\ f x = false) ->
  exists x, In x (lstrip_by f s) /\ f x = false.
Proof.
  intros f s. induction s as [|c t IH]; intros [x [Hin Hx]]; [destruct Hin|].
  cbn [lstrip_by]. destruct (f c) eqn:E.
  - apply IH. destruct Hin as [<-|Hin]; [congruence|]. exists x. split; assumption.
  - exists x. split; assumption.
Qed.

Lemma strip_witness : forall s, (exists x, In x s /\ is_space x = false) -> is_blank s = false.
Proof.
  intros s H. unfold is_blank, strip, strip_by, rstrip_by.
  apply lstrip_by_witness in H. destruct H as [x [Hin Hx]].
  assert (H2 : exists y, In y (rev (lstrip_by is_space s)) /\ is_space y = false).
  { exists x. split; [apply in_rev; rewrite rev_involutive; exact Hin|exact Hx]. }
  apply lstrip_by_witness in H2. destruct H2 as [y [Hy _]].
  apply in_rev in Hy.
  destruct (rev (lstrip_by is_space (rev (lstrip_by is_space s)))); [destruct Hy|reflexivity].
Qed.

Lemma srt_timing_not_blank : forall c, srt_stamp_dom (sc_t0 c) = true -> is_blank (srt_timing c) = false.
Proof.
  intros c H0. apply strip_witness. unfold srt_timing.
  pose proof (srt_render_nonempty (sc_t0 c)) as Hne. pose proof (srt_render_chars _ H0) as C.
  destruct (srt_render_stamp (sc_t0 c)) as [|x xs] eqn:E; [congruence|].
  exists x. split; [left; reflexivity|].
  cbn [forallb] in C. apply andb_true_iff in C. destruct C as [Cx _].
  unfold srt_char, is_digit in Cx. unfold is_space. lia.
Qed.

Lemma ftl_cue : forall c rest, srt_cue_dom c = true ->
  (match rest with [] => True | l :: _ => is_blank l = false end) ->
  ftl (srt_cue_lines c ++ rest) false 0 =
  match rest with
  | [] => S (length (srt_cue_lines c))
  | _ => length (srt_cue_lines c)
  end.
Proof.
  intros c rest Hd Hrest. unfold srt_cue_dom in Hd.
  apply andb_true_iff in Hd. destruct Hd as [Hd Hne].
  apply andb_true_iff in Hd. destruct Hd as [Hd Hl].
  apply andb_true_iff in Hd. destruct Hd as [Hd H1].
  apply andb_true_iff in Hd. destruct Hd as [Hi H0].
  unfold srt_cue_lines. cbn [app ftl length].
  rewrite digits_not_blank by (first [apply dec_nonneg_nonempty | apply dec_nonneg_digits; lia]).
  rewrite srt_timing_not_blank by exact H0.
  rewrite <- app_assoc. rewrite ftl_nonblank.
  2:{ apply forallb_forall. intros l Hin. rewrite forallb_forall in Hl. specialize (Hl l Hin).
      unfold text_line_ok in Hl. apply andb_true_iff in Hl. destruct Hl as [_ Hv].
      rewrite visible_not_blank by exact Hv. reflexivity. }
  rewrite ftl_blanks. rewrite app_length, repeat_length.
  destruct rest as [|l rest']; cbn [ftl].
  - lia.
  - rewrite Hrest. lia.
Qed.

Lemma srt_keep_lines : forall ls k, ls <> [] -> forallb text_line_ok ls = true ->
  srt_keep (ls ++ repeat [] k) false = ls.
Proof.
  intros ls k Hne Hl.
  assert (NE : forall l, In l ls -> str_eqb l [] = false).
  { intros l Hin. rewrite forallb_forall in Hl. specialize (Hl l Hin).
    unfold text_line_ok in Hl. apply andb_true_iff in Hl. destruct Hl as [_ Hv].
    destruct l; [discriminate Hv|reflexivity]. }
  assert (G : forall ls0 have, (forall l, In l ls0 -> str_eqb l [] = false) ->
              (have = true \/ ls0 <> []) -> srt_keep (ls0 ++ repeat [] k) have = ls0).
  { induction ls0 as [|l ls0 IH]; intros have HN Hh.
    - destruct Hh as [-> |Hh]; [|congruence]. cbn [app]. clear. induction k as [|k IHk]; [reflexivity|].
      cbn [repeat srt_keep]. cbn [negb orb str_eqb]. exact IHk.
    - cbn [app srt_keep]. rewrite (HN l (or_introl eq_refl)). cbn [negb]. rewrite orb_true_r.
      f_equal. apply IH; [intros x Hx; apply HN; right; exact Hx|left; reflexivity]. }
  apply G; [exact NE|right; exact Hne].
Qed.

Lemma srt_lines_first_not_blank : forall cues, forallb srt_cue_dom cues = true ->
  match flat_map srt_cue_lines cues with [] => True | l :: _ => is_blank l = false end.
Proof.
  intros [|c t] H; [exact I|]. cbn [flat_map srt_cue_lines app].
  cbn [forallb] in H. apply andb_true_iff in H. destruct H as [Hc _]. unfold srt_cue_dom in Hc.
  apply digits_not_blank; [apply dec_nonneg_nonempty|apply dec_nonneg_digits; lia].
Qed.

Lemma srt_loop_cues : forall cues fuel acc, (length cues < fuel)%nat -> forallb srt_cue_dom cues = true ->
  srt_loop fuel (flat_map srt_cue_lines cues) acc = Ok (acc ++ srt_expected_caps cues).
Proof.
  induction cues as [|c t IH]; intros fuel acc Hf Hd.
  - cbn [flat_map srt_expected_caps]. rewrite app_nil_r. destruct fuel; reflexivity.
  - destruct fuel as [|f]; [cbn in Hf; lia|].
    cbn [forallb] in Hd. apply andb_true_iff in Hd. destruct Hd as [Hc Ht].
    pose proof Hc as Hc'. unfold srt_cue_dom in Hc'.
    apply andb_true_iff in Hc'. destruct Hc' as [Hc' Hne].
    apply andb_true_iff in Hc'. destruct Hc' as [Hc' Hl].
    apply andb_true_iff in Hc'. destruct Hc' as [Hc' H1].
    apply andb_true_iff in Hc'. destruct Hc' as [Hi H0].
    cbn [flat_map]. set (rest := flat_map srt_cue_lines t).
    pose proof (srt_lines_first_not_blank t Ht) as Hrest. fold rest in Hrest.
    pose proof (ftl_cue c rest Hc Hrest) as FT.
    assert (HD : srt_cue_lines c ++ rest = dec_nonneg (sc_idx c) :: srt_timing c :: (sc_lines c ++ repeat [] (S (sc_gap c))) ++ rest)
      by reflexivity.
    rewrite HD in *. cbn [srt_loop].
    assert (ID : isdigit (dec_nonneg (sc_idx c)) = true) by (apply (isdigit_padded 0); lia).
    rewrite ID. cbn [negb].
    destruct (srt_timing_parse c H0 H1) as [a [b [Na [Nb [Sa Sb]]]]]. cbv zeta in Na, Nb.
    change (nth_str (dec_nonneg (sc_idx c) :: srt_timing c :: (sc_lines c ++ repeat [] (S (sc_gap c))) ++ rest) 1)
      with (@Ok str (srt_timing c)).
    cbn [bind]. rewrite Na. cbn [bind]. rewrite Sa. cbn [bind]. rewrite Nb. cbn [bind]. rewrite Sb. cbn [bind].
    rewrite FT. clear FT.
    cbn [srt_expected_caps flat_map]. fold (srt_expected_caps t).
    set (n := length (sc_lines c)). set (g := sc_gap c).
    assert (LEN : length (srt_cue_lines c) = (2 + n + S g)%nat).
    { unfold srt_cue_lines. cbn [length]. rewrite app_length, repeat_length. unfold n, g. lia. }
    assert (Hne' : sc_lines c <> []) by (destruct (sc_lines c); [discriminate Hne|discriminate]).
    assert (EXP : match sc_lines c with
                  | [] => []
                  | _ :: _ => [(us (srt_instant (sc_t0 c)), us (srt_instant (sc_t1 c)), sc_lines c)]
                  end = [(us (srt_instant (sc_t0 c)), us (srt_instant (sc_t1 c)), sc_lines c)])
      by (destruct (sc_lines c); [congruence|reflexivity]).
    assert (ACC : forall a : list rcap, match sc_lines c with
                  | [] => a
                  | _ :: _ => a ++ [(us (srt_instant (sc_t0 c)), us (srt_instant (sc_t1 c)), sc_lines c)]
                  end = a ++ [(us (srt_instant (sc_t0 c)), us (srt_instant (sc_t1 c)), sc_lines c)])
      by (intros a0; destruct (sc_lines c); [congruence|reflexivity]).
    destruct rest as [|r0 rr] eqn:ER.
    + (* last cue: end_line = len + 1 *)
      rewrite LEN. rewrite app_nil_r.
      assert (SL : slice 2 (S (2 + n + S g) - 1) (dec_nonneg (sc_idx c) :: srt_timing c :: sc_lines c ++ repeat [] (S g))
                   = sc_lines c ++ repeat [] (S g)).
      { unfold slice. replace (S (2 + n + S g) - 1)%nat with (S (S (n + S g))) by lia.
        cbn [firstn skipn]. apply firstn_all2. rewrite app_length, repeat_length. unfold n. lia. }
      rewrite SL. rewrite srt_keep_lines by assumption.
      assert (SK : skipn (S (2 + n + S g)) (dec_nonneg (sc_idx c) :: srt_timing c :: sc_lines c ++ repeat [] (S g)) = []).
      { apply skipn_all2. cbn [length]. rewrite app_length, repeat_length. unfold n. lia. }
      rewrite SK.
      assert (T0 : t = []).
      { destruct t as [|c2 t2]; [reflexivity|]. unfold rest in ER. cbn [flat_map srt_cue_lines app] in ER. discriminate. }
      subst t. cbn [srt_expected_caps flat_map]. rewrite app_nil_r.
      rewrite ACC. destruct (sc_lines c) as [|l0 lr] eqn:EL; [congruence|]. destruct f; reflexivity.
    + rewrite LEN.
      assert (SL : slice 2 (2 + n + S g - 1) (dec_nonneg (sc_idx c) :: srt_timing c :: (sc_lines c ++ repeat [] (S g)) ++ r0 :: rr)
                   = sc_lines c ++ repeat [] g).
      { unfold slice. replace (2 + n + S g - 1)%nat with (S (S (n + g))) by lia.
        cbn [firstn skipn]. rewrite <- app_assoc.
        rewrite firstn_app. replace (n + g - length (sc_lines c))%nat with g by (unfold n; lia).
        rewrite firstn_all2 by (unfold n; lia).
        change (repeat [] (S g)) with (@nil Z :: repeat [] g).
        assert (RP : forall k (x : str) tl, firstn k (repeat x k ++ tl) = repeat x k).
        { clear. induction k as [|k IHk]; intros x tl; [reflexivity|]. cbn [repeat app firstn]. rewrite IHk. reflexivity. }
        assert (RS : forall k, @nil Z :: repeat [] k = repeat [] k ++ [[]]).
        { clear. induction k as [|k IHk]; [reflexivity|]. cbn [repeat app]. rewrite <- IHk. reflexivity. }
        rewrite RS. rewrite <- app_assoc. rewrite RP. reflexivity. }
      rewrite SL. rewrite srt_keep_lines by assumption.
      assert (SK : skipn (2 + n + S g) (dec_nonneg (sc_idx c) :: srt_timing c :: (sc_lines c ++ repeat [] (S g)) ++ r0 :: rr) = r0 :: rr).
      { replace (2 + n + S g)%nat with (S (S (n + S g))) by lia. cbn [skipn].
        rewrite skipn_app. rewrite skipn_all2 by (rewrite app_length, repeat_length; unfold n; lia).
        rewrite app_length, repeat_length. replace (n + S g - (length (sc_lines c) + S g))%nat with 0%nat by (unfold n; lia).
        reflexivity. }
      rewrite SK. rewrite <- ER. unfold rest.
      rewrite IH by (first [cbn [length] in Hf; lia | exact Ht]).
      rewrite ACC. destruct (sc_lines c) as [|l0 lr] eqn:EL; [congruence|]. rewrite <- app_assoc. reflexivity.
Qed.

(* the same loop over cues that are FOLLOWED by further lines (e.g. a last cue without any blank line after it, as
   SRTWriter writes it): the cues are consumed one by one, then the loop continues on the tail *)
Lemma srt_loop_cues_tail : forall cues tail fuel acc R,
  (length cues < fuel)%nat -> forallb srt_cue_dom cues = true ->
  (match tail with [] => False | l :: _ => is_blank l = false end) ->
  (forall f acc', (0 < f)%nat -> srt_loop f tail acc' = Ok (acc' ++ R)) ->
  srt_loop fuel (flat_map srt_cue_lines cues ++ tail) acc = Ok (acc ++ srt_expected_caps cues ++ R).
Proof.
  induction cues as [|c t IH]; intros tail fuel acc R Hf Hd Htl HT.
  - cbn [flat_map srt_expected_caps app]. apply HT. cbn [length] in Hf. lia.
  - destruct fuel as [|f]; [cbn in Hf; lia|].
    cbn [forallb] in Hd. apply andb_true_iff in Hd. destruct Hd as [Hc Ht].
    pose proof Hc as Hc'. unfold srt_cue_dom in Hc'.
    apply andb_true_iff in Hc'. destruct Hc' as [Hc' Hne].
    apply andb_true_iff in Hc'. destruct Hc' as [Hc' Hl].
    apply andb_true_iff in Hc'. destruct Hc' as [Hc' H1].
    apply andb_true_iff in Hc'. destruct Hc' as [Hi H0].
    cbn [flat_map]. rewrite <- app_assoc. set (rest := flat_map srt_cue_lines t ++ tail).
    assert (Hrest : match rest with [] => True | l :: _ => is_blank l = false end).
    { unfold rest. pose proof (srt_lines_first_not_blank t Ht) as F.
      destruct (flat_map srt_cue_lines t) as [|l0 lr]; [cbn [app]; destruct tail; [contradiction|exact Htl]|exact F]. }
    assert (Rne : rest <> []).
    { unfold rest. destruct (flat_map srt_cue_lines t); [cbn [app]; destruct tail; [contradiction|discriminate]|discriminate]. }
    pose proof (ftl_cue c rest Hc Hrest) as FT.
    assert (HD : srt_cue_lines c ++ rest = dec_nonneg (sc_idx c) :: srt_timing c :: (sc_lines c ++ repeat [] (S (sc_gap c))) ++ rest)
      by reflexivity.
    rewrite HD in *. cbn [srt_loop].
    assert (ID : isdigit (dec_nonneg (sc_idx c)) = true) by (apply (isdigit_padded 0); lia).
    rewrite ID. cbn [negb].
    destruct (srt_timing_parse c H0 H1) as [a [b [Na [Nb [Sa Sb]]]]]. cbv zeta in Na, Nb.
    change (nth_str (dec_nonneg (sc_idx c) :: srt_timing c :: (sc_lines c ++ repeat [] (S (sc_gap c))) ++ rest) 1)
      with (@Ok str (srt_timing c)).
    cbn [bind]. rewrite Na. cbn [bind]. rewrite Sa. cbn [bind]. rewrite Nb. cbn [bind]. rewrite Sb. cbn [bind].
    rewrite FT. clear FT.
    cbn [srt_expected_caps flat_map]. fold (srt_expected_caps t).
    set (n := length (sc_lines c)). set (g := sc_gap c).
    assert (LEN : length (srt_cue_lines c) = (2 + n + S g)%nat).
    { unfold srt_cue_lines. cbn [length]. rewrite app_length, repeat_length. unfold n, g. lia. }
    assert (Hne' : sc_lines c <> []) by (destruct (sc_lines c); [discriminate Hne|discriminate]).
    assert (ACC : forall a : list rcap, match sc_lines c with
                  | [] => a
                  | _ :: _ => a ++ [(us (srt_instant (sc_t0 c)), us (srt_instant (sc_t1 c)), sc_lines c)]
                  end = a ++ [(us (srt_instant (sc_t0 c)), us (srt_instant (sc_t1 c)), sc_lines c)])
      by (intros a0; destruct (sc_lines c); [congruence|reflexivity]).
    destruct rest as [|r0 rr] eqn:ER; [congruence|].
    rewrite LEN.
    assert (SL : slice 2 (2 + n + S g - 1) (dec_nonneg (sc_idx c) :: srt_timing c :: (sc_lines c ++ repeat [] (S g)) ++ r0 :: rr)
                 = sc_lines c ++ repeat [] g).
    { unfold slice. replace (2 + n + S g - 1)%nat with (S (S (n + g))) by lia.
      cbn [firstn skipn]. rewrite <- app_assoc.
      rewrite firstn_app. replace (n + g - length (sc_lines c))%nat with g by (unfold n; lia).
      rewrite firstn_all2 by (unfold n; lia).
      change (repeat [] (S g)) with (@nil Z :: repeat [] g).
      assert (RP : forall k (x : str) tl, firstn k (repeat x k ++ tl) = repeat x k).
      { clear. induction k as [|k IHk]; intros x tl; [reflexivity|]. cbn [repeat app firstn]. rewrite IHk. reflexivity. }
      assert (RS : forall k, @nil Z :: repeat [] k = repeat [] k ++ [[]]).
      { clear. induction k as [|k IHk]; [reflexivity|]. cbn [repeat app]. rewrite <- IHk. reflexivity. }
      rewrite RS. rewrite <- app_assoc. rewrite RP. reflexivity. }
    rewrite SL. rewrite srt_keep_lines by assumption.
    assert (SK : skipn (2 + n + S g) (dec_nonneg (sc_idx c) :: srt_timing c :: (sc_lines c ++ repeat [] (S g)) ++ r0 :: rr) = r0 :: rr).
    { replace (2 + n + S g)%nat with (S (S (n + S g))) by lia. cbn [skipn].
      rewrite skipn_app. rewrite skipn_all2 by (rewrite app_length, repeat_length; unfold n; lia).
      rewrite app_length, repeat_length. replace (n + S g - (length (sc_lines c) + S g))%nat with 0%nat by (unfold n; lia).
      reflexivity. }
    rewrite SK. rewrite <- ER. unfold rest.
    rewrite (IH tail f _ R) by (first [cbn [length] in Hf; lia | exact Ht | exact Htl | exact HT]).
    rewrite ACC. destruct (sc_lines c) as [|l0 lr] eqn:EL; [congruence|]. rewrite <- !app_assoc. reflexivity.
Qed.

(* a LAST cue with no blank line after it: index line, timing line, text lines, end of the document *)
Lemma srt_loop_last_cue : forall c f acc, srt_cue_dom c = true -> (0 < f)%nat ->
  srt_loop f (dec_nonneg (sc_idx c) :: srt_timing c :: sc_lines c) acc
  = Ok (acc ++ [(us (srt_instant (sc_t0 c)), us (srt_instant (sc_t1 c)), sc_lines c)]).
Proof.
  intros c f acc Hc Hf. destruct f as [|f]; [lia|].
  pose proof Hc as Hc'. unfold srt_cue_dom in Hc'.
  apply andb_true_iff in Hc'. destruct Hc' as [Hc' Hne].
  apply andb_true_iff in Hc'. destruct Hc' as [Hc' Hl].
  apply andb_true_iff in Hc'. destruct Hc' as [Hc' H1].
  apply andb_true_iff in Hc'. destruct Hc' as [Hi H0].
  cbn [srt_loop].
  assert (ID : isdigit (dec_nonneg (sc_idx c)) = true) by (apply (isdigit_padded 0); lia).
  rewrite ID. cbn [negb].
  destruct (srt_timing_parse c H0 H1) as [a [b [Na [Nb [Sa Sb]]]]]. cbv zeta in Na, Nb.
  change (nth_str (dec_nonneg (sc_idx c) :: srt_timing c :: sc_lines c) 1) with (@Ok str (srt_timing c)).
  cbn [bind]. rewrite Na. cbn [bind]. rewrite Sa. cbn [bind]. rewrite Nb. cbn [bind]. rewrite Sb. cbn [bind].
  assert (FT : ftl (dec_nonneg (sc_idx c) :: srt_timing c :: sc_lines c) false 0 = S (2 + length (sc_lines c))).
  { cbn [ftl]. rewrite digits_not_blank by (first [apply dec_nonneg_nonempty | apply dec_nonneg_digits; lia]).
    rewrite srt_timing_not_blank by exact H0.
    rewrite <- (app_nil_r (sc_lines c)). rewrite ftl_nonblank.
    2:{ apply forallb_forall. intros l Hin. rewrite forallb_forall in Hl. specialize (Hl l Hin).
        unfold text_line_ok in Hl. apply andb_true_iff in Hl. destruct Hl as [_ Hv].
        rewrite visible_not_blank by exact Hv. reflexivity. }
    cbn [ftl]. rewrite app_nil_r. lia. }
  rewrite FT.
  assert (SL : slice 2 (S (2 + length (sc_lines c)) - 1) (dec_nonneg (sc_idx c) :: srt_timing c :: sc_lines c) = sc_lines c).
  { unfold slice. replace (S (2 + length (sc_lines c)) - 1)%nat with (S (S (length (sc_lines c)))) by lia.
    cbn [firstn skipn]. apply firstn_all. }
  rewrite SL.
  assert (Hne' : sc_lines c <> []) by (destruct (sc_lines c); [discriminate Hne|discriminate]).
  pose proof (srt_keep_lines (sc_lines c) 0 Hne' Hl) as K. cbn [repeat] in K. rewrite app_nil_r in K. rewrite K.
  assert (SK : skipn (S (2 + length (sc_lines c))) (dec_nonneg (sc_idx c) :: srt_timing c :: sc_lines c) = []).
  { apply skipn_all2. cbn [length]. lia. }
  rewrite SK. destruct (sc_lines c) as [|l0 lr] eqn:EL; [congruence|]. destruct f; reflexivity.
Qed.

Lemma blank_lines_render : forall crlf n,
  concat (repeat (nl_of crlf) n) = flat_map (fun l : str => l ++ nl_of crlf) (repeat [] n).
Proof.
  intros crlf n. induction n as [|n IHn]; [reflexivity|].
  cbn [repeat concat flat_map app]. rewrite IHn. reflexivity.
Qed.

Lemma srt_render_cue_lines : forall crlf c,
  srt_render_cue crlf c = flat_map (fun l => l ++ nl_of crlf) (srt_cue_lines c).
Proof.
  intros crlf c. unfold srt_render_cue, srt_cue_lines, srt_timing, render_lines. rewrite !nl_is_nl_of.
  cbn [flat_map]. rewrite flat_map_app. rewrite blank_lines_render.
  rewrite <- !app_assoc. reflexivity.
Qed.

Lemma srt_render_lines : forall crlf cues,
  srt_render crlf cues = flat_map (fun l => l ++ nl_of crlf) (flat_map srt_cue_lines cues).
Proof.
  intros crlf cues. unfold srt_render. induction cues as [|c t IH]; [reflexivity|].
  change (flat_map (srt_render_cue crlf) (c :: t)) with (srt_render_cue crlf c ++ flat_map (srt_render_cue crlf) t).
  change (flat_map srt_cue_lines (c :: t)) with (srt_cue_lines c ++ flat_map srt_cue_lines t).
  rewrite flat_map_app. rewrite IH, srt_render_cue_lines. reflexivity.
Qed.

Lemma srt_cue_lines_no_lb : forall c, srt_cue_dom c = true -> forallb no_lb (srt_cue_lines c) = true.
Proof.
  intros c Hc. unfold srt_cue_dom in Hc.
  apply andb_true_iff in Hc. destruct Hc as [Hc Hne].
  apply andb_true_iff in Hc. destruct Hc as [Hc Hl].
  apply andb_true_iff in Hc. destruct Hc as [Hc H1].
  apply andb_true_iff in Hc. destruct Hc as [Hi H0].
  unfold srt_cue_lines. cbn [forallb].
  rewrite digits_no_lb by (apply dec_nonneg_digits; lia).
  assert (ST : forall t, srt_stamp_dom t = true -> no_lb (srt_render_stamp t) = true).
  { intros t Ht. unfold no_lb. apply (forallb_impl srt_char); [|apply srt_render_chars; exact Ht].
    intros x Hx. unfold srt_char, is_digit in Hx. lia. }
  unfold srt_timing. rewrite !no_lb_app. rewrite (ST _ H0), (ST _ H1).
  change (no_lb arrow) with true. cbn [andb].
  rewrite forallb_app. apply andb_true_iff. split.
  - apply forallb_forall. intros l Hin. rewrite forallb_forall in Hl. specialize (Hl l Hin).
    unfold text_line_ok in Hl. apply andb_true_iff in Hl. destruct Hl as [Hn _]. exact Hn.
  - generalize (S (sc_gap c)). induction n; [reflexivity|]. cbn [repeat forallb]. exact IHn.
Qed.

(* whole SRT documents *)
Theorem srt_doc_exact : forall crlf cues, forallb srt_cue_dom cues = true ->
  srt_read (srt_render crlf cues) = read_result (srt_expected_caps cues).
Proof.
  intros crlf cues Hd. unfold srt_read. rewrite srt_render_lines.
  rewrite splitlines_lines.
  2:{ apply forallb_forall. intros l Hl. apply in_flat_map in Hl. destruct Hl as [c [Hc Hin]].
      pose proof (srt_cue_lines_no_lb c) as N. rewrite forallb_forall in Hd. specialize (N (Hd c Hc)).
      rewrite forallb_forall in N. apply N. exact Hin. }
  rewrite srt_loop_cues.
  - cbn [app]. unfold read_result, no_captions_if_empty. destruct (srt_expected_caps cues); reflexivity.
  - assert (G : forall cs, (length cs <= length (flat_map srt_cue_lines cs))%nat).
    { induction cs as [|c t IH]; [reflexivity|]. cbn [flat_map length]. rewrite app_length.
      unfold srt_cue_lines at 1. cbn [length]. lia. }
    specialize (G cues). lia.
  - exact Hd.
Qed.

(* ============================== WebVTT ======================================= *)
Lemma vtt_loop_app : forall strict sh a b st,
  vtt_loop strict sh (a ++ b) st = (do st' <- vtt_loop strict sh a st; vtt_loop strict sh b st').
Proof.
  induction a as [|l a IH]; intros b st; [reflexivity|].
  cbn [app vtt_loop]. destruct (vtt_step strict sh st l); [cbn [bind]; apply IH|reflexivity].
Qed.

Lemma is_infix_hit : forall p a b, is_infix p (a ++ p ++ b) = true.
Proof.
  intros p a b. induction a as [|c a IH].
  - cbn [app]. assert (P : forall p b, is_prefix p (p ++ b) = true).
    { clear. induction p as [|x p IHp]; intros b; [reflexivity|]. cbn [app is_prefix]. rewrite Z.eqb_refl. apply IHp. }
    destruct (p ++ b) eqn:E; cbn [is_infix]; rewrite <- E, P; reflexivity.
  - cbn [app is_infix]. rewrite IH. apply orb_true_r.
Qed.

Definition vtt_timing (c : vtt_cue) : str :=
  vtt_render_stamp (vc_t0 c) ++ vc_ws1 c ++ lit "-->" ++ vc_ws2 c ++ vtt_render_stamp (vc_t1 c)
  ++ match vc_settings c with Some s => 32 :: s | None => [] end.

Definition vtt_cue_lines (c : vtt_cue) : list str :=
  vc_pre c ++ vtt_timing c :: vc_lines c ++ repeat [] (S (vc_gap c)).

Lemma vtt_step_text : forall strict sh caps s e nodes l,
  is_infix (lit "-->") l = false -> l <> [] ->
  vtt_step strict sh (mkVS caps s e nodes true) l = Ok (mkVS caps s e (nodes ++ [l]) true).
Proof.
  intros strict sh caps s e nodes l H1 H2. unfold vtt_step. rewrite H1.
  destruct l as [|x l']; [congruence|]. reflexivity.
Qed.

Lemma vtt_step_idle : forall strict sh caps s e l,
  is_infix (lit "-->") l = false ->
  vtt_step strict sh (mkVS caps s e [] false) l = Ok (mkVS caps s e [] false).
Proof.
  intros strict sh caps s e l H1. unfold vtt_step. rewrite H1. cbn [vs_found vs_nodes].
  destruct (str_eqb l []); reflexivity.
Qed.

Lemma vtt_loop_text : forall strict sh ls caps s e nodes,
  forallb (fun l => text_line_ok l && no_arrow l) ls = true ->
  vtt_loop strict sh ls (mkVS caps s e nodes true) = Ok (mkVS caps s e (nodes ++ ls) true).
Proof.
  induction ls as [|l ls IH]; intros caps s e nodes H; [cbn [vtt_loop]; rewrite app_nil_r; reflexivity|].
  cbn [forallb] in H. apply andb_true_iff in H. destruct H as [Hl Hls].
  apply andb_true_iff in Hl. destruct Hl as [Hok Hna].
  cbn [vtt_loop]. rewrite vtt_step_text.
  - cbn [bind]. rewrite IH by exact Hls. rewrite <- app_assoc. reflexivity.
  - unfold no_arrow in Hna. destruct (is_infix (lit "-->") l); [discriminate|reflexivity].
  - unfold text_line_ok in Hok. apply andb_true_iff in Hok. destruct Hok as [_ Hv]. destruct l; [discriminate Hv|discriminate].
Qed.

Lemma vtt_loop_blanks_idle : forall strict sh g caps s e,
  vtt_loop strict sh (repeat [] g) (mkVS caps s e [] false) = Ok (mkVS caps s e [] false).
Proof.
  induction g as [|g IH]; intros caps s e; [reflexivity|].
  cbn [repeat vtt_loop]. rewrite vtt_step_idle by reflexivity. cbn [bind]. apply IH.
Qed.

Lemma vtt_loop_idle : forall strict sh ls caps s e,
  forallb (fun l => no_linebreak l && no_arrow l) ls = true ->
  vtt_loop strict sh ls (mkVS caps s e [] false) = Ok (mkVS caps s e [] false).
Proof.
  induction ls as [|l ls IH]; intros caps s e H; [reflexivity|].
  cbn [forallb] in H. apply andb_true_iff in H. destruct H as [Hl Hls].
  apply andb_true_iff in Hl. destruct Hl as [_ Hna]. unfold no_arrow in Hna.
  cbn [vtt_loop]. rewrite vtt_step_idle by (destruct (is_infix (lit "-->") l); [discriminate|reflexivity]).
  cbn [bind]. apply IH. exact Hls.
Qed.

Lemma vtt_loop_blanks_flush : forall strict sh g caps s e nodes, nodes <> [] ->
  vtt_loop strict sh (repeat [] (S g)) (mkVS caps s e nodes true)
  = Ok (mkVS (caps ++ [(s, e, nodes)]) s e [] false).
Proof.
  intros strict sh g caps s e nodes Hne. cbn [repeat vtt_loop].
  assert (S1 : vtt_step strict sh (mkVS caps s e nodes true) [] = Ok (mkVS (caps ++ [(s, e, nodes)]) s e [] false)).
  { unfold vtt_step. cbn [is_infix is_prefix lit vs_found vs_nodes vs_caps vs_start vs_end str_eqb].
    change (is_infix (lit "-->") []) with false. cbv iota. destruct nodes; [congruence|reflexivity]. }
  rewrite S1. cbn [bind]. apply vtt_loop_blanks_idle.
Qed.

Lemma last_start_snoc : forall caps s e ns, last_start (caps ++ [(s, e, ns)]) = s.
Proof. intros. unfold last_start. rewrite rev_app_distr. reflexivity. Qed.

Lemma vtt_cue_process : forall strict sh c caps s0 e0 lo,
  vtt_cue_dom c = true ->
  last_start caps = lo ->
  (strict = true ->
   us (vtt_shifted sh (vc_t0 c)) <= us (vtt_shifted sh (vc_t1 c)) /\ lo <= us (vtt_shifted sh (vc_t0 c))) ->
  vtt_loop strict (sh * 1000) (vtt_cue_lines c) (mkVS caps s0 e0 [] false)
  = Ok (mkVS (caps ++ [(us (vtt_shifted sh (vc_t0 c)), us (vtt_shifted sh (vc_t1 c)), vc_lines c)])
             (us (vtt_shifted sh (vc_t0 c))) (us (vtt_shifted sh (vc_t1 c))) [] false).
Proof.
  intros strict sh c caps s0 e0 lo Hd Hlast Hord. unfold vtt_cue_dom in Hd.
  apply andb_true_iff in Hd. destruct Hd as [Hd W2].
  apply andb_true_iff in Hd. destruct Hd as [Hd W1].
  apply andb_true_iff in Hd. destruct Hd as [Hd Hset].
  apply andb_true_iff in Hd. destruct Hd as [Hd Hpre].
  apply andb_true_iff in Hd. destruct Hd as [Hd Hne].
  apply andb_true_iff in Hd. destruct Hd as [Hd Hl].
  apply andb_true_iff in Hd. destruct Hd as [H0 H1].
  unfold vtt_cue_lines. rewrite vtt_loop_app.
  rewrite vtt_loop_idle by exact Hpre. cbn [bind vtt_loop].
  (* the timing line *)
  assert (TL : vtt_step strict (sh * 1000) (mkVS caps s0 e0 [] false) (vtt_timing c)
               = Ok (mkVS caps (us (vtt_shifted sh (vc_t0 c))) (us (vtt_shifted sh (vc_t1 c))) [] true)).
  { unfold vtt_step.
    assert (INF : is_infix (lit "-->") (vtt_timing c) = true).
    { unfold vtt_timing. rewrite app_assoc. rewrite <- !app_assoc. rewrite app_assoc. apply is_infix_hit. }
    rewrite INF. cbn [vs_caps vs_nodes]. unfold vtt_timing.
    rewrite (vtt_timing_exact strict (sh * 1000) (vc_t0 c) (vc_t1 c) (vc_ws1 c) (vc_ws2 c) _ (last_start caps) H0 H1 W1 W2).
    - cbn [bind fst snd]. rewrite !vtt_shift_exact. reflexivity.
    - destruct (vc_settings c); [right; eexists; reflexivity|left; reflexivity].
    - intros Hs. specialize (Hord Hs). rewrite !vtt_shift_exact in Hord. rewrite Hlast. exact Hord. }
  rewrite TL. cbn [bind]. rewrite vtt_loop_app.
  rewrite vtt_loop_text by exact Hl. cbn [bind app].
  apply vtt_loop_blanks_flush. destruct (vc_lines c); [discriminate Hne|discriminate].
Qed.

Lemma vtt_loop_cues : forall strict sh cues caps s0 e0,
  forallb vtt_cue_dom cues = true ->
  (strict = true -> vtt_sorted_from sh (last_start caps) cues = true) ->
  exists s1 e1,
    vtt_loop strict (sh * 1000) (flat_map vtt_cue_lines cues) (mkVS caps s0 e0 [] false)
    = Ok (mkVS (caps ++ vtt_expected_caps sh cues) s1 e1 [] false).
Proof.
  intros strict sh cues. induction cues as [|c t IH]; intros caps s0 e0 Hd Hs.
  - exists s0, e0. cbn [flat_map vtt_loop vtt_expected_caps]. rewrite app_nil_r. reflexivity.
  - cbn [forallb] in Hd. apply andb_true_iff in Hd. destruct Hd as [Hc Ht].
    assert (Hne : vc_lines c <> []).
    { unfold vtt_cue_dom in Hc. apply andb_true_iff in Hc. destruct Hc as [Hc _].
      apply andb_true_iff in Hc. destruct Hc as [Hc _]. apply andb_true_iff in Hc. destruct Hc as [Hc _].
      apply andb_true_iff in Hc. destruct Hc as [Hc _]. apply andb_true_iff in Hc. destruct Hc as [_ Hne].
      destruct (vc_lines c); [discriminate Hne|discriminate]. }
    cbn [flat_map]. rewrite vtt_loop_app.
    rewrite (vtt_cue_process strict sh c caps s0 e0 (last_start caps) Hc eq_refl).
    + cbn [bind].
      destruct (IH (caps ++ [(us (vtt_shifted sh (vc_t0 c)), us (vtt_shifted sh (vc_t1 c)), vc_lines c)])
                   (us (vtt_shifted sh (vc_t0 c))) (us (vtt_shifted sh (vc_t1 c))) Ht) as [s1 [e1 E]].
      * intros Hst. specialize (Hs Hst). cbn [vtt_sorted_from] in Hs.
        apply andb_true_iff in Hs. destruct Hs as [_ Hs]. rewrite last_start_snoc.
        destruct (vc_lines c); [congruence|exact Hs].
      * exists s1, e1. rewrite E. cbn [vtt_expected_caps flat_map]. fold (vtt_expected_caps sh t).
        destruct (vc_lines c) as [|l0 lr] eqn:EL; [congruence|]. rewrite <- app_assoc. reflexivity.
    + intros Hst. specialize (Hs Hst). cbn [vtt_sorted_from] in Hs.
      apply andb_true_iff in Hs. destruct Hs as [Hs _]. apply andb_true_iff in Hs. lia.
Qed.

Lemma vtt_render_cue_lines : forall crlf c,
  vtt_render_cue crlf c = flat_map (fun l => l ++ nl_of crlf) (vtt_cue_lines c).
Proof.
  intros crlf c. unfold vtt_render_cue, vtt_cue_lines, vtt_timing, render_lines. rewrite !nl_is_nl_of.
  rewrite flat_map_app. cbn [flat_map]. rewrite flat_map_app. rewrite blank_lines_render.
  rewrite <- !app_assoc. reflexivity.
Qed.

Lemma vtt_render_cues_lines : forall crlf cues,
  flat_map (vtt_render_cue crlf) cues = flat_map (fun l => l ++ nl_of crlf) (flat_map vtt_cue_lines cues).
Proof.
  intros crlf cues. induction cues as [|c t IH]; [reflexivity|].
  change (flat_map (vtt_render_cue crlf) (c :: t)) with (vtt_render_cue crlf c ++ flat_map (vtt_render_cue crlf) t).
  change (flat_map vtt_cue_lines (c :: t)) with (vtt_cue_lines c ++ flat_map vtt_cue_lines t).
  rewrite flat_map_app. rewrite IH, vtt_render_cue_lines. reflexivity.
Qed.

Lemma vtt_render_lines : forall crlf cues,
  vtt_render crlf cues = flat_map (fun l => l ++ nl_of crlf) (lit "WEBVTT" :: [] :: flat_map vtt_cue_lines cues).
Proof.
  intros crlf cues. unfold vtt_render. rewrite !nl_is_nl_of. rewrite vtt_render_cues_lines.
  cbn [flat_map app]. rewrite <- !app_assoc. reflexivity.
Qed.

Lemma blank_run_no_lb : forall w, blank_run w = true -> no_lb w = true.
Proof.
  intros w H. unfold blank_run in H. destruct w as [|c r]; [discriminate|].
  unfold no_lb. apply (forallb_impl (fun x => (x =? 32) || (x =? 9))); [|exact H].
  intros x Hx. lia.
Qed.

Lemma vtt_cue_lines_no_lb : forall c, vtt_cue_dom c = true -> forallb no_lb (vtt_cue_lines c) = true.
Proof.
  intros c Hd. unfold vtt_cue_dom in Hd.
  apply andb_true_iff in Hd. destruct Hd as [Hd W2].
  apply andb_true_iff in Hd. destruct Hd as [Hd W1].
  apply andb_true_iff in Hd. destruct Hd as [Hd Hset].
  apply andb_true_iff in Hd. destruct Hd as [Hd Hpre].
  apply andb_true_iff in Hd. destruct Hd as [Hd Hne].
  apply andb_true_iff in Hd. destruct Hd as [Hd Hl].
  apply andb_true_iff in Hd. destruct Hd as [H0 H1].
  unfold vtt_cue_lines. rewrite forallb_app. apply andb_true_iff. split.
  - apply forallb_forall. intros l Hin. rewrite forallb_forall in Hpre. specialize (Hpre l Hin).
    apply andb_true_iff in Hpre. destruct Hpre as [Hn _]. exact Hn.
  - cbn [forallb].
    assert (ST : forall t, vtt_stamp_dom t = true -> no_lb (vtt_render_stamp t) = true).
    { intros t Ht. unfold no_lb. apply (forallb_impl stamp_char); [|apply vtt_render_chars; exact Ht].
      intros x Hx. unfold stamp_char in Hx. lia. }
    unfold vtt_timing. rewrite !no_lb_app. rewrite (ST _ H0), (ST _ H1).
    rewrite (blank_run_no_lb _ W1), (blank_run_no_lb _ W2). change (no_lb (lit "-->")) with true. cbn [andb].
    assert (SS : no_lb (match vc_settings c with Some s => 32 :: s | None => [] end) = true).
    { destruct (vc_settings c) as [s|]; [|reflexivity]. apply andb_true_iff in Hset. destruct Hset as [Hn _].
      cbn [no_lb forallb]. change ((32 =? 10) || (32 =? 13)) with false. cbn [negb andb]. exact Hn. }
    apply andb_true_iff. split; [exact SS|]. rewrite forallb_app. apply andb_true_iff. split.
    + apply forallb_forall. intros l Hin. rewrite forallb_forall in Hl. specialize (Hl l Hin).
      apply andb_true_iff in Hl. destruct Hl as [Hok _]. unfold text_line_ok in Hok.
      apply andb_true_iff in Hok. destruct Hok as [Hn _]. exact Hn.
    + generalize (S (vc_gap c)). induction n; [reflexivity|]. cbn [repeat forallb]. exact IHn.
Qed.

(* whole WebVTT documents: lenient, or strict on ordered cues; any time shift *)
Theorem vtt_doc_exact : forall strict sh crlf cues, forallb vtt_cue_dom cues = true ->
  (strict = true -> vtt_sorted_from sh 0 cues = true) ->
  vtt_read strict sh (vtt_render crlf cues) = read_result (vtt_expected_caps sh cues).
Proof.
  intros strict sh crlf cues Hd Hs. unfold vtt_read. rewrite vtt_render_lines.
  rewrite splitlines_lines.
  2:{ cbn [forallb]. change (no_lb (lit "WEBVTT")) with true. change (no_lb []) with true. cbn [andb].
      apply forallb_forall. intros l Hl. apply in_flat_map in Hl. destruct Hl as [c [Hc Hin]].
      pose proof (vtt_cue_lines_no_lb c) as N. rewrite forallb_forall in Hd. specialize (N (Hd c Hc)).
      rewrite forallb_forall in N. apply N. exact Hin. }
  cbn [vtt_loop].
  rewrite vtt_step_idle by reflexivity. cbn [bind]. rewrite vtt_step_idle by reflexivity. cbn [bind].
  destruct (vtt_loop_cues strict sh cues [] 0 0 Hd Hs) as [s1 [e1 E]]. rewrite E. cbn [bind vs_nodes vs_caps app].
  unfold read_result, no_captions_if_empty. destruct (vtt_expected_caps sh cues); reflexivity.
Qed.

(* on ordered documents the validation switch does not change the result *)
Theorem vtt_validation_transparent : forall sh crlf cues, forallb vtt_cue_dom cues = true ->
  vtt_sorted_from sh 0 cues = true ->
  vtt_read true sh (vtt_render crlf cues) = vtt_read false sh (vtt_render crlf cues).
Proof.
  intros sh crlf cues Hd Hs. rewrite !vtt_doc_exact; try assumption; try reflexivity; intros; try assumption; discriminate.
Qed.

(* wave 6: WebVTT documents with ANY header block (header text after WEBVTT, header lines, NOTE / STYLE / REGION blocks)
   and ANY trailing block after the last cue (a closing NOTE, stray text): lines without an arrow never reach a caption,
   wherever they stand.  (Blocks BETWEEN cues and cue identifiers are the vc_pre lines of vtt_doc_exact.) *)
Theorem vtt_doc_exact_framed : forall strict sh crlf hdr cues trailer,
  forallb (fun l => no_linebreak l && no_arrow l) hdr = true ->
  forallb (fun l => no_linebreak l && no_arrow l) trailer = true ->
  forallb vtt_cue_dom cues = true ->
  (strict = true -> vtt_sorted_from sh 0 cues = true) ->
  vtt_read strict sh (render_lines crlf hdr ++ flat_map (vtt_render_cue crlf) cues ++ render_lines crlf trailer)
  = read_result (vtt_expected_caps sh cues).
Proof.
  intros strict sh crlf hdr cues trailer Hh Ht Hd Hs. unfold vtt_read.
  assert (DOC : render_lines crlf hdr ++ flat_map (vtt_render_cue crlf) cues ++ render_lines crlf trailer
                = flat_map (fun l => l ++ nl_of crlf) (hdr ++ flat_map vtt_cue_lines cues ++ trailer)).
  { rewrite !flat_map_app, vtt_render_cues_lines. unfold render_lines. rewrite !nl_is_nl_of. reflexivity. }
  rewrite DOC. clear DOC.
  assert (NLB : forall ls, forallb (fun l => no_linebreak l && no_arrow l) ls = true -> forallb no_lb ls = true).
  { intros ls H. apply forallb_forall. intros l Hl. rewrite forallb_forall in H. specialize (H l Hl).
    apply andb_true_iff in H. destruct H as [H _]. rewrite <- no_linebreak_no_lb. exact H. }
  rewrite splitlines_lines.
  2:{ rewrite !forallb_app, (NLB hdr Hh), (NLB trailer Ht), andb_true_r. cbn [andb].
      apply forallb_forall. intros l Hl. apply in_flat_map in Hl. destruct Hl as [c [Hc Hin]].
      pose proof (vtt_cue_lines_no_lb c) as N. rewrite forallb_forall in Hd. specialize (N (Hd c Hc)).
      rewrite forallb_forall in N. apply N. exact Hin. }
  rewrite vtt_loop_app, (vtt_loop_idle strict (sh * 1000) hdr [] 0 0 Hh). cbn [bind].
  rewrite vtt_loop_app.
  destruct (vtt_loop_cues strict sh cues [] 0 0 Hd Hs) as [s1 [e1 E]]. rewrite E. cbn [bind app].
  rewrite (vtt_loop_idle strict (sh * 1000) trailer _ s1 e1 Ht). cbn [bind vs_nodes vs_caps].
  unfold read_result, no_captions_if_empty. destruct (vtt_expected_caps sh cues); reflexivity.
Qed.
