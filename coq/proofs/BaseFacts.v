(* Proofs for C19: timing adjustment and concurrent-caption merging. *)
From Coq Require Import List ZArith QArith Qabs Bool Lia.
From PV Require Import lib.Sx lib.Result model.Base spec.SpecBase.
Import ListNotations.

(* ---------------- adjust ---------------------------------------------------- *)

Lemma adjust_fold : forall skew off caps acc,
  fold_left (fun out c => let c' := retime skew off c in
                          if Qle_bool 0 (c_start c') then out ++ [c'] else out) caps acc
  = acc ++ filter (fun c => Qle_bool 0 (c_start c)) (map (retime skew off) caps).
Proof.
  intros skew off. induction caps as [|c t IH]; intros acc; cbn [fold_left map filter].
  - rewrite app_nil_r. reflexivity.
  - rewrite IH. destruct (Qle_bool 0 (c_start (retime skew off c))).
    + rewrite <- app_assoc. reflexivity.
    + reflexivity.
Qed.

Lemma adjust_lang_filter_map : forall skew off caps,
  adjust_lang skew off caps = filter (fun c => Qle_bool 0 (c_start c)) (map (retime skew off) caps).
Proof. intros. unfold adjust_lang. rewrite adjust_fold. reflexivity. Qed.

Lemma retime_affine : forall skew off c,
  c_start (retime skew off c) == c_start c * skew + off /\
  c_end (retime skew off c) == c_end c * skew + off /\
  c_nodes (retime skew off c) = c_nodes c.
Proof. intros. unfold retime. cbn [c_start c_end c_nodes]. repeat split; apply Qred_correct. Qed.

(* the retimed model agrees with the statement-level spec caption by caption *)
Lemma Qle_bool_comp : forall a b, a == b -> Qle_bool 0 a = Qle_bool 0 b.
Proof.
  intros a b H. destruct (Qle_bool 0 a) eqn:Ea, (Qle_bool 0 b) eqn:Eb; try reflexivity.
  - apply Qle_bool_iff in Ea. rewrite H in Ea. apply Qle_bool_iff in Ea. congruence.
  - apply Qle_bool_iff in Eb. rewrite <- H in Eb. apply Qle_bool_iff in Eb. congruence.
Qed.

Lemma adjust_meets_spec : forall skew off caps,
  Forall2 cap_equiv (adjust_lang skew off caps) (spec_adjust_lang skew off caps).
Proof.
  intros skew off caps. rewrite adjust_lang_filter_map. unfold spec_adjust_lang.
  induction caps as [|c t IH]; cbn [map filter]; [constructor|].
  destruct (retime_affine skew off c) as [Hs [He Hn]].
  rewrite (Qle_bool_comp _ _ Hs). cbn [spec_retime c_start].
  destruct (Qle_bool 0 (c_start c * skew + off)); [|exact IH].
  constructor; [|exact IH]. unfold cap_equiv. cbn. auto.
Qed.

(* ---------------- merge ----------------------------------------------------- *)

Lemma same_span_eq : forall a b, same_span a b = span_eqb a b.
Proof. reflexivity. Qed.

Lemma span_refl : forall a, span_eqb a a = true.
Proof. intros. unfold span_eqb. rewrite !Qeq_bool_refl. reflexivity. Qed.

Lemma span_sym : forall a b, span_eqb a b = span_eqb b a.
Proof.
  intros. unfold span_eqb.
  assert (H : forall x y, Qeq_bool x y = Qeq_bool y x).
  { intros x y. destruct (Qeq_bool x y) eqn:E1, (Qeq_bool y x) eqn:E2; try reflexivity.
    - apply Qeq_bool_sym in E1. congruence.
    - apply Qeq_bool_sym in E2. congruence. }
  rewrite (H (c_start a)), (H (c_end a)). reflexivity.
Qed.

Lemma span_trans : forall a b c, span_eqb a b = true -> span_eqb b c = true -> span_eqb a c = true.
Proof.
  intros a b c H1 H2. unfold span_eqb in *.
  apply andb_true_iff in H1. apply andb_true_iff in H2. destruct H1, H2.
  apply andb_true_iff. split; eapply Qeq_bool_trans; eassumption.
Qed.

Lemma span_neq_trans : forall a b c, span_eqb a b = true -> span_eqb c b = false -> span_eqb c a = false.
Proof.
  intros a b c H1 H2. destruct (span_eqb c a) eqn:E; [|reflexivity].
  rewrite (span_trans c a b E H1) in H2. discriminate.
Qed.

(* nodes of a merged group *)
Definition tailnodes (cs : list caption) : list Z := concat (map (fun c => brk :: c_nodes c) cs).

Lemma join_nodes_concat : forall first others,
  join_nodes first others = first ++ concat (map (fun o => brk :: o) others).
Proof.
  intros first others. revert first. induction others as [|o t IH]; intros first; cbn.
  - rewrite app_nil_r. reflexivity.
  - rewrite IH. reflexivity.
Qed.

Lemma merge_nodes_fold : forall cs acc, acc <> [] ->
  fold_left (fun acc c => (match acc with [] => acc | _ => acc ++ [brk] end) ++ c_nodes c) cs acc
  = acc ++ tailnodes cs.
Proof.
  induction cs as [|c t IH]; intros acc Hacc; cbn [fold_left].
  - unfold tailnodes. cbn. rewrite app_nil_r. reflexivity.
  - rewrite IH.
    + destruct acc; [congruence|]. unfold tailnodes. cbn [map concat].
      rewrite <- !app_assoc. reflexivity.
    + destruct acc; [congruence|]. discriminate.
Qed.

Lemma merge_caps_join : forall c cs, c_nodes c <> [] ->
  merge_caps (c :: cs) = Ok (join_run (c, cs)).
Proof.
  intros c cs Hn. unfold merge_caps, merge_nodes. cbn [fold_left app].
  rewrite merge_nodes_fold by exact Hn.
  unfold join_run. rewrite join_nodes_concat.
  assert (Ht : tailnodes cs = concat (map (fun o => brk :: o) (map c_nodes cs))).
  { unfold tailnodes. rewrite map_map. reflexivity. }
  rewrite Ht. destruct (c_nodes c) eqn:E; [congruence|]. reflexivity.
Qed.

(* runs of a list whose captions all share the span of one caption form a single run *)
Lemma runs_all_same : forall c cs, (forall x, In x cs -> span_eqb x c = true) ->
  runs (c :: cs) = [(c, cs)].
Proof.
  intros c cs. revert c. induction cs as [|d t IH]; intros c H; [reflexivity|].
  cbn [runs]. cbn [runs] in IH.
  assert (Hd : forall x, In x t -> span_eqb x d = true).
  { intros x Hx. apply span_trans with c; [apply H; right; exact Hx|].
    rewrite span_sym. apply H. left. reflexivity. }
  specialize (IH d Hd). rewrite IH.
  rewrite span_sym, (H d (or_introl eq_refl)). reflexivity.
Qed.

Lemma runs_cons_nonempty : forall c t, runs (c :: t) <> [].
Proof. intros c t. cbn [runs]. destruct (runs t) as [|[d ds] r]; [discriminate|]. destruct (span_eqb c d); discriminate. Qed.

Lemma runs_head : forall c t, exists ds rest, runs (c :: t) = (c, ds) :: rest.
Proof.
  intros c t. cbn [runs]. destruct (runs t) as [|[d ds] r]; [eauto|].
  destruct (span_eqb c d); eauto.
Qed.

(* a same-span prefix followed by a caption with another span: the prefix is a complete run *)
Lemma runs_prefix_break : forall c cs d t,
  (forall x, In x cs -> span_eqb x c = true) -> span_eqb d c = false ->
  runs (c :: cs ++ d :: t) = (c, cs) :: runs (d :: t).
Proof.
  intros c cs. revert c. induction cs as [|e cs' IH]; intros c d t Hall Hd.
  - cbn [app]. destruct (runs_head d t) as [ds [rest Hr]].
    change (runs (c :: d :: t)) with
      (match runs (d :: t) with
       | (d0, ds0) :: rest0 => if span_eqb c d0 then (c, d0 :: ds0) :: rest0 else (c, []) :: (d0, ds0) :: rest0
       | [] => [(c, [])] end).
    rewrite Hr. rewrite span_sym, Hd. reflexivity.
  - cbn [app].
    change (runs (c :: e :: cs' ++ d :: t)) with
      (match runs (e :: cs' ++ d :: t) with
       | (d0, ds0) :: rest0 => if span_eqb c d0 then (c, d0 :: ds0) :: rest0 else (c, []) :: (d0, ds0) :: rest0
       | [] => [(c, [])] end).
    assert (He : span_eqb e c = true) by (apply Hall; left; reflexivity).
    rewrite IH.
    + rewrite span_sym, He. reflexivity.
    + intros x Hx. apply span_trans with c; [apply Hall; right; exact Hx|]. rewrite span_sym. exact He.
    + apply span_neq_trans with c; [exact He|exact Hd].
Qed.

Definition all_nonempty (caps : list caption) : Prop := forall c, In c caps -> c_nodes c <> [].

Lemma nodes_nonempty_spec : forall caps, nodes_nonempty caps = true -> all_nonempty caps.
Proof.
  intros caps H c Hc. unfold nodes_nonempty in H. rewrite forallb_forall in H.
  specialize (H c Hc). destruct (c_nodes c); [discriminate|discriminate].
Qed.

(* the flush at the end of merge_lang *)
Definition finish (r : result (list caption * list caption)) : result (list caption) :=
  do cm <- r;
  let (conc, merged) := cm in
  match conc with
  | [] => Ok merged
  | _ => do m <- merge_caps conc; Ok (merged ++ [m])
  end.

Lemma merge_loop_inv : forall caps c0 cs l merged,
  last (c0 :: cs) c0 = l ->
  (forall x, In x cs -> span_eqb x c0 = true) ->
  all_nonempty (c0 :: cs ++ caps) ->
  finish (merge_loop caps (Some l) (c0 :: cs) merged)
  = Ok (merged ++ map join_run (runs (c0 :: cs ++ caps))).
Proof.
  induction caps as [|c t IH]; intros c0 cs l merged Hl Hall Hne.
  - cbn [merge_loop finish bind]. rewrite app_nil_r.
    rewrite merge_caps_join by (apply Hne; left; reflexivity). cbn [bind].
    rewrite runs_all_same by exact Hall. reflexivity.
  - cbn [merge_loop].
    assert (Hlc : span_eqb l c0 = true).
    { destruct cs as [|e cs'] eqn:Ecs; [cbn in Hl; subst; apply span_refl|].
      apply Hall. rewrite <- Hl. clear. revert e. induction cs' as [|f cs'' IHc]; intros e.
      - left. reflexivity.
      - right. apply IHc. }
    rewrite same_span_eq.
    destruct (span_eqb c l) eqn:Ecl.
    + (* same span: the run grows *)
      replace (c0 :: cs ++ c :: t) with (c0 :: (cs ++ [c]) ++ t) by (rewrite <- app_assoc; reflexivity).
      change ((c0 :: cs) ++ [c]) with (c0 :: (cs ++ [c])).
      apply IH.
      * clear - c. revert c0. induction cs as [|e cs' IHc]; intros c0; [reflexivity|].
        change (last (c0 :: (e :: cs') ++ [c]) c0) with (last ((e :: cs') ++ [c]) c0).
        cbn [app]. specialize (IHc e).
        replace (last (e :: cs' ++ [c]) c0) with (last (e :: cs' ++ [c]) e); [exact IHc|].
        clear. generalize (cs' ++ [c]). intros l. revert e. induction l; intros; [reflexivity|].
        cbn [last]. destruct l; [reflexivity|]. apply IHl.
      * intros x Hx. apply in_app_or in Hx. destruct Hx as [Hx|[<-|[]]]; [apply Hall; exact Hx|].
        apply span_trans with l; assumption.
      * rewrite <- app_assoc. exact Hne.
    + (* different span: flush the run *)
      rewrite merge_caps_join by (apply Hne; left; reflexivity). cbn [bind].
      specialize (IH c [] c (merged ++ [join_run (c0, cs)])).
      cbn [app] in IH. rewrite IH.
      * rewrite runs_prefix_break.
        -- cbn [map]. rewrite <- app_assoc. reflexivity.
        -- exact Hall.
        -- apply span_neq_trans with l; [rewrite span_sym; exact Hlc|exact Ecl].
      * reflexivity.
      * intros x [].
      * intros x Hx. apply Hne. right. apply in_or_app. right. exact Hx.
Qed.

Lemma merge_lang_unfold : forall caps,
  merge_lang caps =
  do merged' <- finish (merge_loop caps None [] []);
  match merged' with [] => Ok caps | _ => Ok merged' end.
Proof.
  intros caps. unfold merge_lang, finish.
  destruct (merge_loop caps None [] []) as [[conc merged]|e]; cbn [bind]; [|reflexivity].
  destruct conc; cbn [bind]; [reflexivity|].
  destruct (merge_caps (c :: conc)); reflexivity.
Qed.

Theorem merge_lang_spec : forall caps, nodes_nonempty caps = true ->
  merge_lang caps = Ok (spec_merge_lang caps).
Proof.
  intros caps Hne. apply nodes_nonempty_spec in Hne. rewrite merge_lang_unfold.
  destruct caps as [|c t]; [reflexivity|].
  cbn [merge_loop].
  pose proof (merge_loop_inv t c [] c [] eq_refl (fun x (H : In x []) => match H with end)) as H.
  cbn [app] in H. rewrite H by exact Hne. cbn [bind].
  unfold spec_merge_lang.
  destruct (runs_head c t) as [ds [rest Hr]]. rewrite Hr. reflexivity.
Qed.

(* ---- idempotence ------------------------------------------------------------ *)

Lemma runs_adjacent_distinct : forall caps, adjacent_distinct (runs caps).
Proof.
  induction caps as [|c t IH]; [exact I|].
  cbn [runs]. destruct (runs t) as [|[d ds] rest] eqn:E; [exact I|].
  destruct (span_eqb c d) eqn:Ecd.
  - destruct rest as [|[e es] rest']; [exact I|]. cbn in IH |- *. destruct IH as [H1 H2]. split; [|exact H2].
    destruct (span_eqb c e) eqn:Ece; [|reflexivity].
    rewrite span_sym in Ecd. rewrite (span_trans d c e Ecd Ece) in H1. discriminate.
  - cbn. split; [exact Ecd|exact IH].
Qed.

Lemma join_run_span : forall r c, span_eqb (join_run r) c = span_eqb (fst r) c.
Proof. intros [d ds] c. reflexivity. Qed.

Lemma runs_of_joined : forall rs, adjacent_distinct rs ->
  runs (map join_run rs) = map (fun r => (join_run r, [])) rs.
Proof.
  induction rs as [|r1 t IH]; intros H; [reflexivity|].
  destruct t as [|r2 t'].
  - reflexivity.
  - destruct H as [H1 H2]. specialize (IH H2).
    change (runs (map join_run (r1 :: r2 :: t'))) with
      (match runs (map join_run (r2 :: t')) with
       | (d0, ds0) :: rest0 => if span_eqb (join_run r1) d0 then (join_run r1, d0 :: ds0) :: rest0
                               else (join_run r1, []) :: (d0, ds0) :: rest0
       | [] => [(join_run r1, [])] end).
    rewrite IH. cbn [map].
    rewrite join_run_span. destruct r2 as [d2 ds2].
    assert (Hs : span_eqb (fst r1) (join_run (d2, ds2)) = false).
    { rewrite span_sym, join_run_span, span_sym. exact H1. }
    rewrite Hs. reflexivity.
Qed.

Lemma join_run_single : forall c, join_run (c, []) = c.
Proof. intros [s e n]. reflexivity. Qed.

Theorem merge_idempotent : forall caps,
  spec_merge_lang (spec_merge_lang caps) = spec_merge_lang caps.
Proof.
  intros caps. unfold spec_merge_lang.
  rewrite runs_of_joined by apply runs_adjacent_distinct.
  rewrite map_map. apply map_ext. intros r. apply join_run_single.
Qed.

(* merged captions keep non-empty node lists, so the model can be applied again *)
Lemma join_run_nonempty : forall r, c_nodes (fst r) <> [] -> c_nodes (join_run r) <> [].
Proof.
  intros [c cs] H. cbn in *. rewrite join_nodes_concat. destruct (c_nodes c); [congruence|discriminate].
Qed.

Lemma runs_heads_in : forall caps r, In r (runs caps) -> In (fst r) caps.
Proof.
  induction caps as [|c t IH]; intros r Hr; [destruct Hr|].
  cbn [runs] in Hr. destruct (runs t) as [|[d ds] rest] eqn:E.
  - destruct Hr as [<-|[]]. left. reflexivity.
  - destruct (span_eqb c d).
    + destruct Hr as [<-|Hr]; [left; reflexivity|]. right. apply IH. right. exact Hr.
    + destruct Hr as [<-|Hr]; [left; reflexivity|]. right. apply IH. exact Hr.
Qed.

Lemma spec_merge_nonempty : forall caps, nodes_nonempty caps = true -> nodes_nonempty (spec_merge_lang caps) = true.
Proof.
  intros caps H. pose proof (nodes_nonempty_spec _ H) as Hne.
  unfold nodes_nonempty, spec_merge_lang. apply forallb_forall. intros x Hx.
  apply in_map_iff in Hx. destruct Hx as [r [<- Hr]].
  pose proof (join_run_nonempty r (Hne _ (runs_heads_in _ _ Hr))) as Hj.
  destruct (c_nodes (join_run r)); [congruence|reflexivity].
Qed.

Theorem merge_twice : forall caps, nodes_nonempty caps = true ->
  (do m <- merge_lang caps; merge_lang m) = merge_lang caps.
Proof.
  intros caps H. rewrite merge_lang_spec by exact H. cbn [bind].
  rewrite merge_lang_spec by (apply spec_merge_nonempty; exact H).
  rewrite merge_idempotent. reflexivity.
Qed.

(* a caption that is alone in its run keeps its times and nodes *)
Theorem merge_keeps_singletons : forall c, join_run (c, []) = c.
Proof. exact join_run_single. Qed.

(* every merged caption carries the run's times and all its nodes in order, separated by breaks *)
Theorem merge_run_content : forall c cs,
  c_start (join_run (c, cs)) = c_start c /\ c_end (join_run (c, cs)) = c_end c /\
  c_nodes (join_run (c, cs)) = c_nodes c ++ concat (map (fun x => brk :: c_nodes x) cs).
Proof.
  intros c cs. cbn. repeat split. rewrite join_nodes_concat, map_map. reflexivity.
Qed.

(* runs partition the list: concatenating them gives the list back, in order *)
Theorem runs_partition : forall caps, concat (map (fun r => fst r :: snd r) (runs caps)) = caps.
Proof.
  induction caps as [|c t IH]; [reflexivity|].
  cbn [runs]. destruct (runs t) as [|[d ds] rest] eqn:E.
  - cbn in IH. subst t. reflexivity.
  - destruct (span_eqb c d); cbn [map concat fst snd app] in *; rewrite IH; reflexivity.
Qed.

(* every run is maximal on the left too: all members share the head's span *)
Theorem runs_members_same : forall caps r x, In r (runs caps) -> In x (snd r) -> span_eqb x (fst r) = true.
Proof.
  induction caps as [|c t IH]; intros r x Hr Hx; [destruct Hr|].
  cbn [runs] in Hr. destruct (runs t) as [|[d ds] rest] eqn:E.
  - destruct Hr as [<-|[]]. destruct Hx.
  - destruct (span_eqb c d) eqn:Ecd.
    + destruct Hr as [<-|Hr].
      * cbn [fst snd] in *. destruct Hx as [<-|Hx]; [rewrite span_sym; exact Ecd|].
        apply span_trans with d; [|rewrite span_sym; exact Ecd].
        apply (IH (d, ds) x); [left; reflexivity|exact Hx].
      * apply (IH r x); [right; exact Hr|exact Hx].
    + destruct Hr as [<-|Hr]; [destruct Hx|]. apply (IH r x); assumption.
Qed.

(* ======================= wave 3: the model meets the decidable oracle ======================= *)

(* ---- several languages: adjust -------------------------------------------------------------- *)
Theorem adjust_langs_meet_spec : forall skew off langs,
  Forall2 (Forall2 cap_equiv) (adjust skew off langs) (map (spec_adjust_lang skew off) langs).
Proof.
  intros skew off langs. unfold adjust. induction langs as [|l t IH]; cbn [map]; constructor.
  - apply adjust_meets_spec.
  - exact IH.
Qed.

Lemma q_close_of_eq : forall a b, a == b -> q_close a b = true.
Proof.
  intros a b H. unfold q_close. apply Qle_bool_iff.
  assert (E : a - b == 0) by (rewrite H; ring).
  rewrite E. cbn. discriminate.
Qed.

Lemma zlist_eqb_refl : forall l, zlist_eqb l l = true.
Proof. induction l as [|x t IH]; cbn; [reflexivity|]. rewrite Z.eqb_refl. exact IH. Qed.

Lemma cap_close_retime : forall skew off c, cap_close (spec_retime skew off c) (retime skew off c) = true.
Proof.
  intros skew off c. destruct (retime_affine skew off c) as [Hs [He Hn]].
  unfold cap_close. cbn [spec_retime c_start c_end c_nodes].
  rewrite (q_close_of_eq _ _ (Qeq_sym _ _ Hs)), (q_close_of_eq _ _ (Qeq_sym _ _ He)), Hn.
  apply zlist_eqb_refl.
Qed.

(* one language: the exact model is accepted by the tolerant matcher, whatever the optional captions are *)
Lemma match_adjust_model : forall skew off caps,
  match_adjust skew off caps (adjust_lang skew off caps) = true.
Proof.
  intros skew off caps. rewrite adjust_lang_filter_map.
  induction caps as [|c t IH]; [reflexivity|].
  cbn [map filter match_adjust].
  destruct (retime_affine skew off c) as [Hs _].
  assert (Hsign : Qle_bool 0 (c_start (spec_retime skew off c)) = Qle_bool 0 (c_start (retime skew off c))).
  { cbn [spec_retime c_start]. symmetry. apply Qle_bool_comp. exact Hs. }
  rewrite Hsign.
  destruct (Qle_bool 0 (c_start (retime skew off c))) eqn:Ek.
  - rewrite cap_close_retime, IH. cbn [andb orb].
    destruct (optional skew off c); reflexivity.
  - destruct (optional skew off c); [|exact IH]. rewrite IH. apply orb_true_r.
Qed.

Theorem adjust_ok : forall skew off langs, ok_adjust skew off langs (adjust skew off langs) = true.
Proof.
  intros skew off langs. unfold ok_adjust, adjust.
  induction langs as [|l t IH]; [reflexivity|].
  cbn [map list_rel]. rewrite match_adjust_model. exact IH.
Qed.

(* ---- several languages: merge --------------------------------------------------------------- *)
Theorem merge_concurrent_spec : forall langs, forallb nodes_nonempty langs = true ->
  merge_concurrent langs = Ok (map spec_merge_lang langs).
Proof.
  unfold merge_concurrent. induction langs as [|l t IH]; intros H; [reflexivity|].
  cbn [forallb] in H. apply andb_true_iff in H. destruct H as [Hl Ht].
  cbn [res_map map]. rewrite (merge_lang_spec l Hl). cbn [bind]. rewrite (IH Ht). reflexivity.
Qed.

Lemma langs_merge_nonempty : forall langs, forallb nodes_nonempty langs = true ->
  forallb nodes_nonempty (map spec_merge_lang langs) = true.
Proof.
  induction langs as [|l t IH]; intros H; [reflexivity|].
  cbn [forallb] in H. apply andb_true_iff in H. destruct H as [Hl Ht].
  cbn [map forallb]. rewrite (spec_merge_nonempty l Hl). exact (IH Ht).
Qed.

Theorem merge_concurrent_twice : forall langs, forallb nodes_nonempty langs = true ->
  (do m <- merge_concurrent langs; merge_concurrent m) = merge_concurrent langs.
Proof.
  intros langs H. rewrite (merge_concurrent_spec langs H). cbn [bind].
  rewrite (merge_concurrent_spec _ (langs_merge_nonempty langs H)).
  rewrite map_map. f_equal. apply map_ext. intros l. apply merge_idempotent.
Qed.

Lemma cap_exact_refl : forall c, cap_exact c c = true.
Proof. intros c. unfold cap_exact. rewrite !Qeq_bool_refl, zlist_eqb_refl. reflexivity. Qed.

Lemma list_rel_refl : forall A (r : A -> A -> bool), (forall x, r x x = true) -> forall l, list_rel r l l = true.
Proof. intros A r Hr l. induction l as [|x t IH]; [reflexivity|]. cbn. rewrite Hr. exact IH. Qed.

Lemma list_rel_map_l : forall A (r : A -> A -> bool) (f : A -> A), (forall x, r x x = true) ->
  forall l, list_rel (fun i o => r (f i) o) l (map f l) = true.
Proof. intros A r f Hr l. induction l as [|x t IH]; [reflexivity|]. cbn. rewrite Hr. exact IH. Qed.

Theorem merge_ok : forall langs, forallb nodes_nonempty langs = true ->
  ok_merge langs (merge_concurrent langs) (do m <- merge_concurrent langs; merge_concurrent m) = true.
Proof.
  intros langs H. rewrite (merge_concurrent_twice langs H), (merge_concurrent_spec langs H).
  unfold ok_merge. apply andb_true_iff. split.
  - apply (list_rel_map_l _ (list_rel cap_exact) spec_merge_lang).
    intros l. apply list_rel_refl. exact cap_exact_refl.
  - apply list_rel_refl. intros l. apply list_rel_refl. exact cap_exact_refl.
Qed.

(* ---- "leaves every other caption as it was", stated about merge_lang itself ------------------ *)
Lemma runs_no_adjacent : forall caps, no_adjacent_equal caps = true -> runs caps = map (fun c => (c, [])) caps.
Proof.
  induction caps as [|a t IH]; intros H; [reflexivity|].
  destruct t as [|b t']; [reflexivity|].
  change (no_adjacent_equal (a :: b :: t')) with (negb (span_eqb a b) && no_adjacent_equal (b :: t')) in H.
  apply andb_true_iff in H. destruct H as [Hab Ht]. apply negb_true_iff in Hab.
  change (runs (a :: b :: t')) with
    (match runs (b :: t') with
     | (d, ds) :: rest => if span_eqb a d then (a, d :: ds) :: rest else (a, []) :: (d, ds) :: rest
     | [] => [(a, [])] end).
  rewrite (IH Ht). cbn [map]. rewrite Hab. reflexivity.
Qed.

Theorem merge_lang_identity : forall caps, nodes_nonempty caps = true -> no_adjacent_equal caps = true ->
  merge_lang caps = Ok caps.
Proof.
  intros caps Hn Ha. rewrite (merge_lang_spec caps Hn). unfold spec_merge_lang.
  rewrite (runs_no_adjacent caps Ha), map_map. f_equal.
  induction caps as [|c t IH]; [reflexivity|]. cbn [map]. rewrite join_run_single. f_equal.
  clear. induction t as [|d t IH]; [reflexivity|]. cbn [map]. rewrite join_run_single, IH. reflexivity.
Qed.

(* a singleton run is carried over unchanged, at its position *)
Theorem merge_lang_keeps_singletons : forall caps c, nodes_nonempty caps = true -> In (c, []) (runs caps) ->
  exists out, merge_lang caps = Ok out /\ In c out.
Proof.
  intros caps c Hn Hin. exists (spec_merge_lang caps). split; [apply merge_lang_spec; exact Hn|].
  unfold spec_merge_lang. apply in_map_iff. exists (c, []). split; [apply join_run_single|exact Hin].
Qed.

(* ---- totality outside the domain: the only exception is Caption()'s refusal of an empty node list ---- *)
Lemma merge_caps_err : forall c cs e, merge_caps (c :: cs) = Err e -> e = ENodeListEmpty.
Proof.
  intros c cs e H. unfold merge_caps in H. destruct (merge_nodes (c :: cs)); [|discriminate].
  injection H as <-. reflexivity.
Qed.

Lemma merge_loop_err : forall caps l conc merged e, conc <> [] ->
  merge_loop caps (Some l) conc merged = Err e -> e = ENodeListEmpty.
Proof.
  induction caps as [|c t IH]; intros l conc merged e Hc H; cbn [merge_loop] in H; [discriminate|].
  destruct (same_span c l).
  - apply (IH c (conc ++ [c]) merged e); [destruct conc; discriminate|exact H].
  - destruct conc as [|c0 cs]; [congruence|].
    destruct (merge_caps (c0 :: cs)) as [m|e'] eqn:Em; cbn [bind] in H.
    + apply (IH c [c] (merged ++ [m]) e); [discriminate|exact H].
    + injection H as <-. apply (merge_caps_err c0 cs). exact Em.
Qed.

Lemma merge_loop_conc : forall caps l conc merged conc' merged', conc <> [] ->
  merge_loop caps (Some l) conc merged = Ok (conc', merged') -> conc' <> [].
Proof.
  induction caps as [|c t IH]; intros l conc merged conc' merged' Hc H; cbn [merge_loop] in H.
  - injection H as <- <-. exact Hc.
  - destruct (same_span c l).
    + apply (IH c (conc ++ [c]) merged conc' merged'); [destruct conc; discriminate|exact H].
    + destruct (merge_caps conc) as [m|e']; cbn [bind] in H; [|discriminate].
      apply (IH c [c] (merged ++ [m]) conc' merged'); [discriminate|exact H].
Qed.

Theorem merge_lang_total : forall caps e, merge_lang caps = Err e -> e = ENodeListEmpty.
Proof.
  intros caps e H. unfold merge_lang in H.
  destruct caps as [|c t]; [discriminate|]. cbn [merge_loop] in H.
  destruct (merge_loop t (Some c) [c] []) as [[conc merged]|e'] eqn:El; cbn [bind] in H.
  - pose proof (merge_loop_conc t c [c] [] conc merged ltac:(discriminate) El) as Hc.
    destruct conc as [|c0 cs]; [congruence|].
    destruct (merge_caps (c0 :: cs)) as [m|e''] eqn:Em; cbn [bind] in H.
    + destruct (merged ++ [m]); discriminate.
    + injection H as <-. apply (merge_caps_err c0 cs). exact Em.
  - injection H as <-. apply (merge_loop_err t c [c] []); [discriminate|exact El].
Qed.
