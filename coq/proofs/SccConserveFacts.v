(* C16: characters are conserved in roll-up / paint-on streams. For every stream over the roll-up / paint-on alphabet the
   non-blank characters handed to the buffer are exactly the non-blank characters of the captions returned, in order
   (blanks are excluded because the decoder strips blanks at line ends). *)
From Coq Require Import List ZArith QArith Lia Bool.
From PV Require Import lib.Sx lib.Str lib.Result model.GenScc model.SccLen model.SccTime model.SccStash model.SccDecoder
  proofs.SccStashFacts proofs.SccTableFacts proofs.SccItalicsFacts proofs.SccDoubleFacts.
Import ListNotations.
Open Scope Z_scope.

(* `wf_nodes` is defined twice with the same body (SccItalicsFacts, SccDoubleFacts); here it is the second one *)
Notation wf_nodes := SccDoubleFacts.wf_nodes.

Lemma wf_bridge : forall l, wf_nodes l -> SccItalicsFacts.wf_nodes l.
Proof. intros l H. exact H. Qed.

(* ---- definitions ------------------------------------------------------------------------------- *)
Definition stash_text (s : stash) : str := concat (map (fun c => concat (map ctext (pc_nodes c))) (st_caps s)).
Definition total (s : rstate) : str := nonspace (stash_text (r_stash s)) ++ nonspace (content (buf s)).

(* the alphabet: roll-up 2/3/4, resume direct captioning, carriage return, preamble address codes, tab offsets,
   special characters, and words that are none of command / PAC / special / extended (character pairs, fillers) *)
Definition rp_word (w : Z) : bool :=
  (w =? w_ru2) || (w =? w_ru3) || (w =? w_ru4) || (w =? w_rdc) || (w =? w_cr) || is_pac w
  || (match tab_of w with Some _ => true | None => false end)
  || (match special_of w with Some _ => true | None => false end)
  || (negb (is_command w) && negb (is_pac w) && (match extended_of w with Some _ => false | None => true end)).

(* the characters a word hands to the buffer when it is executed *)
Definition word_chars (w : Z) : str :=
  if is_command w || is_pac w then [] else
  match special_of w with
  | Some t => t
  | None => match extended_of w with
            | Some _ => []
            | None => match char_of (hi w), char_of (lo w) with Some a, Some b => a ++ b | _, _ => [] end
            end
  end.

(* characters sent by a word list run from state s; the second copy of a doubled code counts once, as decided by the
   decoder's doubling memory *)
Fixpoint sent (s : rstate) (ws : list Z) : str :=
  match ws with
  | [] => []
  | w :: t => (if fst (handle_double s w) then [] else word_chars w)
              ++ sent (translate_word s w (match t with n :: _ => Some n | [] => None end)) t
  end.

Definition rp_inv (s : rstate) : Prop :=
  (r_active s = MRoll \/ r_active s = MPaint) /\ r_queue s = None /\
  content (r_pop s) = [] /\ (r_active s = MRoll -> content (r_paint s) = []) /\
  (r_active s = MPaint -> content (r_roll s) = []) /\
  wf_nodes (cr_nodes (r_pop s)) /\ wf_nodes (cr_nodes (r_paint s)) /\ wf_nodes (cr_nodes (r_roll s)).

(* ---- storing a buffer moves its non-blank text into the caption list ------------------------------ *)
Lemma cr_is_empty_content : forall c, cr_is_empty c = true -> content c = [].
Proof.
  intros c H. unfold cr_is_empty in H. apply negb_true_iff in H.
  change (ncontent (cr_nodes c) = []). apply ncontent_empty. intros n Hn.
  destruct (i_text n) as [|x t] eqn:E; [reflexivity|]. exfalso.
  assert (X : existsb (fun n => nonempty (i_text n)) (cr_nodes c) = true).
  { apply existsb_exists. exists n. split; [exact Hn|]. rewrite E. reflexivity. }
  congruence.
Qed.

Lemma strip_line_ends_wf : forall l, Forall wfn l -> Forall wfn (strip_line_ends l).
Proof.
  induction l as [|n t IH]; intros H; [constructor|]. inversion H as [|? ? Hn Ht]; subst.
  rewrite sle_cons2. constructor; [|apply IH; exact Ht].
  destruct (is_text n && next_plain_is_sep t) eqn:E; [|exact Hn].
  apply andb_true_iff in E. destruct E as [E _].
  intros F. change (is_text (rstrip_node n)) with (is_text n) in F. congruence.
Qed.

Lemma format_italics_wf : forall l, wf_nodes l -> SccItalicsFacts.wf_nodes (format_italics l).
Proof.
  intros l H. apply wf_bridge in H. apply wf_nodes_Forall in H. apply wf_nodes_Forall.
  rewrite format_italics_is. apply strip_line_ends_wf, passes16_wf. exact H.
Qed.

Definition ctext_of (c : precap) : str := concat (map ctext (pc_nodes c)).

Lemma filter_has_nodes_text : forall l,
  concat (map ctext_of (filter has_nodes l)) = concat (map ctext_of l).
Proof.
  induction l as [|c l IH]; [reflexivity|]. cbn [filter map concat].
  destruct (has_nodes c) eqn:E.
  - cbn [map concat]. rewrite IH. reflexivity.
  - rewrite IH. unfold has_nodes in E. unfold ctext_of at 2. destruct (pc_nodes c); [reflexivity|discriminate].
Qed.

Lemma create_and_store_text : forall s c start e, wf_nodes (cr_nodes c) ->
  nonspace (stash_text (create_and_store s c start e)) = nonspace (stash_text s) ++ nonspace (content c).
Proof.
  intros s c start e W. unfold create_and_store. destruct (cr_is_empty c) eqn:E.
  - rewrite (cr_is_empty_content c E). cbn [nonspace filter]. rewrite app_nil_r. reflexivity.
  - unfold stash_text. fold ctext_of. rewrite (stash_extend_map _ ctext_of) by reflexivity.
    rewrite concat_app, nonspace_app. f_equal.
    rewrite filter_has_nodes_text. unfold ctext_of.
    rewrite build_captions_text by (apply format_italics_wf; exact W).
    cbn [map concat pc_nodes app]. rewrite format_italics_nonspace by (apply wf_bridge; exact W). reflexivity.
Qed.

Lemma stash_text_correct_last_timing : forall s t, stash_text (correct_last_timing s t) = stash_text s.
Proof.
  intros s t. unfold stash_text. fold ctext_of. rewrite (correct_last_timing_map _ ctext_of) by reflexivity. reflexivity.
Qed.

Lemma stash_text_fix_last : forall s, concat (map ctext_of (fix_last (st_caps s))) = stash_text s.
Proof. intros s. unfold stash_text. fold ctext_of. rewrite (fix_last_map _ ctext_of) by reflexivity. reflexivity. Qed.

(* ---- what `total` and `rp_inv` depend on ---------------------------------------------------------- *)
Definition core (s : rstate) : str * creator * creator * creator * mode * option (creator * Q) :=
  (stash_text (r_stash s), r_pop s, r_paint s, r_roll s, r_active s, r_queue s).

Lemma core_eq : forall a b, core a = core b ->
  stash_text (r_stash a) = stash_text (r_stash b) /\ r_pop a = r_pop b /\ r_paint a = r_paint b /\
  r_roll a = r_roll b /\ r_active a = r_active b /\ r_queue a = r_queue b.
Proof. intros a b H. unfold core in H. inversion H. auto 10. Qed.

Lemma buf_core : forall a b, core a = core b -> buf a = buf b.
Proof.
  intros a b H. destruct (core_eq a b H) as (_ & H2 & H3 & H4 & H5 & _). unfold buf. rewrite H2, H3, H4, H5. reflexivity.
Qed.

Lemma total_core : forall a b, core a = core b -> total a = total b.
Proof.
  intros a b H. unfold total. rewrite (buf_core a b H). destruct (core_eq a b H) as (H1 & _). rewrite H1. reflexivity.
Qed.

Lemma inv_core : forall a b, core a = core b -> rp_inv b -> rp_inv a.
Proof.
  intros a b H I. destruct (core_eq a b H) as (_ & H2 & H3 & H4 & H5 & H6). unfold rp_inv in *.
  rewrite H2, H3, H4, H5, H6. exact I.
Qed.

Lemma active_core : forall a b, core a = core b -> r_active a = r_active b.
Proof. intros a b H. apply (core_eq a b H). Qed.

Lemma core_set_tk : forall s x, core (set_tk s x) = core s.  Proof. reflexivity. Qed.
Lemma core_set_dbl : forall s l d, core (set_dbl s l d) = core s.  Proof. reflexivity. Qed.
Lemma core_set_time : forall s x, core (set_time s x) = core s.  Proof. reflexivity. Qed.
Lemma core_set_clock : forall s x f, core (set_clock s x f) = core s.  Proof. reflexivity. Qed.
Lemma core_set_err : forall s x, core (set_err s x) = core s.  Proof. reflexivity. Qed.
Lemma core_bump : forall s, core (bump s) = core s.  Proof. reflexivity. Qed.

Lemma core_with_time : forall s k, (forall t, core (k t) = core s) -> core (with_time s k) = core s.
Proof. intros s k H. unfold with_time. destruct (get_time _ _ _); [apply H|apply core_set_err]. Qed.

Lemma core_set_buf : forall a b c, core a = core b -> core (set_buf a c) = core (set_buf b c).
Proof.
  intros a b c H. destruct (core_eq a b H) as (H1 & H2 & H3 & H4 & H5 & H6).
  unfold set_buf. rewrite <- H5. destruct (r_active a) eqn:E; unfold core;
    cbn [r_stash r_pop r_paint r_roll r_active r_queue]; rewrite ?H1, ?H2, ?H3, ?H4, ?H6; reflexivity.
Qed.

(* ---- buffers -------------------------------------------------------------------------------------- *)
Lemma set_buf_buf : forall s c, buf (set_buf s c) = c.
Proof.
  intros s c. unfold buf, set_buf. destruct (r_active s) eqn:E; cbn [r_active r_pop r_paint r_roll]; rewrite ?E; reflexivity.
Qed.

Lemma set_buf_stash : forall s c, r_stash (set_buf s c) = r_stash s.
Proof. intros s c. unfold set_buf. destruct (r_active s); reflexivity. Qed.

Lemma set_buf_active : forall s c, r_active (set_buf s c) = r_active s.
Proof. intros s c. unfold set_buf. destruct (r_active s) eqn:E; cbn [r_active]; rewrite ?E; reflexivity. Qed.

Lemma inv_wf_buf : forall s, rp_inv s -> wf_nodes (cr_nodes (buf s)).
Proof.
  intros s (Ha & _ & _ & _ & _ & W1 & W2 & W3). unfold buf. destruct (r_active s); assumption.
Qed.

Lemma set_buf_inv : forall s c, rp_inv s -> wf_nodes (cr_nodes c) -> rp_inv (set_buf s c).
Proof.
  intros s c (Ha & Hq & Hp & Hrp & Hpr & W1 & W2 & W3) W. unfold rp_inv, set_buf.
  destruct Ha as [Ha|Ha]; rewrite Ha in *; cbn [r_active r_pop r_paint r_roll r_queue];
    repeat split; auto; intros; discriminate.
Qed.

Lemma set_buf_total : forall s c, total (set_buf s c) = nonspace (stash_text (r_stash s)) ++ nonspace (content c).
Proof. intros s c. unfold total. rewrite set_buf_buf, set_buf_stash. reflexivity. Qed.

Lemma wf_creator0 : wf_nodes (cr_nodes creator0).
Proof. intros n []. Qed.

(* the common pattern: store the active buffer as a caption and start a fresh one *)
Definition flushed (s : rstate) (a b : Q) : rstate := set_buf (store s (buf s) a b) creator0.

Lemma flushed_spec : forall s a b, rp_inv s ->
  rp_inv (flushed s a b) /\ total (flushed s a b) = total s /\ content (buf (flushed s a b)) = [] /\
  r_active (flushed s a b) = r_active s.
Proof.
  intros s a b I. unfold flushed. split; [|split; [|split]].
  - apply set_buf_inv; [exact I|apply wf_creator0].
  - rewrite set_buf_total. unfold store. cbn [r_stash set_stash].
    rewrite create_and_store_text by (apply inv_wf_buf; exact I).
    unfold total. cbn [content creator0 cr_nodes map concat nonspace filter]. rewrite app_nil_r. reflexivity.
  - rewrite set_buf_buf. reflexivity.
  - rewrite set_buf_active. reflexivity.
Qed.

Lemma roll_up_core : forall s, core (roll_up s) = core (flushed s (r_time s) 0%Q).
Proof.
  intros s. unfold roll_up. cbv zeta. fold (flushed s (r_time s) 0%Q).
  apply core_with_time. intros t. unfold core. cbn [r_stash r_pop r_paint r_roll r_active r_queue set_stash set_time].
  rewrite stash_text_correct_last_timing. reflexivity.
Qed.

Definition flush_post (s s' : rstate) : Prop :=
  rp_inv s' /\ total s' = total s /\ content (buf s') = [] /\ r_active s' = r_active s.

Lemma flush_post_core : forall s a b, core a = core b -> flush_post s b -> flush_post s a.
Proof.
  intros s a b H (I & T & C & A). split; [|split; [|split]].
  - exact (inv_core a b H I).
  - rewrite (total_core a b H). exact T.
  - rewrite (buf_core a b H). exact C.
  - rewrite (active_core a b H). exact A.
Qed.

Lemma roll_up_spec : forall s, rp_inv s -> flush_post s (roll_up s).
Proof.
  intros s I. apply (flush_post_core s _ _ (roll_up_core s)). apply flushed_spec. exact I.
Qed.

Lemma empty_post : forall s, rp_inv s -> cr_is_empty (buf s) = true -> flush_post s s.
Proof. intros s I E. split; [exact I|split; [reflexivity|split; [apply cr_is_empty_content; exact E|reflexivity]]]. Qed.

Lemma flush_implicit_spec : forall s, rp_inv s -> flush_post s (flush_implicit s).
Proof.
  intros s I. unfold flush_implicit. destruct I as (Ha & I'). assert (I : rp_inv s) by (split; assumption).
  destruct Ha as [Ha|Ha]; rewrite Ha.
  - destruct (cr_is_empty (buf s)) eqn:E; [apply empty_post; assumption|apply roll_up_spec; exact I].
  - destruct (cr_is_empty (buf s)) eqn:E; [apply empty_post; assumption|].
    apply (flushed_spec s (r_time s) 0%Q I).
Qed.

Lemma activate_spec : forall s m, rp_inv s -> (m = MRoll \/ m = MPaint) ->
  rp_inv (activate s m) /\ total (activate s m) = total s.
Proof.
  intros s m I Hm. unfold activate. destruct (mode_eqb m (r_active s)) eqn:E; [split; [exact I|reflexivity]|].
  destruct (flush_implicit_spec s I) as (IF & T & C & A). set (F := flush_implicit s) in *.
  rewrite <- T. clear T. destruct IF as (Ha & Hq & Hp & Hrp & Hpr & W1 & W2 & W3).
  unfold total, rp_inv, buf in *. cbn [set_active r_stash r_pop r_paint r_roll r_active r_queue].
  rewrite <- A in E.
  destruct Ha as [Ha|Ha]; rewrite Ha in *; destruct Hm as [->| ->]; try discriminate E.
  - rewrite C, (Hrp eq_refl). repeat split; auto; intros; discriminate.
  - rewrite C, (Hpr eq_refl). repeat split; auto; intros; discriminate.
Qed.

Lemma flush_buffer_spec : forall s, rp_inv s -> rp_inv (flush_buffer s) /\ total (flush_buffer s) = total s.
Proof.
  intros s I. unfold flush_buffer. destruct (cr_is_empty (buf s)); [split; [exact I|reflexivity]|].
  destruct (flushed_spec s (r_time s) 0%Q I) as (I' & T & _). split; assumption.
Qed.

Lemma switch_core : forall s,
  core (if (match r_err s with Some _ => true | None => false end) then s else with_time s (fun t => set_time s t))
  = core s.
Proof. intros s. destruct (r_err s); [reflexivity|]. apply core_with_time. reflexivity. Qed.

(* ---- the commands of the alphabet ---------------------------------------------------------------- *)
Lemma tc_roll : forall s w next, (w = w_ru2 \/ w = w_ru3 \/ w = w_ru4) ->
  translate_command s w next =
  (let s2 := flush_buffer (activate s MRoll) in
   if (match r_err s2 with Some _ => true | None => false end) then s2 else with_time s2 (fun t => set_time s2 t)).
Proof. intros s w next [->|[->| ->]]; reflexivity. Qed.

Lemma tc_paint : forall s next,
  translate_command s w_rdc next =
  (let s2 := flush_buffer (activate s MPaint) in
   if (match r_err s2 with Some _ => true | None => false end) then s2 else with_time s2 (fun t => set_time s2 t)).
Proof. reflexivity. Qed.

Lemma tc_cr : forall s next, translate_command s w_cr next = if cr_is_empty (buf s) then s else roll_up s.
Proof. reflexivity. Qed.

Lemma tc_other : forall s w next, ~ In w [w_rcl; w_ru2; w_ru3; w_ru4; w_rdc; w_edm; w_cr; w_enm; w_eoc] ->
  translate_command s w next = do_interpret s w next.
Proof.
  intros s w next H.
  assert (Hc : forall c, In c [w_rcl; w_ru2; w_ru3; w_ru4; w_rdc; w_edm; w_cr; w_enm; w_eoc] -> (w =? c) = false).
  { intros c Hin. apply Z.eqb_neq. intros ->. exact (H Hin). }
  unfold translate_command.
  rewrite (Hc w_rcl), (Hc w_rdc), (Hc w_ru2), (Hc w_ru3), (Hc w_ru4), (Hc w_enm), (Hc w_eoc), (Hc w_cr), (Hc w_edm)
    by (cbn [In]; tauto).
  reflexivity.
Qed.

Lemma mode_switch_spec : forall s m, rp_inv s -> (m = MRoll \/ m = MPaint) ->
  let s2 := flush_buffer (activate s m) in
  let X := if (match r_err s2 with Some _ => true | None => false end) then s2
           else with_time s2 (fun t => set_time s2 t) in
  total X = total s /\ rp_inv X.
Proof.
  intros s m I Hm s2 X. destruct (activate_spec s m I Hm) as (I1 & T1).
  destruct (flush_buffer_spec _ I1) as (I2 & T2). fold s2 in I2, T2.
  pose proof (switch_core s2) as HC. fold X in HC. split.
  - rewrite (total_core _ _ HC), T2, T1. reflexivity.
  - exact (inv_core _ _ HC I2).
Qed.

Lemma do_interpret_spec : forall s w next, rp_inv s ->
  memz w scc_mid_row_codes = false -> memz w scc_background_color_codes = false -> w <> w_bs ->
  total (do_interpret s w next) = total s /\ rp_inv (do_interpret s w next).
Proof.
  intros s w next I Hm Hb Hw. pose proof (inv_wf_buf s I) as W. unfold do_interpret.
  pose proof (interpret_command_wf (r_tk s) (buf s) w next W) as W'.
  pose proof (interpret_command_content_plain (r_tk s) (buf s) w next W Hm Hb Hw) as C'.
  destruct (interpret_command (r_tk s) (buf s) w next) as [[t c] e]. cbn [fst snd] in W', C'.
  assert (HC : core (match e with Some x => set_err (set_buf (set_tk s t) c) x | None => set_buf (set_tk s t) c end)
               = core (set_buf s c)).
  { destruct e; [rewrite core_set_err|]; apply core_set_buf, core_set_tk. }
  split.
  - rewrite (total_core _ _ HC), set_buf_total, C'. reflexivity.
  - apply (inv_core _ _ HC). apply set_buf_inv; assumption.
Qed.

Lemma add_to_buf_spec : forall s txt, rp_inv s ->
  total (add_to_buf s txt) = total s ++ nonspace txt /\ rp_inv (add_to_buf s txt).
Proof.
  intros s txt I. pose proof (inv_wf_buf s I) as W. unfold add_to_buf.
  pose proof (add_chars_wf (r_tk s) (buf s) txt W) as W'.
  pose proof (add_chars_content (r_tk s) (buf s) txt) as C'.
  destruct (add_chars (r_tk s) (buf s) txt) as [t c]. cbn [snd] in W', C'.
  assert (HC : core (set_buf (set_tk s t) c) = core (set_buf s c)) by apply core_set_buf, core_set_tk.
  split.
  - rewrite (total_core _ _ HC), set_buf_total, C', nonspace_app. unfold total. rewrite app_assoc. reflexivity.
  - apply (inv_core _ _ HC). apply set_buf_inv; assumption.
Qed.

(* ---- one executed word ---------------------------------------------------------------------------- *)
Definition exec (s : rstate) (w : Z) (next : option Z) : rstate :=
  if is_command w || is_pac w then translate_command s w next
  else match special_of w with
       | Some txt => add_to_buf s txt
       | None =>
           match extended_of w with
           | Some txt => add_to_buf (set_buf s (handle_backspace w (buf s))) txt
           | None =>
               match char_of (hi w), char_of (lo w) with
               | Some a, Some b => add_to_buf s (a ++ b)
               | _, _ => s
               end
           end
       end.

Lemma translate_word_unfold : forall s w next,
  translate_word s w next =
  match r_err s with
  | Some _ => s
  | None =>
      let '(skip, s1) := handle_double s w in
      if skip then bump s1
      else let X := exec s1 w next in match r_err X with Some _ => X | None => bump X end
  end.
Proof. reflexivity. Qed.

Lemma exec_cmd : forall s w next, (is_command w || is_pac w) = true ->
  exec s w next = translate_command s w next /\ word_chars w = [].
Proof. intros s w next H. unfold exec, word_chars. rewrite H. split; reflexivity. Qed.

Lemma ctrl_commands : is_command w_ru2 = true /\ is_command w_ru3 = true /\ is_command w_ru4 = true /\
  is_command w_rdc = true /\ is_command w_cr = true.
Proof. repeat split; vm_compute; reflexivity. Qed.

Lemma finish_cmd : forall (s X : rstate) (w : Z), word_chars w = [] ->
  total X = total s /\ rp_inv X -> total X = total s ++ nonspace (word_chars w) /\ rp_inv X.
Proof. intros s X w E [T I]. rewrite E. cbn [nonspace filter]. rewrite app_nil_r. split; assumption. Qed.

Lemma exec_spec : forall s w next, rp_inv s -> rp_word w = true ->
  total (exec s w next) = total s ++ nonspace (word_chars w) /\ rp_inv (exec s w next).
Proof.
  intros s w next I Hw. destruct ctrl_commands as (C2 & C3 & C4 & Cd & Cc).
  destruct classes_disjoint as (Dspecial & _ & Dpac & Dtab & _).
  unfold rp_word in Hw. rewrite !orb_true_iff in Hw.
  destruct Hw as [[[[[[[[Hw|Hw]|Hw]|Hw]|Hw]|Hw]|Hw]|Hw]|Hw].
  - apply Z.eqb_eq in Hw. subst w.
    destruct (exec_cmd s w_ru2 next) as [E1 E2]; [rewrite C2; reflexivity|]. rewrite E1. apply finish_cmd; [exact E2|].
    rewrite tc_roll by auto. apply mode_switch_spec; auto.
  - apply Z.eqb_eq in Hw. subst w.
    destruct (exec_cmd s w_ru3 next) as [E1 E2]; [rewrite C3; reflexivity|]. rewrite E1. apply finish_cmd; [exact E2|].
    rewrite tc_roll by auto. apply mode_switch_spec; auto.
  - apply Z.eqb_eq in Hw. subst w.
    destruct (exec_cmd s w_ru4 next) as [E1 E2]; [rewrite C4; reflexivity|]. rewrite E1. apply finish_cmd; [exact E2|].
    rewrite tc_roll by auto. apply mode_switch_spec; auto.
  - apply Z.eqb_eq in Hw. subst w.
    destruct (exec_cmd s w_rdc next) as [E1 E2]; [rewrite Cd; reflexivity|]. rewrite E1. apply finish_cmd; [exact E2|].
    rewrite tc_paint. apply mode_switch_spec; auto.
  - apply Z.eqb_eq in Hw. subst w.
    destruct (exec_cmd s w_cr next) as [E1 E2]; [rewrite Cc; reflexivity|]. rewrite E1. apply finish_cmd; [exact E2|].
    rewrite tc_cr. destruct (cr_is_empty (buf s)); [split; [reflexivity|exact I]|].
    destruct (roll_up_spec s I) as (I' & T & _). split; assumption.
  - destruct (exec_cmd s w next) as [E1 E2]; [rewrite Hw; apply orb_true_r|]. rewrite E1. apply finish_cmd; [exact E2|].
    destruct (Dpac w Hw) as (_ & Hm & Hb & Hn).
    rewrite tc_other by (intros Hin; apply Hn; cbn [In] in *; tauto).
    apply do_interpret_spec; [exact I|exact Hm|exact Hb|].
    intros ->. apply Hn. cbn [In]. tauto.
  - assert (Ht : tab_of w <> None) by (destruct (tab_of w); [discriminate|discriminate]).
    destruct (Dtab w Ht) as (Hc & Hm & Hb & _ & Hbs & Hn).
    destruct (exec_cmd s w next) as [E1 E2]; [rewrite Hc; reflexivity|]. rewrite E1. apply finish_cmd; [exact E2|].
    rewrite tc_other by exact Hn. apply do_interpret_spec; assumption.
  - assert (Hs : special_of w <> None) by (destruct (special_of w); [discriminate|discriminate]).
    destruct (Dspecial w Hs) as (Hc & Hp & _ & _).
    unfold exec, word_chars. rewrite Hc, Hp. cbn [orb]. destruct (special_of w) as [txt|]; [|congruence].
    apply add_to_buf_spec. exact I.
  - rewrite !andb_true_iff in Hw. destruct Hw as [[Hc Hp] Hx].
    apply negb_true_iff in Hc, Hp.
    unfold exec, word_chars. rewrite Hc, Hp. cbn [orb].
    destruct (special_of w) as [txt|]; [apply add_to_buf_spec; exact I|].
    destruct (extended_of w); [discriminate|].
    destruct (char_of (hi w)) as [a|]; [|cbn [nonspace filter]; rewrite app_nil_r; split; [reflexivity|exact I]].
    destruct (char_of (lo w)) as [b|]; [|cbn [nonspace filter]; rewrite app_nil_r; split; [reflexivity|exact I]].
    apply add_to_buf_spec. exact I.
Qed.

(* the doubling memory only touches r_last / r_dstart *)
Lemma handle_double_set : forall s w, exists l d, snd (handle_double s w) = set_dbl s l d.
Proof.
  intros s w. unfold handle_double. cbv zeta.
  destruct (_ && last_is (r_last s) w); [eexists; eexists; reflexivity|].
  destruct (is_pac w && last_contains (r_last s) w); [eexists; eexists; reflexivity|].
  destruct (tab_of w).
  - destruct (r_last s) as [|p|p t]; try (eexists; eexists; reflexivity).
    destruct (is_pac p); eexists; eexists; reflexivity.
  - eexists; eexists; reflexivity.
Qed.

Theorem rp_step : forall s w next, rp_inv s -> rp_word w = true -> r_err s = None ->
  let s' := translate_word s w next in r_err s' = None ->
  total s' = total s ++ nonspace (if fst (handle_double s w) then [] else word_chars w) /\ rp_inv s'.
Proof.
  intros s w next I Hw He s' _. subst s'. rewrite translate_word_unfold, He.
  destruct (handle_double_set s w) as (l & d & Hs).
  destruct (handle_double s w) as [skip s1]. cbn [fst snd] in *. subst s1.
  assert (I1 : rp_inv (set_dbl s l d)) by (apply (inv_core _ s (core_set_dbl s l d)); exact I).
  destruct skip.
  - cbn [nonspace filter]. rewrite app_nil_r. split.
    + apply total_core. reflexivity.
    + apply (inv_core _ s); [reflexivity|exact I].
  - cbv zeta. destruct (exec_spec (set_dbl s l d) w next I1 Hw) as [T I2].
    set (X := exec (set_dbl s l d) w next) in *.
    assert (HC : core (match r_err X with Some _ => X | None => bump X end) = core X) by (destruct (r_err X); reflexivity).
    split.
    + rewrite (total_core _ _ HC), T. f_equal.
    + exact (inv_core _ _ HC I2).
Qed.

(* once an error is recorded the remaining words and lines are no-ops *)
Lemma translate_word_err : forall s w next e, r_err s = Some e -> translate_word s w next = s.
Proof. intros s w next e H. unfold translate_word. rewrite H. reflexivity. Qed.

Lemma translate_words_err : forall ws s e, r_err s = Some e -> translate_words s ws = s.
Proof.
  induction ws as [|w t IH]; intros s e H; [reflexivity|].
  cbn [translate_words]. rewrite (translate_word_err _ _ _ _ H). exact (IH s e H).
Qed.

Lemma translate_words_ok : forall ws s, r_err (translate_words s ws) = None -> r_err s = None.
Proof.
  intros ws s H. destruct (r_err s) as [e|] eqn:E; [|reflexivity].
  rewrite (translate_words_err ws s e E) in H. congruence.
Qed.

Theorem rp_words : forall ws s, rp_inv s -> forallb rp_word ws = true -> r_err s = None ->
  r_err (translate_words s ws) = None ->
  total (translate_words s ws) = total s ++ nonspace (sent s ws) /\ rp_inv (translate_words s ws).
Proof.
  induction ws as [|w t IH]; intros s I Hws He Hfin.
  - cbn [translate_words sent nonspace filter]. rewrite app_nil_r. split; [reflexivity|exact I].
  - cbn [forallb] in Hws. apply andb_true_iff in Hws. destruct Hws as [Hw Ht].
    cbn [translate_words sent] in *.
    set (nx := match t with n :: _ => Some n | [] => None end) in *.
    pose proof (translate_words_ok _ _ Hfin) as He1.
    destruct (rp_step s w nx I Hw He He1) as [T1 I1].
    destruct (IH _ I1 Ht He1 Hfin) as [T2 I2].
    split; [|exact I2]. rewrite T2, T1, nonspace_app, app_assoc. reflexivity.
Qed.

Lemma core_eq_full : forall s m, core s = ([], creator0, creator0, creator0, m, None) ->
  stash_text (r_stash s) = [] /\ r_pop s = creator0 /\ r_paint s = creator0 /\ r_roll s = creator0 /\
  r_active s = m /\ r_queue s = None.
Proof. intros s m H. unfold core in H. inversion H. auto 10. Qed.

(* entering the mode from the initial state *)
Theorem rp_enter : forall off tc w next, (w = w_ru2 \/ w = w_ru3 \/ w = w_ru4 \/ w = w_rdc) ->
  let s := translate_word (set_clock (rstate0 off) tc 0) w next in r_err s = None -> rp_inv s /\ total s = [].
Proof.
  intros off tc w next Hw s _. subst s.
  assert (HC : exists m, (m = MRoll \/ m = MPaint) /\
             core (translate_word (set_clock (rstate0 off) tc 0) w next) = ([], creator0, creator0, creator0, m, None)).
  { destruct Hw as [->|[->|[->| ->]]].
    - exists MRoll. split; [auto|]. cbv -[get_time]. destruct (get_time _ _ _); reflexivity.
    - exists MRoll. split; [auto|]. cbv -[get_time]. destruct (get_time _ _ _); reflexivity.
    - exists MRoll. split; [auto|]. cbv -[get_time]. destruct (get_time _ _ _); reflexivity.
    - exists MPaint. split; [auto|]. cbv -[get_time]. destruct (get_time _ _ _); reflexivity. }
  destruct HC as (m & Hm & HC). set (s := translate_word _ _ _) in *.
  destruct (core_eq_full s m HC) as (H1 & H2 & H3 & H4 & H5 & H6).
  split.
  - unfold rp_inv. rewrite H2, H3, H4, H5, H6. repeat split; auto; try apply wf_creator0.
  - unfold total, buf. rewrite H1, H2, H3, H4, H5. destruct Hm as [->| ->]; reflexivity.
Qed.

(* ---- whole streams -------------------------------------------------------------------------------- *)
Fixpoint sent_lines (s : rstate) (ls : list sline) : str :=
  match ls with
  | [] => []
  | l :: t => sent (set_clock s (fst l) 0) (snd l) ++ sent_lines (translate_line s l) t
  end.
Definition caps_text (caps : list precap) : str := concat (map (fun c => concat (map ctext (pc_nodes c))) caps).

Lemma translate_lines_err : forall ls s e, r_err s = Some e -> fold_left translate_line ls s = s.
Proof.
  induction ls as [|l t IH]; intros s e H; [reflexivity|].
  cbn [fold_left]. unfold translate_line at 2. rewrite H. exact (IH s e H).
Qed.

Lemma translate_lines_ok : forall ls s, r_err (fold_left translate_line ls s) = None -> r_err s = None.
Proof.
  intros ls s H. destruct (r_err s) as [e|] eqn:E; [|reflexivity].
  rewrite (translate_lines_err ls s e E) in H. congruence.
Qed.

Theorem rp_lines : forall ls s, rp_inv s -> forallb (fun l => forallb rp_word (snd l)) ls = true -> r_err s = None ->
  r_err (fold_left translate_line ls s) = None ->
  total (fold_left translate_line ls s) = total s ++ nonspace (sent_lines s ls) /\
  rp_inv (fold_left translate_line ls s).
Proof.
  induction ls as [|l t IH]; intros s I Hls He Hfin.
  - cbn [fold_left sent_lines nonspace filter]. rewrite app_nil_r. split; [reflexivity|exact I].
  - cbn [forallb] in Hls. apply andb_true_iff in Hls. destruct Hls as [Hl Ht].
    cbn [fold_left sent_lines] in *.
    pose proof (translate_lines_ok _ _ Hfin) as He1.
    assert (El : translate_line s l = translate_words (set_clock s (fst l) 0) (snd l))
      by (unfold translate_line; rewrite He; reflexivity).
    rewrite El in *.
    assert (I0 : rp_inv (set_clock s (fst l) 0)) by (apply (inv_core _ s); [reflexivity|exact I]).
    destruct (rp_words (snd l) _ I0 Hl He He1) as [T1 I1].
    destruct (IH _ I1 Ht He1 Hfin) as [T2 I2].
    split; [|exact I2]. rewrite T2, T1, nonspace_app, app_assoc.
    rewrite (total_core (set_clock s (fst l) 0) s) by reflexivity. reflexivity.
Qed.

Theorem rollup_painton_conserved : forall off tc0 w0 ws0 ls caps,
  (w0 = w_ru2 \/ w0 = w_ru3 \/ w0 = w_ru4 \/ w0 = w_rdc) ->
  forallb rp_word ws0 = true -> forallb (fun l => forallb rp_word (snd l)) ls = true ->
  read off ((tc0, w0 :: ws0) :: ls) = ROk caps ->
  nonspace (caps_text caps) = nonspace (sent_lines (rstate0 off) ((tc0, w0 :: ws0) :: ls)).
Proof.
  intros off tc0 w0 ws0 ls caps Hw0 Hws0 Hls Hread.
  unfold read, run_lines in Hread. cbv zeta in Hread. cbn [fold_left] in Hread.
  set (sA := translate_line (rstate0 off) (tc0, w0 :: ws0)) in *.
  set (S := fold_left translate_line ls sA) in *.
  (* no error anywhere *)
  destruct (r_err S) as [e|] eqn:ES; [rewrite ES in Hread; discriminate|].
  destruct (r_err (flush_implicit S)) as [e|] eqn:EF; [discriminate|].
  pose proof (translate_lines_ok ls sA ES) as EA.
  set (s0 := set_clock (rstate0 off) tc0 0).
  set (nx := match ws0 with n :: _ => Some n | [] => None end).
  set (s1 := translate_word s0 w0 nx).
  assert (ElA : sA = translate_words s1 ws0) by reflexivity.
  rewrite ElA in EA. pose proof (translate_words_ok _ _ EA) as E1.
  (* the three stages *)
  destruct (rp_enter off tc0 w0 nx Hw0 E1) as [I1 T1]. fold s0 s1 in I1, T1.
  destruct (rp_words ws0 s1 I1 Hws0 E1 EA) as [TA IA]. rewrite <- ElA in TA, IA, EA.
  destruct (rp_lines ls sA IA Hls EA ES) as [TS IS]. fold S in TS, IS.
  destruct (flush_implicit_spec S IS) as (_ & TF & CF & _).
  (* the captions returned *)
  apply flash_rejected in Hread. destruct Hread as [-> _].
  unfold caps_text. fold ctext_of. rewrite stash_text_fix_last.
  assert (Etot : nonspace (stash_text (r_stash (flush_implicit S))) = total S).
  { rewrite <- TF. unfold total. rewrite CF. cbn [nonspace filter]. rewrite app_nil_r. reflexivity. }
  rewrite Etot, TS, TA, T1. cbn [app].
  (* the characters sent *)
  cbn [sent_lines fst snd sent]. fold s0 nx s1. fold sA.
  assert (W0 : word_chars w0 = []).
  { unfold word_chars. destruct ctrl_commands as (C2 & C3 & C4 & Cd & _).
    destruct Hw0 as [->|[->|[->| ->]]]; rewrite ?C2, ?C3, ?C4, ?Cd; reflexivity. }
  rewrite W0. destruct (fst (handle_double s0 w0)); cbn [app]; rewrite nonspace_app; reflexivity.
Qed.

(* ---- examples (non-vacuity) ---------------------------------------------------------------------------- *)
(* storing a buffer "ab c" / break / "d " on top of a caption list that already holds "x y" *)
Example create_and_store_text_example :
  let c := mkCr [mkI IText [97; 98; 32; 99] (14, 0); mkI IBreak [] (15, 0); mkI IText [100; 32] (15, 0)] SNone in
  let s := create_and_store stash0 (mkCr [mkI IText [120; 32; 121] (1, 0)] SNone) 0 0 in
  wf_nodes (cr_nodes c) /\ nonspace (stash_text s) = [120; 121] /\ nonspace (content c) = [97; 98; 99; 100] /\
  nonspace (stash_text (create_and_store s c 1000000 0)) = [120; 121; 97; 98; 99; 100].
Proof.
  intros c s.
  assert (W : wf_nodes (cr_nodes c)).
  { intros n Hn Ht. cbn [c cr_nodes In] in Hn. destruct Hn as [<-|[<-|[<-|[]]]]; try discriminate Ht; reflexivity. }
  split; [exact W|]. split; [vm_compute; reflexivity|]. split; [vm_compute; reflexivity|].
  rewrite (create_and_store_text s c 1000000 0 W). vm_compute. reflexivity.
Qed.

(* roll-up 2, carriage return, PAC row 15, "ab": one more "ab" is handed to the buffer; a carriage return moves the text
   to the caption list and hands over nothing *)
Local Notation ex_enter := (translate_word (set_clock (rstate0 0) (lit "00:00:01:00") 0) w_ru2 (Some w_cr)).
Local Notation ex_state := (translate_words ex_enter [w_cr; 38000; 24930]).

Example rp_step_example :
  rp_inv ex_state /\ r_err ex_state = None /\ total ex_state = [97; 98] /\
  rp_word 24930 = true /\ fst (handle_double ex_state 24930) = false /\ word_chars 24930 = [97; 98] /\
  total (translate_word ex_state 24930 None) = [97; 98; 97; 98] /\
  total (translate_word ex_state w_cr None) = [97; 98] /\ content (buf (translate_word ex_state w_cr None)) = [].
Proof.
  assert (E1 : r_err ex_enter = None) by (vm_compute; reflexivity).
  assert (Hfin : r_err ex_state = None) by (vm_compute; reflexivity).
  assert (Hf : forallb rp_word [w_cr; 38000; 24930] = true) by (vm_compute; reflexivity).
  destruct (rp_enter 0 (lit "00:00:01:00") w_ru2 (Some w_cr) ltac:(auto) E1) as [I1 _].
  destruct (rp_words [w_cr; 38000; 24930] _ I1 Hf E1 Hfin) as [_ I].
  assert (T : total ex_state = [97; 98]) by (vm_compute; reflexivity).
  assert (Hw : rp_word 24930 = true) by (vm_compute; reflexivity).
  assert (Hc : rp_word w_cr = true) by (vm_compute; reflexivity).
  assert (F1 : r_err (translate_word ex_state 24930 None) = None) by (vm_compute; reflexivity).
  assert (F2 : r_err (translate_word ex_state w_cr None) = None) by (vm_compute; reflexivity).
  destruct (rp_step ex_state 24930 None I Hw Hfin F1) as [S1 _].
  destruct (rp_step ex_state w_cr None I Hc Hfin F2) as [S2 _].
  split; [exact I|]. split; [exact Hfin|]. split; [exact T|]. split; [exact Hw|].
  split; [vm_compute; reflexivity|]. split; [vm_compute; reflexivity|].
  split; [rewrite S1, T; vm_compute; reflexivity|]. split; [rewrite S2, T; vm_compute; reflexivity|].
  vm_compute. reflexivity.
Qed.
