(* C03: the strict XML content parser reads xml_escape(s) back as the text s, for every string over XML Char. *)
From Coq Require Import List ZArith Bool Lia ZifyBool.
From PV Require Import lib.Sx lib.Str model.TextNodes model.TextWrite spec.SpecTextXml proofs.TextStrFacts.
Import ListNotations.
Open Scope Z_scope.

(* per-character view of xml.sax.saxutils.escape *)
Definition xesc1 (c : Z) : str :=
  if c =? 38 then lit "&amp;" else if c =? 62 then lit "&gt;" else if c =? 60 then lit "&lt;" else [c].
Definition xesc (s : str) : str := flat_map xesc1 s.

Lemma xml_escape_flat : forall s, xml_escape s = xesc s.
Proof.
  intros s. unfold xml_escape, xesc.
  change (lit "&") with [38]. change (lit ">") with [62]. change (lit "<") with [60].
  rewrite !replace_single, !flat_map_flat_map.
  apply flat_map_ext_str. intros x. unfold subst1 at 3.
  destruct (Z.eqb_spec x 38) as [->|H38]; [vm_compute; reflexivity|].
  cbn [flat_map]. rewrite app_nil_r. unfold subst1 at 2.
  destruct (Z.eqb_spec x 62) as [->|H62]; [vm_compute; reflexivity|].
  cbn [flat_map]. rewrite app_nil_r. unfold subst1, xesc1.
  destruct (Z.eqb_spec x 60) as [->|H60]; [vm_compute; reflexivity|].
  destruct (Z.eqb_spec x 38); [congruence|]. destruct (Z.eqb_spec x 62); [congruence|]. reflexivity.
Qed.

(* text characters: XML Char other than CR (a literal CR is a line end and is normalised to LF by every XML parser) *)
Definition xml_text_char (c : Z) : bool := xml_char c && negb (c =? 13).

Lemma trun_app : forall a b st,
  trun st (a ++ b) = match trun st a with Some st' => trun st' b | None => None end.
Proof.
  induction a as [|c a IH]; intros b st; [reflexivity|].
  cbn [app trun]. destruct (tstep st c); [apply IH|reflexivity].
Qed.

Lemma tstep_text_char : forall c nbr cur out, xml_text_char c = true -> c <> 38 -> c <> 60 -> c <> 62 ->
  tstep (mkT (MText nbr false) cur out) c = Some (mkT (MText (if c =? 93 then S nbr else 0%nat) false) (c :: cur) out).
Proof.
  intros c nbr cur out Hc H38 H60 H62. unfold xml_text_char in Hc. apply andb_true_iff in Hc. destruct Hc as [Hx H13].
  unfold tstep, tstep_gen. cbn [ts_mode ts_cur ts_out].
  destruct (Z.eqb_spec c 60); [congruence|]. destruct (Z.eqb_spec c 38); [congruence|].
  rewrite Hx. cbn [negb]. destruct (Z.eqb_spec c 62); [congruence|]. cbn [andb].
  destruct (c =? 13); [discriminate|]. rewrite andb_false_r. reflexivity.
Qed.

Lemma trun_xesc1 : forall c nbr cur out, xml_text_char c = true ->
  exists nbr', trun (mkT (MText nbr false) cur out) (xesc1 c) = Some (mkT (MText nbr' false) (c :: cur) out).
Proof.
  intros c nbr cur out Hc. unfold xesc1.
  destruct (Z.eqb_spec c 38) as [->|H38]; [exists 0%nat; vm_compute; reflexivity|].
  destruct (Z.eqb_spec c 62) as [->|H62]; [exists 0%nat; vm_compute; reflexivity|].
  destruct (Z.eqb_spec c 60) as [->|H60]; [exists 0%nat; vm_compute; reflexivity|].
  eexists. cbn [trun]. rewrite tstep_text_char by assumption. reflexivity.
Qed.

Lemma trun_xesc : forall s nbr cur out, forallb xml_text_char s = true ->
  exists nbr', trun (mkT (MText nbr false) cur out) (xesc s) = Some (mkT (MText nbr' false) (rev s ++ cur) out).
Proof.
  induction s as [|c t IH]; intros nbr cur out Hs.
  - exists nbr. reflexivity.
  - cbn [forallb] in Hs. apply andb_true_iff in Hs. destruct Hs as [Hc Ht].
    unfold xesc. cbn [flat_map]. rewrite trun_app.
    destruct (trun_xesc1 c nbr cur out Hc) as [n1 ->].
    destruct (IH n1 (c :: cur) out Ht) as [n2 H2]. exists n2.
    fold (xesc t). rewrite H2. cbn [rev]. rewrite <- app_assoc. reflexivity.
Qed.

Definition text_nodes (s : str) : list xnode := match s with [] => [] | _ => [XText s] end.

Lemma xtokens_escape : forall s, forallb xml_text_char s = true ->
  xtokens (xml_escape s) = Some (match s with [] => [] | _ => [TkText s] end).
Proof.
  intros s Hs. rewrite xml_escape_flat. unfold xtokens, t_init.
  destruct (trun_xesc s 0%nat [] [] Hs) as [n ->]. unfold t_finish. cbn [ts_mode ts_cur ts_out].
  rewrite app_nil_r. destruct s as [|c t]; [reflexivity|].
  unfold flush. destruct (rev (c :: t)) eqn:E.
  - apply (f_equal (@length Z)) in E. rewrite rev_length in E. discriminate.
  - rewrite <- E, rev_involutive. reflexivity.
Qed.

Theorem escape_parses_back : forall s, forallb xml_text_char s = true ->
  content_parse (xml_escape s) = Some (text_nodes s).
Proof.
  intros s Hs. unfold content_parse. rewrite xtokens_escape by exact Hs.
  destruct s; reflexivity.
Qed.

(* and what the consumer displays is the one line s *)
Corollary escape_displays : forall s, forallb xml_text_char s = true ->
  option_map xlines (content_parse (xml_escape s)) = Some [s].
Proof.
  intros s Hs. rewrite escape_parses_back by exact Hs. destruct s as [|c t]; [reflexivity|].
  cbn [option_map text_nodes]. unfold xlines. cbn. reflexivity.
Qed.
