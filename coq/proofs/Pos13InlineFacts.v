(* C13 (wave 7): DFXPWriter with write_inline_positioning (dfxp_transform_inline, after the fix of the set-level leak):
   every layout that reaches the document - as a region or as inline attributes of a div / p / span, the set-level
   fallback of get_positioning_info included - is in percentages; refusal as an equivalence; and, for both modes, every
   region of the region table is made from a percentage layout. *)
From Coq Require Import List ZArith QArith Qabs Bool Lia.
From PV Require Import lib.Sx lib.Str lib.Result model.Geometry model.Positioning model.DfxpTree spec.SpecGeom spec.SpecPos spec.SpecPos7.
From PV Require Import proofs.GeomStr proofs.GeomEq proofs.GeomFacts proofs.PosFacts proofs.Pos12Facts proofs.DfxpTreeFacts proofs.Pos12RegionFacts.
Import ListNotations.
Open Scope Z_scope.

Lemma rel_only_pct : forall c o o', w_rel c = true -> rel_only c o = Ok o' -> opt_all_pct o' = true.
Proof.
  intros c o o' Hr E1. unfold rel_only in E1. destruct o as [l|]; [|inversion E1; reflexivity].
  rewrite Hr, andb_true_r in E1. destruct (layout_truthy l) eqn:T.
  - destruct (layout_as_pct l (w_w c) (w_h c)) eqn:E3; [|discriminate]. cbn [bind] in E1. inversion E1; subst.
    cbn [opt_all_pct]. eapply layout_as_pct_all_pct; eauto.
  - inversion E1; subst. cbn [opt_all_pct]. apply falsy_all_pct. exact T.
Qed.

Theorem dfxp_inline_writes_percentages : forall c s s', w_rel c = true -> dfxp_transform_inline c s = Ok s' ->
  opt_all_pct (ns_layout s') = true /\ forallb opt_all_pct (written_layouts s') = true.
Proof.
  intros c s s' Hr H. unfold dfxp_transform_inline in H.
  destruct (rel_only c (ns_layout s)) as [g|] eqn:Eg; [|discriminate]. cbn [bind] in H.
  destruct (res_map (dfxp_lang c) (ns_langs s)) as [ls|] eqn:E; [|discriminate]. cbn [bind] in H. inversion H; subst.
  cbn [ns_layout]. split; [eapply rel_only_pct; eauto|].
  unfold written_layouts. cbn [ns_langs]. eapply dfxp_langs_pct; eauto.
Qed.

(* get_positioning_info returns one of the four layouts it is given *)
Lemma dfxp_choice_cases : forall g l c n,
  dfxp_choice g l c n = n \/ dfxp_choice g l c n = c \/ dfxp_choice g l c n = l \/ dfxp_choice g l c n = g.
Proof.
  intros g l c n. unfold dfxp_choice. cbn zeta.
  destruct (opt_layout_truthy n) eqn:Tn.
  - rewrite Tn. rewrite Tn. left. reflexivity.
  - destruct (opt_layout_truthy c) eqn:Tc.
    + rewrite Tc. right. left. reflexivity.
    + destruct (opt_layout_truthy l); [right; right; left|right; right; right]; reflexivity.
Qed.

Lemma in_written_lang : forall s lg, In lg (ns_langs s) -> In (nl_layout lg) (written_layouts s).
Proof. intros s lg H. unfold written_layouts. apply in_flat_map. exists lg. split; [exact H|left; reflexivity]. Qed.
Lemma in_written_cap : forall s lg cp, In lg (ns_langs s) -> In cp (nl_caps lg) -> In (nc_layout cp) (written_layouts s).
Proof.
  intros s lg cp H Hc. unfold written_layouts. apply in_flat_map. exists lg. split; [exact H|right].
  apply in_flat_map. exists cp. split; [exact Hc|left; reflexivity].
Qed.
Lemma in_written_node : forall s lg cp n, In lg (ns_langs s) -> In cp (nl_caps lg) -> In n (nc_nodes cp) ->
  In (n_layout n) (written_layouts s).
Proof.
  intros s lg cp n H Hc Hn. unfold written_layouts. apply in_flat_map. exists lg. split; [exact H|right].
  apply in_flat_map. exists cp. split; [exact Hc|right; apply in_map; exact Hn].
Qed.

(* what is written inline on ANY element is one of the set's layouts; so with relativization on it is in percentages *)
Theorem inline_layouts_pct : forall s, opt_all_pct (ns_layout s) = true -> forallb opt_all_pct (written_layouts s) = true ->
  forallb opt_all_pct (inline_layouts s) = true.
Proof.
  intros s Hg Hw. rewrite forallb_forall in Hw. apply forallb_forall. intros x Hx.
  assert (None_ok : opt_all_pct None = true) by reflexivity.
  assert (Ch : forall l c n, opt_all_pct l = true -> opt_all_pct c = true -> opt_all_pct n = true ->
                             opt_all_pct (dfxp_choice (ns_layout s) l c n) = true).
  { intros l c n Hl Hc Hn. destruct (dfxp_choice_cases (ns_layout s) l c n) as [->|[->|[->| ->]]]; assumption. }
  unfold inline_layouts in Hx. apply in_flat_map in Hx. destruct Hx as (lg & Hlg & Hx).
  pose proof (Hw _ (in_written_lang s lg Hlg)) as Pl.
  destruct Hx as [<-|Hx]; [apply Ch; [exact Pl|reflexivity|reflexivity]|].
  apply in_flat_map in Hx. destruct Hx as (cp & Hcp & Hx).
  pose proof (Hw _ (in_written_cap s lg cp Hlg Hcp)) as Pc.
  destruct Hx as [<-|Hx]; [apply Ch; [exact Pl|exact Pc|reflexivity]|].
  apply in_flat_map in Hx. destruct Hx as (n & Hn & Hx).
  destruct (style_start (n_kind n) && opt_layout_truthy (n_layout n)); [|destruct Hx].
  destruct Hx as [<-|[]]. apply Ch; [exact Pl|exact Pc|]. exact (Hw _ (in_written_node s lg cp n Hlg Hcp Hn)).
Qed.

Theorem dfxp_inline_attributes_percent : forall c s s', w_rel c = true -> dfxp_transform_inline c s = Ok s' ->
  forallb opt_all_pct (inline_layouts s') = true.
Proof.
  intros c s s' Hr H. destruct (dfxp_inline_writes_percentages c s s' Hr H) as [Hg Hw]. apply inline_layouts_pct; assumption.
Qed.

(* refusal: exactly when the set-level layout or a language / caption / node-level layout needs a missing dimension *)
Theorem dfxp_inline_refused_iff : forall c s, w_rel c = true ->
  ((exists e, dfxp_transform_inline c s = Err e) <-> existsb (opt_needs c) (ns_layout s :: written_layouts s) = true).
Proof.
  intros c s Hr. cbn [existsb]. rewrite orb_true_iff, <- (rel_only_refused_iff c _ Hr), <- (dfxp_refused_iff c s Hr).
  unfold dfxp_transform_inline, dfxp_transform. destruct (rel_only c (ns_layout s)) as [g|e0] eqn:Eg; cbn [bind].
  - destruct (res_map (dfxp_lang c) (ns_langs s)) as [ls|e1]; cbn [bind].
    + split; [intros [e H]; discriminate|intros [[e H]|[e H]]; discriminate].
    + split; [intros _; right; eauto|eauto].
  - split; [intros _; left; eauto|eauto].
Qed.

Theorem dfxp_inline_refuses_with_relativization_error : forall c s e, w_rel c = true ->
  dfxp_transform_inline c s = Err e -> e = ERelativization.
Proof.
  intros c s e Hr H. unfold dfxp_transform_inline in H. destruct (rel_only c (ns_layout s)) as [g|e0] eqn:Eg; cbn [bind] in H.
  - apply (dfxp_refuses_with_relativization_error c s e Hr). unfold dfxp_transform.
    destruct (res_map (dfxp_lang c) (ns_langs s)) as [ls|e1]; cbn [bind] in *; [discriminate|exact H].
  - inversion H; subst. unfold rel_only in Eg. destruct (ns_layout s) as [l|]; [|discriminate].
    destruct (layout_truthy l && w_rel c); [|discriminate].
    destruct (layout_as_pct l (w_w c) (w_h c)) eqn:E3; [discriminate|]. cbn [bind] in Eg. inversion Eg; subst.
    eapply layout_as_pct_err; eauto.
Qed.

(* ---- the region table of the transformed set: every <region> is made from a percentage layout ---------------------- *)
Theorem regions_of_pct_layouts : forall ls, forallb opt_all_pct ls = true ->
  forall k id, In (k, id) (region_map ls) -> all_pct k = true.
Proof.
  intros ls H k id Hin. assert (Hk : In k (map fst (region_map ls))) by (apply in_map_iff; exists (k, id); split; [reflexivity|exact Hin]).
  rewrite region_map_keys in Hk. apply in_app_or in Hk. destruct Hk as [Hk|[<-|[]]]; [|reflexivity].
  apply created_keys_occur in Hk. destruct Hk as [Hk _]. rewrite forallb_forall in H. exact (H _ Hk).
Qed.

Theorem dfxp_inline_regions_percent : forall c s s', w_rel c = true -> dfxp_transform_inline c s = Ok s' ->
  forall k id, In (k, id) (region_map (written_layouts s')) -> all_pct k = true.
Proof. intros c s s' Hr H. apply regions_of_pct_layouts. exact (proj2 (dfxp_inline_writes_percentages c s s' Hr H)). Qed.

Theorem dfxp_regions_percent : forall c s s', w_rel c = true -> dfxp_transform c s = Ok s' ->
  forall k id, In (k, id) (region_map (written_layouts s')) -> all_pct k = true.
Proof. intros c s s' Hr H. apply regions_of_pct_layouts. eapply dfxp_writes_percentages; eauto. Qed.
