(* C17, wave 2: the DOCUMENT the writer model produces is a Scenarist document: the specification's parser
   (spec.SpecSccw.parse_document - the same one that feeds the reader model in model/SccRoundTrip.v) splits it into
   exactly the lines the writer meant: frame number of every time written, and the load / clear words. *)
From Coq Require Import List ZArith QArith Lia Bool ZifyBool Arith.
From PV Require Import lib.Sx lib.Str lib.Result model.GenSccw model.SccWrap model.SccWrite spec.SpecSccw.
From PV Require Import proofs.SccwStr proofs.SccWriteFacts proofs.SccTimingFacts proofs.SccWordsFacts.
Import ListNotations.
Open Scope Z_scope.

Definition hex4 (w : Z * Z) : str := hex2 (fst w) ++ hex2 (snd w).
Definition byte_ok (w : Z * Z) : bool := (0 <=? fst w) && (fst w <? 256) && (0 <=? snd w) && (snd w <? 256).

Definition nochar (c : Z) (s : str) : bool := forallb (fun x => negb (x =? c)) s.

Lemma hex_digit_range : forall d, 0 <= d < 16 -> 48 <= hex_digit d <= 57 \/ 97 <= hex_digit d <= 102.
Proof. intros d H. unfold hex_digit. destruct (d <? 10) eqn:E; lia. Qed.

Lemma hex4_chars : forall w, byte_ok w = true ->
  nochar 32 (hex4 w) = true /\ nochar 9 (hex4 w) = true /\ nochar 10 (hex4 w) = true /\ length (hex4 w) = 4%nat.
Proof.
  intros [a b] H. unfold byte_ok in H. cbn [fst snd] in H. unfold hex4, hex2, nochar. cbn [fst snd].
  assert (Ea : (a <? 0) = false) by lia. assert (Eb : (b <? 0) = false) by lia. rewrite Ea, Eb. cbn [app forallb length].
  pose proof (hex_digit_range (a / 16)). pose proof (hex_digit_range (a mod 16)).
  pose proof (hex_digit_range (b / 16)). pose proof (hex_digit_range (b mod 16)).
  assert (0 <= a / 16 < 16) by (split; [apply Z.div_pos|apply Z.div_lt_upper_bound]; lia).
  assert (0 <= b / 16 < 16) by (split; [apply Z.div_pos|apply Z.div_lt_upper_bound]; lia).
  assert (0 <= a mod 16 < 16) by (apply Z.mod_pos_bound; lia). assert (0 <= b mod 16 < 16) by (apply Z.mod_pos_bound; lia).
  repeat split; lia.
Qed.

Lemma parse_hex4 : forall w, byte_ok w = true -> parse_word (hex4 w) = Some w.
Proof.
  intros [a b] H. unfold byte_ok in H. cbn [fst snd] in H.
  destruct (render_word_parses a b ltac:(lia) ltac:(lia)) as (c1 & c2 & c3 & c4 & E & P).
  unfold render_word in E. cbn [fst snd] in E. unfold hex4. cbn [fst snd].
  assert (L : hex2 a ++ hex2 b = [c1; c2; c3; c4]).
  { rewrite app_assoc in E. apply (f_equal (@rev Z)) in E. rewrite rev_app_distr in E. cbn [rev app] in E.
    inversion E as [E']. apply (f_equal (@rev Z)) in E'. rewrite rev_involutive in E'. rewrite E'. reflexivity. }
  rewrite L. exact P.
Qed.

Lemma render_words_hex4 : forall ws, render_words ws = flat_map (fun w => hex4 w ++ [32]) ws.
Proof. intros. unfold render_words. apply flat_map_ext. intros w. unfold render_word, hex4. rewrite <- app_assoc. reflexivity. Qed.

(* words followed by one last word without its space: split at spaces gives the groups back *)
Lemma split_words : forall ws last, forallb byte_ok ws = true -> byte_ok last = true ->
  split_ch 32 (render_words ws ++ hex4 last) = map hex4 ws ++ [hex4 last].
Proof.
  induction ws as [|w t IH]; intros last H Hl.
  - cbn [render_words flat_map app map]. apply split_ch_nosep. apply (hex4_chars last Hl).
  - cbn [forallb] in H. apply andb_prop in H. destruct H as [Hw Ht].
    rewrite render_words_hex4. cbn [flat_map]. rewrite <- render_words_hex4, <- !app_assoc. cbn [app].
    rewrite split_ch_app_sep, (split_ch_nosep 32 (hex4 w)) by apply (hex4_chars w Hw).
    rewrite IH by assumption. reflexivity.
Qed.

Lemma opt_map_app : forall (A B : Type) (f : A -> option B) a b x y,
  opt_map f a = Some x -> opt_map f b = Some y -> opt_map f (a ++ b) = Some (x ++ y).
Proof.
  induction a as [|h t IH]; intros b x y Ha Hb; cbn [opt_map app] in *.
  - inversion Ha; subst. exact Hb.
  - destruct (f h); [|discriminate]. destruct (opt_map f t) eqn:E; [|discriminate]. inversion Ha; subst.
    rewrite (IH b l y eq_refl Hb). reflexivity.
Qed.
Lemma opt_map_hex4 : forall ws, forallb byte_ok ws = true -> opt_map parse_word (map hex4 ws) = Some ws.
Proof.
  induction ws as [|w t IH]; intros H; [reflexivity|]. cbn [forallb] in H. apply andb_prop in H. destruct H as [Hw Ht].
  cbn [map opt_map]. rewrite parse_hex4, IH by assumption. reflexivity.
Qed.

(* the word part of a line *)
Definition words_text (ws : list (Z * Z)) (last : Z * Z) : str := render_words ws ++ hex4 last.

Lemma words_text_parses : forall ws last, forallb byte_ok ws = true -> byte_ok last = true ->
  opt_map parse_word (split_ch 32 (words_text ws last)) = Some (ws ++ [last]).
Proof.
  intros ws last H Hl. unfold words_text. rewrite split_words by assumption.
  apply opt_map_app; [apply opt_map_hex4; exact H|]. cbn [map opt_map]. rewrite parse_hex4 by exact Hl. reflexivity.
Qed.

Lemma nochar_app : forall c a b, nochar c (a ++ b) = nochar c a && nochar c b.
Proof. intros. unfold nochar. apply forallb_app. Qed.

Lemma words_text_nochar : forall c ws last, (c = 9 \/ c = 10) -> forallb byte_ok ws = true -> byte_ok last = true ->
  nochar c (words_text ws last) = true.
Proof.
  intros c ws last Hc H Hl. unfold words_text. rewrite nochar_app.
  assert (L : nochar c (hex4 last) = true) by (destruct Hc; subst; apply (hex4_chars last Hl)). rewrite L, andb_true_r.
  rewrite render_words_hex4. induction ws as [|w t IH]; [reflexivity|]. cbn [forallb] in H. apply andb_prop in H. destruct H as [Hw Ht].
  cbn [flat_map]. rewrite !nochar_app, IH by exact Ht.
  assert (Lw : nochar c (hex4 w) = true) by (destruct Hc; subst; apply (hex4_chars w Hw)). rewrite Lw.
  destruct Hc; subst; reflexivity.
Qed.

(* the timecode text: digits and colons only *)
Lemma two_digits_only : forall z, 0 <= z -> forallb is_digit (two z) = true.
Proof.
  intros z H. unfold two. assert (E : (z <? 0) = false) by lia. rewrite E.
  destruct (dec_nonneg_spec z H) as (D1 & _ & _). apply (zpad_spec 2 _ D1).
Qed.
Lemma format_frames_nochar : forall c f, (c = 9 \/ c = 10) -> 0 <= f -> nochar c (format_frames f) = true.
Proof.
  intros c f Hc H. unfold format_frames.
  assert (D : forall z, 0 <= z -> nochar c (two z) = true).
  { intros z Hz. pose proof (two_digits_only z Hz) as T. unfold nochar. rewrite forallb_forall in *. intros x Hx.
    specialize (T x Hx). unfold is_digit in T. destruct Hc; subst; lia. }
  rewrite !nochar_app, !D; try (apply Z.mod_pos_bound; lia); try (apply Z.div_pos; lia).
  destruct Hc; subst; reflexivity.
Qed.

(* one line: timecode, TAB, words *)
Definition line_text (t : Q) (ws : list (Z * Z)) (last : Z * Z) : str := format_timestamp t ++ [9] ++ words_text ws last.

Lemma line_parses : forall t ws last, (0 <= t)%Q -> forallb byte_ok ws = true -> byte_ok last = true ->
  parse_line (line_text t ws last) = Some (tc_frames t, ws ++ [last]).
Proof.
  intros t ws last Ht H Hl. unfold parse_line, line_text.
  assert (F : 0 <= tc_frames t) by (change 0 with (tc_frames 0); apply tc_frames_mono; exact Ht).
  cbn [app]. rewrite split_ch_app_sep.
  rewrite (split_ch_nosep 9 (format_timestamp t)) by (apply format_frames_nochar; [left; reflexivity|exact F]).
  rewrite (split_ch_nosep 9 (words_text ws last)) by (apply words_text_nochar; auto).
  cbn [app]. rewrite (timestamp_roundtrip t Ht), words_text_parses by assumption. reflexivity.
Qed.
Lemma line_no_newline : forall t ws last, (0 <= t)%Q -> forallb byte_ok ws = true -> byte_ok last = true ->
  nochar 10 (line_text t ws last) = true /\ line_text t ws last <> [].
Proof.
  intros t ws last Ht H Hl. unfold line_text. split.
  - rewrite !nochar_app, (words_text_nochar 10) by auto.
    assert (F : 0 <= tc_frames t) by (change 0 with (tc_frames 0); apply tc_frames_mono; exact Ht).
    unfold format_timestamp. rewrite (format_frames_nochar 10) by auto. reflexivity.
  - intros E. apply (f_equal (@length Z)) in E. rewrite !app_length in E. simpl in E. lia.
Qed.

(* ---- the document: header, blank line, then every line followed by a blank line ------------------------------ *)
Definition doc_text (lines : list str) : str := sccw_header ++ [10; 10] ++ flat_map (fun l => l ++ [10; 10]) lines.

Lemma split_lines : forall lines, (forall l, In l lines -> nochar 10 l = true /\ l <> []) ->
  filter (fun l => match l with [] => false | _ => true end) (split_ch 10 (flat_map (fun l => l ++ [10; 10]) lines)) = lines.
Proof.
  induction lines as [|l t IH]; intros H; [reflexivity|]. cbn [flat_map]. rewrite <- app_assoc. cbn [app].
  destruct (H l (or_introl eq_refl)) as [N NE].
  rewrite split_ch_app_sep, (split_ch_nosep 10 l) by exact N. cbn [app filter]. destruct l as [|c l']; [congruence|].
  change (10 :: flat_map (fun l0 => l0 ++ [10; 10]) t) with ([] ++ 10 :: flat_map (fun l0 : list Z => l0 ++ [10; 10]) t).
  rewrite split_ch_app_sep. cbn [split_ch split_ch_aux rev app filter]. f_equal. apply IH. intros x Hx. apply H. right. exact Hx.
Qed.

Lemma header_no_newline : nochar 10 sccw_header = true.
Proof. vm_compute. reflexivity. Qed.

Lemma parse_exact_document : forall doc lines, parse_exact doc = Some lines -> parse_document doc = Some lines.
Proof. intros doc lines H. unfold parse_document. rewrite H. reflexivity. Qed.

Theorem doc_parses : forall (ls : list (Q * list (Z * Z) * (Z * Z))),
  (forall l, In l ls -> (0 <= fst (fst l))%Q /\ forallb byte_ok (snd (fst l)) = true /\ byte_ok (snd l) = true) ->
  parse_document (doc_text (map (fun l => line_text (fst (fst l)) (snd (fst l)) (snd l)) ls))
  = Some (map (fun l => (tc_frames (fst (fst l)), snd (fst l) ++ [snd l])) ls).
Proof.
  intros ls H. apply parse_exact_document. unfold parse_exact, doc_text.
  cbn [app]. rewrite split_ch_app_sep, (split_ch_nosep 10 sccw_header) by exact header_no_newline. cbn [app].
  rewrite tbl_header, SccWordsFacts.str_eqb_refl.
  change (10 :: flat_map (fun l => l ++ [10; 10]) (map (fun l => line_text (fst (fst l)) (snd (fst l)) (snd l)) ls))
    with ([] ++ 10 :: flat_map (fun l : list Z => l ++ [10; 10]) (map (fun l => line_text (fst (fst l)) (snd (fst l)) (snd l)) ls)).
  rewrite split_ch_app_sep. cbn [split_ch split_ch_aux rev app filter].
  rewrite split_lines.
  - induction ls as [|l t IH]; [reflexivity|]. cbn [map opt_map].
    destruct (H l (or_introl eq_refl)) as (H1 & H2 & H3). rewrite line_parses by assumption.
    rewrite IH by (intros x Hx; apply H; right; exact Hx). reflexivity.
  - intros x Hx. apply in_map_iff in Hx. destruct Hx as [l [<- Hl]]. destruct (H l Hl) as (H1 & H2 & H3).
    apply line_no_newline; assumption.
Qed.

(* ---- from the writer model to lines --------------------------------------------------------------------------- *)
Definition pre4 : list (Z * Z) := [ENM; ENM; RCL; RCL].
Definition post3 : list (Z * Z) := [EDM; EDM; EOC].

Lemma word_odd_byte_ok : forall w, word_odd w = true -> byte_ok w = true.
Proof. intros [a b] H. unfold word_odd, odd_parity in H. unfold byte_ok. cbn [fst snd] in *. lia. Qed.
Lemma forallb_impl : forall (A : Type) (p q : A -> bool) l, (forall x, p x = true -> q x = true) -> forallb p l = true -> forallb q l = true.
Proof. intros A p q l H Hp. rewrite forallb_forall in *. auto. Qed.

Lemma load_text : forall ws, preamble ++ render_words ws ++ postamble = words_text (pre4 ++ ws ++ post3) EOC.
Proof.
  intros ws. unfold words_text. rewrite !render_words_app.
  change preamble with (render_words pre4). change postamble with (render_words post3 ++ hex4 EOC).
  rewrite <- !app_assoc. reflexivity.
Qed.
Lemma clear_text : clear_words = words_text [EDM] EDM.
Proof. reflexivity. Qed.

(* what is known about one element of PASS 2's result *)
Definition cap_ok (c : str * Q * option Q) : Prop :=
  (exists ws, fst (fst c) = render_words ws /\ forallb word_odd ws = true) /\ (0 <= snd (fst c))%Q /\
  match snd c with Some e => (0 <= e)%Q | None => True end.

Definition cap_lines (ws : list (Z * Z)) (c : str * Q * option Q) : list (Q * list (Z * Z) * (Z * Z)) :=
  (snd (fst c), pre4 ++ ws ++ post3, EOC) :: match snd c with Some e => [(e, [EDM], EDM)] | None => [] end.

Lemma caption_text_lines : forall out, Forall cap_ok out ->
  exists ls, flat_map write_caption out
             = flat_map (fun l => l ++ [10; 10]) (map (fun l => line_text (fst (fst l)) (snd (fst l)) (snd l)) ls)
    /\ (forall l, In l ls -> (0 <= fst (fst l))%Q /\ forallb byte_ok (snd (fst l)) = true /\ byte_ok (snd l) = true)
    /\ map (fun l => fst (fst l)) ls = emitted out
    /\ (forall l, In l ls -> forallb word_odd (snd (fst l) ++ [snd l]) = true).
Proof.
  induction out as [|c t IH]; intros F.
  { exists []. split; [reflexivity|]. split; [intros ? []|]. split; [reflexivity|intros ? []]. }
  inversion F as [|? ? Hc Ht]; subst. destruct (IH Ht) as (ls & E1 & E2 & E3 & E4).
  destruct Hc as ((ws & Ec & Ow) & Hs & He). destruct c as [[code s] eo]. cbn [fst snd] in *. subst code.
  exists (cap_lines ws (render_words ws, s, eo) ++ ls).
  assert (Bw : forallb byte_ok (pre4 ++ ws ++ post3) = true).
  { rewrite !forallb_app. rewrite (forallb_impl _ _ _ ws word_odd_byte_ok Ow). reflexivity. }
  assert (Pw : forallb word_odd ((pre4 ++ ws ++ post3) ++ [EOC]) = true).
  { rewrite !forallb_app, Ow. reflexivity. }
  split; [|split; [|split]].
  - cbn [flat_map]. rewrite map_app, flat_map_app. f_equal; [|exact E1].
    unfold write_caption, cap_lines. cbn [fst snd map flat_map]. unfold line_text. rewrite <- load_text.
    destruct eo as [e|]; cbn [map flat_map]; rewrite <- ?clear_text, ?app_nil_r, <- ?app_assoc; reflexivity.
  - intros l0 Hl. apply in_app_iff in Hl. destruct Hl as [Hl|Hl]; [|apply E2; exact Hl].
    unfold cap_lines in Hl. cbn [fst snd] in Hl. destruct Hl as [<-|Hl]; [cbn [fst snd]; split; [exact Hs|split; [exact Bw|reflexivity]]|].
    destruct eo as [e|]; [|destruct Hl]. destruct Hl as [<-|[]]. cbn [fst snd]. split; [exact He|split; reflexivity].
  - rewrite map_app, E3. unfold emitted. cbn [flat_map fst snd]. unfold cap_lines. cbn [fst snd].
    destruct eo; reflexivity.
  - intros l0 Hl. apply in_app_iff in Hl. destruct Hl as [Hl|Hl]; [|apply E4; exact Hl].
    unfold cap_lines in Hl. cbn [fst snd] in Hl. destruct Hl as [<-|Hl]; [cbn [fst snd]; exact Pw|].
    destruct eo as [e|]; [|destruct Hl]. destruct Hl as [<-|[]]. reflexivity.
Qed.

(* PASS 2 keeps the codes, advances the starts (never below 0), keeps or removes the ends *)
Lemma pass2_ahead_ok : forall todo c s e,
  cap_ok (c, s, Some e) -> Forall (fun x => cap_ok (fst (fst x), snd (fst x), Some (snd x))) todo ->
  Forall cap_ok (pass2_ahead c s e todo).
Proof.
  induction todo as [|[[c' s'] e'] t IH]; intros c s e H F; cbn [pass2_ahead].
  - constructor; [exact H|constructor].
  - inversion F as [|? ? H' Ft]; subst. cbn [fst snd] in H'. constructor.
    + destruct H as (Hw & Hs & He). split; [exact Hw|]. split; [exact Hs|].
      cbn [snd]. destruct (Qle_bool (pre_roll c' s') (e + 3 * mpc)); [exact I|exact He].
    + apply IH; [|exact Ft]. destruct H' as (Hw & Hs & He). split; [exact Hw|]. split; [|exact He].
      cbn [fst snd]. apply pre_roll_le. exact Hs.
Qed.

Lemma pass2_ok : forall codes, Forall (fun x => cap_ok (fst (fst x), snd (fst x), Some (snd x))) codes ->
  Forall cap_ok (pass2 [] codes).
Proof.
  intros [|[[c s] e] t] F; [constructor|]. rewrite pass2_lookahead. inversion F as [|? ? H Ft]; subst. cbn [fst snd] in H.
  apply pass2_ahead_ok; [|exact Ft]. destruct H as (Hw & Hs & He). split; [exact Hw|]. split; [|exact He].
  cbn [fst snd]. apply pre_roll_le. exact Hs.
Qed.

Lemma codes_ok : forall caps codes,
  res_map (fun c => do code <- text_to_code (w_text c); Ok (code, w_start c, w_end c)) caps = Ok codes ->
  (forall c, In c caps -> (0 <= w_start c)%Q /\ (0 <= w_end c)%Q /\ (length (layout_rows (w_text c)) <= 15)%nat) ->
  Forall (fun x => cap_ok (fst (fst x), snd (fst x), Some (snd x))) codes.
Proof.
  induction caps as [|c t IH]; intros codes H D; cbn [res_map] in H.
  - inversion H; subst. constructor.
  - destruct (D c (or_introl eq_refl)) as (Ds & De & Dr).
    destruct (all_bytes_odd_parity (w_text c) Dr) as (ws & Ew & Ow).
    rewrite word_stream_shape, Ew in H. cbn [bind] in H.
    destruct (res_map (fun c0 => do code <- text_to_code (w_text c0); Ok (code, w_start c0, w_end c0)) t) as [rest|] eqn:R;
      [|discriminate]. cbn [bind] in H. inversion H; subst. constructor.
    + cbn [fst snd]. split; [exists ws; split; [reflexivity|exact Ow]|]. split; assumption.
    + apply IH; [reflexivity|]. intros x Hx. apply D. right. exact Hx.
Qed.

(* document_parses: for cues with non-negative times laid out on at most 15 rows each, the document the writer
   model produces is a Scenarist document - header, then timecoded lines of four-hex-digit words - that the
   specification's parser splits into lines whose frame numbers are exactly the frame numbers of the times written
   (load line, optional clear line, per caption, in order) and whose every byte has odd parity *)
Theorem document_parses : forall caps doc, write caps = Ok doc ->
  (forall c, In c caps -> (0 <= w_start c)%Q /\ (0 <= w_end c)%Q /\ (length (layout_rows (w_text c)) <= 15)%nat) ->
  exists codes lines,
    res_map (fun c => do code <- text_to_code (w_text c); Ok (code, w_start c, w_end c)) caps = Ok codes /\
    parse_document doc = Some lines /\
    map fst lines = map tc_frames (emitted (pass2 [] codes)) /\
    forallb (fun l => forallb word_odd (snd l)) lines = true.
Proof.
  intros caps doc W D. unfold write in W.
  destruct (res_map (fun c => do code <- text_to_code (w_text c); Ok (code, w_start c, w_end c)) caps) as [codes|] eqn:R;
    [|discriminate]. cbn [bind] in W. inversion W; subst doc. clear W.
  destruct (caption_text_lines _ (pass2_ok codes (codes_ok caps codes R D))) as (ls & E1 & E2 & E3 & E4).
  exists codes, (map (fun l => (tc_frames (fst (fst l)), snd (fst l) ++ [snd l])) ls).
  split; [reflexivity|]. split.
  - rewrite E1. apply (doc_parses ls E2).
  - split.
    + rewrite map_map. cbn [fst]. rewrite <- E3, map_map. reflexivity.
    + apply forallb_forall. intros l Hl. apply in_map_iff in Hl. destruct Hl as [x [<- Hx]]. cbn [snd]. apply E4. exact Hx.
Qed.
