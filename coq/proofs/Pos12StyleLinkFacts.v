(* C12 (round 4): the style-aware lookup (model/DfxpStyleAlign.v) and the region-only reader of the tree theorem
   (Positioning.read_region) agree on elements without style-carried text-align: C12_dfxp_layout_roundtrip_written_corollary is the
   style-free instance of the style-aware scraper. *)
From Coq Require Import List ZArith QArith Bool Lia.
From PV Require Import lib.Sx lib.Str lib.Result model.Geometry model.Positioning model.DfxpAlign model.DfxpStyleAlign spec.SpecGeom spec.SpecPos.
From PV Require Import proofs.GeomStr proofs.Pos12Facts proofs.Pos12AlignFacts proofs.Pos12StyleAlignFacts.
Import ListNotations.
Open Scope Z_scope.

Lemma read_region_alignment : forall l r, read_region (layout_attrs l) = Ok r ->
  l_alignment r = Some (mkAlign (Some (h_of (l_alignment l))) (Some (v_of (l_alignment l)))).
Proof.
  intros l r H. unfold read_region in H.
  destruct (opt_res point_of_attr (ra_origin (layout_attrs l))); [|discriminate]. cbn [bind] in H.
  destruct (opt_res stretch_of_attr (ra_extent (layout_attrs l))); [|discriminate]. cbn [bind] in H.
  destruct (opt_res padding_from_attr (ra_padding (layout_attrs l))); [|discriminate]. cbn [bind] in H.
  inversion H; subst. cbn [l_alignment]. unfold layout_attrs, align_attrs. cbn [ra_text_align ra_display_align].
  destruct (l_alignment l) as [[[h|] [v|]]|]; reflexivity.
Qed.

Theorem plain_element_is_read_region : forall e parents l r, plain e -> Forall plain parents ->
  read_region (layout_attrs l) = Ok r ->
  element_alignment (Some e) parents (region_ta (l_alignment l)) (region_da (l_alignment l)) = l_alignment r.
Proof.
  intros e parents l r He Hp Hr. rewrite (read_region_alignment l r Hr). apply written_plain_alignment; assumption.
Qed.

(* and with a style in charge the two differ exactly in the horizontal member *)
Theorem styled_element_overrides_h : forall e parents l r t,
  find_text_align (Some e) parents (region_ta (l_alignment l)) = Some (halign_name t) ->
  read_region (layout_attrs l) = Ok r ->
  element_alignment (Some e) parents (region_ta (l_alignment l)) (region_da (l_alignment l))
  = Some (mkAlign (Some t) (match l_alignment r with Some a => al_v a | None => None end)).
Proof.
  intros e parents l r t H Hr. rewrite (read_region_alignment l r Hr). cbn [al_v]. apply written_styled_alignment. exact H.
Qed.
