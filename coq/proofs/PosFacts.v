(* C13: relativization is exact or refused; fit-to-screen is safe; the writers leave only percentages. *)
From Coq Require Import List ZArith QArith Qabs Bool Lia Lqa Field.
From PV Require Import lib.Sx lib.Str lib.Result model.Geometry model.Positioning spec.SpecGeom spec.SpecPos.
From PV Require Import proofs.GeomStr proofs.GeomEq proofs.GeomParse proofs.GeomLang proofs.GeomFacts.
Import ListNotations.
Open Scope Z_scope.

(* ---- one size ------------------------------------------------------------------------------------- *)
Lemma given_some : forall d q, given d = Some q -> d = Some q /\ ~ (q == 0)%Q.
Proof.
  intros [x|] q H; cbn [given] in H; [|discriminate]. destruct (Qeq_bool x 0) eqn:E; [discriminate|].
  inversion H; subst. split; [reflexivity|]. intros K. apply Qeq_bool_iff in K. congruence.
Qed.

Lemma given_idem : forall d, given (given d) = given d.
Proof. intros [x|]; cbn [given]; [|reflexivity]. destruct (Qeq_bool x 0) eqn:E; cbn [given]; [reflexivity|rewrite E; reflexivity]. Qed.

(* the call made for one axis: Size.as_percentage_of(video_width=d) or (video_height=d) *)
Definition axis_call (a : size) (hz : bool) (d : option Q) : result size :=
  size_as_pct a (if hz then d else None) (if hz then None else d).

Theorem size_as_pct_exact : forall a hz d,
  match spec_pct a hz (given d) with
  | Some v => exists z, axis_call a hz d = Ok z /\ s_unit z = PCT /\ (s_val z == v)%Q
  | None => axis_call a hz d = Err ERelativization
  end.
Proof.
  intros [v u] hz d. unfold axis_call, spec_pct, size_as_pct. cbn [s_unit s_val].
  assert (Gn : given None = None) by reflexivity.
  destruct u.
  all: try (destruct (given d) as [q|] eqn:G;
            [destruct (given_some _ _ G) as [-> Hq]; destruct hz; rewrite ?G, ?Gn;
             (eexists; split; [reflexivity|]; split; [reflexivity|]; cbn [s_val]; rewrite Qred_correct; field; try exact Hq)
            |destruct hz; rewrite ?G, ?Gn; reflexivity]).
  (* PCT *)
  eexists. split; [reflexivity|]. split; reflexivity.
Qed.

Lemma size_as_pct_err : forall a w h e, size_as_pct a w h = Err e -> e = ERelativization.
Proof.
  intros a w h e H. unfold size_as_pct in H.
  destruct (s_unit a); try discriminate; destruct (given w), (given h); try discriminate; inversion H; reflexivity.
Qed.

(* refused exactly when an absolute size meets an absent dimension on its axis *)
Theorem size_refused_iff : forall a hz d,
  (exists e, axis_call a hz d = Err e) <-> (s_unit a <> PCT /\ given d = None).
Proof.
  intros a hz d. pose proof (size_as_pct_exact a hz d) as H. unfold spec_pct in H. split.
  - intros [e He]. destruct (s_unit a) eqn:U; destruct (given d) eqn:G;
      try (destruct H as (z & Hz & _); congruence); split; congruence.
  - intros [U G]. rewrite G in H. destruct (s_unit a); try congruence; eauto.
Qed.

(* the five units, spelled out (horizontal: width w; vertical: height h; both non-zero) *)
Theorem as_percentage_formulas : forall v d, ~ (d == 0)%Q ->
  let conv u hz := axis_call (mkSize v u) hz (Some d) in
  (forall hz, exists z, conv PX hz = Ok z /\ s_unit z = PCT /\ (s_val z == v * 100 / d)%Q)
  /\ (forall hz, exists z, conv EM hz = Ok z /\ s_unit z = PCT /\ (s_val z == v * 16 * 100 / d)%Q)
  /\ (forall hz, exists z, conv PT hz = Ok z /\ s_unit z = PCT /\ (s_val z == v * (4 # 3) * 100 / d)%Q)
  /\ (exists z, conv CELL true = Ok z /\ s_unit z = PCT /\ (s_val z == v * 100 / 32)%Q)
  /\ (exists z, conv CELL false = Ok z /\ s_unit z = PCT /\ (s_val z == v * 100 / 15)%Q)
  /\ (forall hz, conv PCT hz = Ok (mkSize v PCT)).
Proof.
  intros v d Hd conv.
  assert (G : given (Some d) = Some d).
  { cbn [given]. destruct (Qeq_bool d 0) eqn:E; [apply Qeq_bool_iff in E; contradiction|reflexivity]. }
  split; [|split; [|split; [|split; [|split]]]]; try intros hz.
  - pose proof (size_as_pct_exact (mkSize v PX) hz (Some d)) as H. unfold spec_pct in H. cbn [s_unit s_val] in H. rewrite G in H. exact H.
  - pose proof (size_as_pct_exact (mkSize v EM) hz (Some d)) as H. unfold spec_pct in H. cbn [s_unit s_val] in H. rewrite G in H. exact H.
  - pose proof (size_as_pct_exact (mkSize v PT) hz (Some d)) as H. unfold spec_pct in H. cbn [s_unit s_val] in H. rewrite G in H. exact H.
  - pose proof (size_as_pct_exact (mkSize v CELL) true (Some d)) as H. unfold spec_pct in H. cbn [s_unit s_val] in H. rewrite G in H. exact H.
  - pose proof (size_as_pct_exact (mkSize v CELL) false (Some d)) as H. unfold spec_pct in H. cbn [s_unit s_val] in H. rewrite G in H. exact H.
  - subst conv. unfold axis_call. destruct hz; reflexivity.
Qed.

Lemma q_rel_close_refl_eq : forall a b, (a == b)%Q -> q_rel_close a b = true.
Proof. exact q_rel_close_eq. Qed.

Theorem ok_size_pct_model : forall a hz d, ok_size_pct a hz d (axis_call a hz d) = true.
Proof.
  intros a hz d. unfold ok_size_pct. pose proof (size_as_pct_exact a hz d) as H.
  destruct (spec_pct a hz (given d)) as [v|].
  - destruct H as (z & Hz & Hu & Hv). rewrite Hz, Hu. cbn [unit_eqb andb]. apply q_rel_close_eq. exact Hv.
  - rewrite H. reflexivity.
Qed.

(* ---- a whole layout ---------------------------------------------------------------------------------- *)
Definition conv_list (l : list (size * bool)) (w h : option Q) : result (list size) :=
  res_map (fun sh => axis_call (fst sh) (snd sh) (if snd sh then w else h)) l.

Definition spec_list (l : list (size * bool)) (w h : option Q) : list (option Q) :=
  map (fun sh => spec_pct (fst sh) (snd sh) (given (if snd sh then w else h))) l.

Lemma conv_list_spec : forall l w h,
  match all_some (spec_list l w h) with
  | Some vs => exists zs, conv_list l w h = Ok zs
                          /\ Forall2 (fun v z => s_unit z = PCT /\ (s_val z == v)%Q) vs zs
  | None => conv_list l w h = Err ERelativization
  end.
Proof.
  induction l as [|[a hz] l IH]; intros w h.
  - cbn. eexists. split; [reflexivity|constructor].
  - unfold conv_list, spec_list in *. cbn [map res_map all_some fst snd].
    pose proof (size_as_pct_exact a hz (if hz then w else h)) as H.
    destruct (spec_pct a hz (given (if hz then w else h))) as [v|].
    + destruct H as (z & Hz & Hu & Hv). rewrite Hz. cbn [bind]. specialize (IH w h).
      destruct (all_some (map (fun sh => spec_pct (fst sh) (snd sh) (given (if snd sh then w else h))) l)) as [vs|].
      * destruct IH as (zs & Hzs & HF). rewrite Hzs. cbn [bind]. eexists. split; [reflexivity|]. constructor; auto.
      * rewrite IH. reflexivity.
    + rewrite H. reflexivity.
Qed.

(* put converted sizes back into the layout's shape *)
Definition rebuild (l : layout) (zs : list size) : layout :=
  let '(o, zs1) := match l_origin l, zs with
                   | Some _, x :: y :: r => (Some (mkPoint x y), r)
                   | _, _ => (None, zs) end in
  let '(e, zs2) := match l_extent l, zs1 with
                   | Some _, x :: y :: r => (Some (mkStretch x y), r)
                   | _, _ => (None, zs1) end in
  let p := match l_padding l, zs2 with
           | Some _, b :: a :: s :: en :: _ => Some (mkPadding b a s en)
           | _, _ => None end in
  mkLayout o e p (l_alignment l) None.

Lemma layout_as_pct_conv : forall l w h,
  layout_as_pct l w h = match conv_list (sizes_axes l) w h with Ok zs => Ok (rebuild l zs) | Err e => Err e end.
Proof.
  intros [o e p al wv] w h. unfold layout_as_pct, conv_list, sizes_axes, rebuild, axis_call.
  cbn [l_origin l_extent l_padding l_alignment].
  destruct o as [[ox oy]|], e as [[eh ev]|], p as [[pb pa ps pe]|];
    unfold opt_res, point_as_pct, stretch_as_pct, padding_as_pct;
    cbn [opt_res point_as_pct stretch_as_pct padding_as_pct app res_map fst snd bind p_x p_y st_h st_v
         pd_before pd_after pd_start pd_end];
    repeat match goal with
           | |- context [size_as_pct ?a ?x ?y] =>
               destruct (size_as_pct a x y) eqn:?; cbn [bind]; try reflexivity
           end; reflexivity.
Qed.

Lemma layout_as_pct_err : forall l w h e, layout_as_pct l w h = Err e -> e = ERelativization.
Proof.
  intros l w h e H. rewrite layout_as_pct_conv in H. pose proof (conv_list_spec (sizes_axes l) w h) as S.
  destruct (all_some (spec_list (sizes_axes l) w h)).
  - destruct S as (zs & Hz & _). rewrite Hz in H. discriminate.
  - rewrite S in H. inversion H. reflexivity.
Qed.

Lemma needs_missing_all_some : forall w h l,
  needs_missing w h l = true <-> all_some (spec_list (sizes_axes l) w h) = None.
Proof.
  intros w h l. unfold needs_missing, spec_list. induction (sizes_axes l) as [|[a hz] t IH]; cbn [existsb map all_some fst snd].
  - split; discriminate.
  - destruct (spec_pct a hz (given (if hz then w else h))); cbn [orb].
    + rewrite IH. destruct (all_some _); split; congruence.
    + split; reflexivity.
Qed.

(* refused (with RelativizationError, nothing else) exactly when some length needs an absent dimension *)
Theorem layout_refused_iff : forall l w h,
  ((exists e, layout_as_pct l w h = Err e) <-> needs_missing w h l = true)
  /\ (forall e, layout_as_pct l w h = Err e -> e = ERelativization).
Proof.
  intros l w h. split; [|apply layout_as_pct_err].
  rewrite needs_missing_all_some, layout_as_pct_conv. pose proof (conv_list_spec (sizes_axes l) w h) as S.
  destruct (all_some (spec_list (sizes_axes l) w h)).
  - destruct S as (zs & Hz & _). rewrite Hz. split; [intros [e He]; discriminate|discriminate].
  - rewrite S. split; eauto.
Qed.

Lemma sizes_close_F2 : forall vs zs axes, Forall2 (fun v z => s_unit z = PCT /\ (s_val z == v)%Q) vs zs ->
  length axes = length zs -> sizes_close vs (combine zs axes) = true.
Proof.
  intros vs zs axes H. revert axes. induction H as [|v z vs zs [Hu Hv] HF IH]; intros axes Hl.
  - destruct axes; [reflexivity|discriminate].
  - destruct axes as [|b axes]; [discriminate|]. cbn [combine sizes_close]. rewrite Hu. cbn [unit_eqb andb].
    rewrite (q_rel_close_eq _ _ Hv). cbn [andb]. apply IH. cbn [length] in Hl. lia.
Qed.

(* the check's layout oracle holds of the model: every length is its exact percentage on its own axis, the
   shape and the alignment are kept - or the conversion is refused *)
Theorem ok_layout_pct_model : forall l w h, ok_layout_pct l w h (layout_as_pct l w h) = true.
Proof.
  intros l w h. unfold ok_layout_pct. fold (spec_list (sizes_axes l) w h).
  rewrite layout_as_pct_conv. pose proof (conv_list_spec (sizes_axes l) w h) as S.
  destruct (all_some (spec_list (sizes_axes l) w h)) as [vs|]; [|rewrite S; reflexivity].
  destruct S as (zs & Hz & HF). rewrite Hz.
  assert (Hal : forall a, opt_eqb alignment_eqb a a = true).
  { intros [a|]; cbn; [apply alignment_eqb_iff; apply alignment_equiv_refl|reflexivity]. }
  assert (Hlen : length zs = length (sizes_axes l)).
  { unfold conv_list in Hz. clear - Hz. revert zs Hz. induction (sizes_axes l) as [|x t IH]; intros zs Hz; cbn [res_map] in Hz.
    - inversion Hz. reflexivity.
    - destruct (axis_call _ _ _); [|discriminate]. cbn [bind] in Hz. destruct (res_map _ t) eqn:E; [|discriminate].
      cbn [bind] in Hz. inversion Hz; subst. cbn [length]. f_equal. apply IH. reflexivity. }
  destruct l as [o e p al wv]. unfold sizes_axes, rebuild, shape in *. cbn [l_origin l_extent l_padding l_alignment] in *.
  destruct o as [[ox oy]|], e as [[eh ev]|], p as [[pb pa ps pe]|]; cbn [app length] in Hlen;
    repeat (destruct zs as [|? zs]; [discriminate Hlen|]); destruct zs; try discriminate Hlen;
    cbn [bools_eqb Bool.eqb andb app l_origin l_extent l_padding l_alignment p_x p_y st_h st_v pd_before pd_after pd_start pd_end];
    rewrite Hal, andb_true_r;
    repeat match goal with
           | H : Forall2 _ _ (_ :: _) |- _ => inversion H; subst; clear H
           | H : Forall2 _ _ [] |- _ => inversion H; subst; clear H
           end;
    cbn [sizes_close];
    repeat match goal with
           | H : s_unit ?z = PCT /\ (s_val ?z == _)%Q |- _ =>
               let Hu := fresh in let Hv := fresh in destruct H as [Hu Hv]; rewrite Hu, (q_rel_close_eq _ _ Hv)
           end; reflexivity.
Qed.

Lemma layout_as_pct_all_pct : forall l w h r, layout_as_pct l w h = Ok r -> all_pct r = true.
Proof.
  intros l w h r H. pose proof (ok_layout_pct_model l w h) as K. rewrite H in K. unfold ok_layout_pct in K.
  destruct (all_some _) as [vs|]; [|discriminate]. apply andb_true_iff in K. destruct K as [K _].
  apply andb_true_iff in K. destruct K as [_ K]. unfold all_pct.
  revert vs K. induction (sizes_axes r) as [|[s b] t IH]; intros vs K; [reflexivity|].
  destruct vs as [|v vs]; [discriminate|]. cbn [sizes_close] in K. apply andb_true_iff in K. destruct K as [K1 K2].
  apply andb_true_iff in K1. destruct K1 as [K1 _]. cbn [forallb fst]. rewrite K1. cbn [andb]. eapply IH. exact K2.
Qed.

(* ---- fit to screen ---------------------------------------------------------------------------------- *)
Lemma size_add_pct : forall a b, s_unit a = PCT -> s_unit b = PCT ->
  size_add a b = Ok (mkSize (Qred (s_val a + s_val b)) PCT).
Proof. intros a b Ha Hb. unfold size_add. rewrite Ha, Hb. reflexivity. Qed.

Lemma in_safe_area_iff : forall o, in_safe_area o = true <->
  s_unit (p_x o) = PCT /\ s_unit (p_y o) = PCT /\ (0 <= s_val (p_x o) <= 90)%Q /\ (0 <= s_val (p_y o) <= 95)%Q.
Proof.
  intros o. unfold in_safe_area. rewrite !andb_true_iff, !unit_eqb_eq, !Qle_bool_iff. tauto.
Qed.

Lemma qle_red_true : forall q b, Qle_bool (Qred q) b = true -> (q <= b)%Q.
Proof. intros q b H. apply Qle_bool_iff in H. rewrite Qred_correct in H. exact H. Qed.
Lemma qle_red_false : forall q b, Qle_bool (Qred q) b = false -> ~ (q <= b)%Q.
Proof.
  intros q b H K. assert (F : Qle_bool (Qred q) b = true) by (apply Qle_bool_iff; rewrite Qred_correct; exact K). congruence.
Qed.

(* the readable statement: origin in the safe area, extent absent or in percent *)
Theorem fit_safe : forall l o, l_origin l = Some o -> in_safe_area o = true ->
  match l_extent l with Some e => s_unit (st_h e) = PCT /\ s_unit (st_v e) = PCT | None => True end ->
  exists e', layout_fit l = Ok (mkLayout (Some o) (Some e') (l_padding l) (l_alignment l) None)
    /\ s_unit (st_h e') = PCT /\ s_unit (st_v e') = PCT
    /\ (s_val (p_x o) + s_val (st_h e') <= 90)%Q /\ (s_val (p_y o) + s_val (st_v e') <= 95)%Q
    /\ match l_extent l with
       | None => (s_val (p_x o) + s_val (st_h e') == 90)%Q /\ (s_val (p_y o) + s_val (st_v e') == 95)%Q
       | Some e =>
           ((s_val (p_x o) + s_val (st_h e) <= 90)%Q -> st_h e' = st_h e)
           /\ (~ (s_val (p_x o) + s_val (st_h e) <= 90)%Q -> (s_val (p_x o) + s_val (st_h e') == 90)%Q)
           /\ ((s_val (p_y o) + s_val (st_v e) <= 95)%Q -> st_v e' = st_v e)
           /\ (~ (s_val (p_y o) + s_val (st_v e) <= 95)%Q -> (s_val (p_y o) + s_val (st_v e') == 95)%Q)
       end.
Proof.
  intros l o Ho Hs He. apply in_safe_area_iff in Hs. destruct Hs as (Ux & Uy & [X0 X1] & [Y0 Y1]).
  assert (C1 : clamp0 (90 - s_val (p_x o)) = (90 - s_val (p_x o))%Q).
  { unfold clamp0. assert (K : Qle_bool 0 (90 - s_val (p_x o)) = true) by (apply Qle_bool_iff; lra). rewrite K. reflexivity. }
  assert (C2 : clamp0 (95 - s_val (p_y o)) = (95 - s_val (p_y o))%Q).
  { unfold clamp0. assert (K : Qle_bool 0 (95 - s_val (p_y o)) = true) by (apply Qle_bool_iff; lra). rewrite K. reflexivity. }
  unfold layout_fit. rewrite Ho, C1, C2. destruct (l_extent l) as [e|].
  - destruct He as [Uh Uv]. rewrite (size_add_pct _ _ Ux Uh), (size_add_pct _ _ Uy Uv). cbn [bind s_unit unit_eqb negb s_val].
    eexists. split; [reflexivity|]. cbn [st_h st_v].
    destruct (Qle_bool (Qred (s_val (p_x o) + s_val (st_h e))) 90) eqn:E1;
    destruct (Qle_bool (Qred (s_val (p_y o) + s_val (st_v e))) 95) eqn:E2;
    first [apply qle_red_true in E1|apply qle_red_false in E1];
    first [apply qle_red_true in E2|apply qle_red_false in E2];
    cbn [s_unit s_val];
    pose proof (Qred_correct (90 - s_val (p_x o))) as R1; pose proof (Qred_correct (95 - s_val (p_y o))) as R2;
    (split; [first [exact Uh|reflexivity]|]); (split; [first [exact Uv|reflexivity]|]);
    (split; [lra|]); (split; [lra|]);
    (split; [intros K; first [reflexivity|contradiction]|]);
    (split; [intros K; first [lra|contradiction]|]);
    (split; [intros K; first [reflexivity|contradiction]|]);
    intros K; first [lra|contradiction].
  - eexists. split; [reflexivity|]. cbn [st_h st_v s_unit s_val].
    pose proof (Qred_correct (90 - s_val (p_x o))) as R1. pose proof (Qred_correct (95 - s_val (p_y o))) as R2.
    split; [reflexivity|]. split; [reflexivity|]. split; [lra|]. split; [lra|]. split; lra.
Qed.

Lemma q_close9_eq : forall a b, (a == b)%Q -> q_close9 a b = true.
Proof.
  intros a b H. unfold q_close9. apply Qle_bool_iff. rewrite H. setoid_replace (b - b)%Q with 0%Q by ring. cbn. lra.
Qed.

Lemma opt_eqb_refl : forall {A} (f : A -> A -> bool), (forall x, f x x = true) -> forall a, opt_eqb f a a = true.
Proof. intros A f H [x|]; cbn; auto. Qed.

Lemma size_eqb_refl : forall a, size_eqb a a = true.
Proof. intros a. apply size_eqb_iff, size_equiv_refl. Qed.

(* the check's fit oracle holds of the model on every layout *)
Theorem ok_fit_model : forall l, ok_fit l (layout_fit l) = true.
Proof.
  intros l. unfold ok_fit. destruct (l_origin l) as [o|] eqn:Ho.
  - destruct (in_safe_area o && extent_pct l) eqn:D; [|reflexivity].
    apply andb_true_iff in D. destruct D as [Hs He].
    assert (He' : match l_extent l with Some e => s_unit (st_h e) = PCT /\ s_unit (st_v e) = PCT | None => True end).
    { unfold extent_pct in He. destruct (l_extent l) as [e|]; [|exact I].
      rewrite !andb_true_iff, !unit_eqb_eq in He. tauto. }
    destruct (fit_safe l o Ho Hs He') as (e' & Hf & Uh & Uv & Rx & Ry & Hx). rewrite Hf.
    cbn [l_origin l_extent l_padding l_alignment].
    assert (P : point_eqb o o = true) by (apply point_eqb_iff, point_equiv_refl). rewrite P, Uh, Uv. cbn [unit_eqb andb].
    assert (L1 : Qle_bool (s_val (p_x o) + s_val (st_h e')) (90 + (1 # 1000000000)) = true) by (apply Qle_bool_iff; lra).
    assert (L2 : Qle_bool (s_val (p_y o) + s_val (st_v e')) (95 + (1 # 1000000000)) = true) by (apply Qle_bool_iff; lra).
    rewrite L1, L2. cbn [andb].
    rewrite (opt_eqb_refl padding_eqb) by (intros x; apply padding_eqb_iff, padding_equiv_refl).
    rewrite (opt_eqb_refl alignment_eqb) by (intros x; apply alignment_eqb_iff, alignment_equiv_refl).
    rewrite !andb_true_r.
    destruct (l_extent l) as [e|].
    + destruct Hx as (A1 & A2 & A3 & A4).
      destruct (Qle_bool (s_val (p_x o) + s_val (st_h e)) 90) eqn:E1;
      destruct (Qle_bool (s_val (p_y o) + s_val (st_v e)) 95) eqn:E2.
      * apply Qle_bool_iff in E1, E2. rewrite (A1 E1), (A3 E2), !size_eqb_refl. reflexivity.
      * apply Qle_bool_iff in E1. rewrite (A1 E1), size_eqb_refl. cbn [andb]. apply q_close9_eq, A4.
        intros K. apply Qle_bool_iff in K. congruence.
      * apply Qle_bool_iff in E2. rewrite (A3 E2), size_eqb_refl, andb_true_r. apply q_close9_eq, A2.
        intros K. apply Qle_bool_iff in K. congruence.
      * rewrite (q_close9_eq _ _ (A2 ltac:(intros K; apply Qle_bool_iff in K; congruence))).
        rewrite (q_close9_eq _ _ (A4 ltac:(intros K; apply Qle_bool_iff in K; congruence))). reflexivity.
    + destruct Hx as [A1 A2]. rewrite (q_close9_eq _ _ A1), (q_close9_eq _ _ A2). reflexivity.
  - unfold layout_fit. rewrite Ho. apply layout_eqb_iff, layout_equiv_refl.
Qed.

(* fitting keeps percentages *)
Lemma layout_fit_all_pct : forall l r, all_pct l = true -> layout_fit l = Ok r -> all_pct r = true.
Proof.
  intros [o e p al wv] r H Hf. unfold layout_fit in Hf. cbn [l_origin l_extent l_padding l_alignment] in Hf.
  unfold all_pct, sizes_axes in *. cbn [l_origin l_extent l_padding] in *.
  destruct o as [[ox oy]|]; [|inversion Hf; subst; exact H].
  cbn [app forallb fst p_x p_y] in H. apply andb_true_iff in H. destruct H as [H1 H]. apply andb_true_iff in H. destruct H as [H2 H].
  destruct e as [[eh ev]|].
  - cbn [app forallb fst st_h st_v] in H. apply andb_true_iff in H. destruct H as [H3 H]. apply andb_true_iff in H. destruct H as [H4 H].
    cbn [p_x p_y st_h st_v] in Hf.
    destruct (size_add ox eh) as [brx|]; [|discriminate]. destruct (size_add oy ev) as [bry|]; [|discriminate].
    cbn [bind] in Hf. destruct (negb (unit_eqb (s_unit brx) PCT)); [discriminate|]. inversion Hf; subst. clear Hf.
    cbn [l_origin l_extent l_padding app forallb fst p_x p_y st_h st_v]. rewrite H1, H2. cbn [andb].
    destruct (Qle_bool (s_val brx) 90), (Qle_bool (s_val bry) 95); cbn [s_unit unit_eqb andb]; rewrite ?H3, ?H4; exact H.
  - inversion Hf; subst. cbn [l_origin l_extent l_padding app forallb fst s_unit unit_eqb andb p_x p_y st_h st_v].
    rewrite H1, H2. exact H.
Qed.

Lemma layout_fit_pct_ok : forall l, all_pct l = true -> exists r, layout_fit l = Ok r.
Proof.
  intros [o e p al wv] H. unfold layout_fit. cbn [l_origin l_extent l_padding l_alignment].
  unfold all_pct, sizes_axes in H. cbn [l_origin l_extent l_padding] in H.
  destruct o as [[ox oy]|]; [|eauto].
  cbn [app forallb fst p_x p_y] in H. apply andb_true_iff in H. destruct H as [H1 H]. apply andb_true_iff in H. destruct H as [H2 H].
  apply unit_eqb_eq in H1, H2.
  destruct e as [[eh ev]|]; [|eauto].
  cbn [app forallb fst st_h st_v] in H. apply andb_true_iff in H. destruct H as [H3 H]. apply andb_true_iff in H. destruct H as [H4 H].
  apply unit_eqb_eq in H3, H4. cbn [p_x p_y st_h st_v].
  rewrite (size_add_pct _ _ H1 H3), (size_add_pct _ _ H2 H4). cbn [bind s_unit unit_eqb negb]. eauto.
Qed.

(* ---- BaseWriter._relativize_and_fit_to_screen with relativization on ------------------------------- *)
Lemma falsy_all_pct : forall l, layout_truthy l = false -> all_pct l = true.
Proof.
  intros [o e p al wv] H. unfold layout_truthy in H. cbn in H.
  destruct o, e, p, al, wv as [[|]|]; try discriminate; reflexivity.
Qed.

Theorem relativize_and_fit_pct : forall fit w h l r,
  relativize_and_fit true fit w h l = Ok r -> all_pct r = true.
Proof.
  intros fit w h l r H. unfold relativize_and_fit in H. destruct (layout_truthy l) eqn:T.
  - destruct (layout_as_pct l w h) as [l1|] eqn:E; [|discriminate]. cbn [bind] in H.
    pose proof (layout_as_pct_all_pct _ _ _ _ E) as P. destruct fit; [eapply layout_fit_all_pct; eauto|].
    inversion H; subst. exact P.
  - inversion H; subst. apply falsy_all_pct. exact T.
Qed.

Theorem relativize_and_fit_err : forall fit w h l e,
  relativize_and_fit true fit w h l = Err e -> e = ERelativization /\ needs_missing w h l = true.
Proof.
  intros fit w h l e H. unfold relativize_and_fit in H. destruct (layout_truthy l); [|discriminate].
  destruct (layout_as_pct l w h) as [l1|] eqn:E.
  - cbn [bind] in H. destruct fit; [|discriminate].
    destruct (layout_fit_pct_ok l1 (layout_as_pct_all_pct _ _ _ _ E)) as [r Hr]. congruence.
  - cbn [bind] in H. inversion H; subst. split; [eapply layout_as_pct_err; eauto|].
    apply (proj1 (layout_refused_iff l w h)). eauto.
Qed.

(* ---- the writers: every level that reaches the document ------------------------------------------- *)
Lemma res_map_F2 : forall {A B} (f : A -> result B) l l', res_map f l = Ok l' -> Forall2 (fun a b => f a = Ok b) l l'.
Proof.
  intros A B f. induction l as [|a l IH]; intros l' H; cbn [res_map] in H.
  - inversion H. constructor.
  - destruct (f a) eqn:E; [|discriminate]. cbn [bind] in H. destruct (res_map f l) eqn:E2; [|discriminate].
    cbn [bind] in H. inversion H; subst. constructor; auto.
Qed.

Lemma raf_pct : forall c o o', w_rel c = true -> raf c o = Ok o' -> opt_all_pct o' = true.
Proof.
  intros c [l|] o' Hr H; cbn [raf] in H; [|inversion H; reflexivity].
  rewrite Hr in H. destruct (relativize_and_fit true (w_fit c) (w_w c) (w_h c) l) eqn:E; [|discriminate].
  cbn [bind] in H. inversion H; subst. cbn [opt_all_pct]. eapply relativize_and_fit_pct; eauto.
Qed.

Lemma nodes_pct : forall c ns ns', w_rel c = true -> res_map (raf_node c) ns = Ok ns' ->
  forallb opt_all_pct (map n_layout ns') = true.
Proof.
  intros c ns ns' Hr H. apply res_map_F2 in H. induction H as [|n n' t t' Hn _ IH]; [reflexivity|].
  cbn [map forallb]. rewrite IH, andb_true_r. unfold raf_node in Hn.
  destruct (raf c (n_layout n)) eqn:E; [|discriminate]. cbn [bind] in Hn. inversion Hn; subst. cbn [n_layout].
  eapply raf_pct; eauto.
Qed.

Lemma raf_cap_pct : forall c cp cp', w_rel c = true -> raf_cap c cp = Ok cp' ->
  forallb opt_all_pct (nc_layout cp' :: map n_layout (nc_nodes cp')) = true.
Proof.
  intros c cp cp' Hr H. unfold raf_cap in H. destruct (raf c (nc_layout cp)) eqn:E1; [|discriminate]. cbn [bind] in H.
  destruct (res_map (raf_node c) (nc_nodes cp)) as [ns|] eqn:E2; [|discriminate]. cbn [bind] in H. inversion H; subst.
  cbn [nc_layout nc_nodes forallb]. rewrite (raf_pct _ _ _ Hr E1). cbn [andb]. eapply nodes_pct; eauto.
Qed.

Lemma caps_pct : forall c caps caps', w_rel c = true -> res_map (raf_cap c) caps = Ok caps' ->
  forallb opt_all_pct (flat_map (fun cp => nc_layout cp :: map n_layout (nc_nodes cp)) caps') = true.
Proof.
  intros c caps caps' Hr H. apply res_map_F2 in H. induction H as [|cp cp' t t' Hc _ IH]; [reflexivity|].
  cbn [flat_map]. rewrite forallb_app, IH, andb_true_r. eapply raf_cap_pct; eauto.
Qed.

(* DFXP (repaired): with relativization on, every layout written at language, caption or node level carries
   percentages only *)
Lemma dfxp_langs_pct : forall c lgs lgs', w_rel c = true -> res_map (dfxp_lang c) lgs = Ok lgs' ->
  forallb opt_all_pct (flat_map written_layouts_lang lgs') = true.
Proof.
  intros c lgs lgs' Hr E. apply res_map_F2 in E. induction E as [|lg lg' t t' Hl _ IH]; [reflexivity|].
  cbn [flat_map]. rewrite forallb_app, IH, andb_true_r. unfold dfxp_lang in Hl.
  destruct (rel_only c (nl_layout lg)) as [ll|] eqn:E1; [|discriminate]. cbn [bind] in Hl.
  destruct (res_map (raf_cap c) (nl_caps lg)) as [cs|] eqn:E2; [|discriminate]. cbn [bind] in Hl. inversion Hl; subst.
  unfold written_layouts_lang. cbn [nl_layout nl_caps forallb]. rewrite (caps_pct _ _ _ Hr E2), andb_true_r.
  unfold rel_only in E1. destruct (nl_layout lg) as [l|]; [|inversion E1; reflexivity].
  rewrite Hr, andb_true_r in E1. destruct (layout_truthy l) eqn:T.
  - destruct (layout_as_pct l (w_w c) (w_h c)) eqn:E3; [|discriminate]. cbn [bind] in E1. inversion E1; subst.
    cbn [opt_all_pct]. eapply layout_as_pct_all_pct; eauto.
  - inversion E1; subst. cbn [opt_all_pct]. apply falsy_all_pct. exact T.
Qed.

Theorem dfxp_writes_percentages : forall c s s', w_rel c = true -> dfxp_transform c s = Ok s' ->
  forallb opt_all_pct (written_layouts s') = true.
Proof.
  intros c s s' Hr H. unfold dfxp_transform in H. destruct (res_map (dfxp_lang c) (ns_langs s)) as [ls|] eqn:E; [|discriminate].
  cbn [bind] in H. inversion H; subst. unfold written_layouts. cbn [ns_langs]. eapply dfxp_langs_pct; eauto.
Qed.

(* the code before the fix: a language-level px layout reaches the document unconverted *)
Theorem dfxp_lang_level_px_refuted : exists c s s',
  w_rel c = true /\ dfxp_transform_prefix c s = Ok s' /\ forallb opt_all_pct (written_layouts s') = false.
Proof.
  exists (mkCfg true true (Some (640 # 1)) (Some (360 # 1))).
  exists (mkNset None [mkNlang (Some (mkLayout (Some (mkPoint (mkSize (64 # 1) PX) (mkSize (36 # 1) PX))) None None None None))
                               [mkNcap None [mkNode 1 None]]]).
  eexists. split; [reflexivity|]. split; [vm_compute; reflexivity|vm_compute; reflexivity].
Qed.

(* and the repaired code converts it exactly: 64px of 640 = 10%, 36px of 360 = 10% *)
Example dfxp_lang_level_px_fixed :
  dfxp_transform (mkCfg true true (Some (640 # 1)) (Some (360 # 1)))
    (mkNset None [mkNlang (Some (mkLayout (Some (mkPoint (mkSize (64 # 1) PX) (mkSize (36 # 1) PX))) None None None None))
                          [mkNcap None [mkNode 1 None]]])
  = Ok (mkNset None [mkNlang (Some (mkLayout (Some (mkPoint (mkSize (10 # 1) PCT) (mkSize (10 # 1) PCT))) None None None None))
                             [mkNcap None [mkNode 1 None]]]).
Proof. vm_compute. reflexivity. Qed.

Lemma sami_langs_pct : forall c lgs lgs', w_rel c = true -> res_map (sami_lang c) lgs = Ok lgs' ->
  forallb opt_all_pct (flat_map written_layouts_lang lgs') = true.
Proof.
  intros c lgs lgs' Hr E. apply res_map_F2 in E. induction E as [|lg lg' t t' Hl _ IH]; [reflexivity|].
  cbn [flat_map]. rewrite forallb_app, IH, andb_true_r. unfold sami_lang in Hl.
  destruct (raf c (nl_layout lg)) as [ll|] eqn:E1; [|discriminate]. cbn [bind] in Hl.
  destruct (res_map (raf_cap c) (nl_caps lg)) as [cs|] eqn:E2; [|discriminate]. cbn [bind] in Hl. inversion Hl; subst.
  unfold written_layouts_lang. cbn [nl_layout nl_caps forallb]. rewrite (caps_pct _ _ _ Hr E2), andb_true_r.
  eapply raf_pct; eauto.
Qed.

Theorem sami_writes_percentages : forall c s s', w_rel c = true -> sami_transform c s = Ok s' ->
  opt_all_pct (ns_layout s') = true /\ forallb opt_all_pct (written_layouts s') = true.
Proof.
  intros c s s' Hr H. unfold sami_transform in H. destruct (raf c (ns_layout s)) as [g|] eqn:Eg; [|discriminate]. cbn [bind] in H.
  destruct (res_map (sami_lang c) (ns_langs s)) as [ls|] eqn:E; [|discriminate].
  cbn [bind] in H. inversion H; subst. cbn [ns_layout]. split; [eapply raf_pct; eauto|].
  unfold written_layouts. cbn [ns_langs]. eapply sami_langs_pct; eauto.
Qed.

(* with relativization on the only error a writer's transformation can end in is RelativizationError *)
Lemma raf_err : forall c o e, w_rel c = true -> raf c o = Err e -> e = ERelativization.
Proof.
  intros c [l|] e Hr H; cbn [raf] in H; [|discriminate]. rewrite Hr in H.
  destruct (relativize_and_fit true (w_fit c) (w_w c) (w_h c) l) eqn:E; [discriminate|].
  cbn [bind] in H. inversion H; subst. eapply relativize_and_fit_err; eauto.
Qed.

Lemma res_map_err : forall {A B} (f : A -> result B) l e, res_map f l = Err e -> exists a, In a l /\ f a = Err e.
Proof.
  intros A B f. induction l as [|a l IH]; intros e H; cbn [res_map] in H; [discriminate|].
  destruct (f a) eqn:E.
  - cbn [bind] in H. destruct (res_map f l) eqn:E2; [discriminate|]. cbn [bind] in H. inversion H; subst.
    destruct (IH _ eq_refl) as (x & Hx & Hf). exists x. split; [right; exact Hx|exact Hf].
  - cbn [bind] in H. inversion H; subst. exists a. split; [left; reflexivity|exact E].
Qed.

Lemma raf_cap_err : forall c cp e, w_rel c = true -> raf_cap c cp = Err e -> e = ERelativization.
Proof.
  intros c cp e Hr H. unfold raf_cap in H. destruct (raf c (nc_layout cp)) eqn:E1.
  - cbn [bind] in H. destruct (res_map (raf_node c) (nc_nodes cp)) eqn:E2; [discriminate|]. cbn [bind] in H.
    inversion H; subst. destruct (res_map_err _ _ _ E2) as (n & _ & Hn). unfold raf_node in Hn.
    destruct (raf c (n_layout n)) eqn:E3; [discriminate|]. cbn [bind] in Hn. inversion Hn; subst. eapply raf_err; eauto.
  - cbn [bind] in H. inversion H; subst. eapply raf_err; eauto.
Qed.

Theorem dfxp_refuses_with_relativization_error : forall c s e, w_rel c = true -> dfxp_transform c s = Err e -> e = ERelativization.
Proof.
  intros c s e Hr H. unfold dfxp_transform in H. destruct (res_map (dfxp_lang c) (ns_langs s)) eqn:E; [discriminate|].
  cbn [bind] in H. inversion H; subst. destruct (res_map_err _ _ _ E) as (lg & _ & Hl). unfold dfxp_lang in Hl.
  destruct (rel_only c (nl_layout lg)) eqn:E1.
  - cbn [bind] in Hl. destruct (res_map (raf_cap c) (nl_caps lg)) eqn:E2; [discriminate|]. cbn [bind] in Hl. inversion Hl; subst.
    destruct (res_map_err _ _ _ E2) as (cp & _ & Hc). eapply raf_cap_err; eauto.
  - cbn [bind] in Hl. inversion Hl; subst. unfold rel_only in E1. destruct (nl_layout lg) as [l|]; [|discriminate].
    destruct (layout_truthy l && w_rel c); [|discriminate].
    destruct (layout_as_pct l (w_w c) (w_h c)) eqn:E3; [discriminate|]. cbn [bind] in E1. inversion E1; subst.
    eapply layout_as_pct_err; eauto.
Qed.

(* ---- WebVTT: never a non-percentage length --------------------------------------------------------------- *)
Lemma layout_is_relative_all_pct : forall l, layout_is_relative l = all_pct l.
Proof.
  intros [o e p al wv]. unfold layout_is_relative, all_pct, sizes_axes, size_is_relative.
  cbn [l_origin l_extent l_padding].
  destruct o as [[ox oy]|], e as [[eh ev]|], p as [[pb pa ps pe]|];
    cbn [app forallb fst p_x p_y st_h st_v pd_before pd_after pd_start pd_end]; rewrite ?andb_true_r, ?andb_assoc; reflexivity.
Qed.

Lemma size_add_unit : forall a b z, size_add a b = Ok z -> s_unit z = s_unit a.
Proof. intros a b z H. unfold size_add in H. destruct (unit_eqb _ _); [|discriminate]. inversion H; reflexivity. Qed.
Lemma size_sub_unit : forall a b z, size_sub a b = Ok z -> s_unit z = s_unit a.
Proof. intros a b z H. unfold size_sub in H. destruct (unit_eqb _ _); [|discriminate]. inversion H; reflexivity. Qed.

Definition opt_pct (o : option size) : bool := match o with Some s => unit_eqb (s_unit s) PCT | None => true end.

Lemma opt_bind_pct : forall o f r, opt_pct o = true -> (forall a z, f a = Ok z -> s_unit z = s_unit a) ->
  opt_bind o f = Ok r -> opt_pct r = true.
Proof.
  intros [a|] f r Ho Hf H; cbn [opt_bind] in H; [|inversion H; reflexivity].
  destruct (f a) eqn:E; [|discriminate]. cbn [bind] in H. inversion H; subst. cbn [opt_pct] in *.
  rewrite (Hf _ _ E). exact Ho.
Qed.

Lemma all_pct_parts : forall l, all_pct l = true ->
  opt_pct (option_map p_x (l_origin l)) = true /\ opt_pct (option_map p_y (l_origin l)) = true
  /\ opt_pct (option_map st_h (l_extent l)) = true.
Proof.
  intros [o e p al wv] H. unfold all_pct, sizes_axes in H. cbn [l_origin l_extent l_padding] in *.
  destruct o as [[ox oy]|], e as [[eh ev]|]; cbn [app forallb fst option_map opt_pct p_x p_y st_h] in *;
    repeat (apply andb_true_iff in H; destruct H as [? H]); repeat split; assumption.
Qed.

Lemma vs_all_pct_opt : forall o, vs_all_pct o = opt_pct (vs_position o) && opt_pct (vs_line o) && opt_pct (vs_size o).
Proof. reflexivity. Qed.

(* the arithmetic on an all-percent layout *)
Lemma vtt_settings_pct : forall l2 out, all_pct l2 = true -> vtt_arith l2 = Ok out -> vtt_out_pct out = true.
Proof.
  intros l2 out P2 H. destruct (all_pct_parts _ P2) as (Px & Py & Pw). unfold vtt_arith in H.
  destruct (l_padding l2) as [p|].
  - match type of H with (do lw <- ?X; _) = _ => destruct X as [[left' w1]|] eqn:E3; [|discriminate] end. cbn [bind fst snd] in H.
    match type of H with (do w2 <- ?X; _) = _ => destruct X as [w2|] eqn:E4; [|discriminate] end. cbn [bind] in H.
    match type of H with (do t2 <- ?X; _) = _ => destruct X as [t2|] eqn:E5; [|discriminate] end. cbn [bind] in H.
    inversion H; subst. cbn [vtt_out_pct]. rewrite vs_all_pct_opt. cbn [vs_position vs_line vs_size].
    assert (Q5 : opt_pct t2 = true).
    { eapply opt_bind_pct; [exact Py| |exact E5]. intros a z K; cbn beta in K; eapply size_add_unit; exact K. }
    assert (Q3 : opt_pct left' = true /\ opt_pct w1 = true).
    { destruct (option_map p_x (l_origin l2)) as [x|] eqn:Ex.
      - destruct (size_add x (pd_start p)) as [x'|] eqn:Ea; [|discriminate]. cbn [bind] in E3.
        destruct (opt_bind (option_map st_h (l_extent l2)) (fun wd => size_sub wd (pd_start p))) as [w'|] eqn:Eb; [|discriminate].
        cbn [bind] in E3. inversion E3; subst. split.
        + cbn [opt_pct] in *. rewrite (size_add_unit _ _ _ Ea). exact Px.
        + eapply opt_bind_pct; [exact Pw| |exact Eb]. intros a z K; cbn beta in K; eapply size_sub_unit; exact K.
      - inversion E3; subst. split; [reflexivity|exact Pw]. }
    destruct Q3 as [Q3a Q3b].
    assert (Q4 : opt_pct w2 = true).
    { eapply opt_bind_pct; [exact Q3b| |exact E4]. intros a z K; cbn beta in K; eapply size_sub_unit; exact K. }
    rewrite Q3a, Q5, Q4. reflexivity.
  - inversion H; subst. cbn [vtt_out_pct]. rewrite vs_all_pct_opt. cbn [vs_position vs_line vs_size].
    rewrite Px, Py, Pw. reflexivity.
Qed.

Theorem vtt_only_percent : forall c lo out, vtt_convert_positioning c lo = Ok out -> vtt_out_pct out = true.
Proof.
  intros c [l|] out H; cbn [vtt_convert_positioning] in H; [|inversion H; reflexivity].
  destruct (negb (layout_truthy l)); [inversion H; reflexivity|].
  assert (Main : (if negb (w_rel c) && negb (layout_is_relative l) then Ok VNone else
      do l1 <- (if w_rel c then layout_as_pct l (w_w c) (w_h c) else Ok l);
      do l2 <- (if w_fit c then layout_fit l1 else Ok l1);
      vtt_arith l2) = Ok out -> vtt_out_pct out = true).
  { clear H. intros H. destruct (negb (w_rel c) && negb (layout_is_relative l)) eqn:D; [inversion H; reflexivity|].
    assert (P1 : forall l1, (if w_rel c then layout_as_pct l (w_w c) (w_h c) else Ok l) = Ok l1 -> all_pct l1 = true).
    { intros l1 E. destruct (w_rel c).
      - eapply layout_as_pct_all_pct; eauto.
      - inversion E; subst. cbn [negb andb] in D. rewrite <- layout_is_relative_all_pct.
        destruct (layout_is_relative l1); [reflexivity|discriminate]. }
    destruct (if w_rel c then layout_as_pct l (w_w c) (w_h c) else Ok l) as [l1|] eqn:E1; [|discriminate].
    cbn [bind] in H. specialize (P1 _ eq_refl).
    assert (P2 : forall l2, (if w_fit c then layout_fit l1 else Ok l1) = Ok l2 -> all_pct l2 = true).
    { intros l2 E. destruct (w_fit c); [eapply layout_fit_all_pct; eauto|inversion E; subst; exact P1]. }
    destruct (if w_fit c then layout_fit l1 else Ok l1) as [l2|] eqn:E2; [|discriminate].
    cbn [bind] in H. specialize (P2 _ eq_refl). eapply vtt_settings_pct; eauto. }
  destruct (l_webvtt l) as [[|ch raw]|]; [apply Main; exact H|inversion H; reflexivity|apply Main; exact H].
Qed.

(* after `fix: fit_to_screen gave a negative extent ...`: whatever the origin, a fitted extent that was computed is
   never negative, and an extent that was given and non-negative stays non-negative *)
Lemma clamp0_nonneg : forall q, (0 <= clamp0 q)%Q.
Proof. intros q. unfold clamp0. destruct (Qle_bool 0 q) eqn:E; [apply Qle_bool_iff; exact E|lra]. Qed.

Theorem fit_extent_never_negative : forall l r e', layout_fit l = Ok r -> l_origin l <> None -> l_extent r = Some e' ->
  match l_extent l with Some e => (0 <= s_val (st_h e))%Q /\ (0 <= s_val (st_v e))%Q | None => True end ->
  (0 <= s_val (st_h e'))%Q /\ (0 <= s_val (st_v e'))%Q.
Proof.
  intros l r e' H Ho He' Hn. unfold layout_fit in H. destruct (l_origin l) as [o|]; [|contradiction].
  pose proof (clamp0_nonneg (90 - s_val (p_x o))) as N1. pose proof (clamp0_nonneg (95 - s_val (p_y o))) as N2.
  destruct (l_extent l) as [e|].
  - destruct (size_add (p_x o) (st_h e)) as [brx|]; [|discriminate]. destruct (size_add (p_y o) (st_v e)) as [bry|]; [|discriminate].
    cbn [bind] in H. destruct (negb (unit_eqb (s_unit brx) PCT)); [discriminate|]. inversion H; subst. cbn [l_extent] in He'.
    inversion He'; subst. cbn [st_h st_v]. destruct Hn as [H1 H2].
    destruct (Qle_bool (s_val brx) 90), (Qle_bool (s_val bry) 95); cbn [s_val]; rewrite ?Qred_correct; split; assumption.
  - inversion H; subst. cbn [l_extent] in He'. inversion He'; subst. cbn [st_h st_v s_val]. rewrite !Qred_correct. split; assumption.
Qed.

(* ---- which layouts each writer transforms, level by level; refusal exactly when one of them needs a missing
        dimension --------------------------------------------------------------------------------------------- *)
Definition node_step (c : wcfg) (n n' : nnode) : Prop := raf c (n_layout n) = Ok (n_layout n') /\ n_kind n' = n_kind n.
Definition cap_step (c : wcfg) (cp cp' : ncap) : Prop :=
  raf c (nc_layout cp) = Ok (nc_layout cp') /\ Forall2 (node_step c) (nc_nodes cp) (nc_nodes cp').

Lemma nodes_step : forall c ns ns', res_map (raf_node c) ns = Ok ns' -> Forall2 (node_step c) ns ns'.
Proof.
  intros c ns ns' E2. apply res_map_F2 in E2.
  induction E2 as [|n n' t t' Hn _ IH]; constructor; [|exact IH]. unfold raf_node in Hn.
  destruct (raf c (n_layout n)) eqn:E; [|discriminate]. cbn [bind] in Hn. inversion Hn; subst. split; [exact E|reflexivity].
Qed.

Lemma raf_cap_step : forall c cp cp', raf_cap c cp = Ok cp' -> cap_step c cp cp'.
Proof.
  intros c cp cp' H. unfold raf_cap in H. destruct (raf c (nc_layout cp)) eqn:E1; [|discriminate]. cbn [bind] in H.
  destruct (res_map (raf_node c) (nc_nodes cp)) as [ns|] eqn:E2; [|discriminate]. cbn [bind] in H. inversion H; subst.
  split; [exact E1|]. cbn [nc_nodes]. apply nodes_step. exact E2.
Qed.

Lemma caps_step : forall c caps caps', res_map (raf_cap c) caps = Ok caps' -> Forall2 (cap_step c) caps caps'.
Proof.
  intros c caps caps' H. apply res_map_F2 in H. induction H as [|x y t t' Hx _ IH]; constructor; [apply raf_cap_step; exact Hx|exact IH].
Qed.

Lemma dfxp_langs_step : forall c lgs lgs', res_map (dfxp_lang c) lgs = Ok lgs' ->
  Forall2 (fun lg lg' => rel_only c (nl_layout lg) = Ok (nl_layout lg') /\ Forall2 (cap_step c) (nl_caps lg) (nl_caps lg')) lgs lgs'.
Proof.
  intros c lgs lgs' E. apply res_map_F2 in E. induction E as [|lg lg' t t' Hl _ IH]; constructor; [|exact IH]. unfold dfxp_lang in Hl.
  destruct (rel_only c (nl_layout lg)) eqn:E1; [|discriminate]. cbn [bind] in Hl.
  destruct (res_map (raf_cap c) (nl_caps lg)) eqn:E2; [|discriminate]. cbn [bind] in Hl. inversion Hl; subst.
  split; [first [exact E1|reflexivity]|apply caps_step; exact E2].
Qed.

Lemma sami_langs_step : forall c lgs lgs', res_map (sami_lang c) lgs = Ok lgs' ->
  Forall2 (fun lg lg' => raf c (nl_layout lg) = Ok (nl_layout lg') /\ Forall2 (cap_step c) (nl_caps lg) (nl_caps lg')) lgs lgs'.
Proof.
  intros c lgs lgs' E. apply res_map_F2 in E. induction E as [|lg lg' t t' Hl _ IH]; constructor; [|exact IH]. unfold sami_lang in Hl.
  destruct (raf c (nl_layout lg)) eqn:E1; [|discriminate]. cbn [bind] in Hl.
  destruct (res_map (raf_cap c) (nl_caps lg)) eqn:E2; [|discriminate]. cbn [bind] in Hl. inversion Hl; subst.
  split; [first [exact E1|reflexivity]|apply caps_step; exact E2].
Qed.

(* DFXPWriter (repaired): set level untouched, language level relativized (not fitted), caption and node level
   through _relativize_and_fit_to_screen; structure and node kinds kept *)
Theorem dfxp_transform_levels : forall c s s', dfxp_transform c s = Ok s' ->
  ns_layout s' = ns_layout s
  /\ Forall2 (fun lg lg' => rel_only c (nl_layout lg) = Ok (nl_layout lg') /\ Forall2 (cap_step c) (nl_caps lg) (nl_caps lg'))
             (ns_langs s) (ns_langs s').
Proof.
  intros c s s' H. unfold dfxp_transform in H. destruct (res_map (dfxp_lang c) (ns_langs s)) as [ls|] eqn:E; [|discriminate].
  cbn [bind] in H. inversion H; subst. split; [reflexivity|]. cbn [ns_langs]. apply dfxp_langs_step. exact E.
Qed.

(* SAMIWriter: all four levels through _relativize_and_fit_to_screen *)
Theorem sami_transform_levels : forall c s s', sami_transform c s = Ok s' ->
  raf c (ns_layout s) = Ok (ns_layout s')
  /\ Forall2 (fun lg lg' => raf c (nl_layout lg) = Ok (nl_layout lg') /\ Forall2 (cap_step c) (nl_caps lg) (nl_caps lg'))
             (ns_langs s) (ns_langs s').
Proof.
  intros c s s' H. unfold sami_transform in H. destruct (raf c (ns_layout s)) eqn:Eg; [|discriminate]. cbn [bind] in H.
  destruct (res_map (sami_lang c) (ns_langs s)) as [ls|] eqn:E; [|discriminate].
  cbn [bind] in H. inversion H; subst. split; [reflexivity|]. cbn [ns_langs]. apply sami_langs_step. exact E.
Qed.

(* refusal: a layout that is positioned with (truthy) and has a length needing an absent dimension *)
Definition opt_needs (c : wcfg) (o : option layout) : bool :=
  match o with Some l => layout_truthy l && needs_missing (w_w c) (w_h c) l | None => false end.

Lemma res_map_err_iff : forall {A B} (f : A -> result B) l,
  (exists e, res_map f l = Err e) <-> (exists x, In x l /\ exists e, f x = Err e).
Proof.
  intros A B f l. split.
  - intros [e H]. destruct (res_map_err _ _ _ H) as (x & Hx & Hf). eauto.
  - induction l as [|a l IH]; intros (x & Hx & e & He); [destruct Hx|]. cbn [res_map].
    destruct (f a) as [b|e0] eqn:Ea.
    + cbn [bind]. destruct Hx as [->|Hx]; [congruence|].
      destruct (IH (ex_intro _ x (conj Hx (ex_intro _ e He)))) as [e' He']. rewrite He'. cbn [bind]. exists e'. reflexivity.
    + cbn [bind]. exists e0. reflexivity.
Qed.

Lemma raf_refused_iff : forall c o, w_rel c = true -> ((exists e, raf c o = Err e) <-> opt_needs c o = true).
Proof.
  intros c [l|] Hr; cbn [raf opt_needs]; [|split; [intros [e H]; discriminate|discriminate]].
  rewrite Hr. unfold relativize_and_fit. destruct (layout_truthy l) eqn:T; cbn [andb].
  - destruct (layout_as_pct l (w_w c) (w_h c)) as [l1|e1] eqn:E.
    + cbn [bind]. assert (N : needs_missing (w_w c) (w_h c) l = false).
      { destruct (needs_missing (w_w c) (w_h c) l) eqn:N; [|reflexivity].
        apply (proj1 (layout_refused_iff l (w_w c) (w_h c))) in N. destruct N as [e N]. congruence. }
      rewrite N. split; [|discriminate]. intros [e H]. destruct (w_fit c).
      * destruct (layout_fit_pct_ok l1 (layout_as_pct_all_pct _ _ _ _ E)) as [r Hr']. rewrite Hr' in H. discriminate.
      * discriminate.
    + cbn [bind]. split; [intros _|eauto]. apply (proj1 (layout_refused_iff l (w_w c) (w_h c))). eauto.
  - split; [intros [e H]; discriminate|discriminate].
Qed.

Lemma rel_only_refused_iff : forall c o, w_rel c = true -> ((exists e, rel_only c o = Err e) <-> opt_needs c o = true).
Proof.
  intros c [l|] Hr; cbn [rel_only opt_needs]; [|split; [intros [e H]; discriminate|discriminate]].
  rewrite Hr, andb_true_r. destruct (layout_truthy l); cbn [andb]; [|split; [intros [e H]; discriminate|discriminate]].
  destruct (layout_as_pct l (w_w c) (w_h c)) as [l1|e1] eqn:E; cbn [bind].
  - split; [intros [e H]; discriminate|]. intros N. apply (proj1 (layout_refused_iff l (w_w c) (w_h c))) in N.
    destruct N as [e N]. congruence.
  - split; [intros _|eauto]. apply (proj1 (layout_refused_iff l (w_w c) (w_h c))). eauto.
Qed.

Lemma raf_cap_refused_iff : forall c cp, w_rel c = true ->
  ((exists e, raf_cap c cp = Err e) <-> existsb (opt_needs c) (nc_layout cp :: map n_layout (nc_nodes cp)) = true).
Proof.
  intros c cp Hr. cbn [existsb]. rewrite orb_true_iff, <- (raf_refused_iff c (nc_layout cp) Hr).
  assert (Nodes : (exists e, res_map (raf_node c) (nc_nodes cp) = Err e) <-> existsb (opt_needs c) (map n_layout (nc_nodes cp)) = true).
  { rewrite res_map_err_iff, existsb_exists. split.
    - intros (n & Hn & e & He). exists (n_layout n). split; [apply in_map; exact Hn|]. apply (raf_refused_iff c _ Hr).
      unfold raf_node in He. destruct (raf c (n_layout n)) eqn:E; [discriminate|eauto].
    - intros (o & Ho & Hneed). apply in_map_iff in Ho. destruct Ho as (n & <- & Hn). exists n. split; [exact Hn|].
      apply (raf_refused_iff c _ Hr) in Hneed. destruct Hneed as [e He]. exists e. unfold raf_node. rewrite He. reflexivity. }
  rewrite <- Nodes. unfold raf_cap. destruct (raf c (nc_layout cp)) eqn:E1; cbn [bind].
  - destruct (res_map (raf_node c) (nc_nodes cp)) eqn:E2; cbn [bind].
    + split; [intros [e H]; discriminate|intros [[e H]|[e H]]; discriminate].
    + split; [intros _; right; eauto|eauto].
  - split; [intros _; left; eauto|eauto].
Qed.

Lemma caps_refused_iff : forall c caps, w_rel c = true ->
  ((exists e, res_map (raf_cap c) caps = Err e)
   <-> existsb (opt_needs c) (flat_map (fun cp => nc_layout cp :: map n_layout (nc_nodes cp)) caps) = true).
Proof.
  intros c caps Hr. rewrite res_map_err_iff, existsb_exists. split.
  - intros (cp & Hcp & He). apply (raf_cap_refused_iff c cp Hr) in He. apply existsb_exists in He. destruct He as (o & Ho & Hn).
    exists o. split; [apply in_flat_map; eauto|exact Hn].
  - intros (o & Ho & Hn). apply in_flat_map in Ho. destruct Ho as (cp & Hcp & Ho). exists cp. split; [exact Hcp|].
    apply (raf_cap_refused_iff c cp Hr). apply existsb_exists. eauto.
Qed.

(* DFXP: RelativizationError exactly when a language-, caption- or node-level layout that is positioned with has a length
   on an axis whose video dimension is missing *)
Theorem dfxp_refused_iff : forall c s, w_rel c = true ->
  ((exists e, dfxp_transform c s = Err e) <-> existsb (opt_needs c) (written_layouts s) = true).
Proof.
  intros c s Hr. unfold dfxp_transform, written_layouts.
  assert (L : forall lg, (exists e, dfxp_lang c lg = Err e) <-> existsb (opt_needs c) (written_layouts_lang lg) = true).
  { intros lg. unfold written_layouts_lang. cbn [existsb]. rewrite orb_true_iff, <- (rel_only_refused_iff c _ Hr), <- (caps_refused_iff c _ Hr).
    unfold dfxp_lang. destruct (rel_only c (nl_layout lg)) eqn:E1; cbn [bind].
    - destruct (res_map (raf_cap c) (nl_caps lg)) eqn:E2; cbn [bind].
      + split; [intros [e H]; discriminate|intros [[e H]|[e H]]; discriminate].
      + split; [intros _; right; eauto|eauto].
    - split; [intros _; left; eauto|eauto]. }
  transitivity (exists e, res_map (dfxp_lang c) (ns_langs s) = Err e).
  - destruct (res_map (dfxp_lang c) (ns_langs s)) as [okv|errv] eqn:E; cbn [bind]; split; intros [e' H]; try discriminate; eauto.
  - rewrite res_map_err_iff, existsb_exists. split.
    + intros (lg & Hlg & He). apply L in He. apply existsb_exists in He. destruct He as (o & Ho & Hn).
      exists o. split; [apply in_flat_map; eauto|exact Hn].
    + intros (o & Ho & Hn). apply in_flat_map in Ho. destruct Ho as (lg & Hlg & Ho). exists lg. split; [exact Hlg|].
      apply L. apply existsb_exists. eauto.
Qed.

Theorem sami_refused_iff : forall c s, w_rel c = true ->
  ((exists e, sami_transform c s = Err e) <-> existsb (opt_needs c) (ns_layout s :: written_layouts s) = true).
Proof.
  intros c s Hr. unfold sami_transform, written_layouts. cbn [existsb]. rewrite orb_true_iff, <- (raf_refused_iff c _ Hr).
  assert (L : forall lg, (exists e, sami_lang c lg = Err e) <-> existsb (opt_needs c) (written_layouts_lang lg) = true).
  { intros lg. unfold written_layouts_lang. cbn [existsb]. rewrite orb_true_iff, <- (raf_refused_iff c _ Hr), <- (caps_refused_iff c _ Hr).
    unfold sami_lang. destruct (raf c (nl_layout lg)) eqn:E1; cbn [bind].
    - destruct (res_map (raf_cap c) (nl_caps lg)) eqn:E2; cbn [bind].
      + split; [intros [e H]; discriminate|intros [[e H]|[e H]]; discriminate].
      + split; [intros _; right; eauto|eauto].
    - split; [intros _; left; eauto|eauto]. }
  assert (Ls : (exists e, res_map (sami_lang c) (ns_langs s) = Err e)
               <-> existsb (opt_needs c) (flat_map written_layouts_lang (ns_langs s)) = true).
  { rewrite res_map_err_iff, existsb_exists. split.
    + intros (lg & Hlg & He). apply L in He. apply existsb_exists in He. destruct He as (o & Ho & Hn).
      exists o. split; [apply in_flat_map; eauto|exact Hn].
    + intros (o & Ho & Hn). apply in_flat_map in Ho. destruct Ho as (lg & Hlg & Ho). exists lg. split; [exact Hlg|].
      apply L. apply existsb_exists. eauto. }
  rewrite <- Ls. destruct (raf c (ns_layout s)) eqn:Eg; cbn [bind].
  - destruct (res_map (sami_lang c) (ns_langs s)) eqn:E; cbn [bind].
    + split; [intros [e H]; discriminate|intros [[e H]|[e H]]; discriminate].
    + split; [intros _; right; eauto|eauto].
  - split; [intros _; left; eauto|eauto].
Qed.

(* ---- the fit clause at writer level: every caption- and node-level layout of the transformed set ------------- *)
Definition fitted (r : layout) : Prop :=
  forall o, l_origin r = Some o -> in_safe_area o = true ->
  exists e, l_extent r = Some e /\ s_unit (st_h e) = PCT /\ s_unit (st_v e) = PCT
            /\ (s_val (p_x o) + s_val (st_h e) <= 90)%Q /\ (s_val (p_y o) + s_val (st_v e) <= 95)%Q.
Definition opt_fitted (o : option layout) : Prop := match o with Some r => fitted r | None => True end.

Lemma all_pct_extent : forall l, all_pct l = true ->
  match l_extent l with Some e => s_unit (st_h e) = PCT /\ s_unit (st_v e) = PCT | None => True end.
Proof.
  intros [o e p al wv] H. unfold all_pct, sizes_axes in H. cbn [l_origin l_extent l_padding] in *.
  destruct e as [[eh ev]|]; [|exact I]. rewrite !forallb_app in H. apply andb_true_iff in H. destruct H as [_ H].
  apply andb_true_iff in H. destruct H as [H _]. cbn [forallb fst st_h st_v] in H.
  apply andb_true_iff in H. destruct H as [H1 H]. apply andb_true_iff in H. destruct H as [H2 _].
  apply unit_eqb_eq in H1, H2. split; assumption.
Qed.

Lemma layout_fit_fitted : forall l1 r, all_pct l1 = true -> layout_fit l1 = Ok r -> fitted r.
Proof.
  intros l1 r P H o Ho Hs. destruct (layout_fit_keeps _ _ H) as (Ko & _). rewrite Ko in Ho.
  destruct (fit_safe l1 o Ho Hs (all_pct_extent _ P)) as (e' & Hf & U1 & U2 & R1 & R2 & _).
  rewrite Hf in H. inversion H; subst. cbn [l_extent]. eauto 10.
Qed.

Theorem raf_fitted : forall c o o', w_rel c = true -> w_fit c = true -> raf c o = Ok o' -> opt_fitted o'.
Proof.
  intros c [l|] o' Hr Hf H; cbn [raf] in H; [|inversion H; exact I].
  rewrite Hr, Hf in H. unfold relativize_and_fit in H. destruct (layout_truthy l) eqn:T.
  - destruct (layout_as_pct l (w_w c) (w_h c)) as [l1|] eqn:E; [|discriminate]. cbn [bind] in H.
    destruct (layout_fit l1) as [r|] eqn:F; [|discriminate]. cbn [bind] in H. inversion H; subst. cbn [opt_fitted].
    eapply layout_fit_fitted; [eapply layout_as_pct_all_pct; eauto|exact F].
  - cbn [bind] in H. inversion H; subst. cbn [opt_fitted]. intros o Ho _.
    unfold layout_truthy in T. rewrite Ho in T. destruct (l_extent l), (l_padding l), (l_alignment l), (l_webvtt l) as [[|]|]; discriminate.
Qed.

Definition cap_node_layouts (s : nset) : list (option layout) :=
  flat_map (fun lg => flat_map (fun cp => nc_layout cp :: map n_layout (nc_nodes cp)) (nl_caps lg)) (ns_langs s).

Lemma nodes_fitted : forall c ns ns', w_rel c = true -> w_fit c = true -> Forall2 (node_step c) ns ns' ->
  Forall opt_fitted (map n_layout ns').
Proof.
  intros c ns ns' Hr Hf H. induction H as [|n n' t t' [Hn _] _ IH]; constructor; [eapply raf_fitted; eauto|exact IH].
Qed.

Lemma caps_fitted : forall c cs cs', w_rel c = true -> w_fit c = true -> Forall2 (cap_step c) cs cs' ->
  Forall opt_fitted (flat_map (fun cp => nc_layout cp :: map n_layout (nc_nodes cp)) cs').
Proof.
  intros c cs cs' Hr Hf H. induction H as [|x y t t' [Hc Hn] _ IH]; [constructor|].
  cbn [flat_map]. apply Forall_app. split; [|exact IH].
  constructor; [eapply raf_fitted; eauto|eapply nodes_fitted; eauto].
Qed.

(* DFXP with relativization and fit on: every caption- and node-level layout that is written and whose origin lies in the
   safe area has an extent, right edge <= 90, bottom edge <= 95 (the language level is NOT fitted: known finding) *)
Theorem dfxp_fit_levels : forall c s s', w_rel c = true -> w_fit c = true -> dfxp_transform c s = Ok s' ->
  Forall opt_fitted (cap_node_layouts s').
Proof.
  intros c s s' Hr Hf H. destruct (dfxp_transform_levels c s s' H) as [_ L]. unfold cap_node_layouts.
  induction L as [|lg lg' t t' [_ Hc] _ IH]; [constructor|]. cbn [flat_map]. apply Forall_app. split; [|exact IH].
  eapply caps_fitted; eauto.
Qed.
