(* C17: rows are broken only at spaces; only words longer than the width are split.
   For texts whose only whitespace character is the space (every text over the CEA-608 basic set), the words
   of the rows produced by the textwrap model refine the words of the text (spec.SpecSccw.refines). *)
From Coq Require Import List ZArith Lia Bool ZifyBool Arith.
From PV Require Import lib.Sx lib.Str model.SccWrap spec.SpecSccw proofs.SccWrapFacts.
Import ListNotations.

Definition nsp (c : Z) : bool := negb (is_space c).
Definition wsk (c : str) : bool := forallb is_sp c.
Definition wdk (c : str) : bool := match c with [] => false | _ => forallb nsp c end.
Definition chunk_ok (c : str) : bool := match c with [] => false | _ => wsk c || wdk c end.
Definition F (l : list str) : list str := filter wdk l.

Fixpoint good (l : list str) : Prop :=
  match l with
  | [] => True
  | c :: t => chunk_ok c = true /\ (wdk c = true -> match t with d :: _ => wdk d = false | [] => True end) /\ good t
  end.

Definition plain (s : str) : bool := forallb (fun c => nsp c || is_sp c) s.

Lemma is_sp_space : forall c, is_sp c = true -> is_space c = true.
Proof. intros c H. unfold is_sp, is_space in *. lia. Qed.
Lemma nsp_not_sp : forall c, nsp c = true -> is_sp c = false.
Proof. intros c H. unfold nsp in H. destruct (is_sp c) eqn:E; [|reflexivity]. apply is_sp_space in E. rewrite E in H. discriminate. Qed.
Lemma nsp_not_blank : forall c, nsp c = true -> is_blank c = false.
Proof. intros c H. unfold nsp, is_space, is_blank in *. lia. Qed.
Lemma is_sp_blank : forall c, is_sp c = true -> is_blank c = true.
Proof. intros c H. unfold is_sp, is_blank in *. lia. Qed.

Lemma wdk_not_ws : forall c, wdk c = true -> is_ws_chunk c = false.
Proof.
  intros [|x t] H; [discriminate|]. simpl in H. apply andb_prop in H. destruct H as [H _].
  simpl. unfold nsp in H. destruct (is_space x); [discriminate|reflexivity].
Qed.
Lemma wsk_ws : forall c, wsk c = true -> is_ws_chunk c = true.
Proof.
  induction c as [|x t IH]; intros H; [reflexivity|]. simpl in H. apply andb_prop in H. destruct H as [H1 H2].
  simpl. rewrite (is_sp_space _ H1). simpl. auto.
Qed.
Lemma ok_kind : forall c, chunk_ok c = true -> is_ws_chunk c = negb (wdk c).
Proof.
  intros c H. destruct (wdk c) eqn:W.
  - simpl. apply wdk_not_ws. exact W.
  - simpl. apply wsk_ws. destruct c; [discriminate|]. unfold chunk_ok in H. rewrite W, orb_false_r in H. exact H.
Qed.
Lemma ok_wsk : forall c, chunk_ok c = true -> wdk c = false -> wsk c = true /\ c <> [].
Proof.
  intros c H W. destruct c; [discriminate|]. unfold chunk_ok in H. rewrite W, orb_false_r in H. split; [exact H|discriminate].
Qed.

(* ---- words of a concatenation of good chunks -------------------------------------------------------- *)
Lemma words_aux_spaces : forall c s, wsk c = true -> words_aux (c ++ s) [] = words_aux s [].
Proof.
  induction c as [|x t IH]; intros s H; [reflexivity|]. simpl in H. apply andb_prop in H. destruct H as [H1 H2].
  cbn [app words_aux]. rewrite (is_sp_blank _ H1). apply IH. exact H2.
Qed.
Lemma words_aux_run : forall c s cur, forallb nsp c = true -> words_aux (c ++ s) cur = words_aux s (rev c ++ cur).
Proof.
  induction c as [|x t IH]; intros s cur H; [reflexivity|]. simpl in H. apply andb_prop in H. destruct H as [H1 H2].
  cbn [app words_aux]. rewrite (nsp_not_blank _ H1), IH by exact H2. cbn [rev]. rewrite <- app_assoc. reflexivity.
Qed.
Lemma words_word : forall c s, wdk c = true -> match s with [] => True | b :: _ => is_blank b = true end ->
  words (c ++ s) = c :: words s.
Proof.
  intros c s H Hs. unfold words. destruct c as [|x t]; [discriminate|].
  rewrite words_aux_run by exact H. rewrite app_nil_r.
  destruct s as [|b s']; cbn [words_aux].
  - destruct (rev (x :: t)) eqn:E; [apply (f_equal (@length Z)) in E; rewrite rev_length in E; discriminate|].
    rewrite <- E, rev_involutive. reflexivity.
  - rewrite Hs. destruct (rev (x :: t)) eqn:E; [apply (f_equal (@length Z)) in E; rewrite rev_length in E; discriminate|].
    rewrite <- E, rev_involutive. reflexivity.
Qed.

Lemma words_good : forall l, good l -> words (concat l) = F l.
Proof.
  induction l as [|c t IH]; intros G; [reflexivity|]. destruct G as (G1 & G2 & G3). cbn [concat F filter].
  destruct (wdk c) eqn:W.
  - rewrite words_word; [f_equal; apply IH; exact G3|exact W|].
    destruct t as [|d t']; [exact I|]. specialize (G2 eq_refl). destruct G3 as (D1 & _ & _).
    destruct (ok_wsk d D1 G2) as [D2 D3]. destruct d as [|y d']; [congruence|].
    cbn [concat app]. simpl in D2. apply andb_prop in D2. destruct D2 as [D2 _]. apply is_sp_blank. exact D2.
  - destruct (ok_wsk c G1 W) as [C1 _]. unfold words. rewrite words_aux_spaces by exact C1. apply IH. exact G3.
Qed.

Lemma good_app_r : forall a b, good (a ++ b) -> good b.
Proof. induction a as [|x t IH]; intros b G; [exact G|]. destruct G as (_ & _ & G). apply IH. exact G. Qed.
Lemma good_app_l : forall a b, good (a ++ b) -> good a.
Proof.
  induction a as [|x t IH]; intros b G; [exact I|]. destruct G as (G1 & G2 & G3).
  split; [exact G1|]. split; [|apply (IH b); exact G3].
  intros W. specialize (G2 W). destruct t; [exact I|exact G2].
Qed.
(* replace the last chunk by a non-empty chunk of the same kind *)
Lemma good_snoc_same : forall a c c', good (a ++ [c]) -> chunk_ok c' = true -> wdk c' = wdk c -> good (a ++ [c']).
Proof.
  induction a as [|x t IH]; intros c c' G O K.
  - simpl. repeat split; auto.
  - destruct G as (G1 & G2 & G3). cbn [app]. split; [exact G1|]. split; [|apply (IH c); auto].
    intros W. specialize (G2 W). destruct t; cbn [app] in *; [rewrite K; exact G2|exact G2].
Qed.
Lemma F_app : forall a b, F (a ++ b) = F a ++ F b.
Proof. intros. apply filter_app. Qed.

(* pieces of a chunk keep its kind *)
Lemma forallb_firstn : forall (p : Z -> bool) n s, forallb p s = true -> forallb p (firstn n s) = true.
Proof.
  induction n as [|n IH]; intros [|x t] H; cbn [firstn forallb] in *; auto.
  apply andb_prop in H. destruct H as [H1 H2]. rewrite H1. apply IH. exact H2.
Qed.
Lemma forallb_skipn : forall (p : Z -> bool) n s, forallb p s = true -> forallb p (skipn n s) = true.
Proof.
  induction n as [|n IH]; intros [|x t] H; cbn [skipn forallb] in *; auto.
  apply andb_prop in H. destruct H as [_ H2]. apply IH. exact H2.
Qed.

Lemma piece_kind : forall c p, chunk_ok c = true -> p <> [] ->
  (forall q, forallb q c = true -> forallb q p = true) -> chunk_ok p = true /\ wdk p = wdk c.
Proof.
  intros c p O N Sub. destruct p as [|y p']; [congruence|]. destruct (wdk c) eqn:W.
  - assert (W' : wdk (y :: p') = true).
    { unfold wdk. apply Sub. destruct c; [discriminate|exact W]. }
    split; [|exact W']. unfold chunk_ok. rewrite W'. apply orb_true_r.
  - destruct (ok_wsk c O W) as [C1 _]. assert (S' : wsk (y :: p') = true) by (apply Sub; exact C1).
    split; [unfold chunk_ok; rewrite S'; reflexivity|].
    pose proof (wsk_ws _ S') as Q. destruct (wdk (y :: p')) eqn:W'; [|reflexivity].
    apply wdk_not_ws in W'. congruence.
Qed.

(* ---- the refinement relation with a "continuation" flag for the head word ------------------------------- *)
Inductive RefH (width : nat) : bool -> list str -> list str -> Prop :=
| RH_nil : forall h, RefH width h [] []
| RH_whole : forall h w ws P, RefH width false ws P -> RefH width h (w :: ws) (w :: P)
| RH_split : forall h w1 w2 ws P, (h = true \/ (width < length (w1 ++ w2))%nat) -> w1 <> [] -> w2 <> [] ->
    RefH width true (w2 :: ws) P -> RefH width h ((w1 ++ w2) :: ws) (w1 :: P).

Lemma RefH_mono : forall width ws P h, RefH width false ws P -> RefH width h ws P.
Proof.
  intros width ws P h H. inversion H; subst.
  - constructor.
  - constructor. assumption.
  - apply RH_split; auto. destruct H0 as [H0|H0]; [discriminate|right; exact H0].
Qed.
Lemma RefH_prefix : forall width l h ws P, RefH width false ws P -> RefH width h (l ++ ws) (l ++ P).
Proof.
  induction l as [|w t IH]; intros h ws P H; cbn [app].
  - apply RefH_mono. exact H.
  - apply RH_whole. apply IH. exact H.
Qed.

(* ---- one iteration of the wrapping loop ---------------------------------------------------------------- *)
Definition head_wd (l : list str) : Prop := match l with c :: _ => wdk c = true | [] => False end.

Lemma line_words : forall lines l', good l' ->
  flat_map words (rev (match rev l' with [] => lines | _ => concat l' :: lines end))
  = flat_map words (rev lines) ++ F l'.
Proof.
  intros lines l' G. destruct (rev l') eqn:E.
  - assert (l' = []) by (apply (f_equal (@rev str)) in E; rewrite rev_involutive in E; exact E). subst.
    simpl. rewrite app_nil_r. reflexivity.
  - cbn [rev]. rewrite flat_map_app. cbn [flat_map]. rewrite app_nil_r, words_good by exact G. reflexivity.
Qed.

Lemma drop_last_ws_rev : forall l, good l ->
  exists l', drop_last_ws (rev l) = rev l' /\ good l' /\ F l' = F l.
Proof.
  intros l G. destruct (rev l) as [|x t] eqn:E.
  - exists []. assert (l = []) by (apply (f_equal (@rev str)) in E; rewrite rev_involutive in E; exact E). subst.
    repeat split.
  - assert (L : l = rev t ++ [x]) by (apply (f_equal (@rev str)) in E; rewrite rev_involutive in E; exact E).
    cbn [drop_last_ws]. destruct (is_ws_chunk x) eqn:Q.
    + exists (rev t). rewrite rev_involutive. split; [reflexivity|]. subst l. split; [apply good_app_l in G; exact G|].
      rewrite F_app. cbn [F filter]. destruct (wdk x) eqn:W; [apply wdk_not_ws in W; congruence|]. rewrite app_nil_r. reflexivity.
    + exists l. rewrite <- E. repeat split; auto.
Qed.

Lemma wrap_step_words : forall width chunks lines chunks' lines' h,
  (1 <= width)%nat -> good chunks -> (h = true -> head_wd chunks) ->
  wrap_step width chunks lines = (chunks', lines') ->
  exists Q h', flat_map words (rev lines') = flat_map words (rev lines) ++ Q /\
    good chunks' /\ (h' = true -> head_wd chunks') /\
    (forall P, RefH width h' (F chunks') P -> RefH width h (F chunks) (Q ++ P)).
Proof.
  intros width chunks lines chunks' lines' h W G HW H. unfold wrap_step in H.
  set (hl := match lines with [] => false | _ => true end) in *.
  (* dropping a leading whitespace chunk *)
  assert (D : good (drop_first_ws chunks hl) /\ F (drop_first_ws chunks hl) = F chunks).
  { unfold drop_first_ws. destruct chunks as [|c0 r0]; [split; [exact I|reflexivity]|].
    destruct (is_ws_chunk c0 && hl) eqn:Q; [|split; [exact G|reflexivity]].
    apply andb_prop in Q. destruct Q as [Q _]. destruct G as (G1 & _ & G3). split; [exact G3|].
    cbn [F filter]. destruct (wdk c0) eqn:W0; [apply wdk_not_ws in W0; congruence|reflexivity]. }
  destruct D as [G1 F1]. rewrite <- F1. clear F1 HW.
  set (chunks1 := drop_first_ws chunks hl) in *. clearbody chunks1. clear G chunks hl.
  destruct (take_fit width chunks1 [] 0%nat) as [[cur len] rest] eqn:T.
  apply take_fit_spec in T; [|reflexivity|lia].
  destruct T as (T1 & T2 & _ & (taken & T4 & T5) & T6). rewrite app_nil_r in T4. subst cur chunks1.
  rewrite F_app.
  assert (Gt : good taken) by (apply good_app_l in G1; exact G1).
  assert (Gr : good rest) by (apply good_app_r in G1; exact G1).
  (* the generic outcome: the line is made of the taken chunks (possibly without a trailing whitespace chunk) *)
  assert (Plain : forall l', drop_last_ws (rev taken) = rev l' -> good l' -> F l' = F taken ->
            forall ch3, good ch3 -> F ch3 = F rest ->
            match drop_last_ws (rev taken) with [] => (ch3, lines) | x :: y => (ch3, concat (rev (x :: y)) :: lines) end
            = (chunks', lines') ->
            exists Q h', flat_map words (rev lines') = flat_map words (rev lines) ++ Q /\
              good chunks' /\ (h' = true -> head_wd chunks') /\
              (forall P, RefH width h' (F chunks') P -> RefH width h (F taken ++ F rest) (Q ++ P))).
  { intros l' E Gl Fl ch3 G3 F3 Eq. exists (F taken), false.
    assert (LC : lines' = match rev l' with [] => lines | _ => concat l' :: lines end /\ chunks' = ch3).
    { rewrite E in Eq. destruct (rev l') as [|x y] eqn:R; [inversion Eq; split; reflexivity|].
      assert (X : rev (x :: y) = l') by (rewrite <- R; apply rev_involutive).
      rewrite X in Eq. inversion Eq; split; reflexivity. }
    destruct LC as [L Ch]. subst chunks'. clear Eq.
    rewrite L, line_words by exact Gl. rewrite Fl.
    split; [reflexivity|]. split; [exact G3|]. split; [discriminate|]. intros P HP. rewrite F3 in HP. apply RefH_prefix. exact HP. }
  unfold handle_long in H. destruct rest as [|c r]; cbv beta iota in H.
  - (* nothing left *)
    destruct (drop_last_ws_rev taken Gt) as (l' & E & Gl & Fl).
    apply (Plain l' E Gl Fl []); auto.
  - destruct (width <? length c)%nat eqn:LW; cbv beta iota in H.
    + (* a chunk longer than the width: split it *)
      set (k := (width - len)%nat) in *.
      destruct Gr as (C1 & C2 & C3).
      assert (N2 : skipn k c <> []).
      { intros E. apply (f_equal (@length Z)) in E. rewrite skipn_length in E. simpl in E. lia. }
      destruct (piece_kind c (skipn k c) C1 N2 (fun q => forallb_skipn q k c)) as [O2 K2].
      assert (G2 : good (skipn k c :: r)).
      { split; [exact O2|]. split; [rewrite K2; exact C2|exact C3]. }
      destruct (is_ws_chunk (firstn k c)) eqn:WS.
      * (* the piece put on the line is whitespace (or empty): it is dropped again *)
        cbn [drop_last_ws] in H. rewrite WS in H.
        (* here the line keeps all taken chunks, including a trailing whitespace chunk *)
        assert (Key : exists Q h', flat_map words (rev lines') = flat_map words (rev lines) ++ Q /\
                  good chunks' /\ (h' = true -> head_wd chunks') /\
                  (forall P, RefH width h' (F chunks') P -> RefH width h (F taken ++ F (c :: r)) (Q ++ P))).
        { exists (F taken), false.
          assert (L : lines' = match rev taken with [] => lines | _ => concat taken :: lines end).
          { destruct (rev taken) as [|x y] eqn:R; [inversion H; reflexivity|].
            assert (X : rev (x :: y) = taken) by (rewrite <- R; apply rev_involutive).
            rewrite X in H. inversion H; reflexivity. }
          assert (Ch : chunks' = skipn k c :: r) by (destruct (rev taken); inversion H; reflexivity).
          subst chunks'. rewrite L, line_words by exact Gt.
          split; [reflexivity|]. split; [exact G2|]. split; [discriminate|]. intros P HP. apply RefH_prefix.
          cbn [F filter] in HP |- *. rewrite K2 in HP.
          destruct (wdk c) eqn:Wc; [|exact HP].
          (* a word chunk whose first piece is empty: the chunk is unchanged *)
          assert (K0 : firstn k c = []).
          { destruct (firstn k c) as [|y p'] eqn:Fk; [reflexivity|].
            assert (Wp : wdk (y :: p') = true).
            { rewrite <- Fk. destruct (piece_kind c (firstn k c) C1) as [_ Kp]; [rewrite Fk; discriminate| |rewrite Kp; exact Wc].
              intros q. apply forallb_firstn. }
            apply wdk_not_ws in Wp. congruence. }
          assert (Sk : skipn k c = c) by (rewrite <- (firstn_skipn k c) at 2; rewrite K0; reflexivity).
          rewrite Sk in HP. exact HP. }
        exact Key.
      * (* a real piece of a word stays on the line *)
        cbn [drop_last_ws] in H. rewrite WS in H. inversion H; subst chunks' lines'. clear H.
        assert (N1 : firstn k c <> []) by (intros E; rewrite E in WS; discriminate).
        destruct (piece_kind c (firstn k c) C1 N1 (fun q => forallb_firstn q k c)) as [O1 K1].
        assert (Wc : wdk c = true).
        { destruct (wdk c) eqn:Wc; [reflexivity|]. rewrite (ok_kind _ O1), K1 in WS. discriminate. }
        exists (F taken ++ [firstn k c]), true.
        assert (Gl : good (taken ++ [firstn k c])).
        { apply (good_snoc_same taken c); auto. apply (good_app_l _ r). rewrite <- app_assoc. exact G1. }
        split.
        { rewrite rev_involutive. cbn [rev]. rewrite flat_map_app. cbn [flat_map]. rewrite app_nil_r, words_good by exact Gl.
          rewrite F_app. cbn [F filter]. rewrite K1, Wc. reflexivity. }
        split; [exact G2|]. split; [intros _; cbn [head_wd]; rewrite K2; exact Wc|].
        intros P HP. rewrite <- app_assoc. apply RefH_prefix. cbn [app F filter] in HP |- *.
        rewrite K2, Wc in HP. rewrite Wc. rewrite <- (firstn_skipn k c) at 1.
        apply RH_split; auto. right. rewrite firstn_skipn. apply Nat.ltb_lt. exact LW.
    + (* the next chunk merely does not fit on this line *)
      destruct (drop_last_ws_rev taken Gt) as (l' & E & Gl & Fl).
      apply (Plain l' E Gl Fl (c :: r)); auto.
Qed.

Lemma wrap_loop_words : forall fuel width chunks lines h,
  (1 <= width)%nat -> good chunks -> (h = true -> head_wd chunks) -> (measure chunks <= fuel)%nat ->
  exists P, flat_map words (wrap_loop fuel width chunks lines) = flat_map words (rev lines) ++ P
            /\ RefH width h (F chunks) P.
Proof.
  induction fuel as [|f IH]; intros width chunks lines h W G HW M.
  - destruct chunks; [|unfold measure in M; simpl in M; lia]. exists []. simpl. rewrite app_nil_r. split; [reflexivity|constructor].
  - cbn [wrap_loop]. destruct chunks as [|c t]; [exists []; simpl; rewrite app_nil_r; split; [reflexivity|constructor]|].
    destruct (wrap_step width (c :: t) lines) as [chunks' lines'] eqn:S.
    assert (NE : c :: t <> []) by discriminate.
    destruct (wrap_step_spec _ _ _ _ _ W NE S) as [_ M'].
    destruct (wrap_step_words _ _ _ _ _ h W G HW S) as (Q & h' & E1 & G' & HW' & R).
    destruct (IH width chunks' lines' h' W G' HW' ltac:(lia)) as (P & E2 & R2).
    exists (Q ++ P). split; [rewrite E2, E1, app_assoc; reflexivity|apply R; exact R2].
Qed.

(* ---- chunks of a plain text are good ------------------------------------------------------------------- *)
Lemma munge_plain : forall s, plain s = true -> munge s = s.
Proof.
  induction s as [|c t IH]; intros H; [reflexivity|]. simpl in H. apply andb_prop in H. destruct H as [H1 H2].
  cbn [munge map]. fold (munge t). rewrite IH by exact H2. f_equal.
  destruct (tw_is_ws c) eqn:E; [|reflexivity].
  unfold nsp, is_sp, tw_is_ws, is_space in *. lia.
Qed.

Lemma split_chunks_good : forall s, plain s = true ->
  good (split_chunks s) /\
  match split_chunks s, s with
  | (d :: _) :: _, c :: _ => is_sp d = is_sp c
  | [], [] => True
  | _, _ => False
  end.
Proof.
  induction s as [|c t IH]; intros H; [split; exact I|].
  simpl in H. apply andb_prop in H. destruct H as [H1 H2]. specialize (IH H2). destruct IH as [G Hd].
  assert (Single : chunk_ok [c] = true /\ wdk [c] = negb (is_sp c)).
  { unfold chunk_ok, wsk, wdk. cbn [forallb]. destruct (is_sp c) eqn:E.
    - assert (N : nsp c = false) by (unfold nsp; rewrite (is_sp_space _ E); reflexivity).
      rewrite N. split; reflexivity.
    - rewrite orb_false_r in H1. rewrite H1. split; reflexivity. }
  destruct Single as [S1 S2].
  cbn [split_chunks]. destruct (split_chunks t) as [|[|d ds] rest] eqn:E.
  - split; [|reflexivity]. repeat split; auto.
  - destruct G as (G1 & _). discriminate.
  - destruct t as [|c' t']; [contradiction|]. destruct G as (G1 & G2 & G3).
    destruct (Bool.eqb (is_sp c) (is_sp d)) eqn:Q.
    + apply eqb_prop in Q. split; [|reflexivity].
      assert (K : chunk_ok (c :: d :: ds) = true /\ wdk (c :: d :: ds) = wdk (d :: ds)).
      { destruct (wdk (d :: ds)) eqn:Wd.
        - assert (Nd : nsp d = true) by (simpl in Wd; apply andb_prop in Wd; tauto).
          assert (Nc : nsp c = true).
          { rewrite (nsp_not_sp _ Nd) in Q. rewrite Q, orb_false_r in H1. exact H1. }
          assert (Wc : wdk (c :: d :: ds) = true) by (unfold wdk in *; cbn [forallb] in *; rewrite Nc; exact Wd).
          split; [unfold chunk_ok; rewrite Wc; apply orb_true_r|exact Wc].
        - destruct (ok_wsk _ G1 Wd) as [Sd _].
          assert (Sc : is_sp c = true) by (rewrite Q; simpl in Sd; apply andb_prop in Sd; tauto).
          assert (Wc : wsk (c :: d :: ds) = true) by (unfold wsk in *; cbn [forallb] in *; rewrite Sc; exact Sd).
          split; [unfold chunk_ok; rewrite Wc; reflexivity|].
          destruct (wdk (c :: d :: ds)) eqn:Wc'; [|reflexivity]. apply wdk_not_ws in Wc'. apply wsk_ws in Wc. congruence. }
      destruct K as [K1 K2]. split; [exact K1|]. split; [rewrite K2; exact G2|exact G3].
    + apply eqb_false_iff in Q. split; [|reflexivity]. split; [exact S1|]. split; [|repeat split; auto].
      intros Wc. rewrite S2 in Wc. destruct (is_sp c) eqn:Sc; [discriminate|].
      assert (Sd : is_sp d = true) by (destruct (is_sp d); [reflexivity|congruence]).
      destruct (wdk (d :: ds)) eqn:Wd; [|reflexivity].
      simpl in Wd. apply andb_prop in Wd. destruct Wd as [Nd _]. apply nsp_not_sp in Nd. congruence.
Qed.

Theorem wrap_refines_H : forall width text, (1 <= width)%nat -> plain text = true ->
  RefH width false (words text) (flat_map words (wrap width text)).
Proof.
  intros width text W Pl. unfold wrap. rewrite (munge_plain _ Pl).
  destruct (split_chunks_good text Pl) as [G _].
  destruct (wrap_loop_words (S (length text + length (split_chunks text))) width (split_chunks text) [] false W G
              ltac:(discriminate)) as (P & E & R).
  { unfold measure. rewrite <- sumlen_concat, concat_split_chunks. lia. }
  rewrite E. simpl. rewrite <- (concat_split_chunks text) at 1. rewrite words_good by exact G. exact R.
Qed.

(* ---- from the relation to the decidable oracle relation spec.SpecSccw.refines ---------------------------- *)
Lemma str_eqb_refl : forall a, str_eqb a a = true.
Proof. induction a as [|x a IH]; cbn [str_eqb]; auto. rewrite Z.eqb_refl. exact IH. Qed.
Lemma str_eqb_len : forall a b, str_eqb a b = true -> length a = length b.
Proof.
  induction a as [|x a IH]; intros [|y b] H; simpl in *; try discriminate; auto.
  apply andb_prop in H. destruct H as [_ H]. f_equal. auto.
Qed.
Lemma is_prefix_app : forall a b, is_prefix a (a ++ b) = true.
Proof. induction a as [|x a IH]; intros; cbn [app is_prefix]; auto. rewrite Z.eqb_refl. apply IH. Qed.

Lemma RefH_refines : forall width h ws P, RefH width h ws P ->
  (h = false -> refines width ws P = true) /\
  (forall w ws', ws = w :: ws' -> w <> [] -> forall fuel, (length w < fuel)%nat ->
     exists rest, eat_pieces fuel w P = Some rest /\ refines width ws' rest = true).
Proof.
  intros width h ws P H. induction H as [h|h w ws P H IH|h w1 w2 ws P C N1 N2 H IH].
  - split; [reflexivity|]. intros; discriminate.
  - destruct IH as [IH1 _]. specialize (IH1 eq_refl). split.
    + intros _. cbn [refines]. rewrite str_eqb_refl. exact IH1.
    + intros w' ws' E Nw fuel L. inversion E; subst w' ws'. exists P.
      destruct fuel as [|f]; [lia|]. destruct w as [|x t]; [congruence|].
      cbn [eat_pieces]. rewrite <- (app_nil_r (x :: t)) at 2. rewrite is_prefix_app.
      rewrite <- (app_nil_r (x :: t)) at 2. rewrite skipn_app, skipn_all, Nat.sub_diag. cbn [app skipn].
      destruct f as [|f']; [simpl in L; lia|]. cbn [eat_pieces]. split; [reflexivity|exact IH1].
  - destruct IH as [_ IH2].
    assert (Eat : forall fuel, (length (w1 ++ w2) < fuel)%nat ->
              exists rest, eat_pieces fuel (w1 ++ w2) (w1 :: P) = Some rest /\ refines width ws rest = true).
    { intros fuel L. destruct fuel as [|f]; [lia|]. rewrite app_length in L.
      destruct w1 as [|x t]; [congruence|].
      destruct (IH2 w2 ws eq_refl N2 f) as (rest & E1 & E2); [simpl in L; lia|].
      exists rest. split; [|exact E2].
      cbn [eat_pieces app]. change (x :: t ++ w2) with ((x :: t) ++ w2).
      rewrite is_prefix_app, skipn_app, skipn_all, Nat.sub_diag. cbn [app skipn]. exact E1. }
    split.
    + intros Hh. destruct C as [C|C]; [congruence|]. cbn [refines].
      destruct (str_eqb w1 (w1 ++ w2)) eqn:Q.
      * apply str_eqb_len in Q. rewrite app_length in Q. destruct w2; [congruence|]. simpl in Q. lia.
      * assert (LW : (width <? length (w1 ++ w2))%nat = true) by (apply Nat.ltb_lt; exact C). rewrite LW.
        destruct (Eat (S (length (w1 ++ w2))) ltac:(lia)) as (rest & E1 & E2). rewrite E1. exact E2.
    + intros w' ws' E Nw fuel L. inversion E; subst w' ws'. apply Eat. exact L.
Qed.

Theorem wrap_refines_words : forall width text, (1 <= width)%nat -> plain text = true ->
  refines width (words text) (flat_map words (wrap width text)) = true.
Proof.
  intros width text W Pl. destruct (RefH_refines _ _ _ _ (wrap_refines_H width text W Pl)) as [R _]. auto.
Qed.

(* ---- the whole caption: lines separated by "\n", rows of all lines ------------------------------------- *)
Lemma words_aux_nl : forall a b cur, words_aux (a ++ 10%Z :: b) cur = words_aux a cur ++ words b.
Proof.
  induction a as [|x t IH]; intros b cur; cbn [app words_aux].
  - change (is_blank 10) with true. cbv iota. destruct cur; reflexivity.
  - destruct (is_blank x).
    + destruct cur; rewrite IH; reflexivity.
    + apply IH.
Qed.
Lemma words_nl : forall a b, words (a ++ 10%Z :: b) = words a ++ words b.
Proof. intros. apply words_aux_nl. Qed.

Lemma words_split_nl : forall s cur, flat_map words (split_ch_aux 10 s cur) = words (rev cur ++ s).
Proof.
  induction s as [|c t IH]; intros cur; cbn [split_ch_aux].
  - simpl. rewrite !app_nil_r. reflexivity.
  - destruct (c =? 10)%Z eqn:E.
    + assert (c = 10%Z) by lia. subst c. cbn [flat_map]. rewrite IH, words_nl. reflexivity.
    + rewrite IH. cbn [rev]. rewrite <- app_assoc. reflexivity.
Qed.
Lemma words_join_nl : forall ls, words (join [10%Z] ls) = flat_map words ls.
Proof.
  induction ls as [|a t IH]; [reflexivity|]. destruct t as [|b t'].
  - simpl. rewrite app_nil_r. reflexivity.
  - change (join [10%Z] (a :: b :: t')) with (a ++ [10%Z] ++ join [10%Z] (b :: t')).
    cbn [app]. rewrite words_nl, IH. reflexivity.
Qed.

Lemma RefH_app : forall width h a P b Q, RefH width h a P -> RefH width false b Q -> RefH width h (a ++ b) (P ++ Q).
Proof.
  intros width h a P b Q H1 H2. induction H1; cbn [app].
  - apply RefH_mono. exact H2.
  - apply RH_whole. exact IHRefH.
  - apply RH_split; auto.
Qed.

Definition plain_nl (s : str) : bool := forallb (fun c => nsp c || is_sp c || (c =? 10)%Z) s.

Lemma split_pieces_plain : forall s cur, plain_nl s = true -> plain cur = true ->
  forall x, In x (split_ch_aux 10 s cur) -> plain x = true.
Proof.
  induction s as [|c t IH]; intros cur Hs Hc x Hx; cbn [split_ch_aux] in Hx.
  - destruct Hx as [<-|[]]. unfold plain in *. rewrite forallb_forall in *. intros y Hy. apply Hc. apply in_rev. exact Hy.
  - simpl in Hs. apply andb_prop in Hs. destruct Hs as [H1 H2]. destruct (c =? 10)%Z eqn:E.
    + destruct Hx as [<-|Hx].
      * unfold plain in *. rewrite forallb_forall in *. intros y Hy. apply Hc. apply in_rev. exact Hy.
      * apply (IH [] H2 eq_refl x Hx).
    + apply (IH (c :: cur)); auto. simpl. rewrite Hc, andb_true_r. rewrite orb_false_r in H1. exact H1.
Qed.
