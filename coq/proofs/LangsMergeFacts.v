(* C14 wave 7: merge_concurrent_captions (model.LangsMerge) against the specification's grouping of equal-span runs. *)
From Coq Require Import List ZArith Lia Bool ZifyBool Arith.
From PV Require Import lib.Sx lib.Str lib.Result model.Langs spec.SpecLangs spec.SpecFindLang model.LangsMerge proofs.LangsFacts.
Import ListNotations.
Open Scope Z_scope.

Lemma same_span_eq : forall a b : mcue, same_span a b = true <-> fst a = fst b.
Proof.
  intros [[s1 e1] n1] [[s2 e2] n2]. unfold same_span, mc_start, mc_end. cbn [fst snd]. split; intros H.
  - f_equal; lia.
  - inversion H; subst. lia.
Qed.
Lemma same_span_neq : forall a b : mcue, same_span a b = false <-> fst a <> fst b.
Proof.
  intros a b. split; intros H.
  - intros E. apply same_span_eq in E. congruence.
  - destruct (same_span a b) eqn:Q; [apply same_span_eq in Q; contradiction|reflexivity].
Qed.

(* ---- facts about the specification's grouping ---------------------------------------------------------------- *)
Lemma spec_merge_hd : forall (c : mcue) t, exists m r, spec_merge (c :: t) = m :: r /\ fst m = fst c.
Proof.
  intros c t. cbn [spec_merge]. destruct (spec_merge t) as [|m r]; [exists c, []; split; reflexivity|].
  destruct (same_span c m).
  - eexists. eexists. split; [reflexivity|]. destruct c as [[s e] n]. reflexivity.
  - exists c, (m :: r). split; reflexivity.
Qed.
Lemma spec_merge_nil : forall caps, spec_merge caps = [] -> caps = [].
Proof. intros [|c t] H; [reflexivity|]. destruct (spec_merge_hd c t) as [m [r [Q _]]]. rewrite H in Q. discriminate. Qed.

Lemma spans_differ_hd : forall (a a' : mcue) r, fst a = fst a' -> spans_differ (a :: r) = spans_differ (a' :: r).
Proof.
  intros a a' [|b r] E; [reflexivity|]. cbn [spans_differ]. f_equal. f_equal.
  destruct (same_span a b) eqn:Q1, (same_span a' b) eqn:Q2; try reflexivity.
  - apply same_span_eq in Q1. apply same_span_neq in Q2. congruence.
  - apply same_span_neq in Q1. apply same_span_eq in Q2. congruence.
Qed.

(* in the grouped list no two neighbours share a span *)
Theorem spec_merge_spans_differ : forall caps, spans_differ (spec_merge caps) = true.
Proof.
  induction caps as [|c t IH]; [reflexivity|]. cbn [spec_merge]. destruct (spec_merge t) as [|m r]; [reflexivity|].
  destruct (same_span c m) eqn:E.
  - rewrite <- IH. apply spans_differ_hd. apply same_span_eq in E. rewrite <- E. destruct c as [[s e] n]. reflexivity.
  - change (negb (same_span c m) && spans_differ (m :: r) = true). rewrite E, IH. reflexivity.
Qed.

Definition node_texts (ns : list mnode) : list str := flat_map (fun n => match n with Some t => [t] | None => [] end) ns.
Lemma texts_of_cons : forall (c : mcue) t, texts_of (c :: t) = node_texts (mc_nodes c) ++ texts_of t.
Proof. reflexivity. Qed.

(* the texts of the language, in order, are conserved: none lost, repeated, or reordered *)
Theorem spec_merge_texts : forall caps, texts_of (spec_merge caps) = texts_of caps.
Proof.
  induction caps as [|c t IH]; [reflexivity|]. cbn [spec_merge]. rewrite (texts_of_cons c t), <- IH.
  destruct (spec_merge t) as [|m r]; [reflexivity|]. destruct (same_span c m); [|reflexivity].
  rewrite !texts_of_cons. unfold mc_nodes at 1, join_nodes, node_texts. cbn [snd]. rewrite flat_map_app. cbn [flat_map app].
  rewrite <- app_assoc. reflexivity.
Qed.

(* a list without equal-span neighbours is left alone; hence grouping twice = grouping once *)
Theorem spec_merge_no_runs_id : forall caps, spans_differ caps = true -> spec_merge caps = caps.
Proof.
  induction caps as [|a t IH]; intros H; [reflexivity|]. destruct t as [|b t]; [reflexivity|].
  change (negb (same_span a b) && spans_differ (b :: t) = true) in H. apply andb_prop in H. destruct H as [H1 H2].
  change (spec_merge (a :: b :: t)) with
    (match spec_merge (b :: t) with
     | m :: r => if same_span a m then (mc_start a, mc_end a, join_nodes (mc_nodes a) (mc_nodes m)) :: r else a :: m :: r
     | [] => [a] end).
  rewrite (IH H2). destruct (same_span a b); [discriminate|reflexivity].
Qed.
Theorem spec_merge_idempotent : forall caps, spec_merge (spec_merge caps) = spec_merge caps.
Proof. intros. apply spec_merge_no_runs_id. apply spec_merge_spans_differ. Qed.

(* the spans of the output are the spans of the input with neighbouring repetitions dropped *)
Fixpoint squeeze (l : list (Z * Z)) : list (Z * Z) :=
  match l with
  | a :: ((b :: _) as t) => if (fst a =? fst b) && (snd a =? snd b) then squeeze t else a :: squeeze t
  | _ => l
  end.
Theorem spec_merge_spans : forall caps : list mcue, map fst (spec_merge caps) = squeeze (map fst caps).
Proof.
  induction caps as [|c t IH]; [reflexivity|]. cbn [spec_merge].
  destruct t as [|b t].
  - cbn [spec_merge]. reflexivity.
  - destruct (spec_merge_hd b t) as [m [r [Sm Hd]]]. rewrite Sm in *.
    change (squeeze (map fst (c :: b :: t)))
      with (if (fst (fst c) =? fst (fst b)) && (snd (fst c) =? snd (fst b)) then squeeze (map fst (b :: t)) else fst c :: squeeze (map fst (b :: t))).
    rewrite <- IH.
    assert (E : same_span c m = (fst (fst c) =? fst (fst b)) && (snd (fst c) =? snd (fst b))).
    { unfold same_span, mc_start, mc_end. rewrite Hd. reflexivity. }
    rewrite <- E. destruct (same_span c m) eqn:Q; [|reflexivity].
    cbn [map fst]. f_equal. apply same_span_eq in Q. rewrite <- Q. destruct c as [[s e] n]. reflexivity.
Qed.

(* ---- the loop of pycaption = the specification's grouping -------------------------------------------------- *)
Definition joinr (run : list cap) : list node :=
  match run with
  | [] => []
  | x :: t => cap_nodes x ++ flat_map (fun y => None :: cap_nodes y) t
  end.

Lemma run_then_other : forall (conc : list cap) sp, conc <> [] -> (forall x, In x conc -> fst x = sp) ->
  forall caps : list cap, match caps with [] => True | c :: _ => fst c <> sp end ->
  spec_merge (conc ++ caps) = (sp, joinr conc) :: spec_merge caps.
Proof.
  induction conc as [|x t IH]; intros sp Ne All caps Hd; [contradiction|].
  assert (Ex : fst x = sp) by (apply All; left; reflexivity).
  destruct t as [|y t].
  - cbn [app]. destruct caps as [|c caps'].
    + cbn [spec_merge joinr flat_map]. rewrite app_nil_r. destruct x as [sp' n]. cbn in Ex. subst. reflexivity.
    + destruct (spec_merge_hd c caps') as [m [r [S Q]]]. change (spec_merge (x :: c :: caps')) with
        (match spec_merge (c :: caps') with
         | m :: r => if same_span x m then (mc_start x, mc_end x, join_nodes (mc_nodes x) (mc_nodes m)) :: r else x :: m :: r
         | [] => [x] end). rewrite S.
      assert (F : same_span x m = false) by (apply same_span_neq; congruence). rewrite F.
      cbn [joinr flat_map]. rewrite app_nil_r. destruct x as [sp' n]. cbn in Ex. subst. reflexivity.
  - change ((x :: y :: t) ++ caps) with (x :: ((y :: t) ++ caps)). cbn [spec_merge].
    rewrite (IH sp) by (try discriminate; try (intros z Hz; apply All; right; exact Hz); exact Hd).
    assert (T : same_span x (sp, joinr (y :: t)) = true) by (apply same_span_eq; exact Ex). rewrite T.
    f_equal. destruct x as [[s e] n]. cbn in Ex. subst sp. reflexivity.
Qed.

Lemma merge_nodes_acc : forall (run : list cap) acc, acc <> [] ->
  fold_left (fun acc c => (match acc with [] => acc | _ => acc ++ [None] end) ++ cap_nodes c) run acc
  = acc ++ flat_map (fun y => None :: cap_nodes y) run.
Proof.
  induction run as [|x t IH]; intros acc Ne; cbn [fold_left flat_map]; [rewrite app_nil_r; reflexivity|].
  destruct acc as [|a acc]; [contradiction|]. rewrite IH by discriminate. rewrite <- !app_assoc. reflexivity.
Qed.
Lemma merge_nodes_joinr : forall run : list cap, (forall x, In x run -> cap_nodes x <> []) -> merge_nodes run = joinr run.
Proof.
  intros [|x t] H; [reflexivity|]. unfold merge_nodes. cbn [fold_left app joinr].
  apply merge_nodes_acc. apply H. left. reflexivity.
Qed.

Lemma push_run_spec : forall (conc : list cap) sp merged, conc <> [] -> (forall x, In x conc -> fst x = sp) ->
  (forall x, In x conc -> cap_nodes x <> []) -> push_run conc merged = merged ++ [(sp, joinr conc)].
Proof.
  intros conc sp merged Ne All Nn. unfold push_run, merge_run. destruct conc as [|c t]; [contradiction|].
  rewrite merge_nodes_joinr by exact Nn. f_equal. f_equal. f_equal.
  assert (E : fst c = sp) by (apply All; left; reflexivity). destruct c as [[s e] n]. exact E.
Qed.

Definition finish (st : merge_state) : list cap :=
  match st with (_, conc, merged) => match conc with [] => merged | _ => push_run conc merged end end.

Lemma loop_inv : forall (caps : list cap) lc conc merged, conc <> [] -> (forall x, In x conc -> fst x = fst lc) ->
  (forall x, In x conc -> cap_nodes x <> []) -> (forall x, In x caps -> cap_nodes x <> []) ->
  finish (fold_left merge_step caps (Some lc, conc, merged)) = merged ++ spec_merge (conc ++ caps).
Proof.
  induction caps as [|c t IH]; intros lc conc merged Ne All Nn Nc.
  - cbn [fold_left finish]. destruct conc as [|c0 t0] eqn:EC; [contradiction|]. rewrite <- EC in *.
    rewrite (push_run_spec conc (fst lc)) by assumption.
    rewrite (run_then_other conc (fst lc) Ne All [] I). reflexivity.
  - cbn [fold_left merge_step].
    assert (Q : (cap_start c =? cap_start lc) && (cap_end c =? cap_end lc) = same_span c lc) by reflexivity. rewrite Q.
    destruct (same_span c lc) eqn:E.
    + apply same_span_eq in E. rewrite IH.
      * rewrite <- app_assoc. reflexivity.
      * destruct conc; discriminate.
      * intros x Hx. apply in_app_iff in Hx. destruct Hx as [Hx|[<-|[]]]; [rewrite (All x Hx); congruence|reflexivity].
      * intros x Hx. apply in_app_iff in Hx. destruct Hx as [Hx|[<-|[]]]; [apply Nn; exact Hx|apply Nc; left; reflexivity].
      * intros x Hx. apply Nc. right. exact Hx.
    + apply same_span_neq in E. rewrite IH.
      * rewrite (push_run_spec conc (fst lc)) by assumption.
        rewrite (run_then_other conc (fst lc) Ne All (c :: t) E). rewrite <- app_assoc. reflexivity.
      * discriminate.
      * intros x [<-|[]]. reflexivity.
      * intros x [<-|[]]. apply Nc. left. reflexivity.
      * intros x Hx. apply Nc. right. exact Hx.
Qed.

(* the loop with last_caption / concurrent_captions / merged_captions computes the grouping of the specification,
   for every caption list whose captions have at least one node (the Caption constructor refuses an empty node list) *)
Theorem merge_lang_is_spec : forall caps : list cap, (forall x, In x caps -> cap_nodes x <> []) -> merge_lang caps = spec_merge caps.
Proof.
  intros [|c t] Nn; [reflexivity|]. unfold merge_lang. cbn [fold_left merge_step].
  change (finish (fold_left merge_step t (Some c, [c], [])) = spec_merge (c :: t)).
  rewrite loop_inv; try discriminate.
  - reflexivity.
  - intros x [<-|[]]. reflexivity.
  - intros x [<-|[]]. apply Nn. left. reflexivity.
  - intros x Hx. apply Nn. right. exact Hx.
Qed.

Definition nodes_nonempty (cs : list (str * list cap)) : Prop :=
  forall l caps x, In (l, caps) cs -> In x caps -> cap_nodes x <> [].

Theorem merge_concurrent_is_spec : forall cs, nodes_nonempty cs -> merge_concurrent cs = spec_merge_set cs.
Proof.
  intros cs H. unfold merge_concurrent, spec_merge_set. apply map_ext_in. intros [l caps] Hin. cbn [fst snd]. f_equal.
  rewrite merge_lang_is_spec by (intros x Hx; eapply H; eassumption).
  destruct (spec_merge caps) eqn:E; [|reflexivity]. apply spec_merge_nil in E. exact E.
Qed.

(* languages are not touched, and every language keeps exactly its texts in order: no cue moves to another language *)
Theorem merge_concurrent_keeps_languages : forall cs, nodes_nonempty cs ->
  map (fun lc => (fst lc, texts_of (snd lc))) (merge_concurrent cs) = map (fun lc => (fst lc, texts_of (snd lc))) cs.
Proof.
  intros cs H. rewrite merge_concurrent_is_spec by exact H. unfold spec_merge_set. rewrite map_map. apply map_ext.
  intros [l caps]. cbn [fst snd]. rewrite spec_merge_texts. reflexivity.
Qed.

Theorem merge_concurrent_idempotent : forall cs, nodes_nonempty cs -> merge_concurrent (merge_concurrent cs) = merge_concurrent cs.
Proof.
  intros cs H.
  assert (I : forall cs0, spec_merge_set (spec_merge_set cs0) = spec_merge_set cs0).
  { intros cs0. unfold spec_merge_set. rewrite map_map. apply map_ext. intros [l caps]. cbn [fst snd]. rewrite spec_merge_idempotent. reflexivity. }
  rewrite (merge_concurrent_is_spec cs H).
  assert (E : merge_concurrent (spec_merge_set cs) = spec_merge_set (spec_merge_set cs)).
  { unfold merge_concurrent, spec_merge_set. rewrite !map_map. apply map_ext_in. intros [l caps] Hin. cbn [fst snd]. f_equal.
    assert (M : merge_lang (spec_merge caps) = spec_merge (spec_merge caps)).
    { rewrite <- (merge_lang_is_spec caps) by (intros x Hx; eapply H; eassumption).
      (* go through the fixed point: a list without equal neighbours has runs of length one *)
      rewrite (merge_lang_is_spec caps) by (intros x Hx; eapply H; eassumption).
      clear Hin. assert (G : forall l0 : list cap, spans_differ l0 = true -> merge_lang l0 = l0).
      { intros l0. unfold merge_lang. destruct l0 as [|c t]; [reflexivity|]. cbn [fold_left merge_step].
        assert (K : forall (t1 : list cap) c1 merged, spans_differ (c1 :: t1) = true ->
                    finish (fold_left merge_step t1 (Some c1, [c1], merged)) = merged ++ c1 :: t1).
        { clear. induction t1 as [|d t1 IHt]; intros c0 merged S.
          - cbn [fold_left finish]. unfold push_run, merge_run, merge_nodes. cbn [fold_left app]. destruct c0 as [[s e] n]. reflexivity.
          - change (negb (same_span c0 d) && spans_differ (d :: t1) = true) in S. apply andb_prop in S. destruct S as [S1 S2].
            cbn [fold_left merge_step].
            assert (Q : (cap_start d =? cap_start c0) && (cap_end d =? cap_end c0) = same_span d c0) by reflexivity. rewrite Q.
            assert (F : same_span d c0 = false).
            { apply same_span_neq. apply negb_true_iff in S1. apply same_span_neq in S1. congruence. }
            rewrite F. rewrite IHt by exact S2. unfold push_run, merge_run, merge_nodes. cbn [fold_left app].
            rewrite <- app_assoc. destruct c0 as [[s e] n]. reflexivity. }
        intros S. apply (K t c [] S). }
      rewrite G by apply spec_merge_spans_differ. symmetry. apply spec_merge_idempotent. }
    rewrite M. destruct (spec_merge (spec_merge caps)) eqn:Q; [|reflexivity]. apply spec_merge_nil in Q. exact Q. }
  rewrite E. apply I.
Qed.

(* ---- the model meets the oracle -------------------------------------------------------------------------------- *)
Lemma strs_eqb_refl : forall l, strs_eqb l l = true.
Proof. induction l as [|x l IH]; [reflexivity|]. cbn. rewrite str_eqb_refl', IH. reflexivity. Qed.
Lemma mnodes_eqb_refl : forall l, mnodes_eqb l l = true.
Proof. induction l as [|[x|] l IH]; [reflexivity| |]; cbn; rewrite ?str_eqb_refl', IH; reflexivity. Qed.
Lemma mcues_eqb_refl : forall l, mcues_eqb l l = true.
Proof.
  induction l as [|x l IH]; [reflexivity|]. cbn [mcues_eqb]. unfold mcue_eqb.
  rewrite (proj2 (same_span_eq x x) eq_refl), mnodes_eqb_refl, IH. reflexivity.
Qed.
Lemma mset_eqb_refl : forall s, mset_eqb s s = true.
Proof. induction s as [|x s IH]; [reflexivity|]. cbn [mset_eqb]. rewrite str_eqb_refl', mcues_eqb_refl, IH. reflexivity. Qed.

Theorem merge_concurrent_meets_oracle : forall cs, nodes_nonempty cs -> ok_merge cs (merge_concurrent cs) = true.
Proof.
  intros cs H. rewrite merge_concurrent_is_spec by exact H. unfold ok_merge.
  assert (E : map fst (spec_merge_set cs) = map fst cs) by (unfold spec_merge_set; rewrite map_map; reflexivity).
  rewrite E, strs_eqb_refl, mset_eqb_refl. cbn [andb]. unfold spec_merge_set. rewrite forallb_forall.
  intros x Hx. apply in_map_iff in Hx. destruct Hx as [[l caps] [<- _]]. cbn [snd]. apply spec_merge_spans_differ.
Qed.

(* ---- the writers that merge first ------------------------------------------------------------------------------ *)
Lemma flat_set_languages : forall cs, languages (flat_set cs) = map fst cs.
Proof. intros. unfold languages, flat_set. rewrite map_map. reflexivity. Qed.
Lemma spec_merge_set_names : forall cs, map fst (spec_merge_set cs) = map fst cs.
Proof. intros. unfold spec_merge_set. rewrite map_map. reflexivity. Qed.

(* what is written is judged against the GROUPED set: the divs are its languages in order with identical cue lists,
   a present force selects exactly that language *)
Theorem single_write_meets_oracle : forall force cs, nodes_nonempty cs -> NoDup (map fst cs) ->
  ok_dfxp_write force (flat_set (spec_merge_set cs)) (doc_sset (single_write force cs)) = true.
Proof.
  intros force cs Nn N. unfold single_write. rewrite merge_concurrent_is_spec by exact Nn.
  apply dfxp_write_meets_oracle. rewrite flat_set_languages, spec_merge_set_names. exact N.
Qed.
Theorem legacy_merge_write_meets_oracle : forall force cs d, nodes_nonempty cs -> NoDup (map fst cs) ->
  mem [] (map fst cs) = false -> legacy_merge_write force cs = Ok d ->
  ok_dfxp_write force (flat_set (spec_merge_set cs)) (doc_sset d) = true.
Proof.
  intros force cs d Nn N Ne H. unfold legacy_merge_write in H. rewrite merge_concurrent_is_spec in H by exact Nn.
  apply legacy_write_meets_oracle in H; [exact H| |]; rewrite flat_set_languages, spec_merge_set_names; assumption.
Qed.
(* write (single-positioning writer, no force), then read: the grouped set comes back - same languages, same order,
   each language with its grouped cue list *)
Theorem single_write_roundtrip : forall default cs, nodes_nonempty cs -> NoDup (map fst cs) -> mem [] (map fst cs) = false ->
  dfxp_read default (single_write [] cs) = flat_set (spec_merge_set cs).
Proof.
  intros default cs Nn N Ne. unfold single_write. rewrite merge_concurrent_is_spec by exact Nn.
  apply dfxp_roundtrip_langs; rewrite flat_set_languages, spec_merge_set_names; assumption.
Qed.
