(* String / decimal lemmas used by the geometry proofs (C18, C13, C12): str_eqb, take_while / drop_while,
   split on a character, the decimal printer of lib/Str.v and its inverse. *)
From Coq Require Import List ZArith Lia Bool ZifyBool.
From PV Require Import lib.Sx lib.Str.
Import ListNotations.
Open Scope Z_scope.
Ltac Zify.zify_post_hook ::= Z.to_euclidean_division_equations.

(* ---- str_eqb ------------------------------------------------------------------------------- *)
Lemma str_eqb_refl : forall a, str_eqb a a = true.
Proof. induction a as [|x a IH]; cbn [str_eqb]; [reflexivity|]. rewrite Z.eqb_refl, IH. reflexivity. Qed.

Lemma str_eqb_eq : forall a b, str_eqb a b = true <-> a = b.
Proof.
  induction a as [|x a IH]; intros [|y b]; cbn [str_eqb]; split; intros H; try reflexivity; try discriminate.
  - apply andb_true_iff in H. destruct H as [H1 H2]. apply Z.eqb_eq in H1. apply IH in H2. congruence.
  - inversion H; subst. rewrite Z.eqb_refl. cbn [andb]. apply IH. reflexivity.
Qed.

Lemma str_eqb_neq : forall a b, str_eqb a b = false <-> a <> b.
Proof.
  intros a b. split.
  - intros H E. apply str_eqb_eq in E. congruence.
  - intros H. destruct (str_eqb a b) eqn:E; [|reflexivity]. apply str_eqb_eq in E. contradiction.
Qed.

(* ---- take_while / drop_while ---------------------------------------------------------------- *)
Lemma take_drop_while : forall f s, take_while f s ++ drop_while f s = s.
Proof.
  induction s as [|c t IH]; cbn [take_while drop_while]; [reflexivity|].
  destruct (f c); cbn [app]; [rewrite IH|]; reflexivity.
Qed.

Lemma take_while_all : forall f s, forallb f (take_while f s) = true.
Proof.
  induction s as [|c t IH]; cbn [take_while]; [reflexivity|].
  destruct (f c) eqn:E; cbn [forallb]; [rewrite E, IH|]; reflexivity.
Qed.

Lemma drop_while_head : forall f s c t, drop_while f s = c :: t -> f c = false.
Proof.
  induction s as [|x s IH]; cbn [drop_while]; intros c t H; [discriminate|].
  destruct (f x) eqn:E; [eauto|]. inversion H; subst. exact E.
Qed.

(* a block of f-characters followed by something that does not start with one *)
Definition stops (f : Z -> bool) (b : str) : Prop := match b with [] => True | c :: _ => f c = false end.

Lemma take_while_app : forall f a b, forallb f a = true -> stops f b -> take_while f (a ++ b) = a.
Proof.
  induction a as [|x a IH]; intros b Ha Hb; cbn [app take_while].
  - destruct b as [|c t]; cbn [take_while]; [reflexivity|]. cbn [stops] in Hb. rewrite Hb. reflexivity.
  - cbn [forallb] in Ha. apply andb_true_iff in Ha. destruct Ha as [H1 H2]. rewrite H1, IH; auto.
Qed.

Lemma drop_while_app : forall f a b, forallb f a = true -> stops f b -> drop_while f (a ++ b) = b.
Proof.
  induction a as [|x a IH]; intros b Ha Hb; cbn [app drop_while].
  - destruct b as [|c t]; cbn [drop_while]; [reflexivity|]. cbn [stops] in Hb. rewrite Hb. reflexivity.
  - cbn [forallb] in Ha. apply andb_true_iff in Ha. destruct Ha as [H1 H2]. rewrite H1, IH; auto.
Qed.

Lemma stops_drop_while : forall f s, stops f (drop_while f s).
Proof.
  intros f s. destruct (drop_while f s) as [|c t] eqn:E; cbn [stops]; [exact I|].
  eapply drop_while_head; eauto.
Qed.

(* ---- split on a character --------------------------------------------------------------------- *)
Definition free_of (c : Z) (s : str) : Prop := Forall (fun x => x <> c) s.

Lemma split_ch_aux_free : forall sep s cur, free_of sep s -> split_ch_aux sep s cur = [rev cur ++ s].
Proof.
  induction s as [|c t IH]; intros cur H; cbn [split_ch_aux].
  - rewrite app_nil_r. reflexivity.
  - inversion H as [|? ? Hc Ht]; subst. assert (E : (c =? sep) = false) by lia. rewrite E.
    rewrite IH by assumption. cbn [rev]. rewrite <- app_assoc. reflexivity.
Qed.

Lemma split_ch_free : forall sep s, free_of sep s -> split_ch sep s = [s].
Proof. intros. unfold split_ch. rewrite split_ch_aux_free by assumption. reflexivity. Qed.

Lemma split_ch_aux_app : forall sep a b cur, free_of sep a ->
  split_ch_aux sep (a ++ sep :: b) cur = (rev cur ++ a) :: split_ch_aux sep b [].
Proof.
  induction a as [|c t IH]; intros b cur H; cbn [app split_ch_aux].
  - rewrite Z.eqb_refl, app_nil_r. reflexivity.
  - inversion H as [|? ? Hc Ht]; subst. assert (E : (c =? sep) = false) by lia. rewrite E.
    rewrite IH by assumption. cbn [rev]. rewrite <- app_assoc. reflexivity.
Qed.

Lemma split_ch_app : forall sep a b, free_of sep a -> split_ch sep (a ++ sep :: b) = a :: split_ch sep b.
Proof. intros. unfold split_ch. rewrite split_ch_aux_app by assumption. reflexivity. Qed.

(* join inverts split *)
Lemma split_ch_aux_nonempty : forall sep s cur, split_ch_aux sep s cur <> [].
Proof.
  induction s as [|c t IH]; intros cur; cbn [split_ch_aux]; [discriminate|].
  destruct (c =? sep); [discriminate|apply IH].
Qed.

Lemma join_cons : forall sep a l, l <> [] -> join sep (a :: l) = a ++ sep ++ join sep l.
Proof. intros sep a [|b l] H; [contradiction|reflexivity]. Qed.

Lemma split_ch_aux_join : forall sep s cur, join [sep] (split_ch_aux sep s cur) = rev cur ++ s.
Proof.
  induction s as [|c t IH]; intros cur; cbn [split_ch_aux].
  - cbn [join]. rewrite app_nil_r. reflexivity.
  - destruct (c =? sep) eqn:E.
    + assert (c = sep) by lia. subst c.
      rewrite join_cons by apply split_ch_aux_nonempty. rewrite IH. reflexivity.
    + rewrite IH. cbn [rev]. rewrite <- app_assoc. reflexivity.
Qed.

Lemma split_ch_join : forall sep s, join [sep] (split_ch sep s) = s.
Proof. intros. unfold split_ch. rewrite split_ch_aux_join. reflexivity. Qed.

(* every piece is free of the separator *)
Lemma split_ch_aux_pieces : forall sep s cur, free_of sep cur -> Forall (free_of sep) (split_ch_aux sep s cur).
Proof.
  induction s as [|c t IH]; intros cur H; cbn [split_ch_aux].
  - constructor; [|constructor]. unfold free_of in *. apply Forall_rev. assumption.
  - destruct (c =? sep) eqn:E.
    + constructor; [unfold free_of in *; apply Forall_rev; assumption|]. apply IH. constructor.
    + apply IH. constructor; [lia|assumption].
Qed.

Lemma split_ch_pieces : forall sep s, Forall (free_of sep) (split_ch sep s).
Proof. intros. apply split_ch_aux_pieces. constructor. Qed.

(* ---- digits ----------------------------------------------------------------------------------- *)
Lemma is_digit_range : forall c, is_digit c = true <-> 48 <= c <= 57.
Proof. intros c. unfold is_digit. lia. Qed.

Lemma digits_val_acc_app : forall a b acc,
  digits_val_acc (a ++ b) acc = match digits_val_acc a acc with Some v => digits_val_acc b v | None => None end.
Proof.
  induction a as [|c a IH]; intros b acc; cbn [app digits_val_acc]; [reflexivity|].
  destruct (is_digit c); [apply IH|reflexivity].
Qed.

Lemma digits_val_acc_some : forall s acc, forallb is_digit s = true -> exists v, digits_val_acc s acc = Some v.
Proof.
  induction s as [|c s IH]; intros acc H; cbn [digits_val_acc]; [eauto|].
  cbn [forallb] in H. apply andb_true_iff in H. destruct H as [H1 H2]. rewrite H1. apply IH. assumption.
Qed.

Lemma digits_val_acc_none : forall s acc, forallb is_digit s = false -> digits_val_acc s acc = None.
Proof.
  induction s as [|c s IH]; intros acc H; cbn [digits_val_acc forallb] in *; [discriminate|].
  destruct (is_digit c); [apply IH; exact H|reflexivity].
Qed.

(* value of a digit string read after an accumulator: acc * 10^len + value *)
Lemma digits_val_acc_shift : forall s acc v0, digits_val_acc s 0 = Some v0 ->
  digits_val_acc s acc = Some (acc * 10 ^ Z.of_nat (length s) + v0).
Proof.
  induction s as [|c s IH]; intros acc v0 H; cbn [digits_val_acc length] in *.
  - inversion H; subst. f_equal. cbn. lia.
  - destruct (is_digit c) eqn:E; [|discriminate].
    destruct (digits_val_acc_some s 0) as [w Hw].
    { destruct (forallb is_digit s) eqn:F; [reflexivity|]. rewrite digits_val_acc_none in H by assumption. discriminate. }
    rewrite (IH _ _ Hw) in H. rewrite (IH _ _ Hw). inversion H; subst. f_equal.
    rewrite Nat2Z.inj_succ, Z.pow_succ_r by lia. lia.
Qed.

Lemma digits_val_nonneg : forall s acc v, 0 <= acc -> digits_val_acc s acc = Some v -> 0 <= v.
Proof.
  induction s as [|c s IH]; intros acc v Ha H; cbn [digits_val_acc] in H.
  - inversion H; subst; assumption.
  - destruct (is_digit c) eqn:E; [|discriminate]. apply is_digit_range in E.
    eapply IH; [|exact H]. unfold digit_val. lia.
Qed.

Lemma digits_val_bound : forall s v, digits_val_acc s 0 = Some v -> 0 <= v < 10 ^ Z.of_nat (length s).
Proof.
  induction s as [|c s IH] using rev_ind; intros v H.
  - cbn in H. inversion H; subst. cbn. lia.
  - rewrite digits_val_acc_app in H. destruct (digits_val_acc s 0) as [w|] eqn:Hw; [|discriminate].
    specialize (IH _ eq_refl). cbn [digits_val_acc] in H. destruct (is_digit c) eqn:E; [|discriminate].
    apply is_digit_range in E. inversion H; subst. unfold digit_val.
    rewrite app_length. cbn [length]. rewrite Nat2Z.inj_add. cbn [Z.of_nat Pos.of_succ_nat Pos.succ].
    rewrite Z.pow_add_r by lia. change (10 ^ 1) with 10. lia.
Qed.

(* ---- the decimal printer ------------------------------------------------------------------------ *)
Lemma dec_aux_acc : forall fuel z acc, dec_aux fuel z acc = dec_aux fuel z [] ++ acc.
Proof.
  induction fuel as [|f IH]; intros z acc; cbn [dec_aux]; [reflexivity|].
  destruct (z <? 10); [reflexivity|].
  rewrite IH. rewrite (IH (z / 10) [48 + z mod 10]). rewrite <- app_assoc. reflexivity.
Qed.

Lemma dec_aux_spec : forall fuel z, 0 <= z < 2 ^ Z.of_nat (S fuel) ->
  let ds := dec_aux (S fuel) z [] in
  ds <> [] /\ forallb is_digit ds = true /\ digits_val_acc ds 0 = Some z
  /\ (10 <= z -> match ds with c :: _ => c <> 48 | [] => False end)
  /\ (z < 10 -> ds = [48 + z]).
Proof.
  assert (Small : forall fuel z, 0 <= z < 10 ->
            let ds := dec_aux (S fuel) z [] in
            ds <> [] /\ forallb is_digit ds = true /\ digits_val_acc ds 0 = Some z
            /\ (10 <= z -> match ds with c :: _ => c <> 48 | [] => False end)
            /\ (z < 10 -> ds = [48 + z])).
  { intros fuel z Hz. cbn [dec_aux]. assert (E : (z <? 10) = true) by lia. rewrite E.
    cbn zeta. assert (Hm : z mod 10 = z) by lia. rewrite Hm.
    repeat split; try discriminate; try lia.
    - cbn [forallb]. unfold is_digit. lia.
    - cbn [digits_val_acc]. assert (Hd : is_digit (48 + z) = true) by (unfold is_digit; lia).
      rewrite Hd. unfold digit_val. f_equal. lia. }
  induction fuel as [|f IH]; intros z Hz.
  - apply Small. change (2 ^ Z.of_nat 1) with 2 in Hz. lia.
  - destruct (Z_lt_le_dec z 10) as [Hlt|Hge]; [apply Small; lia|].
    cbn zeta. remember (S f) as f1. cbn [dec_aux]. assert (E : (z <? 10) = false) by lia. rewrite E.
    rewrite dec_aux_acc.
    assert (Hz' : 0 <= z / 10 < 2 ^ Z.of_nat f1).
    { rewrite (Nat2Z.inj_succ f1), Z.pow_succ_r in Hz by lia. lia. }
    subst f1. specialize (IH _ Hz'). cbn zeta in IH. destruct IH as (I1 & I2 & I3 & I4 & I5).
    set (ds := dec_aux (S f) (z / 10) []) in *.
    repeat split.
    + destruct ds; discriminate.
    + rewrite forallb_app, I2. cbn [forallb]. unfold is_digit. lia.
    + rewrite digits_val_acc_app, I3. cbn [digits_val_acc].
      assert (Hd : is_digit (48 + z mod 10) = true) by (unfold is_digit; lia).
      rewrite Hd. unfold digit_val. f_equal. lia.
    + intros _. destruct (Z_lt_le_dec (z / 10) 10) as [Hs|Hs].
      * rewrite (I5 Hs). cbn [app]. lia.
      * specialize (I4 Hs). destruct ds as [|c t]; [contradiction|]. cbn [app]. exact I4.
    + lia.
Qed.

Lemma log2_fuel : forall z, 0 <= z -> z < 2 ^ Z.of_nat (S (Z.to_nat (Z.log2 z))).
Proof.
  intros z Hz. rewrite Nat2Z.inj_succ, Z2Nat.id by apply Z.log2_nonneg.
  destruct (Z.eq_dec z 0) as [->|Hn]; [cbn; lia|].
  apply Z.log2_spec. lia.
Qed.

Lemma dec_nonneg_spec : forall z, 0 <= z ->
  dec_nonneg z <> [] /\ forallb is_digit (dec_nonneg z) = true /\ digits_val_acc (dec_nonneg z) 0 = Some z
  /\ (10 <= z -> match dec_nonneg z with c :: _ => c <> 48 | [] => False end)
  /\ (z < 10 -> dec_nonneg z = [48 + z]).
Proof.
  intros z Hz. unfold dec_nonneg. apply (dec_aux_spec _ z). split; [assumption|]. apply log2_fuel. assumption.
Qed.

Lemma int_of_dec : forall z, 0 <= z -> int_of_digits (dec_nonneg z) = Some z.
Proof.
  intros z Hz. destruct (dec_nonneg_spec z Hz) as (H1 & _ & H3 & _).
  unfold int_of_digits. destruct (dec_nonneg z); [contradiction|]. exact H3.
Qed.

(* two-digit numbers *)
Lemma dec_nonneg_two : forall z, 10 <= z < 100 -> dec_nonneg z = [48 + z / 10; 48 + z mod 10].
Proof.
  intros z Hz. unfold dec_nonneg.
  assert (Hl : (3 <= Z.to_nat (Z.log2 z))%nat).
  { assert (3 <= Z.log2 z) by (apply Z.log2_le_pow2; cbn; lia). lia. }
  destruct (Z.to_nat (Z.log2 z)) as [|[|[|n]]]; try lia.
  cbn [dec_aux]. assert (E1 : (z <? 10) = false) by lia. rewrite E1.
  assert (E2 : (z / 10 <? 10) = true) by lia. rewrite E2.
  f_equal. f_equal. lia.
Qed.
