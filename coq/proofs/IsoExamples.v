(* IsoExamples.v - concrete histories: non-vacuity of the C09 / C10 theorems and the `_refuted` witnesses for the
   behaviour before the three repairs in pycaption. *)
From Coq Require Import List ZArith Bool Arith Lia String.
From PV Require Import lib.Sx lib.Str lib.Result model.Store model.Iso proofs.StoreFacts proofs.IsoFacts.
Import ListNotations.
Open Scope Z_scope.

Definition t_text (s : string) : tree :=
  TNode KNode [(TInt 1, TInt 1); (TInt 2, TStr (lit s)); (TInt 3, TNone); (TInt 4, TNone); (TInt 5, TNone)].
Definition t_italics (start : bool) : tree :=
  TNode KNode [(TInt 1, TInt 2); (TInt 2, TNode KDict [(TStr (lit "s:italics"), TStr (lit "b:True"))]);
               (TInt 3, TStr (if start then lit "b:True" else lit "b:False")); (TInt 4, TNone); (TInt 5, TNone)].
Definition t_lay (c : Z) : tree := TNode KLayout [(TInt 1, TInt c); (TInt 2, TNone)].
Definition t_cap (style : tree) (nodes : list tree) (lay : tree) : tree :=
  TNode KCaption [(TInt 1, TInt 0); (TInt 2, TInt 1000000);
                  (TInt 3, TNode KList (map (fun n => (TNone, n)) nodes)); (TInt 4, style); (TInt 5, lay)].
Definition t_set (styles : tree) (caps : list tree) : tree :=
  TNode KSet [(TInt 1, TNode KDict [(TStr (lit "s:en"), TNode KCapList ((TInt 1, TNone) :: map (fun c => (TNone, c)) caps))]);
              (TInt 2, styles); (TInt 3, TNone)].
Definition t_dict0 : tree := TNode KDict [].

(* a caption with a style start and no end / a balanced one; explicit style dicts *)
Definition unbalanced : tree := t_set t_dict0 [t_cap t_dict0 [t_italics true; t_text "open"] TNone].
Definition balanced : tree := t_set t_dict0 [t_cap t_dict0 [t_italics true; t_text "fine"; t_italics false] TNone].
(* layout with an origin and no extent (flags: truthy + origin): fit_to_screen builds a new Layout *)
Definition positioned : tree := t_set t_dict0 [t_cap t_dict0 [t_text "x"] (t_lay 18)].

Definition dflt_opts : wopts := mkWopts true true false TNone None false.

Definition tokens_of (r : list (mobs * list tree)) (i : nat) : list Z :=
  match nth_error r i with Some (m, _) => mo_tokens m | None => [] end.
Definition trees_of (r : list (mobs * list tree)) (i : nat) : list tree :=
  match nth_error r i with Some (_, t) => t | None => [] end.

(* the history of defect 15: one DFXP writer object writes the unbalanced set, then the balanced one;
   a fresh object writes the balanced one *)
Definition hist15 (k : Z) : list op :=
  [OBuild unbalanced; OBuild balanced;
   OWrite 0 k dflt_opts 1; OWrite 0 k dflt_opts 0; OWrite 0 k dflt_opts 1; OWrite 1 k dflt_opts 1].

(* before the repair the reused writer starts the balanced document with a stray close tag *)
Theorem open_span_leak_refuted :
  let r := run (mkCfg true true false) world0 (hist15 W_DFXP) in
  tokens_of r 4 <> tokens_of r 5 /\ tokens_of r 4 <> tokens_of r 2.
Proof. vm_compute. split; discriminate. Qed.

Theorem open_span_leak_refuted_sami :
  let r := run (mkCfg true true false) world0 (hist15 W_SAMI) in tokens_of r 4 <> tokens_of r 5.
Proof. vm_compute. discriminate. Qed.

(* after it: same object again = fresh object = first time *)
Example open_span_reset_example :
  forall k, In k [W_DFXP; W_SAMI; W_LEGACY; W_SINGLE] ->
  let r := run fixed world0 (hist15 k) in
  tokens_of r 4 = tokens_of r 5 /\ tokens_of r 4 = tokens_of r 2.
Proof.
  intros k Hk. simpl in Hk. destruct Hk as [<-|[<-|[<-|[<-|[]]]]]; vm_compute; split; reflexivity.
Qed.

(* non-vacuity of write_inv / write_preserves_input: the DFXP writer does assign (to its copy), the input keeps its
   snapshot *)
Example dfxp_write_assigns_on_its_copy :
  let w1 := run_world fixed world0 [OBuild positioned] in
  let s := nth 0 (w_sets w1) VNone in
  let r := write fixed W_DFXP dflt_opts winst0 (w_st w1) s in
  wr_fp r = [(KCaption, 5)] /\ wr_copies r = 1 /\
  (List.length (w_st w1) < List.length (wr_store r))%nat /\
  snap FUEL (wr_store r) s = snap FUEL (w_st w1) s /\
  snap FUEL (w_st w1) s = positioned.
Proof.
  cbv zeta. split; [vm_compute; reflexivity|]. split; [vm_compute; reflexivity|].
  split; [vm_compute; lia|]. split; vm_compute; reflexivity.
Qed.

(* the same assignments applied to the INPUT instead of a copy (the deepcopy line deleted) change its snapshot:
   the footprint theorem is not true of a writer model without the copy *)
Definition dfxp_assign_in_place (st : store) (s : val) : store :=
  let t := snap FUEL st s in
  let p := make_plan W_DFXP dflt_opts false TNone t in
  fst (apply_slots st (dfxp_slots st (sel_langs st s (keys_of (dfxp_langs dflt_opts t)))) (p_slots p) []).

Theorem write_without_copy_refuted :
  let w1 := run_world fixed world0 [OBuild positioned] in
  let s := nth 0 (w_sets w1) VNone in
  snap FUEL (dfxp_assign_in_place (w_st w1) s) s <> snap FUEL (w_st w1) s.
Proof. vm_compute. discriminate. Qed.

(* an error exit: px units, no video size -> RelativizationError, input untouched, open_span as it was *)
Definition absolute : tree := t_set t_dict0 [t_cap t_dict0 [t_text "x"] (t_lay 23)].

Example dfxp_error_exit :
  let w1 := run_world fixed world0 [OBuild absolute] in
  let s := nth 0 (w_sets w1) VNone in
  let r := write fixed W_DFXP dflt_opts winst0 (w_st w1) s in
  wr_result r = Err ERelativization /\ snap FUEL (wr_store r) s = snap FUEL (w_st w1) s.
Proof. vm_compute. split; reflexivity. Qed.

(* ---- C10 witnesses --------------------------------------------------------------------------------------------------- *)
From PV Require Import proofs.RegionFacts.

(* pristine results of two small documents (what the real readers return; empty style dicts are explicit here, the
   reader models decide which of them come from default arguments) *)
Definition doc_a : tree := t_set t_dict0 [t_cap t_dict0 [t_text "hello"] TNone].
Definition doc_b : tree := t_set t_dict0 [t_cap t_dict0 [t_text "other"] TNone].
Definition red : tree := TNode KDict [(TStr (lit "s:color"), TStr (lit "s:red"))].

Definition set_after (c : cfg) (ops : list op) (k : nat) : tree :=
  let w := run_world c world0 ops in snap FUEL (w_st w) (nth k (w_sets w) VNone).

(* defect 2 (before the base.py repair): read A, read B, A.add_style(..) shows up in B; so does a caption style;
   and a LATER read of B's document no longer returns what a pristine read returns *)
Theorem shared_default_refuted :
  let c := mkCfg false true true in
  let h := [ORead 0 R_SRT doc_a; ORead 1 R_SRT doc_b] in
  set_after c (h ++ [OEdit 0 (EAddStyle (TStr (lit "s:x")) red)]) 1 <> set_after c h 1 /\
  set_after c (h ++ [OEdit 0 (ECapStyle 0 0 (TStr (lit "s:bold")) (TStr (lit "b:True")))]) 1 <> set_after c h 1 /\
  set_after c (h ++ [OEdit 0 (EAddStyle (TStr (lit "s:x")) red); ORead 2 R_SRT doc_b]) 2 <> doc_b.
Proof. vm_compute. repeat split; discriminate. Qed.

(* defect 3 (before the SCCReader repair): the second read of one reader object also returns the first read's
   captions, and shares their node lists with the first result *)
Theorem scc_reuse_refuted :
  let c := mkCfg true false true in
  set_after c [ORead 0 R_SCC doc_a; ORead 0 R_SCC doc_b] 1 <> set_after c [ORead 0 R_SCC doc_a; ORead 1 R_SCC doc_b] 1 /\
  (let w := run_world c world0 [ORead 0 R_SCC doc_a; ORead 0 R_SCC doc_b] in
   shares FUEL (w_st w) (nth 0 (w_sets w) VNone) (nth 1 (w_sets w) VNone) = true).
Proof. vm_compute. split; [discriminate|reflexivity]. Qed.

(* after the repairs: the same histories behave *)
Example isolation_example :
  let h := [ORead 0 R_SRT doc_a; ORead 1 R_SRT doc_b] in
  set_after fixed (h ++ [OEdit 0 (EAddStyle (TStr (lit "s:x")) red)]) 1 = doc_b /\
  set_after fixed (h ++ [OEdit 0 (EAddStyle (TStr (lit "s:x")) red)]) 0 <> doc_a /\
  set_after fixed (h ++ [OEdit 0 (EAddStyle (TStr (lit "s:x")) red); ORead 0 R_SRT doc_b]) 2 = doc_b /\
  set_after fixed [ORead 0 R_SCC doc_a; ORead 0 R_SCC doc_b] 1 = doc_b /\
  set_after fixed [ORead 0 R_SCC doc_a; ORead 0 R_SCC doc_b] 0 = doc_a.
Proof. vm_compute. repeat split; try reflexivity; discriminate. Qed.

(* ---- non-empty worlds for the history theorems ------------------------------------------------------------------------ *)
Definition belowb (n : nat) (v : val) : bool := match v with VLoc l => Nat.ltb l n | _ => true end.
Definition wfb (st : store) : bool :=
  forallb (fun o => forallb (fun kv => belowb (List.length st) (fst kv) && belowb (List.length st) (snd kv)) (o_items o)) st.
Definition wf_worldb (w : world) : bool := wfb (w_st w) && forallb (belowb (List.length (w_st w))) (w_sets w).

Lemma belowb_sound : forall n v, belowb n v = true -> below n v.
Proof. intros n [] H; simpl in *; auto. apply Nat.ltb_lt. exact H. Qed.

Lemma wfb_sound : forall st, wfb st = true -> wf st.
Proof.
  intros st H l o Hg. unfold wfb in H. rewrite forallb_forall in H.
  specialize (H o (nth_error_In _ _ Hg)). rewrite forallb_forall in H.
  unfold items_below. apply Forall_forall. intros kv Hin. specialize (H kv Hin).
  apply andb_true_iff in H. destruct H. split; apply belowb_sound; assumption.
Qed.

Lemma wf_worldb_sound : forall w, wf_worldb w = true -> wf_world w.
Proof.
  intros w H. apply andb_true_iff in H. destruct H as [A B]. split; [apply wfb_sound; exact A|].
  apply Forall_forall. intros v Hv. rewrite forallb_forall in B. apply belowb_sound. auto.
Qed.

(* two sets that SHARE objects (the two default-argument dicts, before the base.py repair) plus a third one *)
Definition shared_world : world :=
  run_world (mkCfg false true true) world0 [ORead 0 R_SRT doc_a; ORead 1 R_SRT doc_b; OBuild positioned].

Example shared_world_wf : wf_world shared_world /\ List.length (w_sets shared_world) = 3%nat /\
  shares FUEL (w_st shared_world) (nth 0 (w_sets shared_world) VNone) (nth 1 (w_sets shared_world) VNone) = true.
Proof. split; [apply wf_worldb_sound; vm_compute; reflexivity|]. vm_compute. split; reflexivity. Qed.

Definition some_writes : list op :=
  [OWrite 0 W_DFXP dflt_opts 2; OWrite 1 W_SAMI dflt_opts 0; OWrite 0 W_DFXP dflt_opts 1; OWrite 2 W_LEGACY dflt_opts 2;
   OWrite 3 W_SINGLE (mkWopts true true false TNone (Some 18) false) 2].

(* the hypotheses of the history theorems hold on it, and the conclusion is not `[] = []` *)
Example history_theorem_instance :
  forallb is_write some_writes = true /\
  map (snap FUEL (w_st (run_world fixed shared_world some_writes))) (w_sets (run_world fixed shared_world some_writes))
  = [doc_a; doc_b; positioned] /\
  (List.length (w_st shared_world) < List.length (w_st (run_world fixed shared_world some_writes)))%nat.
Proof. split; [reflexivity|]. split; [vm_compute; reflexivity|vm_compute; lia]. Qed.

(* the region invariant and the edit footprint on a concrete world: set 0 owns the interval its read allocated *)
Definition two_reads : world := run_world fixed world0 [ORead 0 R_DFXP doc_a; ORead 1 R_SCC doc_b].

Example edit_footprint_instance :
  let st := w_st two_reads in
  let s0 := nth 0 (w_sets two_reads) VNone in
  let s1 := nth 1 (w_sets two_reads) VNone in
  let st' := do_edit fixed st s0 (EAppendNode 0 0 (t_text "more")) in
  snap FUEL st' s1 = snap FUEL st s1 /\ snap FUEL st' s0 <> snap FUEL st s0 /\ shares FUEL st' s0 s1 = false.
Proof. vm_compute. split; [reflexivity|split; [discriminate|reflexivity]]. Qed.

(* ---- the hypotheses of the model-meets-oracle theorems are satisfiable on histories that write ------------------------- *)
From PV Require Import spec.SpecIso proofs.OracleFacts.

Definition small_history : list op :=
  [OBuild positioned; OWrite 0 W_DFXP dflt_opts 0; OBuild unbalanced; OWrite 0 W_DFXP dflt_opts 1;
   OWrite 0 W_DFXP dflt_opts 0; OWrite 1 W_DFXP dflt_opts 0].

(* and the oracle really runs over write records with equal keys and equal snapshots there *)
Example small_history_observations :
  map (fun o => (io_kind o, io_set o)) (model_obs fixed world0 small_history)
  = [(0, 0); (2, 0); (0, 1); (2, 1); (2, 0); (2, 0)]%Z /\
  check_hist tree tree_eqb TCut true true 0 [] [] (model_obs fixed world0 small_history) = [].
Proof. vm_compute. split; reflexivity. Qed.

(* the oracle is not vacuous on model observations: before the open_span repair it reports clause 2 *)
Example oracle_reports_open_span_leak :
  check_hist tree tree_eqb TCut true false 0 [] [] (model_obs (mkCfg true true false) world0 (hist15 W_DFXP)) = [(4, 2); (5, 2)]%Z.
Proof. vm_compute. reflexivity. Qed.

(* ... and before the default-dict repair it reports clause 5 (edit of set 0 changes set 1) and clause 4 *)
Example oracle_reports_shared_default :
  check_hist tree tree_eqb TCut false true 0 [] []
    (model_obs (mkCfg false true true) world0
       [ORead 0 R_SRT doc_a; ORead 1 R_SRT doc_b; OEdit 0 (EAddStyle (TStr (lit "s:x")) red); ORead 2 R_SRT doc_b])
  = [(2, 5); (3, 4)]%Z.
Proof. vm_compute. reflexivity. Qed.

(* ---- DAG-shaped read results: a span's start and end node carry ONE dict ------------------------------------------------ *)
Definition t_italics_end_shared : tree :=
  TNode KNode [(TInt 1, TInt 2); (TInt 2, TNode KShare []); (TInt 3, TStr (lit "b:False")); (TInt 4, TNone); (TInt 5, TNone)].
Definition doc_span : tree :=
  t_set t_dict0 [t_cap t_dict0 [t_italics true; t_text "x"; t_italics_end_shared] TNone].
(* what its snapshot looks like: the end node shows the start node's dict *)
Definition doc_span_snapshot : tree :=
  t_set t_dict0 [t_cap t_dict0 [t_italics true; t_text "x"; t_italics false] TNone].

Definition content_of (t : tree) (ni : nat) : tree :=
  let cap := nth 0 (telems (snd (nth 0 (set_langs_t t) (TNone, TNone)))) TNone in
  tfield (nth ni (cap_nodes_t cap) TNone) 2.

Example span_dict_is_shared_in_the_model :
  set_after fixed [ORead 0 R_DFXP doc_span] 0 = doc_span_snapshot /\
  (* node.content['color'] = 'pink' on the START node (index 0) shows up in the END node (index 2) too *)
  let after := set_after fixed [ORead 0 R_DFXP doc_span;
                                OEdit 0 (ENodeDict 0 0 0 (TStr (lit "s:color")) (TStr (lit "s:pink")))] 0 in
  content_of after 0 = content_of after 2 /\ content_of after 0 <> content_of doc_span_snapshot 0 /\
  (* ... but not when the reader built two dict literals (no marker: SAMI <i>, SCC) *)
  let after' := set_after fixed [ORead 0 R_DFXP doc_span_snapshot;
                                 OEdit 0 (ENodeDict 0 0 0 (TStr (lit "s:color")) (TStr (lit "s:pink")))] 0 in
  content_of after' 0 <> content_of after' 2.
Proof. vm_compute. repeat split; try reflexivity; discriminate. Qed.
