(* IsoExamples.v - concrete histories: non-vacuity of the C09 / C10 theorems and the `_refuted` witnesses for the
   behaviour before the three repairs in pycaption. *)
From Coq Require Import List ZArith Bool Arith Lia String.
From PV Require Import lib.Sx lib.Str lib.Result model.Store model.Iso proofs.StoreFacts proofs.IsoFacts.
Import ListNotations.
Open Scope Z_scope.

Definition t_text (s : string) : tree :=
  TNode KNode [(TInt 1, TInt 1); (TInt 2, TStr (lit s)); (TInt 3, TNone); (TInt 4, TNone); (TInt 5, TNone)].
Definition t_italics (start : bool) : tree :=
  TNode KNode [(TInt 1, TInt 2); (TInt 2, TNode KDict [(TStr (lit "s:italics"), TStr (lit "b:True"))]);
               (TInt 3, TStr (if start then lit "b:True" else lit "b:False")); (TInt 4, TNone); (TInt 5, TNone)].
Definition t_lay (c : Z) : tree := TNode KLayout [(TInt 1, TInt c); (TInt 2, TNone)].
Definition t_cap (style : tree) (nodes : list tree) (lay : tree) : tree :=
  TNode KCaption [(TInt 1, TInt 0); (TInt 2, TInt 1000000);
                  (TInt 3, TNode KList (map (fun n => (TNone, n)) nodes)); (TInt 4, style); (TInt 5, lay)].
Definition t_set (styles : tree) (caps : list tree) : tree :=
  TNode KSet [(TInt 1, TNode KDict [(TStr (lit "s:en"), TNode KCapList ((TInt 1, TNone) :: map (fun c => (TNone, c)) caps))]);
              (TInt 2, styles); (TInt 3, TNone)].
Definition t_dict0 : tree := TNode KDict [].

(* a caption with a style start and no end / a balanced one; explicit style dicts *)
Definition unbalanced : tree := t_set t_dict0 [t_cap t_dict0 [t_italics true; t_text "open"] TNone].
Definition balanced : tree := t_set t_dict0 [t_cap t_dict0 [t_italics true; t_text "fine"; t_italics false] TNone].
(* layout with an origin and no extent (flags: truthy + origin): fit_to_screen builds a new Layout *)
Definition positioned : tree := t_set t_dict0 [t_cap t_dict0 [t_text "x"] (t_lay 18)].

Definition dflt_opts : wopts := mkWopts true true false TNone None.

Definition tokens_of (r : list (mobs * list tree)) (i : nat) : list Z :=
  match nth_error r i with Some (m, _) => mo_tokens m | None => [] end.
Definition trees_of (r : list (mobs * list tree)) (i : nat) : list tree :=
  match nth_error r i with Some (_, t) => t | None => [] end.

(* the history of defect 15: one DFXP writer object writes the unbalanced set, then the balanced one;
   a fresh object writes the balanced one *)
Definition hist15 (k : Z) : list op :=
  [OBuild unbalanced; OBuild balanced;
   OWrite 0 k dflt_opts 1; OWrite 0 k dflt_opts 0; OWrite 0 k dflt_opts 1; OWrite 1 k dflt_opts 1].

(* before the repair the reused writer starts the balanced document with a stray close tag *)
Theorem open_span_leak_refuted :
  let r := run (mkCfg true true false) world0 (hist15 W_DFXP) in
  tokens_of r 4 <> tokens_of r 5 /\ tokens_of r 4 <> tokens_of r 2.
Proof. vm_compute. split; discriminate. Qed.

Theorem open_span_leak_refuted_sami :
  let r := run (mkCfg true true false) world0 (hist15 W_SAMI) in tokens_of r 4 <> tokens_of r 5.
Proof. vm_compute. discriminate. Qed.

(* after it: same object again = fresh object = first time *)
Example open_span_reset_example :
  forall k, In k [W_DFXP; W_SAMI; W_LEGACY; W_SINGLE] ->
  let r := run fixed world0 (hist15 k) in
  tokens_of r 4 = tokens_of r 5 /\ tokens_of r 4 = tokens_of r 2.
Proof.
  intros k Hk. simpl in Hk. destruct Hk as [<-|[<-|[<-|[<-|[]]]]]; vm_compute; split; reflexivity.
Qed.

(* non-vacuity of write_inv / write_preserves_input: the DFXP writer does assign (to its copy), the input keeps its
   snapshot *)
Example dfxp_write_assigns_on_its_copy :
  let w1 := run_world fixed world0 [OBuild positioned] in
  let s := nth 0 (w_sets w1) VNone in
  let r := write fixed W_DFXP dflt_opts winst0 (w_st w1) s in
  wr_fp r = [(KCaption, 5)] /\ wr_copies r = 1 /\
  (List.length (w_st w1) < List.length (wr_store r))%nat /\
  snap FUEL (wr_store r) s = snap FUEL (w_st w1) s /\
  snap FUEL (w_st w1) s = positioned.
Proof.
  cbv zeta. split; [vm_compute; reflexivity|]. split; [vm_compute; reflexivity|].
  split; [vm_compute; lia|]. split; vm_compute; reflexivity.
Qed.

(* the same assignments applied to the INPUT instead of a copy (the deepcopy line deleted) change its snapshot:
   the footprint theorem is not true of a writer model without the copy *)
Definition dfxp_assign_in_place (st : store) (s : val) : store :=
  let t := snap FUEL st s in
  let p := make_plan W_DFXP dflt_opts false TNone t in
  fst (apply_slots st (dfxp_slots st (sel_langs st s (keys_of (dfxp_langs dflt_opts t)))) (p_slots p) []).

Theorem write_without_copy_refuted :
  let w1 := run_world fixed world0 [OBuild positioned] in
  let s := nth 0 (w_sets w1) VNone in
  snap FUEL (dfxp_assign_in_place (w_st w1) s) s <> snap FUEL (w_st w1) s.
Proof. vm_compute. discriminate. Qed.

(* an error exit: px units, no video size -> RelativizationError, input untouched, open_span as it was *)
Definition absolute : tree := t_set t_dict0 [t_cap t_dict0 [t_text "x"] (t_lay 23)].

Example dfxp_error_exit :
  let w1 := run_world fixed world0 [OBuild absolute] in
  let s := nth 0 (w_sets w1) VNone in
  let r := write fixed W_DFXP dflt_opts winst0 (w_st w1) s in
  wr_result r = Err ERelativization /\ snap FUEL (wr_store r) s = snap FUEL (w_st w1) s.
Proof. vm_compute. split; reflexivity. Qed.

(* ---- C10 witnesses --------------------------------------------------------------------------------------------------- *)
From PV Require Import proofs.RegionFacts.

(* pristine results of two small documents (what the real readers return; empty style dicts are explicit here, the
   reader models decide which of them come from default arguments) *)
Definition doc_a : tree := t_set t_dict0 [t_cap t_dict0 [t_text "hello"] TNone].
Definition doc_b : tree := t_set t_dict0 [t_cap t_dict0 [t_text "other"] TNone].
Definition red : tree := TNode KDict [(TStr (lit "s:color"), TStr (lit "s:red"))].

Definition set_after (c : cfg) (ops : list op) (k : nat) : tree :=
  let w := run_world c world0 ops in snap FUEL (w_st w) (nth k (w_sets w) VNone).

(* defect 2 (before the base.py repair): read A, read B, A.add_style(..) shows up in B; so does a caption style;
   and a LATER read of B's document no longer returns what a pristine read returns *)
Theorem shared_default_refuted :
  let c := mkCfg false true true in
  let h := [ORead 0 R_SRT doc_a; ORead 1 R_SRT doc_b] in
  set_after c (h ++ [OEdit 0 (EAddStyle (TStr (lit "s:x")) red)]) 1 <> set_after c h 1 /\
  set_after c (h ++ [OEdit 0 (ECapStyle 0 0 (TStr (lit "s:bold")) (TStr (lit "b:True")))]) 1 <> set_after c h 1 /\
  set_after c (h ++ [OEdit 0 (EAddStyle (TStr (lit "s:x")) red); ORead 2 R_SRT doc_b]) 2 <> doc_b.
Proof. vm_compute. repeat split; discriminate. Qed.

(* defect 3 (before the SCCReader repair): the second read of one reader object also returns the first read's
   captions, and shares their node lists with the first result *)
Theorem scc_reuse_refuted :
  let c := mkCfg true false true in
  set_after c [ORead 0 R_SCC doc_a; ORead 0 R_SCC doc_b] 1 <> set_after c [ORead 0 R_SCC doc_a; ORead 1 R_SCC doc_b] 1 /\
  (let w := run_world c world0 [ORead 0 R_SCC doc_a; ORead 0 R_SCC doc_b] in
   shares FUEL (w_st w) (nth 0 (w_sets w) VNone) (nth 1 (w_sets w) VNone) = true).
Proof. vm_compute. split; [discriminate|reflexivity]. Qed.

(* after the repairs: the same histories behave *)
Example isolation_example :
  let h := [ORead 0 R_SRT doc_a; ORead 1 R_SRT doc_b] in
  set_after fixed (h ++ [OEdit 0 (EAddStyle (TStr (lit "s:x")) red)]) 1 = doc_b /\
  set_after fixed (h ++ [OEdit 0 (EAddStyle (TStr (lit "s:x")) red)]) 0 <> doc_a /\
  set_after fixed (h ++ [OEdit 0 (EAddStyle (TStr (lit "s:x")) red); ORead 0 R_SRT doc_b]) 2 = doc_b /\
  set_after fixed [ORead 0 R_SCC doc_a; ORead 0 R_SCC doc_b] 1 = doc_b /\
  set_after fixed [ORead 0 R_SCC doc_a; ORead 0 R_SCC doc_b] 0 = doc_a.
Proof. vm_compute. repeat split; try reflexivity; discriminate. Qed.
