(* C02 (wave 5): the MicroDVD writer computes frames as int(micro * 25.0 / 10**6) in binary64; the model (and the spec)
   use the exact floor.  For INTEGER microseconds below 24 h the two agree, by an interval argument that needs no model of
   the float format beyond two facts about the ONE rounded operation (the division):
     - micro * 25 < 2.16 * 10^12 < 2^53 is an integer, so the product is exact, and 10**6 converts exactly;
     - the quotient y = micro*25 / 10^6 lies below 2^22, where binary64 numbers are 2^-31 apart: a correctly rounded
       result differs from y by at most 2^-32 (we only use 2^-31), and an integer quotient is representable, hence returned
       unchanged.
   The rounding function is abstract (a premise of the theorem, not an axiom): ANY rnd with these two properties gives
   floor(rnd y) = floor y, because a non-integer y is at least 10^-6 away from the next integers. *)
From Coq Require Import ZArith QArith Qround Qabs Lia Lqa ZifyBool.
#[local] Ltac Zify.zify_post_hook ::= Z.to_euclidean_division_equations.
Open Scope Z_scope.

Definition rounds_like_binary64_below_2p22 (rnd : Q -> Q) : Prop :=
  (forall (y : Q) (z : Z), (y == inject_Z z)%Q -> (rnd y == inject_Z z)%Q) /\
  (forall y : Q, (0 <= y)%Q -> (y < 4194304)%Q -> (Qabs (rnd y - y) <= 1 # 2147483648)%Q).

Lemma Qfloor_between : forall (v : Q) (n : Z), (inject_Z n <= v)%Q -> (v < inject_Z (n + 1))%Q -> Qfloor v = n.
Proof.
  intros v n H1 H2.
  assert (A : n <= Qfloor v). { rewrite <- (Qfloor_Z n). apply Qfloor_resp_le. exact H1. }
  assert (B : Qfloor v < n + 1).
  { rewrite Zlt_Qlt. eapply Qle_lt_trans; [apply Qfloor_le|exact H2]. }
  lia.
Qed.

Lemma q_split : forall N n r, N = 1000000 * n + r -> (N # 1000000 == inject_Z n + inject_Z r * (1 # 1000000))%Q.
Proof. intros N n r HN. unfold Qeq, Qplus, Qdiv, Qmult, Qinv, inject_Z. cbn [Qnum Qden]. simpl. lia. Qed.

Theorem mdvd_frames_binary64 : forall (rnd : Q -> Q) (t : Z),
  rounds_like_binary64_below_2p22 rnd -> 0 <= t < 86400000000 ->
  Qfloor (rnd ((t * 25) # 1000000)) = t * 25 / 1000000.
Proof.
  intros rnd t [Hint Herr] Ht.
  set (N := t * 25). set (n := N / 1000000). set (r := N mod 1000000).
  assert (HN : N = 1000000 * n + r) by (unfold n, r; lia).
  assert (Hr : 0 <= r < 1000000) by (unfold r; lia).
  assert (Hn : 0 <= n < 2160000) by (unfold n, N; lia).
  assert (Y : (N # 1000000 == inject_Z n + inject_Z r * (1 # 1000000))%Q) by (apply q_split; exact HN).
  clearbody N n r.
  destruct (Z.eq_dec r 0) as [R0|R1].
  - assert (E : (N # 1000000 == inject_Z n)%Q).
    { rewrite Y, R0. unfold Qeq, Qplus, Qdiv, Qmult, Qinv, inject_Z. cbn [Qnum Qden]. simpl. lia. }
    rewrite (Qfloor_comp _ _ (Hint _ _ E)). apply Qfloor_Z.
  - assert (R1' : (1 <= inject_Z r)%Q) by (change 1%Q with (inject_Z 1); rewrite <- Zle_Qle; lia).
    assert (R2' : (inject_Z r <= 999999)%Q) by (change 999999%Q with (inject_Z 999999); rewrite <- Zle_Qle; lia).
    assert (N0 : (0 <= inject_Z n)%Q) by (change 0%Q with (inject_Z 0); rewrite <- Zle_Qle; lia).
    assert (N1 : (inject_Z n <= 2159999)%Q) by (change 2159999%Q with (inject_Z 2159999); rewrite <- Zle_Qle; lia).
    assert (E := Herr (N # 1000000)).
    assert (P0 : (0 <= N # 1000000)%Q) by lra.
    assert (P1 : (N # 1000000 < 4194304)%Q) by lra.
    specialize (E P0 P1). apply Qabs_Qle_condition in E. destruct E as [E1 E2].
    set (v := rnd (N # 1000000)) in *. set (y := (N # 1000000)%Q) in *.
    apply Qfloor_between.
    + lra.
    + rewrite inject_Z_plus. change (inject_Z 1) with 1%Q. lra.
Qed.

(* non-vacuity: the identity rounds like that; so does a function that is off by 2^-32 on non-integers *)
Example rounds_like_id : rounds_like_binary64_below_2p22 (fun y => y).
Proof.
  split; [intros y z H; exact H|]. intros y _ _.
  assert (E : (y - y == 0)%Q) by ring. rewrite E. cbn. discriminate.
Qed.
