(* C19 (wave 7): composition laws of adjust_caption_timing on the exact-arithmetic model.
   adjust(skew1, off1) followed by adjust(skew2, off2) is ONE adjust with skew1*skew2 and off1*skew2 + off2 applied to
   the captions that survive the first step; in particular two offsets add up when the first drops nothing, and an
   adjust that drops nothing is undone by the inverse map.  Equalities are Leibniz equalities of caption lists (times are
   kept in lowest terms by the model). *)
From Coq Require Import List ZArith QArith Qabs Bool Lia.
From PV Require Import lib.Sx lib.Result model.Base spec.SpecBase proofs.BaseFacts.
Import ListNotations.

Lemma retime_compose : forall sk1 off1 sk2 off2 c,
  retime sk2 off2 (retime sk1 off1 c) = retime (sk1 * sk2) (off1 * sk2 + off2) c.
Proof.
  intros. unfold retime. cbn [c_start c_end c_nodes]. f_equal.
  - apply Qred_complete. rewrite Qred_correct. ring.
  - apply Qred_complete. rewrite Qred_correct. ring.
Qed.

Lemma survives_retime : forall sk off c, survives sk off c = Qle_bool 0 (c_start (retime sk off c)).
Proof. intros. unfold survives. symmetry. apply Qle_bool_comp. apply (proj1 (retime_affine sk off c)). Qed.

Lemma filter_map_comm : forall (A B : Type) (f : A -> B) (p : B -> bool) l,
  filter p (map f l) = map f (filter (fun x => p (f x)) l).
Proof.
  intros A B f p. induction l as [|x t IH]; [reflexivity|]. cbn [map filter]. rewrite IH.
  destruct (p (f x)); reflexivity.
Qed.

Theorem adjust_compose : forall sk1 off1 sk2 off2 caps,
  adjust_lang sk2 off2 (adjust_lang sk1 off1 caps)
  = adjust_lang (sk1 * sk2) (off1 * sk2 + off2) (filter (survives sk1 off1) caps).
Proof.
  intros. rewrite !adjust_lang_filter_map.
  rewrite (filter_map_comm _ _ (retime sk1 off1)).
  rewrite (filter_ext (fun x => Qle_bool 0 (c_start (retime sk1 off1 x))) (survives sk1 off1))
    by (intros c; symmetry; apply survives_retime).
  rewrite map_map. f_equal. apply map_ext. intros c. apply retime_compose.
Qed.

Lemma filter_all : forall (A : Type) (p : A -> bool) l, forallb p l = true -> filter p l = l.
Proof.
  intros A p. induction l as [|x t IH]; intros H; [reflexivity|]. cbn [forallb] in H.
  apply andb_true_iff in H. destruct H as [Hx Ht]. cbn [filter]. rewrite Hx, (IH Ht). reflexivity.
Qed.

Theorem adjust_compose_kept : forall sk1 off1 sk2 off2 caps, forallb (survives sk1 off1) caps = true ->
  adjust_lang sk2 off2 (adjust_lang sk1 off1 caps) = adjust_lang (sk1 * sk2) (off1 * sk2 + off2) caps.
Proof. intros. rewrite adjust_compose, filter_all by assumption. reflexivity. Qed.

Lemma adjust_lang_ext : forall sk off sk' off' caps, sk == sk' -> off == off' ->
  adjust_lang sk off caps = adjust_lang sk' off' caps.
Proof.
  intros sk off sk' off' caps Hs Ho. rewrite !adjust_lang_filter_map. f_equal. apply map_ext. intros c.
  unfold retime. f_equal; apply Qred_complete; rewrite Hs, Ho; reflexivity.
Qed.

(* two offsets add up where the first drops nothing *)
Theorem adjust_offsets_add : forall a b caps, forallb (survives 1 a) caps = true ->
  adjust_lang 1 b (adjust_lang 1 a caps) = adjust_lang 1 (a + b) caps.
Proof.
  intros a b caps H. rewrite (adjust_compose_kept _ _ _ _ _ H). apply adjust_lang_ext; ring.
Qed.

(* all languages *)
Theorem adjust_langs_compose_kept : forall sk1 off1 sk2 off2 langs,
  forallb (forallb (survives sk1 off1)) langs = true ->
  adjust sk2 off2 (adjust sk1 off1 langs) = adjust (sk1 * sk2) (off1 * sk2 + off2) langs.
Proof.
  intros sk1 off1 sk2 off2 langs H. unfold adjust. rewrite map_map. apply map_ext_in. intros l Hl.
  rewrite forallb_forall in H. apply adjust_compose_kept. apply H. exact Hl.
Qed.

(* an adjust that drops nothing is undone by the inverse affine map (skew <> 0), up to the lowest-terms form of the
   times: the round trip is the identity adjust *)
Theorem adjust_inverse : forall sk off caps, ~ sk == 0 -> forallb (survives sk off) caps = true ->
  adjust_lang (/ sk) (- off / sk) (adjust_lang sk off caps) = adjust_lang 1 0 caps.
Proof.
  intros sk off caps Hsk H. rewrite (adjust_compose_kept _ _ _ _ _ H). apply adjust_lang_ext. all: field; exact Hsk.
Qed.

(* the identity adjust keeps exactly the captions with a non-negative start, times unchanged as numbers, nodes and order
   untouched *)
Theorem adjust_identity : forall caps,
  Forall2 cap_equiv (adjust_lang 1 0 caps) (filter (fun c => Qle_bool 0 (c_start c)) caps).
Proof.
  intros caps. rewrite adjust_lang_filter_map.
  induction caps as [|c t IH]; cbn [map filter]; [constructor|].
  destruct (retime_affine 1 0 c) as [Hs [He Hn]].
  assert (Hs' : c_start (retime 1 0 c) == c_start c) by (rewrite Hs; ring).
  rewrite (Qle_bool_comp _ _ Hs').
  destruct (Qle_bool 0 (c_start c)); [|exact IH].
  constructor; [|exact IH]. unfold cap_equiv. split; [exact Hs'|split; [rewrite He; ring|exact Hn]].
Qed.
