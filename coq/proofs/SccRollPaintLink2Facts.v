(* C16 link, wider class of lines (continues proofs/SccRollPaintLinkFacts.v, `rp_link`).

   1-2. A generic line (`gseg`): head words `g_hw` (the head command RU2/RU3/RU4 | CR | RDC first, then only skipped
        copies / a carriage return on the empty buffer: `head_runs`) followed by body words which (i) never read the clock
        nor touch the stash / self.time, (ii) leave a buffer `g_buf` whose first node has a non-empty text (so the next
        head flushes it), (iii) is stored by create_and_store as exactly ONE caption `g_cap time` carrying (time, 0) and
        passing the line-length scan (`body_runs`, `buf_ok`). For such lines the spans of `read` are `rp_read` on the flush
        events of the heads (`rp_linkG`, `read_rp_orderedG`): the timing argument of `rp_link` only uses (i)-(iii).
        What is TRUE of the model for several rows in one buffer: create_and_store cuts the buffer at every REPOSITION
        node, so rows that are NOT adjacent give several captions sharing the span (time, 0); `rprun` adds ONE cue per
        event, so `spans_of (read ...)` then has duplicates and equals `rp_read` only up to spec/SpecSccTime.v `screens`
        (`nonadjacent_rows_duplicate`). A second row on the NEXT screen row gives a BREAK node instead: one caption with a
        line break, and the link holds on the nose (level b).
   3.   level (a) `rseg2`: one row = PAC [tab offset] + character pairs and SPECIAL characters (`rp_link2`). Every control
        code is sent once or twice (`dd`); PAC + tab offset is doubled as the unit PAC TO PAC TO (PAC PAC TO TO would lose
        the offset: the decoder skips a tab offset that does not directly follow a PAC); sent once, a special character
        must not repeat the special character just before it (`no_rep`, `no_rep_needed`: the decoder drops it).
   4.   level (b) `rseg3`: an optional second row on the adjacent screen row (`rp_link3`), and
        level (d, by code class) `rseg4`: every line carries its own flags (`dflags`): head command, carriage return after
        RU, PAC unit of each row, special characters of each row are independently single or doubled (`rp_link4`).
   Still execution-only: extended characters / backspace (level c), mid-row codes and italics PACs, a CR / RU in the middle
   of a line, non-adjacent rows (only up to `screens`), a different flag for each special character of one row. *)
From Coq Require Import List ZArith QArith Lia Bool ZifyBool Lqa.
From PV Require Import lib.Sx lib.Str lib.Result model.GenScc model.SccLen model.SccTime model.SccStash model.SccPopon
  model.SccRollPaint model.SccDecoder spec.SpecSccLen spec.SpecSccTime
  proofs.SccLenFacts proofs.SccStashFacts proofs.SccPoponFacts proofs.SccTableFacts proofs.SccRollPaintFacts
  proofs.SccConserveFacts proofs.SccTimeFacts proofs.SccRollPaintLinkFacts.
Import ListNotations.
Local Open Scope Z_scope.
Local Arguments stash_extend : simpl never.

(* ================================================================================================================== *)
(* 1. the head of a line on any buffer whose first node carries text                                                   *)
(* ================================================================================================================== *)

Definition heads5 : list Z := [w_ru2; w_ru3; w_ru4; w_rdc; w_cr].
Definition quiet (l : lastcmd) : Prop := forall h, In h heads5 -> last_contains l h = false.

(* the first node of the buffer is a node with a non-empty text: the buffer is not empty (cr_is_empty b = false) *)
Definition hd_text (b : creator) : Prop := exists k c0 txt p rest style, b = mkCr (mkI k (c0 :: txt) p :: rest) style.

Lemma tw_headG : forall h pm st tk l d b time tc fr off t,
  In h heads5 -> last_contains l h = false -> hd_text b -> get_time tc fr off = Ok t ->
  exists d', forall next, translate_word (RS pm st tk l d b time tc fr off) h next =
    RS (head_paint pm h) (head_stash pm h (create_and_store st b time 0) t) tk (LWord h) d' creator0
       t tc (fr + 1) off.
Proof.
  intros h pm st tk l d b time tc fr off t Hh Hl (k & c0 & txt & p & rest & style & ->) Ht.
  set (s := RS pm st tk l d (mkCr (mkI k (c0 :: txt) p :: rest) style) time tc fr off).
  assert (T : tab_of h = None) by (cbn [In heads5] in Hh; destruct Hh as [<-|[<-|[<-|[<-|[<-|[]]]]]]; vm_compute; reflexivity).
  destruct (hd_fresh s h Hl T) as [d' Hd]. exists d'. intros next.
  rewrite (tw_exec s h next d' eq_refl Hd). subst s.
  cbn [In heads5] in Hh; destruct Hh as [<-|[<-|[<-|[<-|[<-|[]]]]]]; destruct pm;
    lazy -[get_time create_and_store correct_last_timing Z.add];
    repeat (rewrite Ht; lazy -[get_time create_and_store correct_last_timing Z.add]); reflexivity.
Qed.

Lemma flush_RSG : forall pm st tk l d b time tc fr off tend, hd_text b ->
  (pm = false -> get_time tc fr off = Ok tend) ->
  let s := flush_implicit (RS pm st tk l d b time tc fr off) in
  r_err s = None /\
  r_stash s = if pm then create_and_store st b time 0
              else correct_last_timing (create_and_store st b time 0) tend.
Proof.
  intros pm st tk l d b time tc fr off tend (k & c0 & txt & p & rest & style & ->) Ht. destruct pm.
  - lazy -[get_time create_and_store correct_last_timing]. split; reflexivity.
  - specialize (Ht eq_refl). lazy -[get_time create_and_store correct_last_timing]. rewrite Ht. split; reflexivity.
Qed.


(* ================================================================================================================== *)
(* 2. the generic line: a head, then body words that fill the empty active buffer with `g_buf` without reading the     *)
(*    clock, and whose buffer is stored as ONE caption `g_cap time` carrying (time, 0)                                  *)
(* ================================================================================================================== *)
Record gseg : Type :=
  mkG { g_tc : str; g_head : rhead; g_hw : list Z; g_body : list Z; g_buf : creator; g_cap : Q -> precap }.
Definition gwords (g : gseg) : list Z := g_hw g ++ g_body g.
Definition gline (g : gseg) : sline := (g_tc g, gwords g).
(* the timing skeleton of a line: its timecode and its head (what `rp_events`, `seg_paint`, `seg_event` look at) *)
Definition skel (g : gseg) : rseg := mkSeg (g_tc g) (g_head g) 0 [].

(* the words `g_hw` of the head: the head command first, then only skipped copies / a carriage return on the empty buffer *)
Definition head_runs (g : gseg) : Prop :=
  forall rest s pm st tk t tc fr off,
    (exists d1, forall next, translate_word s (head_word (g_head g)) next =
                             RS pm st tk (LWord (head_word (g_head g))) d1 creator0 t tc (fr + 1) off) ->
    exists l2 d2, ctl_last l2 /\
      translate_words s (g_hw g ++ rest) =
      translate_words (RS pm st tk l2 d2 creator0 t tc (fr + Z.of_nat (length (g_hw g))) off) rest.
Definition body_runs (g : gseg) : Prop :=
  forall pm st tk l d time tc fr off, ctl_last l ->
    exists tk' l' d', quiet l' /\
      translate_words (RS pm st tk l d creator0 time tc fr off) (g_body g) =
      RS pm st tk' l' d' (g_buf g) time tc (fr + Z.of_nat (length (g_body g))) off.
Definition buf_ok (g : gseg) : Prop :=
  hd_text (g_buf g) /\
  forall st time, create_and_store st (g_buf g) time 0 = stash_extend st [g_cap g time] /\
    has_nodes (g_cap g time) = true /\ pc_start (g_cap g time) = time /\ pc_end (g_cap g time) = 0%Q /\
    filter spec_long (spec_lines (cap_text (g_cap g time))) = [].
Definition gseg_ok (g : gseg) : Prop := head_runs g /\ body_runs g /\ buf_ok g.

Lemma tws_lineG : forall g s pm st tk t off, head_runs g -> body_runs g ->
  (exists d1, forall next, translate_word s (head_word (g_head g)) next =
                           RS pm st tk (LWord (head_word (g_head g))) d1 creator0 t (g_tc g) (0 + 1) off) ->
  exists tk' l' d', quiet l' /\
    translate_words s (gwords g) =
    RS pm st tk' l' d' (g_buf g) t (g_tc g) (Z.of_nat (length (gwords g))) off.
Proof.
  intros g s pm st tk t off Hh Hg H. unfold gwords.
  destruct (Hh (g_body g) s pm st tk t (g_tc g) 0 off H) as (l2 & d2 & Hl2 & E). rewrite E.
  destruct (Hg pm st tk l2 d2 t (g_tc g) (0 + Z.of_nat (length (g_hw g))) off Hl2)
    as (tk' & l' & d' & Hq & E2). exists tk', l', d'. split; [exact Hq|]. rewrite E2. apply RS_frames.
  rewrite app_length. lia.
Qed.

Lemma line_laterG : forall g pm st tk l d b time tc0 fr0 off t,
  head_runs g -> body_runs g -> quiet l -> hd_text b -> get_time (g_tc g) 0 off = Ok t ->
  exists tk' l' d', quiet l' /\
    translate_line (RS pm st tk l d b time tc0 fr0 off) (gline g) =
    RS (seg_paint pm (skel g)) (head_stash pm (head_word (g_head g)) (create_and_store st b time 0) t)
       tk' l' d' (g_buf g) t (g_tc g) (Z.of_nat (length (gwords g))) off.
Proof.
  intros g pm st tk l d b time tc0 fr0 off t Hh Hg Hl Hn Ht.
  change (translate_line (RS pm st tk l d b time tc0 fr0 off) (gline g))
    with (translate_words (RS pm st tk l d b time (g_tc g) 0 off) (gwords g)).
  eapply tws_lineG; [exact Hh|exact Hg|].
  apply tw_headG; [apply head_word_in|apply Hl; apply head_word_in|exact Hn|exact Ht].
Qed.

Lemma line_firstG : forall g off t, head_runs g -> body_runs g -> g_head g <> HCr -> get_time (g_tc g) 0 off = Ok t ->
  exists tk' l' d', quiet l' /\
    translate_line (rstate0 off) (gline g) =
    RS (seg_paint false (skel g)) stash0 tk' l' d' (g_buf g) t (g_tc g) (Z.of_nat (length (gwords g))) off.
Proof.
  intros g off t Hhr Hg Hh Ht.
  change (translate_line (rstate0 off) (gline g))
    with (translate_words (set_clock (rstate0 off) (g_tc g) 0) (gwords g)).
  assert (P : seg_paint false (skel g) = (head_word (g_head g) =? w_rdc)).
  { unfold seg_paint, skel. cbn [sg_head]. destruct (g_head g) as [[| |] cr| |]; reflexivity. }
  rewrite P. eapply tws_lineG; [exact Hhr|exact Hg|]. apply tw_first; [|exact Ht].
  destruct (g_head g) as [[| |] cr| |]; cbn [head_word ru_word In]; try tauto; congruence.
Qed.

Lemma rpstepG : forall pm g t st cur time, buf_ok cur ->
  rpstep (sabs st, time) (seg_event pm (skel g) t) =
  (sabs (head_stash pm (head_word (g_head g)) (create_and_store st (g_buf cur) time 0) t), t).
Proof.
  intros pm g t st cur time [_ H]. destruct (H st time) as (E & Hn & Hs & He & _). rewrite E.
  unfold seg_event, head_stash, seg_rolls, skel. cbn [sg_head].
  destruct (_ || _); cbn [rpstep].
  - rewrite sabs_correct_last_timing, sabs_extend1 by exact Hn. rewrite Hs, He. reflexivity.
  - rewrite sabs_extend1 by exact Hn. rewrite Hs, He. reflexivity.
Qed.

Lemma short_lines_storeG : forall st cur time, short_lines st -> buf_ok cur ->
  short_lines (create_and_store st (g_buf cur) time 0).
Proof.
  intros st cur time Hst [_ H]. destruct (H st time) as (E & Hn & _ & _ & Hs). rewrite E.
  apply short_lines_extend1; assumption.
Qed.

Lemma run_laterG : forall off gs cur pm st tk l d time evs,
  Forall gseg_ok gs -> gseg_ok cur -> quiet l -> short_lines st ->
  rp_events off pm (map skel gs) = Ok evs ->
  exists st' tk' l' d' time',
    fold_left translate_line (map gline gs)
      (RS pm st tk l d (g_buf cur) time (g_tc cur) (Z.of_nat (length (gwords cur))) off)
    = RS (final_paint pm (map skel gs)) st' tk' l' d' (g_buf (last gs cur)) time'
         (g_tc (last gs cur)) (Z.of_nat (length (gwords (last gs cur)))) off
    /\ fold_left rpstep evs (sabs st, time) = (sabs st', time') /\ short_lines st'.
Proof.
  intros off gs. induction gs as [|g gs IH]; intros cur pm st tk l d time evs Hgs Hcur Hl Hst Hev.
  - cbn [rp_events map] in Hev. inversion Hev; subst evs. exists st, tk, l, d, time. repeat split. exact Hst.
  - inversion Hgs as [|? ? Hg Hgs']; subst. cbn [map rp_events] in Hev. cbn [skel sg_tc] in Hev.
    destruct (get_time (g_tc g) 0 off) as [t|] eqn:Ht; [|discriminate].
    fold (skel g) in Hev.
    destruct (rp_events off (seg_paint pm (skel g)) (map skel gs)) as [evs'|] eqn:Hev'; [|discriminate].
    inversion Hev; subst evs. clear Hev. destruct Hcur as (Hch & Hcb & Hco). destruct Hg as (Hgh & Hgb & Hgo).
    cbn [map fold_left].
    destruct (line_laterG g pm st tk l d (g_buf cur) time (g_tc cur) (Z.of_nat (length (gwords cur))) off t
                Hgh Hgb Hl (proj1 Hco) Ht) as (tk1 & l1 & d1 & Hl1 & E).
    rewrite E.
    set (st1 := head_stash pm (head_word (g_head g)) (create_and_store st (g_buf cur) time 0) t).
    assert (Hst1 : short_lines st1) by (apply short_lines_head, short_lines_storeG; assumption).
    destruct (IH g (seg_paint pm (skel g)) st1 tk1 l1 d1 t evs' Hgs' (conj Hgh (conj Hgb Hgo)) Hl1 Hst1 Hev')
      as (st' & tk' & l' & d' & time' & E2 & F & Hs').
    exists st', tk', l', d', time'. split; [|split; [|exact Hs']].
    + rewrite E2. cbn [final_paint]. rewrite last_cons. reflexivity.
    + cbn [fold_left]. rewrite (rpstepG pm g t st cur time Hco). exact F.
Qed.

Definition gl_events (g0 : gseg) (gs : list gseg) (evs : list rpev) (tend : Q) : list rpev :=
  link_events (skel g0) (map skel gs) evs tend.
Definition gl_pending (g0 : gseg) (gs : list gseg) : bool := final_paint (seg_paint false (skel g0)) (map skel gs).

Theorem rp_linkG : forall off g0 gs t0 evs tend,
  g_head g0 <> HCr -> Forall gseg_ok (g0 :: gs) ->
  get_time (g_tc g0) 0 off = Ok t0 ->
  rp_events off (seg_paint false (skel g0)) (map skel gs) = Ok evs ->
  (gl_pending g0 gs = false ->
   get_time (g_tc (last gs g0)) (Z.of_nat (length (gwords (last gs g0)))) off = Ok tend) ->
  spans_of (read off (map gline (g0 :: gs))) = rp_read t0 (gl_events g0 gs evs tend) (gl_pending g0 gs).
Proof.
  intros off g0 gs t0 evs tend Hh Hok Ht0 Hev Hend. unfold gl_events, link_events. fold (gl_pending g0 gs).
  inversion Hok as [|? ? Hg0 Hgs]; subst.
  unfold read, run_lines. cbv zeta. cbn [map fold_left].
  destruct (line_firstG g0 off t0 (proj1 Hg0) (proj1 (proj2 Hg0)) Hh Ht0) as (tk0 & l0 & d0 & Hl0 & E0). rewrite E0.
  destruct (run_laterG off gs g0 (seg_paint false (skel g0)) stash0 tk0 l0 d0 t0 evs Hgs Hg0 Hl0 eq_refl Hev)
    as (st' & tk' & l' & d' & time' & E & F & Hs').
  rewrite E. fold (gl_pending g0 gs) in *. set (pmN := gl_pending g0 gs) in *. set (gl := last gs g0) in *.
  assert (Hgl : gseg_ok gl).
  { unfold gl. clear -Hg0 Hgs. revert g0 Hg0. induction Hgs as [|g gs Hg Hgs IH]; intros g0 Hg0; [exact Hg0|].
    rewrite last_cons. apply IH. exact Hg. }
  destruct Hgl as (_ & _ & Hgo). pose proof Hgo as [Hne Hcap]. destruct (Hcap st' time') as (Est & Hn & Hs & He & _).
  change (r_err (RS pmN st' tk' l' d' (g_buf gl) time' (g_tc gl) (Z.of_nat (length (gwords gl))) off))
    with (@None err). cbv iota.
  destruct (flush_RSG pmN st' tk' l' d' (g_buf gl) time' (g_tc gl)
              (Z.of_nat (length (gwords gl))) off tend Hne Hend) as [Ee Es].
  rewrite Ee, Es.
  assert (Hst : short_lines (create_and_store st' (g_buf gl) time' 0)) by (apply short_lines_storeG; assumption).
  unfold rp_read, rprun. rewrite fold_left_app, sabs_stash0 in *. rewrite F.
  rewrite Est in *. destruct pmN.
  - rewrite finish_read_sabs by exact Hst. cbn [fold_left].
    rewrite sabs_extend1 by exact Hn. rewrite Hs, He. reflexivity.
  - rewrite finish_read_sabs by (apply short_lines_correct; exact Hst). cbn [fold_left rpstep].
    rewrite sabs_correct_last_timing, sabs_extend1 by exact Hn. rewrite Hs, He. reflexivity.
Qed.

Theorem read_rp_orderedG : forall off g0 gs t0 evs tend l,
  g_head g0 <> HCr -> Forall gseg_ok (g0 :: gs) ->
  get_time (g_tc g0) 0 off = Ok t0 ->
  rp_events off (seg_paint false (skel g0)) (map skel gs) = Ok evs ->
  (gl_pending g0 gs = false ->
   get_time (g_tc (last gs g0)) (Z.of_nat (length (gwords (last gs g0)))) off = Ok tend) ->
  rp_nonneg t0 (gl_events g0 gs evs tend) ->
  increasing t0 (map rp_time (gl_events g0 gs evs tend)) ->
  spans_of (read off (map gline (g0 :: gs))) = Ok l ->
  l = rp_spans t0 (gl_events g0 gs evs tend) (gl_pending g0 gs) /\
  Forall (fun p => (fst p < snd p)%Q) l /\
  (forall i a b, nth_error l i = Some a -> nth_error l (S i) = Some b -> (fst a < fst b)%Q /\ snd a = fst b).
Proof.
  intros off g0 gs t0 evs tend l Hh Hok Ht0 Hev Hend Hnn Hinc Hr.
  rewrite (rp_linkG off g0 gs t0 evs tend Hh Hok Ht0 Hev Hend) in Hr. split.
  - pose proof Hr as Hr'. rewrite rp_chain_all_nonneg in Hr' by exact Hnn. unfold rp_expected_all, verdict in Hr'.
    destruct (existsb _ _); [discriminate|]. destruct (rp_spans _ _ _); [discriminate|]. inversion Hr'. reflexivity.
  - exact (rp_chain_ordered _ _ _ _ Hnn Hinc Hr).
Qed.


(* ================================================================================================================== *)
(* 3. level (a): one row = PAC [tab offset] then character pairs and special characters                                *)
(* ================================================================================================================== *)
Inductive bitem : Type := BChar (w : Z) | BSpec (w : Z).
Record rseg2 : Type := mkSeg2 { s2_tc : str; s2_head : rhead; s2_pac : Z; s2_tab : option Z; s2_items : list bitem }.

Definition item_word (it : bitem) : Z := match it with BChar w => w | BSpec w => w end.
(* a special character is a two-byte control pair: sent once or twice like every control code; a character pair once *)
Definition item_words (dd : bool) (it : bitem) : list Z := match it with BChar w => [w] | BSpec w => ctl dd w end.
(* the preamble address code and its tab offset are doubled as ONE unit PAC TO PAC TO (the decoder skips a tab offset that
   does not directly follow a preamble address code: PAC PAC TO TO would lose the offset) *)
Definition pac_unit2 (dd : bool) (pac : Z) (tab : option Z) : list Z :=
  match tab with None => ctl dd pac | Some t => if dd then [pac; t; pac; t] else [pac; t] end.
(* du: the PAC [+ tab offset] unit is doubled; di: the special characters of the row are doubled *)
Definition rseg2_bodyD (du di : bool) (g : rseg2) : list Z :=
  pac_unit2 du (s2_pac g) (s2_tab g) ++ flat_map (item_words di) (s2_items g).
Definition rseg2_body (dd : bool) (g : rseg2) : list Z := rseg2_bodyD dd dd g.
Definition rseg2_words (dd : bool) (g : rseg2) : list Z := head_words dd (s2_head g) ++ rseg2_body dd g.
Definition rseg2_line (dd : bool) (g : rseg2) : sline := (s2_tc g, rseg2_words dd g).

Definition items_text (l : list bitem) : str := concat (map (fun it => word_chars (item_word it)) l).
Definition seg2_text (g : rseg2) : str := items_text (s2_items g).
Definition seg2_pos (g : rseg2) : pos :=
  match pac_pos (s2_pac g) with
  | Some p => match s2_tab g with
              | None => p
              | Some t => match tab_of t with Some k => (fst p, snd p + k) | None => p end
              end
  | None => (0, 0)
  end.

Definition spec_word (w : Z) : bool := negb (is_none (special_of w)).
Definition item_ok (it : bitem) : bool := match it with BChar w => char_word w | BSpec w => spec_word w end.
(* sent once, a special character that repeats the one just before it is taken for its doubled copy and dropped *)
Fixpoint no_rep (l : list bitem) : bool :=
  match l with
  | [] => true
  | BSpec a :: t => match t with BSpec b :: _ => negb (a =? b) | _ => true end && no_rep t
  | _ :: t => no_rep t
  end.
Definition tab_ok (o : option Z) : bool := match o with None => true | Some t => negb (is_none (tab_of t)) end.
Definition seg_ok2 (dd : bool) (g : rseg2) : bool :=
  plain_pac (s2_pac g) && tab_ok (s2_tab g) && forallb item_ok (s2_items g) && (dd || no_rep (s2_items g))
  && nonempty (rstrip (seg2_text g)) && nil_b' (filter spec_long (spec_lines (rstrip (seg2_text g)))).

Definition to_gseg (dd : bool) (g : rseg2) : gseg :=
  mkG (s2_tc g) (s2_head g) (head_words dd (s2_head g)) (rseg2_body dd g) (tb (seg2_text g) (seg2_pos g))
      (fun t => tcap t 0 (seg2_text g) (seg2_pos g)).

Lemma to_gseg_line : forall dd g, gline (to_gseg dd g) = rseg2_line dd g.
Proof. reflexivity. Qed.

(* ---- a special character ------------------------------------------------------------------------------------------- *)
Lemma spec_word_spec : forall w, spec_word w = true ->
  exists txt, special_of w = Some txt /\ is_command w = false /\ is_pac w = false /\ tab_of w = None /\ word_chars w = txt.
Proof.
  intros w H. unfold spec_word in H. destruct (special_of w) as [txt|] eqn:E; [|discriminate H].
  destruct classes_disjoint as (Dsp & _). destruct (Dsp w) as (H1 & H2 & _ & H4); [congruence|].
  exists txt. repeat split; try assumption. unfold word_chars. rewrite H1, H2, E. reflexivity.
Qed.

(* a row being written: tracker `T o` and buffer `B o` after the text `o` (None: nothing written on this row yet) *)
Section Row.
Variable T : option str -> tracker.
Variable B : option str -> creator.
Hypothesis add_ok : forall o s, add_chars (T o) (B o) s = (T (Some (otext o ++ s)), B (Some (otext o ++ s))).

Lemma tw_charS : forall w pm st l d o time tc fr off, char_word w = true ->
  exists d', forall next, translate_word (RS pm st (T o) l d (B o) time tc fr off) w next =
    RS pm st (T (Some (otext o ++ word_chars w))) (LWord w) d' (B (Some (otext o ++ word_chars w))) time tc (fr + 1) off.
Proof.
  intros w pm st l d o time tc fr off Hw.
  destruct (char_word_spec w Hw) as (H1 & H2 & H3 & H4 & H5 & a & b & Ha & Hb & Hc).
  set (s := RS pm st (T o) l d (B o) time tc fr off).
  destruct (hd_char s w H1 H2 H3 H4 H5) as [d' Hd]. exists d'. intros next.
  rewrite (tw_exec s w next d' eq_refl Hd). subst s. cbv zeta.
  unfold exec. rewrite H1, H2, H3, H4, Ha, Hb. cbn [orb]. unfold add_to_buf.
  assert (B0 : buf (set_dbl (RS pm st (T o) l d (B o) time tc fr off) (LWord w) d') = B o) by (destruct pm; reflexivity).
  rewrite B0. cbn [r_tk set_dbl RS]. rewrite add_ok, Hc. destruct pm; reflexivity.
Qed.

Lemma tw_spec : forall w pm st l d o time tc fr off, spec_word w = true -> last_is l w = false ->
  exists d', forall next, translate_word (RS pm st (T o) l d (B o) time tc fr off) w next =
    RS pm st (T (Some (otext o ++ word_chars w))) (LWord w) d' (B (Some (otext o ++ word_chars w))) time tc (fr + 1) off.
Proof.
  intros w pm st l d o time tc fr off Hw Hl. destruct (spec_word_spec w Hw) as (txt & E & H1 & H2 & H3 & Hc).
  set (s := RS pm st (T o) l d (B o) time tc fr off).
  assert (Hd : exists d', handle_double s w = (false, set_dbl s (LWord w) d')).
  { unfold handle_double. cbv zeta. change (r_last s) with l. rewrite Hl, H2, H3, andb_false_r. cbn [andb].
    eexists. reflexivity. }
  destruct Hd as [d' Hd]. exists d'. intros next.
  rewrite (tw_exec s w next d' eq_refl Hd). subst s. cbv zeta.
  unfold exec. rewrite H1, H2, E. cbn [orb]. unfold add_to_buf.
  assert (B0 : buf (set_dbl (RS pm st (T o) l d (B o) time tc fr off) (LWord w) d') = B o) by (destruct pm; reflexivity).
  rewrite B0. cbn [r_tk set_dbl RS]. rewrite add_ok, Hc. destruct pm; reflexivity.
Qed.

Lemma tw_second_spec : forall s w next, r_err s = None -> r_last s = LWord w -> spec_word w = true ->
  exists d, translate_word s w next = bump (set_dbl s LNone d).
Proof.
  intros s w next E H Hw. destruct (spec_word_spec w Hw) as (txt & Es & _).
  rewrite translate_word_unfold, E. unfold handle_double. cbv zeta. rewrite H. cbn [last_is]. rewrite Z.eqb_refl, Es.
  rewrite orb_true_r. cbn [orb andb]. eexists. reflexivity.
Qed.

Definition item_last (dd : bool) (it : bitem) : lastcmd :=
  match it with BChar w => LWord w | BSpec w => cl_last dd w end.
Definition pre1 (l : lastcmd) (it : bitem) : Prop := match it with BSpec w => last_is l w = false | BChar _ => True end.

Lemma tws_item : forall dd it rest pm st l d o time tc fr off, item_ok it = true -> pre1 l it ->
  exists d', translate_words (RS pm st (T o) l d (B o) time tc fr off) (item_words dd it ++ rest) =
    translate_words (RS pm st (T (Some (otext o ++ word_chars (item_word it)))) (item_last dd it) d'
                        (B (Some (otext o ++ word_chars (item_word it)))) time tc
                        (fr + Z.of_nat (length (item_words dd it))) off) rest.
Proof.
  intros dd [w|w] rest pm st l d o time tc fr off Hok Hpre; cbn [item_ok item_words item_last item_word pre1] in *.
  - destruct (tw_charS w pm st l d o time tc fr off Hok) as [d' E]. exists d'.
    cbn [app translate_words length]. rewrite E. reflexivity.
  - destruct (tw_spec w pm st l d o time tc fr off Hok Hpre) as [d1 E]. destruct dd; cbn [ctl app translate_words cl_last length].
    + rewrite E. set (o' := Some (otext o ++ word_chars w)).
      destruct (tw_second_spec (RS pm st (T o') (LWord w) d1 (B o') time tc (fr + 1) off) w
                  (match rest with n :: _ => Some n | [] => None end) eq_refl eq_refl Hok) as [d2 E2].
      rewrite E2. exists d2. f_equal.
      change (bump (set_dbl (RS pm st (T o') (LWord w) d1 (B o') time tc (fr + 1) off) LNone d2))
        with (RS pm st (T o') LNone d2 (B o') time tc (fr + 1 + 1) off).
      apply RS_frames. lia.
    + rewrite E. exists d1. reflexivity.
Qed.

Definition nc_last (l : lastcmd) : Prop := l = LNone \/ exists w, l = LWord w /\ is_command w = false /\ is_pac w = false.

Lemma nc_last_quiet : forall l, nc_last l -> quiet l.
Proof.
  intros l [->|(w & -> & Hw & _)] h Hh; [reflexivity|]. cbn [last_contains]. apply cmd_neq; [exact Hw|].
  cbn [In heads5] in Hh. destruct Hh as [<-|[<-|[<-|[<-|[<-|[]]]]]]; vm_compute; reflexivity.
Qed.

Lemma item_last_nc : forall dd it, item_ok it = true -> nc_last (item_last dd it).
Proof.
  intros dd [w|w] H; cbn [item_ok item_last] in *.
  - right. exists w. split; [reflexivity|]. split; apply (char_word_spec w H).
  - destruct dd; [left; reflexivity|]. right. exists w. split; [reflexivity|].
    destruct (spec_word_spec w H) as (txt & _ & H1 & H2 & _). split; assumption.
Qed.

Lemma pre1_step : forall dd it it2 r, item_ok it = true -> item_ok it2 = true -> (dd || no_rep (it :: it2 :: r)) = true ->
  pre1 (item_last dd it) it2.
Proof.
  intros dd [a|a] [b|b] r H1 H2 Hn; cbn [pre1 item_last item_ok] in *; try exact I.
  - cbn [last_is]. apply Z.eqb_neq. intros ->. destruct (char_word_spec b H1) as (_ & _ & Hs & _).
    unfold spec_word in H2. rewrite Hs in H2. discriminate.
  - destruct dd; [reflexivity|]. cbn [orb no_rep] in Hn. apply andb_true_iff in Hn. destruct Hn as [Hn _].
    cbn [cl_last last_is]. apply negb_true_iff. exact Hn.
Qed.

Lemma no_rep_tail : forall dd it r, (dd || no_rep (it :: r)) = true -> (dd || no_rep r) = true.
Proof.
  intros [|] it r H; [reflexivity|]. cbn [orb] in *. destruct it; cbn [no_rep] in H; [exact H|].
  apply andb_true_iff in H. apply H.
Qed.

Lemma tws_items : forall dd items it rest pm st l d o time tc fr off,
  forallb item_ok (it :: items) = true -> (dd || no_rep (it :: items)) = true -> pre1 l it ->
  exists l' d', nc_last l' /\
    translate_words (RS pm st (T o) l d (B o) time tc fr off) (flat_map (item_words dd) (it :: items) ++ rest) =
    translate_words
      (RS pm st (T (Some (otext o ++ items_text (it :: items)))) l' d' (B (Some (otext o ++ items_text (it :: items)))) time tc
          (fr + Z.of_nat (length (flat_map (item_words dd) (it :: items)))) off) rest.
Proof.
  intros dd items. induction items as [|it2 r IH]; intros it rest pm st l d o time tc fr off Hok Hn Hpre;
    cbn [forallb] in Hok; apply andb_true_iff in Hok; destruct Hok as [Hit Hok].
  - cbn [flat_map]. rewrite app_nil_r. destruct (tws_item dd it rest pm st l d o time tc fr off Hit Hpre) as [d' E].
    rewrite E. exists (item_last dd it), d'. split; [apply item_last_nc; exact Hit|].
    unfold items_text. cbn [map concat]. rewrite !app_nil_r. reflexivity.
  - pose proof Hok as Hok'. cbn [forallb] in Hok'. apply andb_true_iff in Hok'. destruct Hok' as [Hit2 _].
    change (flat_map (item_words dd) (it :: it2 :: r)) with (item_words dd it ++ flat_map (item_words dd) (it2 :: r)).
    rewrite <- app_assoc.
    destruct (tws_item dd it (flat_map (item_words dd) (it2 :: r) ++ rest) pm st l d o time tc fr off Hit Hpre) as [d1 E].
    rewrite E.
    destruct (IH it2 rest pm st (item_last dd it) d1 (Some (otext o ++ word_chars (item_word it))) time tc
                (fr + Z.of_nat (length (item_words dd it))) off Hok (no_rep_tail dd it _ Hn)
                (pre1_step dd it it2 r Hit Hit2 Hn)) as (l' & d' & Hl' & E2).
    exists l', d'. split; [exact Hl'|]. rewrite E2. cbn [otext]. unfold items_text. cbn [map concat].
    rewrite <- !app_assoc. f_equal. apply RS_frames. rewrite app_length. lia.
Qed.
End Row.

(* ---- the tab offset after the preamble address code ------------------------------------------------------------------- *)
Lemma tab_range : forall w k, tab_of w = Some k -> 1 <= k <= 3.
Proof.
  intros w k H. unfold tab_of, scc_tab_offsets in H. cbn [assocz] in H.
  repeat (match type of H with (if ?c then _ else _) = _ => destruct c end); inversion H; lia.
Qed.

Lemma tracker_update_tab : forall p k, 1 <= k <= 3 -> tracker_update (tkp p) (fst p, snd p + k) = tkp (fst p, snd p + k).
Proof.
  intros [r c] k Hk. unfold tracker_update, tkp. cbn [tk_pos tk_break tk_repos tk_default map last fst snd].
  replace (r =? r + 1) with false by lia. cbn [andb]. unfold pos_eqb. cbn [fst snd].
  replace (c + k =? c) with false by lia. rewrite andb_false_r.
  replace ((r =? r) && (c + 1 <=? c + k) && (c + k <=? c + 3)) with true by lia. reflexivity.
Qed.

Lemma tw_tab : forall pac w k p pm st d time tc fr off, is_pac pac = true -> tab_of w = Some k ->
  exists d', forall next, translate_word (RS pm st (tkp p) (LWord pac) d creator0 time tc fr off) w next =
    RS pm st (tkp (fst p, snd p + k)) (LPacTo pac w) d' creator0 time tc (fr + 1) off.
Proof.
  intros pac w k p pm st d time tc fr off Hpac Hk.
  destruct classes_disjoint as (_ & _ & Dpac & Dtab & _).
  destruct (Dtab w) as (Hc & Hm & Hb & Hs & Hbs & Hn); [congruence|].
  assert (Hpw : is_pac w = false).
  { destruct (is_pac w) eqn:E; [|reflexivity]. destruct (Dpac w E) as (T & _). congruence. }
  assert (Hne : (pac =? w) = false).
  { apply Z.eqb_neq. intros ->. congruence. }
  set (s := RS pm st (tkp p) (LWord pac) d creator0 time tc fr off).
  assert (Hd : exists d', handle_double s w = (false, set_dbl s (LPacTo pac w) d')).
  { unfold handle_double. cbv zeta. change (r_last s) with (LWord pac). cbn [last_is]. rewrite Hne, Hpw, Hk, Hpac, andb_false_r.
    cbn [andb]. eexists. reflexivity. }
  destruct Hd as [d' Hd]. exists d'. intros next.
  rewrite translate_word_unfold. change (r_err s) with (@None err). cbv iota. rewrite Hd. cbv iota.
  destruct (exec_cmd (set_dbl s (LPacTo pac w) d') w next) as [E _]; [rewrite Hc; reflexivity|]. rewrite E.
  rewrite tc_other by exact Hn. unfold do_interpret.
  assert (B : buf (set_dbl s (LPacTo pac w) d') = creator0) by (subst s; destruct pm; reflexivity).
  rewrite B. subst s. cbn [r_tk set_dbl RS].
  assert (I : interpret_command (tkp p) creator0 w next = (tkp (fst p, snd p + k), creator0, None)).
  { unfold interpret_command, update_positioning. rewrite Hk. cbn [cr_nodes creator0 has_break_before rev has_break_before_rev].
    change (fst (tk_default (tkp p))) with (fst p). change (snd (tk_default (tkp p))) with (snd p).
    rewrite (tracker_update_tab p k (tab_range w k Hk)).
    replace (w =? w_bs) with false by (symmetry; apply Z.eqb_neq; exact Hbs). rewrite Hb, Hs. reflexivity. }
  rewrite I. destruct pm; reflexivity.
Qed.

(* the second copy of the unit PAC TO: both words are skipped *)
Lemma tw_unit_second : forall pac w k pm st tk d b time tc fr off rest, is_pac pac = true -> tab_of w = Some k ->
  exists d', translate_words (RS pm st tk (LPacTo pac w) d b time tc fr off) (pac :: w :: rest) =
             translate_words (RS pm st tk LNone d' b time tc (fr + 2) off) rest.
Proof.
  intros pac w k pm st tk d b time tc fr off rest Hpac Hk.
  destruct classes_disjoint as (_ & _ & Dpac & _).
  assert (Hpw : is_pac w = false).
  { destruct (is_pac w) eqn:E; [|reflexivity]. destruct (Dpac w E) as (T & _). congruence. }
  assert (S1 : exists d1, forall next, translate_word (RS pm st tk (LPacTo pac w) d b time tc fr off) pac next =
                                      RS pm st tk LNone d1 b time tc (fr + 1) off).
  { eexists. intros next. rewrite translate_word_unfold. change (r_err (RS pm st tk (LPacTo pac w) d b time tc fr off)) with (@None err).
    cbv iota. unfold handle_double. cbv zeta. change (r_last (RS pm st tk (LPacTo pac w) d b time tc fr off)) with (LPacTo pac w).
    cbn [last_is last_contains]. rewrite Hpac, Z.eqb_refl, andb_false_r. cbn [orb andb]. reflexivity. }
  destruct S1 as [d1 S1].
  assert (S2 : exists d2, forall next, translate_word (RS pm st tk LNone d1 b time tc (fr + 1) off) w next =
                                      RS pm st tk LNone d2 b time tc (fr + 1 + 1) off).
  { eexists. intros next. rewrite translate_word_unfold. change (r_err (RS pm st tk LNone d1 b time tc (fr + 1) off)) with (@None err).
    cbv iota. unfold handle_double. cbv zeta. change (r_last (RS pm st tk LNone d1 b time tc (fr + 1) off)) with LNone.
    cbn [last_is last_contains]. rewrite Hpw, Hk, andb_false_r. cbn [andb]. reflexivity. }
  destruct S2 as [d2 S2]. exists d2. cbn [translate_words]. rewrite S1, S2. f_equal. apply RS_frames. lia.
Qed.

Definition after_unit (l : lastcmd) : Prop := forall w, is_pac w = false -> last_is l w = false.

Lemma tws_unit : forall dd pac tab rest p pm st tk l d time tc fr off, plain_pac pac = true -> pac_pos pac = Some p ->
  tab_ok tab = true -> ctl_last l ->
  exists l2 d2, after_unit l2 /\
    translate_words (RS pm st tk l d creator0 time tc fr off) (pac_unit2 dd pac tab ++ rest) =
    translate_words (RS pm st (tkp (match tab with None => p | Some t => match tab_of t with Some k => (fst p, snd p + k)
                                                                                    | None => p end end))
                        l2 d2 creator0 time tc (fr + Z.of_nat (length (pac_unit2 dd pac tab))) off) rest.
Proof.
  intros dd pac tab rest p pm st tk l d time tc fr off Hpp Hpos Htab Hl.
  pose proof Hpp as Hpp'. unfold plain_pac in Hpp'. apply andb_true_iff in Hpp'. destruct Hpp' as [Hpac _].
  pose proof (tw_pac pac p pm st tk l d time tc fr off Hpp Hpos (ctl_last_pac l _ Hl Hpac)) as H1.
  destruct tab as [t|]; cbn [pac_unit2 tab_ok] in *.
  - destruct (tab_of t) as [k|] eqn:Hk; [|discriminate Htab]. destruct H1 as [d1 H1].
    destruct (tw_tab pac t k p pm st d1 time tc (fr + 1) off Hpac Hk) as [d2 H2]. destruct dd.
    + change ([pac; t; pac; t] ++ rest) with (pac :: t :: pac :: t :: rest).
      change (translate_words ?s (pac :: t :: ?r)) with
        (translate_words (translate_word (translate_word s pac (Some t)) t (match r with n :: _ => Some n | [] => None end)) r).
      rewrite H1, H2.
      destruct (tw_unit_second pac t k pm st (tkp (fst p, snd p + k)) d2 creator0 time tc (fr + 1 + 1) off rest Hpac Hk) as [d3 E3].
      rewrite E3. exists LNone, d3. split; [intros w _; reflexivity|]. f_equal. apply RS_frames. cbn [length]. lia.
    + cbn [app translate_words]. rewrite H1, H2. exists (LPacTo pac t), d2. split; [intros w _; reflexivity|].
      f_equal. apply RS_frames. cbn [length]. lia.
  - destruct (tws_ctl dd pac rest _ pm st (tkp p) creator0 time tc (fr + 1) off ltac:(rewrite Hpac; apply orb_true_r) H1)
      as [d2 E]. rewrite E. exists (cl_last dd pac), d2. split.
    + intros w Hw. destruct dd; [reflexivity|]. cbn [cl_last last_is]. apply Z.eqb_neq. intros ->. congruence.
    + f_equal. apply RS_frames. lia.
Qed.

(* ---- the body of a line -------------------------------------------------------------------------------------------------- *)
Lemma seg_ok2_spec : forall dd g, seg_ok2 dd g = true ->
  plain_pac (s2_pac g) = true /\ (exists p, pac_pos (s2_pac g) = Some p) /\ tab_ok (s2_tab g) = true /\
  (exists it r, s2_items g = it :: r /\ forallb item_ok (it :: r) = true /\ (dd || no_rep (it :: r)) = true) /\
  nonempty (rstrip (seg2_text g)) = true /\ filter spec_long (spec_lines (rstrip (seg2_text g))) = [].
Proof.
  intros dd g H. unfold seg_ok2 in H. rewrite !andb_true_iff in H. destruct H as [[[[[H1 H2] H3] H4] H5] H6].
  pose proof H1 as H1'. unfold plain_pac in H1'. apply andb_true_iff in H1'. destruct H1' as [Hp _].
  split; [exact H1|]. split.
  - unfold is_pac in Hp. destruct (pac_pos (s2_pac g)) as [p|]; [exists p; reflexivity|discriminate].
  - split; [exact H2|]. split; [|split; [exact H5|]].
    + unfold seg2_text in H5. destruct (s2_items g) as [|it r]; [discriminate H5|]. exists it, r. repeat split; assumption.
    + destruct (filter _ _); [reflexivity|discriminate].
Qed.

Lemma row1_runs : forall du di g p it r rest pm st tk l d time tc fr off,
  plain_pac (s2_pac g) = true -> pac_pos (s2_pac g) = Some p -> tab_ok (s2_tab g) = true -> s2_items g = it :: r ->
  forallb item_ok (it :: r) = true -> (di || no_rep (it :: r)) = true -> ctl_last l ->
  exists l' d', nc_last l' /\
    translate_words (RS pm st tk l d creator0 time tc fr off) (rseg2_bodyD du di g ++ rest) =
    translate_words (RS pm st (tkp (seg2_pos g)) l' d' (tb (seg2_text g) (seg2_pos g)) time tc
                        (fr + Z.of_nat (length (rseg2_bodyD du di g))) off) rest.
Proof.
  intros du di g p it r rest pm st tk l d time tc fr off Hpp Hpos Htab Eit Hok Hn Hl. unfold rseg2_bodyD. rewrite <- app_assoc.
  destruct (tws_unit du (s2_pac g) (s2_tab g) (flat_map (item_words di) (s2_items g) ++ rest) p pm st tk l d time tc fr off
              Hpp Hpos Htab Hl) as (l2 & d2 & Hl2 & E). rewrite E.
  assert (Epos : seg2_pos g = match s2_tab g with None => p | Some t => match tab_of t with Some k => (fst p, snd p + k)
                                                                        | None => p end end).
  { unfold seg2_pos. rewrite Hpos. reflexivity. }
  rewrite <- Epos. unfold seg2_text. rewrite Eit.
  assert (Hpre : pre1 l2 it).
  { destruct it as [w|w]; [exact I|]. cbn [pre1]. apply Hl2. cbn [forallb item_ok] in Hok. apply andb_true_iff in Hok.
    destruct (spec_word_spec w (proj1 Hok)) as (txt & _ & _ & H2 & _). exact H2. }
  change creator0 with (ob None (seg2_pos g)).
  destruct (tws_items (fun _ => tkp (seg2_pos g)) (fun o => ob o (seg2_pos g)) (fun o s => add_chars_ob o (seg2_pos g) s)
              di r it rest pm st l2 d2 None time tc
              (fr + Z.of_nat (length (pac_unit2 du (s2_pac g) (s2_tab g)))) off Hok Hn Hpre) as (l' & d' & Hl' & E2).
  exists l', d'. split; [exact Hl'|]. rewrite E2. cbn [otext app ob]. f_equal.
  apply RS_frames. rewrite app_length. lia.
Qed.

Lemma seg2_body_runs : forall dd g, seg_ok2 dd g = true -> body_runs (to_gseg dd g).
Proof.
  intros dd g Hg pm st tk l d time tc fr off Hl. cbn [to_gseg g_body g_buf].
  destruct (seg_ok2_spec dd g Hg) as (Hpp & (p & Hpos) & Htab & (it & r & Eit & Hok & Hn) & _ & _).
  destruct (row1_runs dd dd g p it r [] pm st tk l d time tc fr off Hpp Hpos Htab Eit Hok Hn Hl) as (l' & d' & Hl' & E).
  rewrite app_nil_r in E. exists (tkp (seg2_pos g)), l', d'. split; [apply nc_last_quiet; exact Hl'|exact E].
Qed.

Lemma seg2_buf_ok : forall dd g, seg_ok2 dd g = true -> buf_ok (to_gseg dd g).
Proof.
  intros dd g Hg. destruct (seg_ok2_spec dd g Hg) as (_ & _ & _ & _ & Hn & Hs). unfold buf_ok, to_gseg. cbn [g_buf g_cap]. split.
  - pose proof (nonempty_rstrip _ Hn) as H0. destruct (seg2_text g) as [|c0 txt]; [discriminate H0|].
    exists IText, c0, txt, (seg2_pos g), [], SNone. reflexivity.
  - intros st time. split; [apply store_tb; exact Hn|].
    split; [reflexivity|]. split; [reflexivity|]. split; [reflexivity|].
    unfold cap_text, tcap. cbn [pc_nodes map node_text concat]. rewrite app_nil_r. exact Hs.
Qed.

Lemma seg_ok2_gseg : forall dd g, seg_ok2 dd g = true -> gseg_ok (to_gseg dd g).
Proof.
  intros dd g H. split; [|split; [apply seg2_body_runs|apply seg2_buf_ok]; exact H].
  intros rest s pm st tk t tc fr off H1. exact (tws_head dd (s2_head g) rest s pm st tk t tc fr off H1).
Qed.

Lemma seg_ok2_all : forall dd gs, forallb (seg_ok2 dd) gs = true -> Forall gseg_ok (map (to_gseg dd) gs).
Proof.
  intros dd gs. induction gs as [|g gs IH]; intros H; [constructor|]. cbn [forallb] in H. apply andb_true_iff in H.
  destruct H as [Hg H]. cbn [map]. constructor; [apply seg_ok2_gseg; exact Hg|apply IH; exact H].
Qed.

(* the timing skeleton of a line, as an `rseg` of proofs/SccRollPaintLinkFacts.v: `rp_events`, `seg_paint`, `seg_event`,
   `final_paint`, `link_events` only look at the timecode and at the head *)
Definition skel2 (g : rseg2) : rseg := mkSeg (s2_tc g) (s2_head g) 0 [].

Lemma skel_to_gseg : forall dd gs, map skel (map (to_gseg dd) gs) = map skel2 gs.
Proof. intros dd gs. rewrite map_map. reflexivity. Qed.

Lemma last_map : forall A B (f : A -> B) l d, last (map f l) (f d) = f (last l d).
Proof. intros A B f l d. induction l as [|a l IH]; [reflexivity|]. destruct l; [reflexivity|exact IH]. Qed.

Theorem rp_link2 : forall dd off g0 gs t0 evs tend,
  s2_head g0 <> HCr -> forallb (seg_ok2 dd) (g0 :: gs) = true ->
  get_time (s2_tc g0) 0 off = Ok t0 ->
  rp_events off (seg_paint false (skel2 g0)) (map skel2 gs) = Ok evs ->
  (final_paint (seg_paint false (skel2 g0)) (map skel2 gs) = false ->
   get_time (s2_tc (last gs g0)) (Z.of_nat (length (rseg2_words dd (last gs g0)))) off = Ok tend) ->
  spans_of (read off (map (rseg2_line dd) (g0 :: gs))) =
  rp_read t0 (link_events (skel2 g0) (map skel2 gs) evs tend) (final_paint (seg_paint false (skel2 g0)) (map skel2 gs)).
Proof.
  intros dd off g0 gs t0 evs tend Hh Hok Ht0 Hev Hend.
  pose proof (rp_linkG off (to_gseg dd g0) (map (to_gseg dd) gs) t0 evs tend) as L.
  unfold gl_events, gl_pending in L. rewrite skel_to_gseg, last_map in L.
  change (skel (to_gseg dd g0)) with (skel2 g0) in L.
  cbn [map] in L. rewrite (map_map (to_gseg dd) gline) in L. cbn [map]. apply L.
  - exact Hh.
  - rewrite <- map_cons. apply seg_ok2_all. exact Hok.
  - exact Ht0.
  - exact Hev.
  - exact Hend.
Qed.

(* start < end, ordered by start, each caption ends exactly when the next one begins; and the spans are the chain *)
Theorem read_rp_ordered2 : forall dd off g0 gs t0 evs tend l,
  s2_head g0 <> HCr -> forallb (seg_ok2 dd) (g0 :: gs) = true ->
  get_time (s2_tc g0) 0 off = Ok t0 ->
  rp_events off (seg_paint false (skel2 g0)) (map skel2 gs) = Ok evs ->
  (final_paint (seg_paint false (skel2 g0)) (map skel2 gs) = false ->
   get_time (s2_tc (last gs g0)) (Z.of_nat (length (rseg2_words dd (last gs g0)))) off = Ok tend) ->
  rp_nonneg t0 (link_events (skel2 g0) (map skel2 gs) evs tend) ->
  increasing t0 (map rp_time (link_events (skel2 g0) (map skel2 gs) evs tend)) ->
  spans_of (read off (map (rseg2_line dd) (g0 :: gs))) = Ok l ->
  l = rp_spans t0 (link_events (skel2 g0) (map skel2 gs) evs tend) (final_paint (seg_paint false (skel2 g0)) (map skel2 gs)) /\
  Forall (fun p => (fst p < snd p)%Q) l /\
  (forall i a b, nth_error l i = Some a -> nth_error l (S i) = Some b -> (fst a < fst b)%Q /\ snd a = fst b).
Proof.
  intros dd off g0 gs t0 evs tend l Hh Hok Ht0 Hev Hend Hnn Hinc Hr.
  rewrite (rp_link2 dd off g0 gs t0 evs tend Hh Hok Ht0 Hev Hend) in Hr. split.
  - pose proof Hr as Hr'. rewrite rp_chain_all_nonneg in Hr' by exact Hnn. unfold rp_expected_all in Hr'. cbv zeta in Hr'.
    destruct (existsb _ _); [discriminate|]. destruct (rp_spans _ _ _); [discriminate|]. inversion Hr'. reflexivity.
  - exact (rp_chain_ordered _ _ _ _ Hnn Hinc Hr).
Qed.


(* ---- non-vacuity, level (a) ---------------------------------------------------------------------------------------------- *)
(* every control code doubled, the PAC + tab offset as one unit:
     9425 9425 94ad 94ad 9470 97a2 9470 97a2 "ab" 9137 9137 9137 9137        (two music notes) at row 15 column 2
     94ad 94ad 9470 9470 9137 9137 "ef"                                          (a genuine _roll_up)
     9429 9429 9170 97a3->(9723) ... "gh" 91b0 91b0                              (mode switch to paint-on, registered sign) *)
Definition ex2_g1 : rseg2 := mkSeg2 (lit "00:00:01:00") (HRu D2 true) 38000 (Some 38818) [BChar 24930; BSpec 37175; BSpec 37175].
Definition ex2_g2 : rseg2 := mkSeg2 (lit "00:00:03:00") HCr 38000 None [BSpec 37175; BChar 58854].
Definition ex2_g3 : rseg2 := mkSeg2 (lit "00:00:05:10") HRdc 37232 (Some 38691) [BChar 26472; BSpec 37296].

Example rp_link2_example :
  map (rseg2_line true) [ex2_g1; ex2_g2; ex2_g3] =
    [(lit "00:00:01:00", [37925; 37925; 38061; 38061; 38000; 38818; 38000; 38818; 24930; 37175; 37175; 37175; 37175]);
     (lit "00:00:03:00", [38061; 38061; 38000; 38000; 37175; 37175; 58854]);
     (lit "00:00:05:10", [37929; 37929; 37232; 38691; 37232; 38691; 26472; 37296; 37296])] /\
  map seg2_text [ex2_g1; ex2_g2; ex2_g3] = [[97; 98; 9834; 9834]; [9834; 101; 102]; [103; 104; 174]] /\
  map seg2_pos [ex2_g1; ex2_g2; ex2_g3] = [(15, 2); (15, 0); (2, 3)] /\
  spans_of (read 0 (map (rseg2_line true) [ex2_g1; ex2_g2; ex2_g3])) =
    rp_read 1001000 [RRoll 3003000; RRoll (16016000 # 3)] true /\
  spans_of (read 0 (map (rseg2_line true) [ex2_g1; ex2_g2; ex2_g3])) =
    Ok [(1001000, 3003000); (3003000, 16016000 # 3); (16016000 # 3, (16016000 # 3) + four_s)]%Q.
Proof.
  split; [vm_compute; reflexivity|]. split; [vm_compute; reflexivity|]. split; [vm_compute; reflexivity|].
  assert (L : spans_of (read 0 (map (rseg2_line true) [ex2_g1; ex2_g2; ex2_g3])) =
              rp_read 1001000 [RRoll 3003000; RRoll (16016000 # 3)] true).
  { pose proof (rp_link2 true 0 ex2_g1 [ex2_g2; ex2_g3] 1001000 [RRoll 3003000; RRoll (16016000 # 3)] 0) as L.
    change (final_paint (seg_paint false (skel2 ex2_g1)) (map skel2 [ex2_g2; ex2_g3])) with true in L.
    unfold link_events in L.
    change (final_paint (seg_paint false (skel2 ex2_g1)) (map skel2 [ex2_g2; ex2_g3])) with true in L.
    rewrite app_nil_r in L. apply L; try (vm_compute; reflexivity); discriminate. }
  split; [exact L|]. rewrite L. rewrite rp_chain_all_nonneg.
  - vm_compute. reflexivity.
  - split; [discriminate|]. intros e [<-|[<-|[]]]; reflexivity.
Qed.

(* sent once, a repeated special character is NOT in the class (`no_rep`): the decoder drops the second music note *)
Example no_rep_needed :
  seg_ok2 true ex2_g1 = true /\ seg_ok2 false ex2_g1 = false /\
  (exists c r, read 0 (map (rseg2_line false) [ex2_g1; ex2_g2; ex2_g3]) = ROk (c :: r) /\
               pc_nodes c = [CText [97; 98; 9834] (15, 2)]).
Proof.
  split; [vm_compute; reflexivity|]. split; [vm_compute; reflexivity|]. eexists. eexists. split; vm_compute; reflexivity.
Qed.


(* ================================================================================================================== *)
(* 4. level (b): an optional second row, addressed on the NEXT screen row: one caption with a line break               *)
(* ================================================================================================================== *)
Record row2 : Type := mkRow2 { r2_pac : Z; r2_tab : option Z; r2_items : list bitem }.
Record rseg3 : Type := mkSeg3 { s3_line : rseg2; s3_row2 : option row2 }.

(* level (d), by code class: the doubling flags of a line - the head command, the carriage return after an RU command, the
   PAC [+ tab offset] unit and the special characters of each row are sent once or twice independently *)
Record dflags : Type := mkDf { f_h1 : bool; f_h2 : bool; f_u1 : bool; f_i1 : bool; f_u2 : bool; f_i2 : bool }.
Definition uni (dd : bool) : dflags := mkDf dd dd dd dd dd dd.
Definition head_wordsD (a b : bool) (h : rhead) : list Z :=
  match h with
  | HRu n cr => ctl a (ru_word n) ++ (if cr then ctl b w_cr else [])
  | HCr => ctl a w_cr
  | HRdc => ctl a w_rdc
  end.
Definition row2_wordsD (du di : bool) (r : row2) : list Z :=
  pac_unit2 du (r2_pac r) (r2_tab r) ++ flat_map (item_words di) (r2_items r).
Definition rseg3_bodyD (f : dflags) (g : rseg3) : list Z :=
  match s3_row2 g with
  | None => rseg2_bodyD (f_u1 f) (f_i1 f) (s3_line g)
  | Some r => rseg2_bodyD (f_u1 f) (f_i1 f) (s3_line g) ++ row2_wordsD (f_u2 f) (f_i2 f) r
  end.
Definition rseg3_wordsD (f : dflags) (g : rseg3) : list Z :=
  head_wordsD (f_h1 f) (f_h2 f) (s2_head (s3_line g)) ++ rseg3_bodyD f g.
Definition rseg3_lineD (f : dflags) (g : rseg3) : sline := (s2_tc (s3_line g), rseg3_wordsD f g).
(* level (b): one flag for the whole program *)
Definition rseg3_words (dd : bool) (g : rseg3) : list Z := rseg3_wordsD (uni dd) g.
Definition rseg3_line (dd : bool) (g : rseg3) : sline := rseg3_lineD (uni dd) g.

(* the buffer and the caption of two adjacent rows: every node carries the position of the FIRST row (the column of the
   second row is dropped by the position tracker) *)
Definition tb2 (t1 t2 : str) (p : pos) : creator := mkCr [mkI IText t1 p; mkI IBreak [] p; mkI IText t2 p] SNone.
Definition tcap2 (start e : Q) (t1 t2 : str) (p : pos) : precap :=
  mkPre start e [CText (rstrip t1) p; CBreak p; CText (rstrip t2) p] (Some p).

Definition next_row (a b : Z) : bool :=
  match pac_pos a, pac_pos b with Some p, Some q => fst q =? fst p + 1 | _, _ => false end.
Definition seg_ok3D (f : dflags) (g : rseg3) : bool :=
  match s3_row2 g with
  | None => seg_ok2 (f_i1 f) (s3_line g)
  | Some r =>
      let g1 := s3_line g in
      plain_pac (s2_pac g1) && tab_ok (s2_tab g1) && forallb item_ok (s2_items g1) && (f_i1 f || no_rep (s2_items g1))
      && nonempty (rstrip (seg2_text g1))
      && plain_pac (r2_pac r) && tab_ok (r2_tab r) && forallb item_ok (r2_items r) && (f_i2 f || no_rep (r2_items r))
      && nonempty (rstrip (items_text (r2_items r))) && next_row (s2_pac g1) (r2_pac r)
      && nil_b' (filter spec_long (spec_lines (rstrip (seg2_text g1) ++ [10] ++ rstrip (items_text (r2_items r)))))
  end.

Definition seg_ok3 (dd : bool) (g : rseg3) : bool := seg_ok3D (uni dd) g.

Definition to_gseg3D (f : dflags) (g : rseg3) : gseg :=
  mkG (s2_tc (s3_line g)) (s2_head (s3_line g)) (head_wordsD (f_h1 f) (f_h2 f) (s2_head (s3_line g))) (rseg3_bodyD f g)
      (match s3_row2 g with
       | None => tb (seg2_text (s3_line g)) (seg2_pos (s3_line g))
       | Some r => tb2 (seg2_text (s3_line g)) (items_text (r2_items r)) (seg2_pos (s3_line g))
       end)
      (fun t => match s3_row2 g with
                | None => tcap t 0 (seg2_text (s3_line g)) (seg2_pos (s3_line g))
                | Some r => tcap2 t 0 (seg2_text (s3_line g)) (items_text (r2_items r)) (seg2_pos (s3_line g))
                end).

Lemma to_gseg3_line : forall f g, gline (to_gseg3D f g) = rseg3_lineD f g.
Proof. reflexivity. Qed.

Lemma tws_headD : forall a b h rest s pm st tk t tc fr off,
  (exists d1, forall next, translate_word s (head_word h) next =
                           RS pm st tk (LWord (head_word h)) d1 creator0 t tc (fr + 1) off) ->
  exists l2 d2, ctl_last l2 /\
    translate_words s (head_wordsD a b h ++ rest) =
    translate_words (RS pm st tk l2 d2 creator0 t tc (fr + Z.of_nat (length (head_wordsD a b h))) off) rest.
Proof.
  intros a b h rest s pm st tk t tc fr off H.
  assert (C : (is_command (head_word h) || is_pac (head_word h)) = true) by (rewrite head_word_cmd; reflexivity).
  destruct h as [n cr| |].
  - cbn [head_wordsD]. rewrite <- app_assoc.
    destruct (tws_ctl a (ru_word n) ((if cr then ctl b w_cr else []) ++ rest) s pm st tk creator0 t tc (fr + 1) off C H)
      as [d2 E]. rewrite E. destruct cr.
    + assert (L : last_contains (cl_last a (ru_word n)) w_cr = false) by (destruct a, n; reflexivity).
      destruct (tws_ctl b w_cr rest _ pm st tk creator0 t tc
                  (fr + 1 + Z.of_nat (length (ctl a (ru_word n))) - 1 + 1) off eq_refl
                  (tw_cr_empty pm st tk (cl_last a (ru_word n)) d2 t tc _ off L)) as [d3 E3].
      rewrite E3. exists (cl_last b w_cr), d3. split; [apply ctl_last_cl; cbn [In]; tauto|].
      f_equal. apply RS_frames. rewrite app_length. lia.
    + exists (cl_last a (ru_word n)), d2. split; [apply ctl_last_cl; exact (head_word_ctrl (HRu n false))|].
      cbn [app]. f_equal. apply RS_frames. rewrite app_nil_r. lia.
  - cbn [head_wordsD]. destruct (tws_ctl a w_cr rest s pm st tk creator0 t tc (fr + 1) off C H) as [d2 E].
    rewrite E. exists (cl_last a w_cr), d2. split; [apply ctl_last_cl; cbn [In]; tauto|].
    f_equal. apply RS_frames. lia.
  - cbn [head_wordsD]. destruct (tws_ctl a w_rdc rest s pm st tk creator0 t tc (fr + 1) off C H) as [d2 E].
    rewrite E. exists (cl_last a w_rdc), d2. split; [apply ctl_last_cl; cbn [In]; tauto|].
    f_equal. apply RS_frames. lia.
Qed.

(* ---- the tracker while the second row is written ------------------------------------------------------------------- *)
Definition tkb (p : pos) (brk : option Z) (dflt : pos) : tracker := mkTk [p; (fst p + 1, snd p)] brk false dflt.
Definition T2 (p : pos) (c2 : Z) (dflt : pos) (o : option str) : tracker :=
  tkb p (match o with None => Some c2 | Some _ => None end) dflt.
Definition B2 (t1 : str) (p : pos) (o : option str) : creator :=
  mkCr (mkI IText t1 p :: match o with None => [] | Some t => [mkI IBreak [] p; mkI IText t p] end) SNone.

Lemma add_ok2 : forall t1 p c2 dflt o s,
  add_chars (T2 p c2 dflt o) (B2 t1 p o) s = (T2 p c2 dflt (Some (otext o ++ s)), B2 t1 p (Some (otext o ++ s))).
Proof. intros t1 p c2 dflt [t|] s; reflexivity. Qed.

Lemma tracker_update_next : forall p c2, tracker_update (tkp p) (fst p + 1, c2) = tkb p (Some c2) (fst p + 1, c2).
Proof.
  intros [r c] c2. unfold tracker_update, tkp, tkb. cbn [tk_pos tk_break tk_repos tk_default map last fst snd app].
  rewrite Z.eqb_refl. reflexivity.
Qed.

Lemma tracker_update_tab2 : forall p c2 k, 1 <= k <= 3 ->
  tracker_update (tkb p (Some c2) (fst p + 1, c2)) (fst p + 1, c2 + k) = tkb p (Some c2) (fst p + 1, c2 + k).
Proof.
  intros [r c] c2 k Hk. unfold tracker_update, tkb. cbn [tk_pos tk_break tk_repos tk_default map last fst snd].
  replace (r + 1 =? r + 1 + 1) with false by lia.
  replace ((r + 1 =? r + 1) && (c2 + 1 <=? c2 + k) && (c2 + k <=? c2 + 3)) with true by lia. reflexivity.
Qed.

Lemma tw_pac2 : forall w p c2 pm st l d t1 time tc fr off, plain_pac w = true -> pac_pos w = Some (fst p + 1, c2) ->
  last_contains l w = false ->
  exists d', forall next, translate_word (RS pm st (tkp p) l d (tb t1 p) time tc fr off) w next =
    RS pm st (tkb p (Some c2) (fst p + 1, c2)) (LWord w) d' (tb t1 p) time tc (fr + 1) off.
Proof.
  intros w p c2 pm st l d t1 time tc fr off Hw Hp Hl.
  pose proof Hw as Hw'. unfold plain_pac in Hw'. apply andb_true_iff in Hw'. destruct Hw' as [Hpac Hit].
  apply negb_true_iff in Hit.
  destruct classes_disjoint as (_ & _ & Dpac & _). destruct (Dpac w Hpac) as (Ht & Hm & Hb & Hn).
  assert (Hbs : (w =? w_bs) = false) by (apply Z.eqb_neq; intros ->; apply Hn; cbn [In]; tauto).
  set (s := RS pm st (tkp p) l d (tb t1 p) time tc fr off).
  destruct (hd_fresh s w Hl Ht) as [d' Hd]. exists d'. intros next.
  rewrite (tw_exec s w next d' eq_refl Hd). cbv zeta.
  destruct (exec_cmd (set_dbl s (LWord w) d') w next) as [E _]; [rewrite Hpac; apply orb_true_r|]. rewrite E.
  rewrite tc_other by (intros Hin; apply Hn; cbn [In] in *; tauto).
  unfold do_interpret.
  assert (B : buf (set_dbl s (LWord w) d') = tb t1 p) by (subst s; destruct pm; reflexivity).
  rewrite B. subst s. cbn [r_tk set_dbl RS].
  assert (I : interpret_command (tkp p) (tb t1 p) w next = (tkb p (Some c2) (fst p + 1, c2), tb t1 p, None)).
  { unfold interpret_command, update_positioning. rewrite Ht, Hp. cbn [cr_nodes tb]. rewrite tracker_update_next.
    rewrite Hbs, Hb, Hit, Hm. change (cr_style (tb t1 p)) with SNone. cbn [andb].
    destruct (memz w scc_style_setting_commands); cbv beta iota zeta; destruct (prev_text _) as [[x y]|]; reflexivity. }
  rewrite I. destruct pm; reflexivity.
Qed.

Lemma tw_tab2 : forall pac w k p c2 pm st d t1 time tc fr off, is_pac pac = true -> tab_of w = Some k ->
  exists d', forall next, translate_word (RS pm st (tkb p (Some c2) (fst p + 1, c2)) (LWord pac) d (tb t1 p) time tc fr off) w next =
    RS pm st (tkb p (Some c2) (fst p + 1, c2 + k)) (LPacTo pac w) d' (tb t1 p) time tc (fr + 1) off.
Proof.
  intros pac w k p c2 pm st d t1 time tc fr off Hpac Hk.
  destruct classes_disjoint as (_ & _ & Dpac & Dtab & _).
  destruct (Dtab w) as (Hc & Hm & Hb & Hs & Hbs & Hn); [congruence|].
  assert (Hpw : is_pac w = false).
  { destruct (is_pac w) eqn:E; [|reflexivity]. destruct (Dpac w E) as (T & _). congruence. }
  assert (Hne : (pac =? w) = false).
  { apply Z.eqb_neq. intros ->. congruence. }
  set (s := RS pm st (tkb p (Some c2) (fst p + 1, c2)) (LWord pac) d (tb t1 p) time tc fr off).
  assert (Hd : exists d', handle_double s w = (false, set_dbl s (LPacTo pac w) d')).
  { unfold handle_double. cbv zeta. change (r_last s) with (LWord pac). cbn [last_is]. rewrite Hne, Hpw, Hk, Hpac, andb_false_r.
    cbn [andb]. eexists. reflexivity. }
  destruct Hd as [d' Hd]. exists d'. intros next.
  rewrite translate_word_unfold. change (r_err s) with (@None err). cbv iota. rewrite Hd. cbv iota.
  destruct (exec_cmd (set_dbl s (LPacTo pac w) d') w next) as [E _]; [rewrite Hc; reflexivity|]. rewrite E.
  rewrite tc_other by exact Hn. unfold do_interpret.
  assert (B : buf (set_dbl s (LPacTo pac w) d') = tb t1 p) by (subst s; destruct pm; reflexivity).
  rewrite B. subst s. cbn [r_tk set_dbl RS].
  assert (I : interpret_command (tkb p (Some c2) (fst p + 1, c2)) (tb t1 p) w next =
              (tkb p (Some c2) (fst p + 1, c2 + k), tb t1 p, None)).
  { unfold interpret_command, update_positioning. rewrite Hk.
    change (has_break_before (cr_nodes (tb t1 p))) with false. cbv iota.
    change (fst (tk_default (tkb p (Some c2) (fst p + 1, c2)))) with (fst p + 1).
    change (snd (tk_default (tkb p (Some c2) (fst p + 1, c2)))) with c2.
    rewrite (tracker_update_tab2 p c2 k (tab_range w k Hk)).
    replace (w =? w_bs) with false by (symmetry; apply Z.eqb_neq; exact Hbs). rewrite Hb, Hs, Hm. cbn [andb].
    destruct (prev_text _) as [[x y]|]; reflexivity. }
  rewrite I. destruct pm; reflexivity.
Qed.

Lemma nc_last_pac : forall l w, nc_last l -> is_pac w = true -> last_contains l w = false.
Proof.
  intros l w [->|(x & -> & _ & Hx)] Hw; [reflexivity|]. cbn [last_contains]. apply Z.eqb_neq. intros ->. congruence.
Qed.

Lemma tws_unit2 : forall dd pac tab rest p c2 pm st l d t1 time tc fr off, plain_pac pac = true ->
  pac_pos pac = Some (fst p + 1, c2) -> tab_ok tab = true -> nc_last l ->
  exists dflt l2 d2, after_unit l2 /\
    translate_words (RS pm st (tkp p) l d (tb t1 p) time tc fr off) (pac_unit2 dd pac tab ++ rest) =
    translate_words (RS pm st (tkb p (Some c2) dflt) l2 d2 (tb t1 p) time tc
                        (fr + Z.of_nat (length (pac_unit2 dd pac tab))) off) rest.
Proof.
  intros dd pac tab rest p c2 pm st l d t1 time tc fr off Hpp Hpos Htab Hl.
  pose proof Hpp as Hpp'. unfold plain_pac in Hpp'. apply andb_true_iff in Hpp'. destruct Hpp' as [Hpac _].
  pose proof (tw_pac2 pac p c2 pm st l d t1 time tc fr off Hpp Hpos (nc_last_pac l _ Hl Hpac)) as H1.
  destruct tab as [t|]; cbn [pac_unit2 tab_ok] in *.
  - destruct (tab_of t) as [k|] eqn:Hk; [|discriminate Htab]. destruct H1 as [d1 H1].
    destruct (tw_tab2 pac t k p c2 pm st d1 t1 time tc (fr + 1) off Hpac Hk) as [d2 H2].
    exists (fst p + 1, c2 + k). destruct dd.
    + change ([pac; t; pac; t] ++ rest) with (pac :: t :: pac :: t :: rest).
      change (translate_words ?s (pac :: t :: ?r)) with
        (translate_words (translate_word (translate_word s pac (Some t)) t (match r with n :: _ => Some n | [] => None end)) r).
      rewrite H1, H2.
      destruct (tw_unit_second pac t k pm st (tkb p (Some c2) (fst p + 1, c2 + k)) d2 (tb t1 p) time tc (fr + 1 + 1) off rest Hpac Hk)
        as [d3 E3].
      rewrite E3. exists LNone, d3. split; [intros w _; reflexivity|]. f_equal. apply RS_frames. cbn [length]. lia.
    + cbn [app translate_words]. rewrite H1, H2. exists (LPacTo pac t), d2. split; [intros w _; reflexivity|].
      f_equal. apply RS_frames. cbn [length]. lia.
  - exists (fst p + 1, c2).
    destruct (tws_ctl dd pac rest _ pm st (tkb p (Some c2) (fst p + 1, c2)) (tb t1 p) time tc (fr + 1) off
                ltac:(rewrite Hpac; apply orb_true_r) H1) as [d2 E]. rewrite E. exists (cl_last dd pac), d2. split.
    + intros w Hw. destruct dd; [reflexivity|]. cbn [cl_last last_is]. apply Z.eqb_neq. intros ->. congruence.
    + f_equal. apply RS_frames. lia.
Qed.

(* ---- the stored caption ------------------------------------------------------------------------------------------------- *)
Lemma store_tb2 : forall st t1 t2 p start e, nonempty (rstrip t1) = true -> nonempty (rstrip t2) = true ->
  create_and_store st (tb2 t1 t2 p) start e = stash_extend st [tcap2 start e t1 t2 p].
Proof.
  intros st t1 t2 p start e H1 H2. pose proof (nonempty_rstrip t1 H1) as N1. pose proof (nonempty_rstrip t2 H2) as N2.
  unfold create_and_store.
  assert (E : cr_is_empty (tb2 t1 t2 p) = false).
  { unfold cr_is_empty, tb2. cbn [cr_nodes existsb i_text]. rewrite N1. reflexivity. }
  rewrite E. unfold tb2. cbn [cr_nodes].
  assert (F : format_italics [mkI IText t1 p; mkI IBreak [] p; mkI IText t2 p] =
              [mkI IText (rstrip t1) p; mkI IBreak [] p; mkI IText (rstrip t2) p]).
  { unfold format_italics. cbn -[rstrip nonempty]. rewrite N1, N2. cbn -[rstrip nonempty]. reflexivity. }
  rewrite F. cbn [build_captions i_kind i_text]. rewrite H1, H2.
  cbn [build_captions app pc_start pc_end pc_nodes i_pos add_node pc_layout]. reflexivity.
Qed.

Lemma seg_ok3_gseg : forall f g, seg_ok3D f g = true -> gseg_ok (to_gseg3D f g).
Proof.
  intros f [g1 ro] H. split.
  { intros rest s pm st tk t tc fr off H1. cbn [to_gseg3D g_hw g_head s3_line].
    exact (tws_headD (f_h1 f) (f_h2 f) (s2_head g1) rest s pm st tk t tc fr off H1). }
  destruct ro as [r|]; unfold seg_ok3D, to_gseg3D in *; cbn [s3_row2 s3_line] in *.
  2:{ split; [|exact (seg2_buf_ok (f_i1 f) g1 H)].
      intros pm st tk l d time tc fr off Hl. cbn [g_body g_buf]. unfold rseg3_bodyD. cbn [s3_row2 s3_line].
      destruct (seg_ok2_spec (f_i1 f) g1 H) as (Hpp & (p & Hpos) & Htab & (it & r & Eit & Hok & Hn) & _ & _).
      destruct (row1_runs (f_u1 f) (f_i1 f) g1 p it r [] pm st tk l d time tc fr off Hpp Hpos Htab Eit Hok Hn Hl)
        as (l' & d' & Hl' & E).
      rewrite app_nil_r in E. exists (tkp (seg2_pos g1)), l', d'. split; [apply nc_last_quiet; exact Hl'|exact E]. }
  cbv zeta in H. rewrite !andb_true_iff in H.
  destruct H as [[[[[[[[[[[A1 A2] A3] A4] A5] B1] B2'] B3] B4] B5] Hnr] Hsh].
  pose proof A1 as A1'. unfold plain_pac in A1'. apply andb_true_iff in A1'. destruct A1' as [Hp1 _].
  unfold is_pac in Hp1. destruct (pac_pos (s2_pac g1)) as [p|] eqn:Hpos1; [|discriminate Hp1].
  unfold next_row in Hnr. rewrite Hpos1 in Hnr. destruct (pac_pos (r2_pac r)) as [q|] eqn:Hpos2; [|discriminate Hnr].
  apply Z.eqb_eq in Hnr.
  assert (Hrow : fst (seg2_pos g1) = fst p).
  { unfold seg2_pos. rewrite Hpos1. destruct (s2_tab g1) as [t|]; [|reflexivity]. destruct (tab_of t); reflexivity. }
  destruct (s2_items g1) as [|it1 r1] eqn:E1.
  { unfold seg2_text in A5. rewrite E1 in A5. discriminate A5. }
  destruct (r2_items r) as [|it2 r2] eqn:E2; [discriminate B5|].
  set (P := seg2_pos g1) in *. set (t1 := seg2_text g1) in *. set (t2 := items_text (it2 :: r2)) in *.
  assert (Hpos2' : pac_pos (r2_pac r) = Some (fst P + 1, snd q)).
  { rewrite Hpos2, Hrow, <- Hnr. destruct q; reflexivity. }
  split.
  - intros pm st tk l d time tc fr off Hl. cbn [g_body g_buf]. unfold rseg3_bodyD. cbn [s3_row2 s3_line].
    destruct (row1_runs (f_u1 f) (f_i1 f) g1 p it1 r1 (row2_wordsD (f_u2 f) (f_i2 f) r) pm st tk l d time tc fr off A1 Hpos1 A2 E1 A3 A4 Hl)
      as (l1 & d1 & Hl1 & Ea). rewrite Ea. fold P. fold t1. unfold row2_wordsD.
    destruct (tws_unit2 (f_u2 f) (r2_pac r) (r2_tab r) (flat_map (item_words (f_i2 f)) (r2_items r)) P (snd q) pm st l1 d1 t1 time tc
                (fr + Z.of_nat (length (rseg2_bodyD (f_u1 f) (f_i1 f) g1))) off B1 Hpos2' B2' Hl1) as (dflt & l2 & d2 & Hl2 & Eb).
    rewrite Eb. rewrite E2.
    assert (Hpre : pre1 l2 it2).
    { destruct it2 as [w|w]; [exact I|]. cbn [pre1]. apply Hl2. cbn [forallb item_ok] in B3. apply andb_true_iff in B3.
      destruct (spec_word_spec w (proj1 B3)) as (txt & _ & _ & H2 & _). exact H2. }
    change (tkb P (Some (snd q)) dflt) with (T2 P (snd q) dflt None). change (tb t1 P) with (B2 t1 P None).
    destruct (tws_items (T2 P (snd q) dflt) (B2 t1 P) (add_ok2 t1 P (snd q) dflt) (f_i2 f) r2 it2 [] pm st l2 d2 None time tc
                (fr + Z.of_nat (length (rseg2_bodyD (f_u1 f) (f_i1 f) g1)) + Z.of_nat (length (pac_unit2 (f_u2 f) (r2_pac r) (r2_tab r)))) off
                B3 B4 Hpre) as (l' & d' & Hl' & Ec).
    rewrite app_nil_r in Ec. rewrite Ec. cbn [translate_words otext app].
    eexists. exists l', d'. split; [apply nc_last_quiet; exact Hl'|]. fold t2. 
    change (B2 t1 P (Some t2)) with (tb2 t1 t2 P). apply RS_frames. rewrite !app_length, !Nat2Z.inj_add. ring.
  - unfold buf_ok. cbn [g_buf g_cap]. split.
    + pose proof (nonempty_rstrip _ A5) as H0. destruct t1 as [|c0 txt]; [discriminate H0|].
      exists IText, c0, txt, P, [mkI IBreak [] P; mkI IText t2 P], SNone. reflexivity.
    + intros st time. split; [apply store_tb2; assumption|].
      split; [reflexivity|]. split; [reflexivity|]. split; [reflexivity|].
      unfold cap_text, tcap2. cbn [pc_nodes map node_text concat]. rewrite app_nil_r.
      destruct (filter _ _); [reflexivity|discriminate Hsh].
Qed.

(* a line with its flags *)
Definition rseg4 : Type := (dflags * rseg3)%type.
Definition rseg4_words (x : rseg4) : list Z := rseg3_wordsD (fst x) (snd x).
Definition rseg4_line (x : rseg4) : sline := rseg3_lineD (fst x) (snd x).
Definition seg_ok4 (x : rseg4) : bool := seg_ok3D (fst x) (snd x).
Definition skel3 (g : rseg3) : rseg := skel2 (s3_line g).
Definition skel4 (x : rseg4) : rseg := skel3 (snd x).
Definition to_gseg4 (x : rseg4) : gseg := to_gseg3D (fst x) (snd x).

Lemma seg_ok4_all : forall gs, forallb seg_ok4 gs = true -> Forall gseg_ok (map to_gseg4 gs).
Proof.
  intros gs. induction gs as [|g gs IH]; intros H; [constructor|]. cbn [forallb] in H. apply andb_true_iff in H.
  destruct H as [Hg H]. cbn [map]. constructor; [apply seg_ok3_gseg; exact Hg|apply IH; exact H].
Qed.

(* level (d): every line with its own flags *)
Theorem rp_link4 : forall off g0 gs t0 evs tend,
  s2_head (s3_line (snd g0)) <> HCr -> forallb seg_ok4 (g0 :: gs) = true ->
  get_time (s2_tc (s3_line (snd g0))) 0 off = Ok t0 ->
  rp_events off (seg_paint false (skel4 g0)) (map skel4 gs) = Ok evs ->
  (final_paint (seg_paint false (skel4 g0)) (map skel4 gs) = false ->
   get_time (s2_tc (s3_line (snd (last gs g0)))) (Z.of_nat (length (rseg4_words (last gs g0)))) off = Ok tend) ->
  spans_of (read off (map rseg4_line (g0 :: gs))) =
  rp_read t0 (link_events (skel4 g0) (map skel4 gs) evs tend) (final_paint (seg_paint false (skel4 g0)) (map skel4 gs)).
Proof.
  intros off g0 gs t0 evs tend Hh Hok Ht0 Hev Hend.
  pose proof (rp_linkG off (to_gseg4 g0) (map to_gseg4 gs) t0 evs tend) as L.
  unfold gl_events, gl_pending in L. rewrite (map_map to_gseg4 skel), last_map in L.
  change (skel (to_gseg4 g0)) with (skel4 g0) in L.
  change (map (fun x => skel (to_gseg4 x)) gs) with (map skel4 gs) in L.
  cbn [map] in L. rewrite (map_map to_gseg4 gline) in L. cbn [map]. apply L.
  - exact Hh.
  - rewrite <- map_cons. apply seg_ok4_all. exact Hok.
  - exact Ht0.
  - exact Hev.
  - exact Hend.
Qed.

Theorem read_rp_ordered4 : forall off g0 gs t0 evs tend l,
  s2_head (s3_line (snd g0)) <> HCr -> forallb seg_ok4 (g0 :: gs) = true ->
  get_time (s2_tc (s3_line (snd g0))) 0 off = Ok t0 ->
  rp_events off (seg_paint false (skel4 g0)) (map skel4 gs) = Ok evs ->
  (final_paint (seg_paint false (skel4 g0)) (map skel4 gs) = false ->
   get_time (s2_tc (s3_line (snd (last gs g0)))) (Z.of_nat (length (rseg4_words (last gs g0)))) off = Ok tend) ->
  rp_nonneg t0 (link_events (skel4 g0) (map skel4 gs) evs tend) ->
  increasing t0 (map rp_time (link_events (skel4 g0) (map skel4 gs) evs tend)) ->
  spans_of (read off (map rseg4_line (g0 :: gs))) = Ok l ->
  l = rp_spans t0 (link_events (skel4 g0) (map skel4 gs) evs tend) (final_paint (seg_paint false (skel4 g0)) (map skel4 gs)) /\
  Forall (fun p => (fst p < snd p)%Q) l /\
  (forall i a b, nth_error l i = Some a -> nth_error l (S i) = Some b -> (fst a < fst b)%Q /\ snd a = fst b).
Proof.
  intros off g0 gs t0 evs tend l Hh Hok Ht0 Hev Hend Hnn Hinc Hr.
  rewrite (rp_link4 off g0 gs t0 evs tend Hh Hok Ht0 Hev Hend) in Hr. split.
  - pose proof Hr as Hr'. rewrite rp_chain_all_nonneg in Hr' by exact Hnn. unfold rp_expected_all in Hr'. cbv zeta in Hr'.
    destruct (existsb _ _); [discriminate|]. destruct (rp_spans _ _ _); [discriminate|]. inversion Hr'. reflexivity.
  - exact (rp_chain_ordered _ _ _ _ Hnn Hinc Hr).
Qed.

(* level (b) = level (d) with the same flag everywhere *)
Lemma last_pair : forall (f : dflags) (gs : list rseg3) (g0 : rseg3), last (map (pair f) gs) (f, g0) = (f, last gs g0).
Proof. intros f gs g0. exact (last_map _ _ (pair f) gs g0). Qed.

Lemma forallb_pair : forall dd gs, forallb seg_ok4 (map (pair (uni dd)) gs) = forallb (seg_ok3 dd) gs.
Proof. intros dd gs. induction gs as [|g gs IH]; [reflexivity|]. cbn [map forallb]. rewrite IH. reflexivity. Qed.

Theorem rp_link3 : forall dd off g0 gs t0 evs tend,
  s2_head (s3_line g0) <> HCr -> forallb (seg_ok3 dd) (g0 :: gs) = true ->
  get_time (s2_tc (s3_line g0)) 0 off = Ok t0 ->
  rp_events off (seg_paint false (skel3 g0)) (map skel3 gs) = Ok evs ->
  (final_paint (seg_paint false (skel3 g0)) (map skel3 gs) = false ->
   get_time (s2_tc (s3_line (last gs g0))) (Z.of_nat (length (rseg3_words dd (last gs g0)))) off = Ok tend) ->
  spans_of (read off (map (rseg3_line dd) (g0 :: gs))) =
  rp_read t0 (link_events (skel3 g0) (map skel3 gs) evs tend) (final_paint (seg_paint false (skel3 g0)) (map skel3 gs)).
Proof.
  intros dd off g0 gs t0 evs tend Hh Hok Ht0 Hev Hend.
  pose proof (rp_link4 off (uni dd, g0) (map (pair (uni dd)) gs) t0 evs tend) as L.
  rewrite (map_map (pair (uni dd)) skel4), last_pair in L.
  change (map (fun x => skel4 (uni dd, x)) gs) with (map skel3 gs) in L.
  change (skel4 (uni dd, g0)) with (skel3 g0) in L.
  cbn [map] in L. rewrite (map_map (pair (uni dd)) rseg4_line) in L. cbn [map]. apply L.
  - exact Hh.
  - cbn [forallb] in *. rewrite forallb_pair. exact Hok.
  - exact Ht0.
  - exact Hev.
  - exact Hend.
Qed.

Theorem read_rp_ordered3 : forall dd off g0 gs t0 evs tend l,
  s2_head (s3_line g0) <> HCr -> forallb (seg_ok3 dd) (g0 :: gs) = true ->
  get_time (s2_tc (s3_line g0)) 0 off = Ok t0 ->
  rp_events off (seg_paint false (skel3 g0)) (map skel3 gs) = Ok evs ->
  (final_paint (seg_paint false (skel3 g0)) (map skel3 gs) = false ->
   get_time (s2_tc (s3_line (last gs g0))) (Z.of_nat (length (rseg3_words dd (last gs g0)))) off = Ok tend) ->
  rp_nonneg t0 (link_events (skel3 g0) (map skel3 gs) evs tend) ->
  increasing t0 (map rp_time (link_events (skel3 g0) (map skel3 gs) evs tend)) ->
  spans_of (read off (map (rseg3_line dd) (g0 :: gs))) = Ok l ->
  l = rp_spans t0 (link_events (skel3 g0) (map skel3 gs) evs tend) (final_paint (seg_paint false (skel3 g0)) (map skel3 gs)) /\
  Forall (fun p => (fst p < snd p)%Q) l /\
  (forall i a b, nth_error l i = Some a -> nth_error l (S i) = Some b -> (fst a < fst b)%Q /\ snd a = fst b).
Proof.
  intros dd off g0 gs t0 evs tend l Hh Hok Ht0 Hev Hend Hnn Hinc Hr.
  rewrite (rp_link3 dd off g0 gs t0 evs tend Hh Hok Ht0 Hev Hend) in Hr. split.
  - pose proof Hr as Hr'. rewrite rp_chain_all_nonneg in Hr' by exact Hnn. unfold rp_expected_all in Hr'. cbv zeta in Hr'.
    destruct (existsb _ _); [discriminate|]. destruct (rp_spans _ _ _); [discriminate|]. inversion Hr'. reflexivity.
  - exact (rp_chain_ordered _ _ _ _ Hnn Hinc Hr).
Qed.


(* ---- non-vacuity, level (b) ---------------------------------------------------------------------------------------------- *)
(* 9425 9425 94ad 94ad 9170 9170 "ab" 9240 97a1 9240 97a1 9137 9137 "cd": rows 2 and 3, one caption "ab" BREAK "(note)cd" *)
Definition ex3_g1 : rseg3 := mkSeg3 (mkSeg2 (lit "00:00:01:00") (HRu D2 true) 37232 None [BChar 24930])
                                    (Some (mkRow2 37440 (Some 38817) [BSpec 37175; BChar 58212])).
Definition ex3_g2 : rseg3 := mkSeg3 ex2_g2 None.
Definition ex3_g3 : rseg3 := mkSeg3 ex2_g3 None.

Example rp_link3_example :
  map (rseg3_line true) [ex3_g1; ex3_g2; ex3_g3] =
    [(lit "00:00:01:00", [37925; 37925; 38061; 38061; 37232; 37232; 24930; 37440; 38817; 37440; 38817; 37175; 37175; 58212]);
     (lit "00:00:03:00", [38061; 38061; 38000; 38000; 37175; 37175; 58854]);
     (lit "00:00:05:10", [37929; 37929; 37232; 38691; 37232; 38691; 26472; 37296; 37296])] /\
  (exists c r, read 0 (map (rseg3_line true) [ex3_g1; ex3_g2; ex3_g3]) = ROk (c :: r) /\
               pc_nodes c = [CText [97; 98] (2, 0); CBreak (2, 0); CText [9834; 99; 100] (2, 0)]) /\
  spans_of (read 0 (map (rseg3_line true) [ex3_g1; ex3_g2; ex3_g3])) =
    rp_read 1001000 [RRoll 3003000; RRoll (16016000 # 3)] true /\
  spans_of (read 0 (map (rseg3_line true) [ex3_g1; ex3_g2; ex3_g3])) =
    Ok [(1001000, 3003000); (3003000, 16016000 # 3); (16016000 # 3, (16016000 # 3) + four_s)]%Q.
Proof.
  split; [vm_compute; reflexivity|]. split; [eexists; eexists; split; vm_compute; reflexivity|].
  assert (L : spans_of (read 0 (map (rseg3_line true) [ex3_g1; ex3_g2; ex3_g3])) =
              rp_read 1001000 [RRoll 3003000; RRoll (16016000 # 3)] true).
  { pose proof (rp_link3 true 0 ex3_g1 [ex3_g2; ex3_g3] 1001000 [RRoll 3003000; RRoll (16016000 # 3)] 0) as L.
    unfold link_events in L.
    change (final_paint (seg_paint false (skel3 ex3_g1)) (map skel3 [ex3_g2; ex3_g3])) with true in L.
    rewrite app_nil_r in L. apply L; try (vm_compute; reflexivity); discriminate. }
  split; [exact L|]. rewrite L. rewrite rp_chain_all_nonneg.
  - vm_compute. reflexivity.
  - split; [discriminate|]. intros e [<-|[<-|[]]]; reflexivity.
Qed.

(* rows that are NOT adjacent (row 2 then row 15 in one roll-up buffer): create_and_store cuts the buffer at the REPOSITION
   node and stores TWO captions with the same span, while `rprun` adds one cue per event: the link holds up to `screens`
   (spec/SpecSccTime.v), not on the nose *)
Definition ex_nonadj : list sline :=
  [(lit "00:00:01:00", [37925; 38061; 37232; 24930; 38000; 58212]); (lit "00:00:03:00", [38061; 38000; 58854])].

Example nonadjacent_rows_duplicate :
  exists l l', spans_of (read 0 ex_nonadj) = Ok l /\ rp_read 1001000 [RRoll 3003000; RRoll 3103100] false = Ok l' /\
    l = [(1001000, 3003000); (1001000, 3003000); (3003000, 3103100)]%Q /\ l <> l' /\ screens l = l'.
Proof.
  eexists. eexists. split; [vm_compute; reflexivity|]. split; [vm_compute; reflexivity|]. split; [reflexivity|].
  split; [discriminate|vm_compute; reflexivity].
Qed.

(* ---- non-vacuity, level (d): flags per line and per code class ---------------------------------------------------------- *)
(* line 1: RU2 doubled, CR single, first PAC single, second PAC + tab offset doubled as a unit, music note single;
   line 2: everything single; line 3: RDC single, PAC + tab offset doubled, registered sign single *)
Definition ex4_x1 : rseg4 := (mkDf true false false true true false, ex3_g1).
Definition ex4_x2 : rseg4 := (uni false, ex3_g2).
Definition ex4_x3 : rseg4 := (mkDf false true true false false false, ex3_g3).

Example rp_link4_example :
  map rseg4_line [ex4_x1; ex4_x2; ex4_x3] =
    [(lit "00:00:01:00", [37925; 37925; 38061; 37232; 24930; 37440; 38817; 37440; 38817; 37175; 58212]);
     (lit "00:00:03:00", [38061; 38000; 37175; 58854]);
     (lit "00:00:05:10", [37929; 37232; 38691; 37232; 38691; 26472; 37296])] /\
  spans_of (read 0 (map rseg4_line [ex4_x1; ex4_x2; ex4_x3])) =
    rp_read 1001000 [RRoll 3003000; RRoll (16016000 # 3)] true /\
  spans_of (read 0 (map rseg4_line [ex4_x1; ex4_x2; ex4_x3])) =
    Ok [(1001000, 3003000); (3003000, 16016000 # 3); (16016000 # 3, (16016000 # 3) + four_s)]%Q.
Proof.
  split; [vm_compute; reflexivity|].
  assert (L : spans_of (read 0 (map rseg4_line [ex4_x1; ex4_x2; ex4_x3])) =
              rp_read 1001000 [RRoll 3003000; RRoll (16016000 # 3)] true).
  { pose proof (rp_link4 0 ex4_x1 [ex4_x2; ex4_x3] 1001000 [RRoll 3003000; RRoll (16016000 # 3)] 0) as L.
    unfold link_events in L.
    change (final_paint (seg_paint false (skel4 ex4_x1)) (map skel4 [ex4_x2; ex4_x3])) with true in L.
    rewrite app_nil_r in L. apply L; try (vm_compute; reflexivity); discriminate. }
  split; [exact L|]. rewrite L. rewrite rp_chain_all_nonneg.
  - vm_compute. reflexivity.
  - split; [discriminate|]. intros e [<-|[<-|[]]]; reflexivity.
Qed.

Print Assumptions rp_linkG.
Print Assumptions read_rp_orderedG.
Print Assumptions rp_link2.
Print Assumptions read_rp_ordered2.
Print Assumptions rp_link2_example.
Print Assumptions no_rep_needed.
Print Assumptions rp_link3.
Print Assumptions read_rp_ordered3.
Print Assumptions rp_link3_example.
Print Assumptions nonadjacent_rows_duplicate.
Print Assumptions rp_link4.
Print Assumptions read_rp_ordered4.
Print Assumptions rp_link4_example.

(* OPEN: level (c) - extended characters after a stand-in character and backspace. The `Section Row` interface (`add_ok`)
   would need a second operation B o |-> B (Some (drop_last (otext o))) for `handle_backspace` (the stand-in is removed
   only when it is not itself an extended value), then
     rp_link_c : the statement of rp_link4 for rows whose items may also be `BExt standin w` / `BBs`.
   OPEN: level (d) per item - a separate flag for each special character of one row (here the special characters of a
   row share the flag f_i1 / f_i2); `tws_item` already takes the flag per item, `tws_items` / `no_rep` / `pre1_step`
   would have to be restated over a list of (item, flag).
   OPEN: non-adjacent rows, stated up to `screens`:
     screens l = screens l'  whenever spans_of (read ...) = Ok l and rp_read ... = Ok l'
   (true on `ex_nonadj`, see `nonadjacent_rows_duplicate`); it needs a version of `sabs` / `finish_read_sabs` in which one
   event adds a batch of k >= 1 cues with the same span. *)
