(* RegionFacts.v - C10: construction (build / read) allocates a fresh closed region; regions of different caption
   sets stay disjoint and closed over arbitrary histories; an edit touches only the region of its own set. *)
From Coq Require Import List ZArith Bool Arith Lia.
From PV Require Import lib.Sx lib.Str lib.Result model.Store model.Iso proofs.StoreFacts proofs.IsoFacts.
Import ListNotations.

(* ---- construction from a tree allocates a fresh closed region ------------------------------------------------------ *)
Fixpoint tsize (t : tree) : nat :=
  match t with
  | TNode _ items =>
      S ((fix go (l : list (tree * tree)) : nat :=
            match l with [] => O | (a, b) :: r => (tsize a + tsize b + go r)%nat end) items)
  | _ => 1%nat
  end.

Definition isize (l : list (tree * tree)) : nat :=
  (fix go (l : list (tree * tree)) : nat :=
     match l with [] => O | (a, b) :: r => (tsize a + tsize b + go r)%nat end) l.

Lemma tsize_node : forall k items, tsize (TNode k items) = S (isize items).
Proof. reflexivity. Qed.
Lemma isize_cons : forall a b r, isize ((a, b) :: r) = (tsize a + tsize b + isize r)%nat.
Proof. reflexivity. Qed.

Definition build_go (dflt : store -> Z -> store * val) :=
  fix go (l : list (tree * tree)) (st : store) : store * list (val * val) :=
    match l with
    | [] => (st, [])
    | (a, b) :: r =>
        let '(st1, a') := build dflt a st in
        let '(st2, b') := build dflt b st1 in
        let '(st3, r') := go r st2 in
        (st3, (a', b') :: r')
    end.

Lemma build_node : forall dflt k items st,
  build dflt (TNode k items) st =
  if (k =? KDefault)%Z then dflt st (match items with (_, TInt w) :: _ => w | _ => 0%Z end)
  else let '(st1, its) := build_go dflt items st in new_obj st1 k its.
Proof. reflexivity. Qed.

Lemma dflt_inv : forall c st0 st w st' v,
  fix2 c = true -> inv st0 st -> dflt c st w = (st', v) ->
  inv st0 st' /\ (length st <= length st')%nat /\ inr (length st0) (length st') v.
Proof.
  intros c st0 st w st' v Hc Hinv H. unfold dflt in H. rewrite Hc in H.
  assert (Hits : items_inr (length st0) (length st) []) by constructor.
  destruct (inv_new_obj _ _ _ _ _ _ Hinv Hits H) as (A & B & C). auto.
Qed.

Lemma build_inv_n : forall c, fix2 c = true ->
  forall n t st0 st st' v, (tsize t <= n)%nat -> inv st0 st -> build (dflt c) t st = (st', v) ->
  inv st0 st' /\ (length st <= length st')%nat /\ inr (length st0) (length st') v.
Proof.
  intros c Hc. induction n as [|n IH]; intros t st0 st st' v Hn Hinv H.
  - destruct t; simpl in Hn; lia.
  - destruct t as [z|s| |k items|]; try (simpl in H; inversion H; subst; split; [assumption|split; [lia|exact I]]).
    rewrite build_node in H. destruct (k =? KDefault)%Z.
    + eapply dflt_inv; eauto.
    + rewrite tsize_node in Hn.
      assert (Hgo : forall l st st1 its, (isize l <= n)%nat -> inv st0 st -> build_go (dflt c) l st = (st1, its) ->
                    inv st0 st1 /\ (length st <= length st1)%nat /\ items_inr (length st0) (length st1) its).
      { induction l as [|[a b] r IHl]; intros sa sb its Hs Ia Hb.
        - simpl in Hb. inversion Hb; subst. split; [assumption|split; [lia|constructor]].
        - rewrite isize_cons in Hs. cbn [build_go] in Hb.
          destruct (build (dflt c) a sa) as [s1 a'] eqn:Ea.
          destruct (build (dflt c) b s1) as [s2 b'] eqn:Eb.
          destruct (build_go (dflt c) r s2) as [s3 r'] eqn:Er.
          inversion Hb; subst. clear Hb.
          destruct (IH a st0 sa s1 a' ltac:(lia) Ia Ea) as (I1 & L1 & V1).
          destruct (IH b st0 s1 s2 b' ltac:(lia) I1 Eb) as (I2 & L2 & V2).
          destruct (IHl s2 sb r' ltac:(lia) I2 Er) as (I3 & L3 & V3).
          split; [exact I3|]. split; [lia|]. constructor; [|exact V3]. cbn [fst snd]. split; inr_up. }
      destruct (build_go (dflt c) items st) as [st1 its] eqn:Eg.
      destruct (Hgo items st st1 its ltac:(lia) Hinv Eg) as (I1 & L1 & V1).
      destruct (inv_new_obj _ _ _ _ _ _ I1 V1 H) as (I2 & V2 & L2).
      split; [exact I2|]. split; [lia|exact V2].
Qed.

Lemma build_inv : forall c t st0 st st' v,
  fix2 c = true -> inv st0 st -> build (dflt c) t st = (st', v) ->
  inv st0 st' /\ (length st <= length st')%nat /\ inr (length st0) (length st') v.
Proof. intros c t st0 st st' v Hc. apply (build_inv_n c Hc (tsize t)). lia. Qed.

(* ---- decidable equality on snapshots is equality -------------------------------------------------------------------- *)
Definition items_eqb (l1 l2 : list (tree * tree)) : bool :=
  (fix go (l1 l2 : list (tree * tree)) : bool :=
     match l1, l2 with
     | [], [] => true
     | (a1, b1) :: t1, (a2, b2) :: t2 => tree_eqb a1 a2 && tree_eqb b1 b2 && go t1 t2
     | _, _ => false
     end) l1 l2.

Lemma tree_eqb_node : forall k1 l1 k2 l2, tree_eqb (TNode k1 l1) (TNode k2 l2) = ((k1 =? k2)%Z && items_eqb l1 l2).
Proof. reflexivity. Qed.
Lemma items_eqb_cons : forall a1 b1 t1 a2 b2 t2,
  items_eqb ((a1, b1) :: t1) ((a2, b2) :: t2) = (tree_eqb a1 a2 && tree_eqb b1 b2 && items_eqb t1 t2).
Proof. reflexivity. Qed.

Lemma str_eqb_refl : forall s, str_eqb s s = true.
Proof. induction s as [|x t IH]; simpl; auto. rewrite Z.eqb_refl. exact IH. Qed.
Lemma str_eqb_eq : forall a b, str_eqb a b = true -> a = b.
Proof.
  induction a as [|x t IH]; intros [|y u] H; simpl in H; try discriminate; auto.
  apply andb_true_iff in H. destruct H as [A B]. apply Z.eqb_eq in A. subst. f_equal. auto.
Qed.

Lemma tree_eqb_refl_n : forall n t, (tsize t <= n)%nat -> tree_eqb t t = true.
Proof.
  induction n as [|n IH]; intros t Hn; [destruct t; simpl in Hn; lia|].
  destruct t as [z|s| |k items|]; simpl; auto using Z.eqb_refl, str_eqb_refl.
  change (((k =? k)%Z && items_eqb items items) = true). rewrite Z.eqb_refl. cbn [andb].
  rewrite tsize_node in Hn. assert (Hi : (isize items <= n)%nat) by lia. clear Hn.
  induction items as [|[a b] r IHr]; [reflexivity|].
  rewrite isize_cons in Hi. rewrite items_eqb_cons. rewrite (IH a), (IH b) by lia. cbn [andb]. apply IHr. lia.
Qed.
Lemma tree_eqb_refl : forall t, tree_eqb t t = true.
Proof. intros t. apply (tree_eqb_refl_n (tsize t)). lia. Qed.

Lemma tree_eqb_eq_n : forall n a, (tsize a <= n)%nat -> forall b, tree_eqb a b = true -> a = b.
Proof.
  induction n as [|n IH]; intros a Hn b H; [destruct a; simpl in Hn; lia|].
  destruct a as [z|s| |k items|]; destruct b as [z'|s'| |k' items'|]; simpl in H; try discriminate; auto.
  - apply Z.eqb_eq in H. subst. reflexivity.
  - apply str_eqb_eq in H. subst. reflexivity.
  - change (((k =? k')%Z && items_eqb items items') = true) in H. apply andb_true_iff in H. destruct H as [A B].
    apply Z.eqb_eq in A. subst k'. f_equal.
    rewrite tsize_node in Hn. assert (Hi : (isize items <= n)%nat) by lia. clear Hn.
    revert items' B. induction items as [|[a1 b1] r IHr]; intros [|[a2 b2] r'] B; try discriminate; auto.
    rewrite isize_cons in Hi. rewrite items_eqb_cons in B.
    apply andb_true_iff in B. destruct B as [B C]. apply andb_true_iff in B. destruct B as [B1 B2].
    rewrite (IH a1 ltac:(lia) a2 B1), (IH b1 ltac:(lia) b2 B2). f_equal. apply IHr; auto. lia.
Qed.
Lemma tree_eqb_eq : forall a b, tree_eqb a b = true -> a = b.
Proof. intros a b. apply (tree_eqb_eq_n (tsize a)). lia. Qed.


(* ---- the sharing pass of the read models (DAG-shaped results) ---------------------------------------------------------- *)
Lemma same_snapshots_sound : forall st a b, same_snapshots st a b = true ->
  forall m, (m <= FUEL)%nat -> snap m st a = snap m st b.
Proof.
  intros st a b H m Hm. unfold same_snapshots in H. rewrite forallb_forall in H.
  apply tree_eqb_eq. apply H. apply in_seq. lia.
Qed.

Definition pass_ok (st0 st st' : store) : Prop :=
  inv st0 st' /\ length st' = length st /\ (forall n v, (n <= S FUEL)%nat -> snap n st' v = snap n st v).

Lemma pass_ok_refl : forall st0 st, inv st0 st -> pass_ok st0 st st.
Proof. intros. split; [assumption|]. split; [reflexivity|]. intros; reflexivity. Qed.

Lemma pass_ok_trans : forall st0 a b c, pass_ok st0 a b -> pass_ok st0 b c -> pass_ok st0 a c.
Proof.
  intros st0 a b c (I1 & L1 & S1) (I2 & L2 & S2). split; [exact I2|]. split; [congruence|].
  intros n v Hn. rewrite S2, S1 by assumption. reflexivity.
Qed.

Lemma share_nodes_ok : forall st0 hs ts st stack,
  inv st0 st -> Forall (inr (length st0) (length st)) hs -> Forall (inr (length st0) (length st)) stack ->
  pass_ok st0 st (share_nodes st hs ts stack).
Proof.
  intros st0. induction hs as [|h hr IH]; intros ts st stack Hinv Hhs Hst; [apply pass_ok_refl; exact Hinv|].
  destruct ts as [|n tr]; [apply pass_ok_refl; exact Hinv|]. cbn [share_nodes].
  inversion Hhs as [|? ? Hh Hhr]; subst.
  destruct (node_is_style n); [|apply IH; auto].
  destruct (is_true (tfield n 3)).
  - apply IH; auto. constructor; [apply field_inr; auto|exact Hst].
  - destruct stack as [|d rest]; [apply IH; auto; constructor|].
    inversion Hst as [|? ? Hd Hrest]; subst. cbn [tl].
    destruct (is_share (tfield n 2) && has_field st h (VInt 2) && same_snapshots st d (field st h (VInt 2))) eqn:G;
      [|apply IH; auto].
    apply andb_true_iff in G. destruct G as [G G3]. apply andb_true_iff in G. destruct G as [_ G2].
    assert (Hstep : pass_ok st0 st (set_field st h (VInt 2) d)).
    { split; [apply inv_set_field; auto; exact I|]. split; [apply length_set_field|].
      intros m v Hm. apply (snap_set_field_same st h (VInt 2) d FUEL); auto.
      - unfold has_field in G2. destruct (assoc (VInt 2) (items_of st h)); [exact I|discriminate].
      - apply same_snapshots_sound. exact G3. }
    eapply pass_ok_trans; [exact Hstep|]. destruct Hstep as (I1 & L1 & _).
    apply IH; auto; rewrite L1; assumption.
Qed.

Lemma share_caps_ok : forall st0 hcs tcs st,
  inv st0 st -> Forall (inr (length st0) (length st)) hcs -> pass_ok st0 st (share_caps st hcs tcs).
Proof.
  intros st0. induction hcs as [|hc hr IH]; intros tcs st Hinv Hh; [apply pass_ok_refl; exact Hinv|].
  destruct tcs as [|tc tr]; [apply pass_ok_refl; exact Hinv|]. cbn [share_caps].
  inversion Hh as [|? ? Hc Hr]; subst.
  assert (Hstep : pass_ok st0 st (share_nodes st (elems st (field st hc (VInt 3))) (telems (tfield tc 3)) [])).
  { apply share_nodes_ok; auto. apply elems_inr; auto. apply field_inr; auto. }
  eapply pass_ok_trans; [exact Hstep|]. destruct Hstep as (I1 & L1 & _). apply IH; auto. rewrite L1. exact Hr.
Qed.

Lemma share_langs_ok : forall st0 hls tls st,
  inv st0 st -> items_inr (length st0) (length st) hls -> pass_ok st0 st (share_langs st hls tls).
Proof.
  intros st0. induction hls as [|hkv hr IH]; intros tls st Hinv Hh; [apply pass_ok_refl; exact Hinv|].
  destruct tls as [|tkv tr]; [apply pass_ok_refl; exact Hinv|]. cbn [share_langs].
  inversion Hh as [|? ? [_ Hv] Hr]; subst.
  assert (Hstep : pass_ok st0 st (share_caps st (elems st (snd hkv)) (telems (snd tkv)))).
  { apply share_caps_ok; auto. apply elems_inr; auto. }
  eapply pass_ok_trans; [exact Hstep|]. destruct Hstep as (I1 & L1 & _). apply IH; auto.
  unfold items_inr in *. rewrite L1. exact Hr.
Qed.

Lemma share_set_ok : forall st0 st s t,
  inv st0 st -> inr (length st0) (length st) s -> pass_ok st0 st (share_set st s t).
Proof. intros. unfold share_set. apply share_langs_ok; auto. apply set_langs_inr; auto. Qed.

(* ---- a read allocates a fresh closed region (after the repairs: no default-argument object, no stale stash) -------- *)
Lemma scc_pre_inv : forall c st0 st cap st' p,
  fix2 c = true -> inv st0 st -> scc_pre c st cap = (st', p) ->
  inv st0 st' /\ (length st <= length st')%nat /\ inr (length st0) (length st') p.
Proof.
  intros c st0 st cap st' p Hc Hinv H. unfold scc_pre in H.
  destruct (build (dflt c) (tfield cap 3) st) as [st1 nodes] eqn:E1.
  destruct (build (dflt c) (tfield cap 4) st1) as [st2 style] eqn:E2.
  destruct (build (dflt c) (tfield cap 5) st2) as [st3 lay] eqn:E3.
  destruct (build_inv c _ st0 _ _ _ Hc Hinv E1) as (I1 & L1 & V1).
  destruct (build_inv c _ st0 _ _ _ Hc I1 E2) as (I2 & L2 & V2).
  destruct (build_inv c _ st0 _ _ _ Hc I2 E3) as (I3 & L3 & V3).
  assert (Hits : items_inr (length st0) (length st3)
                   [(VInt 1, vkey_of_tree (tfield cap 1)); (VInt 2, vkey_of_tree (tfield cap 2));
                    (VInt 3, nodes); (VInt 4, style); (VInt 5, lay)]).
  { assert (Hk : forall t, inr (length st0) (length st3) (vkey_of_tree t)) by (intros []; exact I).
    repeat (constructor; [cbv beta; cbn [fst snd]; split; [exact I|first [apply Hk|inr_up]]|]). constructor. }
  destruct (inv_new_obj _ _ _ _ _ _ I3 Hits H) as (I4 & V4 & L4).
  split; [exact I4|]. split; [lia|exact V4].
Qed.

Lemma cap_of_pre_inv : forall st0 st p st' cp,
  inv st0 st -> inr (length st0) (length st) p -> cap_of_pre st p = (st', cp) ->
  inv st0 st' /\ (length st <= length st')%nat /\ inr (length st0) (length st') cp.
Proof.
  intros st0 st p st' cp Hinv Hp H. unfold cap_of_pre in H.
  assert (Hits : items_inr (length st0) (length st)
                   [(VInt 1, field st p (VInt 1)); (VInt 2, field st p (VInt 2)); (VInt 3, field st p (VInt 3));
                    (VInt 4, field st p (VInt 4)); (VInt 5, field st p (VInt 5))]).
  { repeat (constructor; [cbv beta; cbn [fst snd]; split; [exact I|apply field_inr; auto]|]). constructor. }
  destruct (inv_new_obj _ _ _ _ _ _ Hinv Hits H) as (I1 & V1 & L1). auto.
Qed.

Theorem read_inv : forall c rk ri t st st' ri' s,
  fix2 c = true -> fix3 c = true -> read c rk ri t st = (st', ri', s) ->
  inv st st' /\ inr (length st) (length st') s.
Proof.
  intros c rk ri t st st' ri' s Hc2 Hc3 H. unfold read in H.
  destruct (rk =? R_SCC)%Z.
  - rewrite Hc3 in H. cbn [app] in H.
    set (kv := match set_langs_t t with x :: _ => x | [] => (TNone, TNone) end) in *.
    match type of H with (let '(_, _) := fold_left ?f ?l ?a in _) = _ =>
      assert (HP : (fun acc : store * list val =>
                      okp st (length st) acc /\ Forall (inr (length st) (length (fst acc))) (snd acc))
                   (fold_left f l a)) end.
    { apply fold_left_inv with (Q := fun _ : tree => True); cbv beta.
      - apply Forall_forall. intros; exact I.
      - split; [split; [apply inv_refl|simpl; lia]|constructor].
      - intros [s0 l] cap [[I0 L0] N0] _. simpl in I0, L0, N0.
        destruct (scc_pre c s0 cap) as [s1 p] eqn:Ep.
        destruct (scc_pre_inv c st s0 cap s1 p Hc2 I0 Ep) as (I1 & L1 & V1).
        split; [split; simpl; [exact I1|lia]|]. simpl. apply Forall_app. split.
        + eapply Forall_inr_mono; eauto.
        + constructor; [exact V1|constructor]. }
    match type of H with (let '(_, _) := ?X in _) = _ => destruct X as [st1 pres] eqn:E1 end.
    destruct HP as [[I1 L1] N1]. simpl in I1, L1, N1.
    match type of H with (let '(_, _) := fold_left ?f ?l ?a in _) = _ =>
      assert (HP : (fun acc : store * list (val * val) =>
                      okp st (length st1) acc /\ items_inr (length st) (length (fst acc)) (snd acc))
                   (fold_left f l a)) end.
    { apply fold_left_inv with (Q := inr (length st) (length st1)); cbv beta; auto.
      - split; [split; simpl; auto|constructor].
      - intros [s0 l] p [[I0 L0] N0] Hp. simpl in I0, L0, N0.
        destruct (cap_of_pre s0 p) as [s1' cp] eqn:Ec.
        assert (Hp0 : inr (length st) (length s0) p) by inr_up.
        destruct (cap_of_pre_inv st s0 p s1' cp I0 Hp0 Ec) as (I1' & L1' & V1').
        split; [split; simpl; [exact I1'|lia]|]. simpl. unfold items_inr. apply Forall_app. split.
        + eapply items_inr_mono; [exact N0|lia].
        + constructor; [split; [exact I|exact V1']|constructor]. }
    match type of H with (let '(_, _) := ?X in _) = _ => destruct X as [st2 caps] eqn:E2 end.
    destruct HP as [[I2 L2] N2]. simpl in I2, L2, N2.
    destruct (new_obj st2 KCapList ((VInt 1, VNone) :: caps)) as [st3 cl] eqn:E3.
    assert (H3 : items_inr (length st) (length st2) ((VInt 1, VNone) :: caps)).
    { constructor; [split; exact I|exact N2]. }
    destruct (inv_new_obj _ _ _ _ _ _ I2 H3 E3) as (I3 & V3 & L3).
    destruct (new_obj st3 KDict [(vkey_of_tree (fst kv), cl)]) as [st4 d] eqn:E4.
    assert (H4 : items_inr (length st) (length st3) [(vkey_of_tree (fst kv), cl)]).
    { constructor; [split; [destruct (fst kv); exact I|exact V3]|constructor]. }
    destruct (inv_new_obj _ _ _ _ _ _ I3 H4 E4) as (I4 & V4 & L4).
    destruct (dflt c st4 1) as [st5 sty] eqn:E5.
    destruct (dflt_inv c st st4 1%Z st5 sty Hc2 I4 E5) as (I5 & L5 & V5).
    destruct (new_obj st5 KSet [(VInt 1, d); (VInt 2, sty); (VInt 3, VNone)]) as [st6 s6] eqn:E6.
    assert (H6 : items_inr (length st) (length st5) [(VInt 1, d); (VInt 2, sty); (VInt 3, VNone)]).
    { constructor; [split; [exact I|inr_up]|]. constructor; [split; [exact I|exact V5]|].
      constructor; [split; exact I|constructor]. }
    destruct (inv_new_obj _ _ _ _ _ _ I5 H6 E6) as (I6 & V6 & L6).
    inversion H; subst. split; assumption.
  - cbv zeta in H. destruct (build (dflt c) (unshare (mark_defaults rk t)) st) as [st1 s1] eqn:Eb.
    destruct (build_inv c _ st st st1 s1 Hc2 (inv_refl st) Eb) as (I1 & L1 & V1).
    destruct (share_set_ok st st1 s1 (mark_defaults rk t) I1 V1) as (I2 & L2 & _).
    inversion H; subst. split; [exact I2|]. rewrite L2. exact V1.
Qed.

(* ---- regions --------------------------------------------------------------------------------------------------------- *)
Definition inR (R : loc -> Prop) (v : val) : Prop := match v with VLoc l => R l | _ => True end.
Definition items_inR (R : loc -> Prop) (its : list (val * val)) : Prop :=
  Forall (fun kv => inR R (fst kv) /\ inR R (snd kv)) its.
Definition closedR (st : store) (R : loc -> Prop) : Prop :=
  forall l o, R l -> get st l = Some o -> items_inR R (o_items o).
Definition boundedR (n : nat) (R : loc -> Prop) : Prop := forall l, R l -> (l < n)%nat.

(* snapshots inside a closed region only depend on the objects of the region *)
Lemma snap_region : forall st st' R n v,
  closedR st R -> (forall l, R l -> get st' l = get st l) -> inR R v -> snap n st' v = snap n st v.
Proof.
  intros st st' R n v Hc Ha. revert v. induction n as [|n IH]; intros v Hv.
  - destruct v; reflexivity.
  - destruct v as [| | |l]; try reflexivity. simpl in Hv. cbn [snap]. rewrite (Ha l Hv).
    destruct (get st l) as [o|] eqn:Hg; [|reflexivity]. f_equal. apply map_ext_in. intros [k x] Hin.
    specialize (Hc l o Hv Hg). unfold items_inR in Hc. rewrite Forall_forall in Hc.
    destruct (Hc _ Hin) as [A B]. cbn [fst snd] in *. rewrite (IH k A), (IH x B). reflexivity.
Qed.

(* the region of a set while an edit is running: its old region R plus whatever was allocated since st0 *)
Definition RN (R : loc -> Prop) (n0 n : nat) : loc -> Prop := fun l => R l \/ (n0 <= l < n)%nat.

Record rinv (R : loc -> Prop) (st0 st : store) : Prop := mkRinv {
  r_frame : forall l, (l < length st0)%nat -> ~ R l -> get st l = get st0 l;
  r_len : (length st0 <= length st)%nat;
  r_closed : closedR st (RN R (length st0) (length st));
  r_bound : boundedR (length st0) R
}.

Lemma RN_mono : forall R n0 n n' l, RN R n0 n l -> (n <= n')%nat -> RN R n0 n' l.
Proof. intros R n0 n n' l [H|H] Hn; [left; exact H|right; lia]. Qed.

Lemma inR_RN_mono : forall R n0 n n' v, inR (RN R n0 n) v -> (n <= n')%nat -> inR (RN R n0 n') v.
Proof. intros R n0 n n' [] H Hn; simpl in *; auto. eapply RN_mono; eauto. Qed.

Lemma items_inR_RN_mono : forall R n0 n n' its,
  items_inR (RN R n0 n) its -> (n <= n')%nat -> items_inR (RN R n0 n') its.
Proof.
  intros. unfold items_inR in *. eapply Forall_impl; [|eassumption].
  intros kv [A B]. split; eapply inR_RN_mono; eauto.
Qed.

Lemma rinv_refl : forall R st, closedR st R -> boundedR (length st) R -> rinv R st st.
Proof.
  intros R st Hc Hb. constructor; auto.
  intros l o [Hl|Hl] Hg; [|lia]. specialize (Hc l o Hl Hg). unfold items_inR in *.
  eapply Forall_impl; [|exact Hc]. intros kv [A B].
  split; [destruct (fst kv)|destruct (snd kv)]; simpl in *; auto; left; assumption.
Qed.

Lemma RN_lt : forall R st0 st l, rinv R st0 st -> RN R (length st0) (length st) l -> (l < length st)%nat.
Proof.
  intros R st0 st l H [Hl|Hl]; [|lia]. pose proof (r_bound _ _ _ H l Hl). pose proof (r_len _ _ _ H). lia.
Qed.

(* navigation *)
Lemma r_items_of : forall R st0 st v,
  rinv R st0 st -> inR (RN R (length st0) (length st)) v -> items_inR (RN R (length st0) (length st)) (items_of st v).
Proof.
  intros R st0 st v H Hv. destruct v as [| | |l]; simpl; try constructor.
  destruct (get st l) as [o|] eqn:Hg; [|constructor]. apply (r_closed _ _ _ H l o Hv Hg).
Qed.

Lemma assoc_inR : forall R k its x, items_inR R its -> assoc k its = Some x -> inR R x.
Proof.
  intros R k its x H. induction H as [|[k' v'] t [A B] Ht IH]; simpl; [discriminate|].
  destruct (val_eqb k k'); [intros E; inversion E; subst; exact B|exact IH].
Qed.

Lemma r_field : forall R st0 st v k,
  rinv R st0 st -> inR (RN R (length st0) (length st)) v -> inR (RN R (length st0) (length st)) (field st v k).
Proof.
  intros R st0 st v k H Hv. unfold field. destruct (assoc k (items_of st v)) as [x|] eqn:E; [|exact I].
  eapply assoc_inR; [apply r_items_of; eauto|exact E].
Qed.

Lemma r_elems : forall R st0 st v,
  rinv R st0 st -> inR (RN R (length st0) (length st)) v -> Forall (inR (RN R (length st0) (length st))) (elems st v).
Proof.
  intros R st0 st v H Hv. unfold elems. pose proof (r_items_of R st0 st v H Hv) as Hi. unfold items_inR in Hi.
  induction Hi as [|[k x] t [A B] Ht IH]; simpl; [constructor|]. destruct k; simpl; auto.
Qed.

Lemma nth_mod_P : forall (A : Type) (P : A -> Prop) (l : list A) n d, Forall P l -> P d -> P (nth_mod l n d).
Proof.
  intros A P l n d Hl Hd. unfold nth_mod. destruct l as [|x t]; [exact Hd|].
  rewrite Forall_forall in Hl. destruct (nth_in_or_default (Nat.modulo n (length (x :: t))) (x :: t) d) as [Hin|He].
  - apply Hl. exact Hin.
  - rewrite He. exact Hd.
Qed.

Lemma r_the_cap : forall R st0 st s li ci,
  rinv R st0 st -> inR (RN R (length st0) (length st)) s -> inR (RN R (length st0) (length st)) (the_cap st s li ci).
Proof.
  intros R st0 st s li ci H Hs. unfold the_cap.
  apply nth_mod_P; [|exact I]. apply r_elems; auto.
  assert (Hl : items_inR (RN R (length st0) (length st)) (set_langs st s)).
  { unfold set_langs. apply r_items_of; auto. apply r_field; auto. }
  pose proof (nth_mod_P _ (fun kv => inR (RN R (length st0) (length st)) (fst kv) /\
                                    inR (RN R (length st0) (length st)) (snd kv))
                        (set_langs st s) li (VNone, VNone) Hl (conj I I)) as [_ B]. exact B.
Qed.

(* assignment through a pointer of the region *)
Lemma rinv_set_items : forall R st0 st v its,
  rinv R st0 st -> inR (RN R (length st0) (length st)) v -> items_inR (RN R (length st0) (length st)) its ->
  rinv R st0 (set_items st v its).
Proof.
  intros R st0 st v its H Hv Hits. unfold set_items. destruct v as [| | |l]; auto.
  destruct (get st l) as [o|] eqn:Hg; auto. simpl in Hv. constructor.
  - intros l' Hl' Hn. rewrite get_upd_other; [apply (r_frame _ _ _ H); auto|].
    intros ->. destruct Hv as [Hv|Hv]; [contradiction|lia].
  - rewrite length_upd. apply (r_len _ _ _ H).
  - rewrite length_upd. intros l' o' Hl' Hg'. destruct (Nat.eq_dec l l') as [->|Hne].
    + rewrite get_upd_same in Hg' by (eapply get_some_lt; eauto). inversion Hg'; subst. exact Hits.
    + rewrite get_upd_other in Hg' by assumption. apply (r_closed _ _ _ H l' o' Hl' Hg').
  - apply (r_bound _ _ _ H).
Qed.

Lemma assoc_set_inR : forall R k x its, items_inR R its -> inR R k -> inR R x -> items_inR R (assoc_set k x its).
Proof.
  intros R k x its H Hk Hx. induction H as [|[k' v'] t [A B] Ht IH]; simpl.
  - constructor; [split; assumption|constructor].
  - destruct (val_eqb k k'); constructor; auto; split; auto.
Qed.

Lemma rinv_set_field : forall R st0 st v k x,
  rinv R st0 st -> inR (RN R (length st0) (length st)) v -> inR (RN R (length st0) (length st)) k ->
  inR (RN R (length st0) (length st)) x -> rinv R st0 (set_field st v k x).
Proof.
  intros. unfold set_field. apply rinv_set_items; auto. apply assoc_set_inR; auto. apply r_items_of; auto.
Qed.

Lemma rinv_append_item : forall R st0 st v x,
  rinv R st0 st -> inR (RN R (length st0) (length st)) v -> inR (RN R (length st0) (length st)) x ->
  rinv R st0 (append_item st v x).
Proof.
  intros. unfold append_item. apply rinv_set_items; auto. unfold items_inR. apply Forall_app.
  split; [apply r_items_of; auto|]. constructor; [split; [exact I|assumption]|constructor].
Qed.

(* an allocation-only extension (build) keeps the region invariant; what it allocated belongs to the region *)
Lemma rinv_ext : forall R st0 st st',
  rinv R st0 st -> inv st st' -> rinv R st0 st'.
Proof.
  intros R st0 st st' H [Ha Hl Hc]. pose proof (r_len _ _ _ H) as L0. constructor.
  - intros l Hl' Hn. rewrite Ha by lia. apply (r_frame _ _ _ H); auto.
  - lia.
  - intros l o HR Hg. destruct (Nat.lt_ge_cases l (length st)) as [Hlt|Hge].
    + rewrite Ha in Hg by assumption.
      assert (HR' : RN R (length st0) (length st) l). { destruct HR as [HR|HR]; [left; exact HR|right; lia]. }
      eapply items_inR_RN_mono; [apply (r_closed _ _ _ H l o HR' Hg)|exact Hl].
    + specialize (Hc l o Hge Hg). unfold items_inr, items_inR in *. eapply Forall_impl; [|exact Hc].
      intros kv [A B]. split; [destruct (fst kv)|destruct (snd kv)]; simpl in *; auto; right; lia.
  - apply (r_bound _ _ _ H).
Qed.

Lemma inr_RN : forall R n0 n n' v, inr n n' v -> (n0 <= n)%nat -> inR (RN R n0 n') v.
Proof. intros R n0 n n' [] H Hn; simpl in *; auto. right. lia. Qed.

Lemma vkey_scalar : forall R t, inR R (vkey_of_tree t).
Proof. intros R []; exact I. Qed.

Lemma remove_nth_elem_inR : forall R n its, items_inR R its -> items_inR R (remove_nth_elem n its).
Proof.
  intros R n its H. revert n. induction H as [|[k x] t AB Ht IH]; intros n; simpl; [constructor|].
  destruct k; try (constructor; [exact AB|apply IH]).
  destruct n; [exact Ht|constructor; [exact AB|apply IH]].
Qed.

(* an edit of the set rooted at s (region R) assigns only inside R and to what it allocates itself *)
Theorem do_edit_rinv : forall c R st s e,
  fix2 c = true -> closedR st R -> boundedR (length st) R -> inR R s -> rinv R st (do_edit c st s e).
Proof.
  intros c R st s e Hc Hcl Hb Hs.
  pose proof (rinv_refl R st Hcl Hb) as H0.
  assert (Hs0 : inR (RN R (length st) (length st)) s).
  { destruct s; simpl in *; auto. left. exact Hs. }
  destruct e as [sel rules|sel k v|li ci f v|li ci node|li ci k v|li ci lay|li ci ni f v|li ci|li ci ni k v]; cbn [do_edit].
  - destruct (build (dflt c) rules st) as [st1 r] eqn:Eb.
    destruct (build_inv c _ st st st1 r Hc (inv_refl st) Eb) as (I1 & L1 & V1).
    pose proof (rinv_ext R st st st1 H0 I1) as H1.
    apply rinv_set_field; auto.
    + apply r_field; auto. eapply inR_RN_mono; eauto.
    + apply vkey_scalar.
    + eapply inr_RN; eauto.
  - destruct (field st (field st s (VInt 2)) (vkey_of_tree sel)) as [| | |l] eqn:Ed; auto.
    apply rinv_set_field; auto; try apply vkey_scalar.
    rewrite <- Ed. apply r_field; auto. apply r_field; auto.
  - apply rinv_set_field; auto; try exact I; try apply vkey_scalar. apply r_the_cap; auto.
  - destruct (build (dflt c) node st) as [st1 n] eqn:Eb.
    destruct (build_inv c _ st st st1 n Hc (inv_refl st) Eb) as (I1 & L1 & V1).
    pose proof (rinv_ext R st st st1 H0 I1) as H1.
    apply rinv_append_item; auto.
    + apply r_field; auto. apply r_the_cap; auto. eapply inR_RN_mono; eauto.
    + eapply inr_RN; eauto.
  - apply rinv_set_field; auto; try apply vkey_scalar. apply r_field; auto. apply r_the_cap; auto.
  - destruct (build (dflt c) lay st) as [st1 l] eqn:Eb.
    destruct (build_inv c _ st st st1 l Hc (inv_refl st) Eb) as (I1 & L1 & V1).
    pose proof (rinv_ext R st st st1 H0 I1) as H1.
    apply rinv_set_field; auto; try exact I.
    + apply r_the_cap; auto. eapply inR_RN_mono; eauto.
    + eapply inr_RN; eauto.
  - destruct (build (dflt c) v st) as [st1 x] eqn:Eb.
    destruct (build_inv c _ st st st1 x Hc (inv_refl st) Eb) as (I1 & L1 & V1).
    pose proof (rinv_ext R st st st1 H0 I1) as H1.
    apply rinv_set_field; auto; try exact I.
    + eapply inR_RN_mono; [|exact L1]. apply nth_mod_P; [|exact I].
      apply r_elems; auto. apply r_field; auto. apply r_the_cap; auto.
    + eapply inr_RN; eauto.
  - set (kv := nth_mod (set_langs st s) li (VNone, VNone)).
    assert (Hkv : inR (RN R (length st) (length st)) (snd kv)).
    { assert (Hl : items_inR (RN R (length st) (length st)) (set_langs st s)).
      { unfold set_langs. apply r_items_of; auto. apply r_field; auto. }
      pose proof (nth_mod_P _ (fun kv => inR (RN R (length st) (length st)) (fst kv) /\
                                        inR (RN R (length st) (length st)) (snd kv))
                            (set_langs st s) li (VNone, VNone) Hl (conj I I)) as [_ B]. exact B. }
    apply rinv_set_items; auto. apply remove_nth_elem_inR. apply r_items_of; auto.
  - set (n := nth_mod (elems st (field st (the_cap st s li ci) (VInt 3))) ni VNone).
    assert (Hn : inR (RN R (length st) (length st)) n).
    { apply nth_mod_P; [|exact I]. apply r_elems; auto. apply r_field; auto. apply r_the_cap; auto. }
    destruct (field st n (VInt 2)) as [| | |l] eqn:Ed; auto.
    apply rinv_set_field; auto; try apply vkey_scalar. rewrite <- Ed. apply r_field; auto.
Qed.

(* ---- the world invariant: every caption set owns a closed region, regions are pairwise disjoint --------------------- *)
Definition disjointRs (Rs : list (loc -> Prop)) : Prop :=
  forall i j Ri Rj l, i <> j -> nth_error Rs i = Some Ri -> nth_error Rs j = Some Rj -> Ri l -> Rj l -> False.

Record regions_ok (st : store) (sets : list val) (Rs : list (loc -> Prop)) : Prop := mkRegs {
  g_roots : Forall2 (fun s R => inR R s) sets Rs;
  g_closed : Forall (closedR st) Rs;
  g_bound : Forall (boundedR (length st)) Rs;
  g_disj : disjointRs Rs
}.

Definition isolated (w : world) : Prop := exists Rs, regions_ok (w_st w) (w_sets w) Rs.

Lemma isolated_world0 : isolated world0.
Proof.
  exists []. constructor; try constructor.
  intros i j Ri Rj l _ H. destruct i; discriminate.
Qed.

Lemma Forall2_nth : forall (A B : Type) (P : A -> B -> Prop) la lb i a,
  Forall2 P la lb -> nth_error la i = Some a -> exists b, nth_error lb i = Some b /\ P a b.
Proof.
  intros A B P la lb i a H. revert i. induction H as [|x y ta tb Hxy Ht IH]; intros i Hi.
  - destruct i; discriminate.
  - destruct i as [|i]; simpl in *.
    + inversion Hi; subst. exists y. auto.
    + apply IH. exact Hi.
Qed.

Lemma Forall_nth : forall (A : Type) (P : A -> Prop) l i a, Forall P l -> nth_error l i = Some a -> P a.
Proof. intros A P l i a H Hi. rewrite Forall_forall in H. apply H. eapply nth_error_In; eauto. Qed.

(* allocation-only steps (build, read, write): every old region keeps its objects *)
Lemma regions_ext : forall st st' sets Rs,
  regions_ok st sets Rs -> inv st st' -> regions_ok st' sets Rs.
Proof.
  intros st st' sets Rs [Hr Hc Hb Hd] [Ha Hl _]. constructor; auto.
  - rewrite Forall_forall in *. intros R HR l o Hl' Hg.
    rewrite Ha in Hg by (apply (Hb R HR); exact Hl'). apply (Hc R HR l o Hl' Hg).
  - eapply Forall_impl; [|exact Hb]. intros R HbR l HR. specialize (HbR l HR). lia.
Qed.

Lemma regions_new : forall st st' sets Rs s,
  regions_ok st sets Rs -> inv st st' -> inr (length st) (length st') s ->
  regions_ok st' (sets ++ [s]) (Rs ++ [fun l => (length st <= l < length st')%nat]).
Proof.
  intros st st' sets Rs s Hreg Hinv Hs.
  destruct (regions_ext st st' sets Rs Hreg Hinv) as [Hr Hc Hb Hd].
  destruct Hreg as [_ _ Hb0 _].
  constructor.
  - apply Forall2_app; [exact Hr|]. constructor; [|constructor]. destruct s; simpl in *; auto.
  - apply Forall_app. split; [exact Hc|]. constructor; [|constructor].
    intros l o Hl Hg. pose proof (inv_closed _ _ Hinv l o (proj1 Hl) Hg) as Hi.
    unfold items_inr, items_inR in *. eapply Forall_impl; [|exact Hi].
    intros kv [A B]. split; [destruct (fst kv)|destruct (snd kv)]; simpl in *; auto.
  - apply Forall_app. split; [exact Hb|]. constructor; [|constructor]. intros l Hl. lia.
  - assert (Hlen : length Rs = length sets).
    { clear - Hr. induction Hr; simpl; auto. }
    intros i j Ri Rj l Hij Hi Hj HRi HRj.
    assert (Hold : forall k Rk, nth_error (Rs ++ [fun l => (length st <= l < length st')%nat]) k = Some Rk ->
                   (k < length Rs)%nat -> Rk l -> (l < length st)%nat).
    { intros k Rk Hk Hlt HRk. rewrite nth_error_app1 in Hk by assumption.
      apply (Forall_nth _ _ _ _ _ Hb0 Hk l HRk). }
    assert (Hnew : forall k Rk, nth_error (Rs ++ [fun l => (length st <= l < length st')%nat]) k = Some Rk ->
                   (length Rs <= k)%nat -> Rk l -> (length st <= l)%nat /\ k = length Rs).
    { intros k Rk Hk Hge HRk. rewrite nth_error_app2 in Hk by assumption.
      destruct (k - length Rs)%nat as [|m] eqn:Em; simpl in Hk.
      - inversion Hk; subst. split; [lia|lia].
      - destruct m; discriminate. }
    destruct (Nat.lt_ge_cases i (length Rs)) as [Hi'|Hi'];
      destruct (Nat.lt_ge_cases j (length Rs)) as [Hj'|Hj'].
    + rewrite nth_error_app1 in Hi, Hj by assumption. eapply Hd; eauto.
    + pose proof (Hold i Ri Hi Hi' HRi). destruct (Hnew j Rj Hj Hj' HRj). lia.
    + pose proof (Hold j Rj Hj Hj' HRj). destruct (Hnew i Ri Hi Hi' HRi). lia.
    + destruct (Hnew i Ri Hi Hi' HRi). destruct (Hnew j Rj Hj Hj' HRj). lia.
Qed.

Fixpoint replace_nth {A : Type} (n : nat) (x : A) (l : list A) : list A :=
  match l, n with
  | [], _ => []
  | _ :: t, O => x :: t
  | y :: t, S m => y :: replace_nth m x t
  end.

Lemma nth_replace_same : forall (A : Type) n (x : A) l, (n < length l)%nat -> nth_error (replace_nth n x l) n = Some x.
Proof. intros A n x l. revert n. induction l; intros [|n] H; simpl in *; try lia; auto. apply IHl. lia. Qed.

Lemma nth_replace_other : forall (A : Type) n m (x : A) l, n <> m -> nth_error (replace_nth n x l) m = nth_error l m.
Proof.
  intros A n m x l. revert n m. induction l; intros [|n] [|m] H; simpl; auto; try congruence.
Qed.

Lemma Forall_replace : forall (A : Type) (P : A -> Prop) n x l, Forall P l -> P x -> Forall P (replace_nth n x l).
Proof.
  intros A P n x l H Hx. revert n. induction H; intros [|n]; simpl; auto.
Qed.

Lemma Forall2_replace_r : forall (A B : Type) (P : A -> B -> Prop) la lb n a y,
  Forall2 P la lb -> nth_error la n = Some a -> P a y -> Forall2 P la (replace_nth n y lb).
Proof.
  intros A B P la lb n a y H. revert n. induction H; intros [|n] Hn Hp; simpl in *; try discriminate.
  - inversion Hn; subst. constructor; auto.
  - constructor; auto.
Qed.

(* an edit of set j: its region grows by what the edit allocated, every other region keeps its objects *)
Lemma regions_edit : forall c st sets Rs j s e,
  fix2 c = true -> regions_ok st sets Rs -> nth_error sets j = Some s ->
  exists R, nth_error Rs j = Some R /\
    rinv R st (do_edit c st s e) /\
    regions_ok (do_edit c st s e) sets
               (replace_nth j (RN R (length st) (length (do_edit c st s e))) Rs).
Proof.
  intros c st sets Rs j s e Hc [Hr Hcl Hb Hd] Hj.
  destruct (Forall2_nth _ _ _ _ _ _ _ Hr Hj) as (R & HR & HsR).
  exists R. split; [exact HR|].
  pose proof (do_edit_rinv c R st s e Hc (Forall_nth _ _ _ _ _ Hcl HR) (Forall_nth _ _ _ _ _ Hb HR) HsR) as Hri.
  split; [exact Hri|].
  set (st' := do_edit c st s e) in *.
  assert (Hjlt : (j < length Rs)%nat) by (apply nth_error_Some; congruence).
  assert (Hframe : forall k Rk l, k <> j -> nth_error Rs k = Some Rk -> Rk l -> get st' l = get st l).
  { intros k Rk l Hk HRk Hl. apply (r_frame _ _ _ Hri).
    - apply (Forall_nth _ _ _ _ _ Hb HRk l Hl).
    - intros HRl. eapply (Hd k j Rk R l); eauto. }
  constructor.
  - eapply Forall2_replace_r; eauto. destruct s; simpl in *; auto. left. exact HsR.
  - (* closed *)
    apply Forall_forall. intros Rk Hin. apply In_nth_error in Hin. destruct Hin as [k Hk].
    destruct (Nat.eq_dec k j) as [->|Hne].
    + rewrite nth_replace_same in Hk by assumption. inversion Hk; subst. apply (r_closed _ _ _ Hri).
    + rewrite nth_replace_other in Hk by auto.
      intros l o Hl Hg. rewrite (Hframe k Rk l Hne Hk Hl) in Hg.
      apply (Forall_nth _ _ _ _ _ Hcl Hk l o Hl Hg).
  - apply Forall_forall. intros Rk Hin. apply In_nth_error in Hin. destruct Hin as [k Hk].
    destruct (Nat.eq_dec k j) as [->|Hne].
    + rewrite nth_replace_same in Hk by assumption. inversion Hk; subst. intros l Hl. eapply RN_lt; eauto.
    + rewrite nth_replace_other in Hk by auto. intros l Hl.
      pose proof (Forall_nth _ _ _ _ _ Hb Hk l Hl). pose proof (r_len _ _ _ Hri). lia.
  - intros a b Ra Rb l Hab Ha Hb' HRa HRb.
    destruct (Nat.eq_dec a j) as [->|Haj]; destruct (Nat.eq_dec b j) as [->|Hbj]; try congruence.
    + rewrite nth_replace_same in Ha by assumption. rewrite nth_replace_other in Hb' by auto. inversion Ha; subst.
      destruct HRa as [HRa|HRa]; [eapply (Hd j b R Rb l); eauto|].
      pose proof (Forall_nth _ _ _ _ _ Hb Hb' l HRb). lia.
    + rewrite nth_replace_same in Hb' by assumption. rewrite nth_replace_other in Ha by auto. inversion Hb'; subst.
      destruct HRb as [HRb|HRb]; [eapply (Hd a j Ra R l); eauto|].
      pose proof (Forall_nth _ _ _ _ _ Hb Ha l HRa). lia.
    + rewrite nth_replace_other in Ha, Hb' by auto. eapply (Hd a b); eauto.
Qed.

(* ---- one step of a history, any operation (after the repairs) ---------------------------------------------------------- *)
Definition repaired (c : cfg) : Prop := fix2 c = true /\ fix3 c = true.

Definition edits_set (o : op) (k : nat) : Prop := match o with OEdit j _ => j = k | _ => False end.

Lemma snap_regions_frame : forall st st' sets Rs k sk R,
  regions_ok st sets Rs -> nth_error sets k = Some sk -> nth_error Rs k = Some R ->
  (forall l, R l -> get st' l = get st l) -> forall n, snap n st' sk = snap n st sk.
Proof.
  intros st st' sets Rs k sk R [Hr Hc Hb Hd] Hk HR Hf n.
  destruct (Forall2_nth _ _ _ _ _ _ _ Hr Hk) as (R' & HR' & Hs). rewrite HR in HR'. inversion HR'; subst R'.
  apply (snap_region st st' R); auto. apply (Forall_nth _ _ _ _ _ Hc HR).
Qed.

Theorem step_isolated : forall c w o,
  repaired c -> isolated w ->
  let w' := fst (step c w o) in
  isolated w' /\
  (forall k sk, nth_error (w_sets w) k = Some sk -> ~ edits_set o k ->
                nth_error (w_sets w') k = Some sk /\ forall n, snap n (w_st w') sk = snap n (w_st w) sk).
Proof.
  intros c w o [Hc2 Hc3] [Rs Hreg]. cbv zeta. destruct o as [t|rid rk t|wid k wo si|si e]; unfold step.
  - (* build *)
    destruct (build (dflt c) t (w_st w)) as [st1 s] eqn:Eb. cbn [fst w_st w_sets].
    destruct (build_inv c t (w_st w) (w_st w) st1 s Hc2 (inv_refl _) Eb) as (I1 & L1 & V1).
    split; [eexists; apply regions_new; eauto|].
    intros k sk Hk _. split; [rewrite nth_error_app1; auto; apply nth_error_Some; congruence|].
    destruct (Forall2_nth _ _ _ _ _ _ _ (g_roots _ _ _ Hreg) Hk) as (R & HR & _).
    eapply snap_regions_frame; eauto. intros l Hl. apply (inv_agree _ _ I1).
    apply (Forall_nth _ _ _ _ _ (g_bound _ _ _ Hreg) HR l Hl).
  - (* read *)
    set (ri := match lookup rid (w_readers w) with Some r => r | None => rinst0 end).
    destruct (read c rk ri t (w_st w)) as [[st1 ri1] s] eqn:Er. cbn [fst w_st w_sets].
    destruct (read_inv c rk ri t (w_st w) st1 ri1 s Hc2 Hc3 Er) as (I1 & V1).
    split; [eexists; apply regions_new; eauto|].
    intros k sk Hk _. split; [rewrite nth_error_app1; auto; apply nth_error_Some; congruence|].
    destruct (Forall2_nth _ _ _ _ _ _ _ (g_roots _ _ _ Hreg) Hk) as (R & HR & _).
    eapply snap_regions_frame; eauto. intros l Hl. apply (inv_agree _ _ I1).
    apply (Forall_nth _ _ _ _ _ (g_bound _ _ _ Hreg) HR l Hl).
  - (* write *)
    destruct (nth_error (w_sets w) si) as [s|] eqn:Es; cbn [fst w_st w_sets].
    + set (wi := match lookup wid (w_writers w) with Some x => x | None => winst0 end).
      pose proof (write_inv c k wo wi (w_st w) s) as I1.
      split; [eexists; eapply regions_ext; eauto|].
      intros k0 sk Hk _. split; [exact Hk|].
      destruct (Forall2_nth _ _ _ _ _ _ _ (g_roots _ _ _ Hreg) Hk) as (R & HR & _).
      eapply snap_regions_frame; eauto. intros l Hl. apply (inv_agree _ _ I1).
      apply (Forall_nth _ _ _ _ _ (g_bound _ _ _ Hreg) HR l Hl).
    + split; [exists Rs; exact Hreg|]. intros k0 sk Hk _. split; [exact Hk|reflexivity].
  - (* edit *)
    destruct (nth_error (w_sets w) si) as [s|] eqn:Es; cbn [fst w_st w_sets].
    + destruct (regions_edit c (w_st w) (w_sets w) Rs si s e Hc2 Hreg Es) as (R & HR & Hri & Hreg').
      split; [eexists; exact Hreg'|].
      intros k sk Hk Hne. split; [exact Hk|]. simpl in Hne.
      destruct (Forall2_nth _ _ _ _ _ _ _ (g_roots _ _ _ Hreg) Hk) as (Rk & HRk & _).
      eapply snap_regions_frame; eauto. intros l Hl. apply (r_frame _ _ _ Hri).
      * apply (Forall_nth _ _ _ _ _ (g_bound _ _ _ Hreg) HRk l Hl).
      * intros HRl. eapply (g_disj _ _ _ Hreg k si Rk R l); eauto.
    + split; [exists Rs; exact Hreg|]. intros k0 sk Hk _. split; [exact Hk|reflexivity].
Qed.

(* the invariant holds after ANY history of reads, builds, writes and edits *)
Theorem history_isolated : forall c ops w, repaired c -> isolated w -> isolated (run_world c w ops).
Proof.
  intros c ops. induction ops as [|o t IH]; intros w Hc Hw; simpl; auto.
  apply IH; auto. apply (step_isolated c w o Hc Hw).
Qed.

(* C10: an edit of set j never changes set k <> j, in any world reachable by any history *)
Theorem edits_isolated : forall c ops j k e sk,
  repaired c -> j <> k ->
  let w := run_world c world0 ops in
  nth_error (w_sets w) k = Some sk ->
  forall n, snap n (w_st (fst (step c w (OEdit j e)))) sk = snap n (w_st w) sk.
Proof.
  intros c ops j k e sk Hc Hjk w Hk n.
  assert (Hw : isolated w) by (apply history_isolated; auto; apply isolated_world0).
  destruct (step_isolated c w (OEdit j e) Hc Hw) as [_ H].
  apply (H k sk Hk). simpl. exact Hjk.
Qed.

(* C10: reads, builds and writes never change a set that exists already *)
Theorem creation_and_writes_preserve_sets : forall c ops o k sk,
  repaired c -> (match o with OEdit _ _ => False | _ => True end) ->
  let w := run_world c world0 ops in
  nth_error (w_sets w) k = Some sk ->
  forall n, snap n (w_st (fst (step c w o))) sk = snap n (w_st w) sk.
Proof.
  intros c ops o k sk Hc Ho w Hk n.
  assert (Hw : isolated w) by (apply history_isolated; auto; apply isolated_world0).
  destruct (step_isolated c w o Hc Hw) as [_ H].
  apply (H k sk Hk). destruct o; simpl; auto.
Qed.

(* C10: the mutable footprints of two different sets are disjoint (the model's aliasing observer says "no") *)
Lemma reach_fold_region : forall st (R : loc -> Prop) f its a,
  (forall v acc, inR R v -> Forall R acc -> Forall R (reach f st v acc)) ->
  items_inR R its -> Forall R a ->
  Forall R (fold_left (fun a kv => reach f st (snd kv) (reach f st (fst kv) a)) its a).
Proof.
  intros st R f its a IH Hi. revert a. unfold items_inR in Hi.
  induction its as [|[k x] t IHt]; intros a Ha; simpl; auto.
  inversion Hi as [|? ? [A B] Ht]; subst. cbn [fst snd] in *.
  apply IHt; auto.
Qed.

Lemma reach_in_region : forall st R fuel v acc,
  closedR st R -> inR R v -> Forall R acc -> Forall R (reach fuel st v acc).
Proof.
  intros st R fuel. induction fuel as [|f IH]; intros v acc Hc Hv Hacc.
  - destruct v as [| | |l]; simpl; auto. destruct (mem_loc l acc); auto.
  - destruct v as [| | |l]; simpl; auto. destruct (mem_loc l acc); auto.
    simpl in Hv.
    assert (Hi : items_inR R (items_of st (VLoc l))).
    { simpl. destruct (get st l) as [o|] eqn:Hg; [apply (Hc l o Hv Hg)|constructor]. }
    apply reach_fold_region; auto.
Qed.

Lemma mem_loc_In : forall l ls, mem_loc l ls = true -> In l ls.
Proof.
  intros l ls. induction ls as [|x t IH]; simpl; [discriminate|].
  intros H. apply orb_true_iff in H. destruct H as [H|H]; [left; apply Nat.eqb_eq in H; auto|right; auto].
Qed.

Theorem sets_disjoint : forall c ops i j si sj n,
  repaired c -> i <> j ->
  let w := run_world c world0 ops in
  nth_error (w_sets w) i = Some si -> nth_error (w_sets w) j = Some sj ->
  shares n (w_st w) si sj = false.
Proof.
  intros c ops i j si sj n Hc Hij w Hi Hj.
  assert (Hw : isolated w) by (apply history_isolated; auto; apply isolated_world0).
  destruct Hw as [Rs [Hr Hcl Hb Hd]].
  destruct (Forall2_nth _ _ _ _ _ _ _ Hr Hi) as (Ri & HRi & Hsi).
  destruct (Forall2_nth _ _ _ _ _ _ _ Hr Hj) as (Rj & HRj & Hsj).
  unfold shares. destruct (existsb _ _) eqn:E; auto. exfalso.
  apply existsb_exists in E. destruct E as (l & Hin & Hm). apply mem_loc_In in Hm.
  pose proof (reach_in_region (w_st w) Ri n si [] (Forall_nth _ _ _ _ _ Hcl HRi) Hsi (Forall_nil _)) as Fi.
  pose proof (reach_in_region (w_st w) Rj n sj [] (Forall_nth _ _ _ _ _ Hcl HRj) Hsj (Forall_nil _)) as Fj.
  rewrite Forall_forall in Fi, Fj. eapply (Hd i j Ri Rj l); eauto.
Qed.

(* ---- what a read returns is a function of (reader kind, document) ------------------------------------------------------ *)
(* with fix3 the reader object's state is not consulted at all: fresh object = reused object, exactly *)
Theorem read_reader_independent : forall c rk ri1 ri2 t st,
  fix3 c = true -> read c rk ri1 t st = read c rk ri2 t st.
Proof. intros c rk ri1 ri2 t st H. unfold read. rewrite H. reflexivity. Qed.

(* the snapshot of a freshly built structure: the construction tree itself (defaults -> {}), cut at depth n *)
Fixpoint clean_trunc (n : nat) (t : tree) : tree :=
  match t with
  | TNode k items =>
      match n with
      | O => TCut
      | S m =>
          if (k =? KDefault)%Z then TNode KDict []
          else TNode k ((fix go (l : list (tree * tree)) : list (tree * tree) :=
                           match l with [] => [] | (a, b) :: r => (clean_trunc m a, clean_trunc m b) :: go r end) items)
      end
  | TCut => TNone
  | x => x
  end.

Definition ct_items (m : nat) (l : list (tree * tree)) : list (tree * tree) :=
  (fix go (l : list (tree * tree)) : list (tree * tree) :=
     match l with [] => [] | (a, b) :: r => (clean_trunc m a, clean_trunc m b) :: go r end) l.

Lemma ct_items_cons : forall m a b r, ct_items m ((a, b) :: r) = (clean_trunc m a, clean_trunc m b) :: ct_items m r.
Proof. reflexivity. Qed.

Lemma clean_trunc_node : forall m k items,
  clean_trunc (S m) (TNode k items) = if (k =? KDefault)%Z then TNode KDict [] else TNode k (ct_items m items).
Proof. reflexivity. Qed.

(* store extension: everything that existed is still there, unchanged *)
Definition ext (st st' : store) : Prop := agree_below (length st) st st' /\ (length st <= length st')%nat.

Lemma ext_refl : forall st, ext st st.
Proof. intros st. split; [intros l _; reflexivity|lia]. Qed.

Lemma ext_trans : forall a b c, ext a b -> ext b c -> ext a c.
Proof.
  intros a b c [A1 L1] [A2 L2]. split; [|lia]. intros l Hl. rewrite A2 by lia. apply A1. exact Hl.
Qed.

Lemma inv_ext : forall st0 st, inv st0 st -> ext st0 st.
Proof. intros st0 st [A L _]. split; assumption. Qed.

Lemma ext_alloc : forall st o, ext st (st ++ [o]).
Proof. intros st o. split; [intros l Hl; apply get_app_l; exact Hl|rewrite app_length; lia]. Qed.

(* a value built in st1 keeps its snapshot when the store is extended afterwards *)
Lemma snap_built_stable : forall st0 st1 st2 v n,
  inv st0 st1 -> ext st1 st2 -> inr (length st0) (length st1) v -> snap n st2 v = snap n st1 v.
Proof.
  intros st0 st1 st2 v n I1 [A2 L2] Hv.
  apply (snap_region st1 st2 (fun l => (length st0 <= l < length st1)%nat)).
  - intros l o Hl Hg. pose proof (inv_closed _ _ I1 l o (proj1 Hl) Hg) as Hi.
    unfold items_inr, items_inR in *. eapply Forall_impl; [|exact Hi].
    intros kv [A B]. split; [destruct (fst kv)|destruct (snd kv)]; simpl in *; auto.
  - intros l Hl. apply A2. lia.
  - destruct v; simpl in *; auto.
Qed.

Lemma snap_new_obj : forall st k its st' v n,
  new_obj st k its = (st', v) ->
  snap (S n) st' v = TNode k (map (fun kv => (snap n st' (fst kv), snap n st' (snd kv))) its).
Proof.
  intros st k its st' v n H. unfold new_obj, alloc in H. inversion H; subst.
  cbn [snap]. rewrite get_app_new. reflexivity.
Qed.

Lemma build_ext : forall c t st st' v, fix2 c = true -> build (dflt c) t st = (st', v) -> ext st st'.
Proof.
  intros c t st st' v Hc H. destruct (build_inv c t st st st' v Hc (inv_refl _) H) as (I & _ & _).
  apply inv_ext. exact I.
Qed.

Lemma snap_build_n : forall c, fix2 c = true ->
  forall m t st st' v n, (tsize t <= m)%nat -> build (dflt c) t st = (st', v) ->
  snap n st' v = clean_trunc n t.
Proof.
  intros c Hc. induction m as [|m IH]; intros t st st' v n Hm H.
  - destruct t; simpl in Hm; lia.
  - destruct t as [z|s| |k items|]; try (simpl in H; inversion H; subst; destruct n; reflexivity).
    rewrite build_node in H. destruct n as [|n].
    { destruct (k =? KDefault)%Z.
      - unfold dflt in H. rewrite Hc in H. unfold new_obj, alloc in H. inversion H; subst. reflexivity.
      - destruct (build_go (dflt c) items st) as [st1 its]. unfold new_obj, alloc in H. inversion H; subst. reflexivity. }
    rewrite clean_trunc_node. destruct (k =? KDefault)%Z.
    + unfold dflt in H. rewrite Hc in H. rewrite (snap_new_obj _ _ _ _ _ n H). reflexivity.
    + rewrite tsize_node in Hm.
      assert (Hgo : forall l sa sb its, (isize l <= m)%nat -> build_go (dflt c) l sa = (sb, its) ->
                    ext sa sb /\
                    forall sc, ext sb sc ->
                      map (fun kv => (snap n sc (fst kv), snap n sc (snd kv))) its = ct_items n l).
      { induction l as [|[a b] r IHl]; intros sa sb its Hs Hb.
        - simpl in Hb. inversion Hb; subst. split; [apply ext_refl|]. intros; reflexivity.
        - rewrite isize_cons in Hs. cbn [build_go] in Hb.
          destruct (build (dflt c) a sa) as [s1 a'] eqn:Ea.
          destruct (build (dflt c) b s1) as [s2 b'] eqn:Eb.
          destruct (build_go (dflt c) r s2) as [s3 r'] eqn:Er.
          inversion Hb; subst. clear Hb.
          destruct (build_inv c a sa sa s1 a' Hc (inv_refl _) Ea) as (I1 & L1 & V1).
          destruct (build_inv c b s1 s1 s2 b' Hc (inv_refl _) Eb) as (I2 & L2 & V2).
          destruct (IHl s2 sb r' ltac:(lia) Er) as (X3 & Hr).
          pose proof (inv_ext _ _ I1) as X1. pose proof (inv_ext _ _ I2) as X2.
          split; [eapply ext_trans; [exact X1|eapply ext_trans; eauto]|].
          intros sc Xc. cbn [map fst snd]. rewrite ct_items_cons. f_equal.
          * f_equal.
            -- rewrite (snap_built_stable sa s1 sc a' n I1); auto.
               ++ apply (IH a sa s1 a' n ltac:(lia) Ea).
               ++ eapply ext_trans; [exact X2|eapply ext_trans; eauto].
            -- rewrite (snap_built_stable s1 s2 sc b' n I2); auto.
               ++ apply (IH b s1 s2 b' n ltac:(lia) Eb).
               ++ eapply ext_trans; eauto.
          * apply Hr. exact Xc. }
      destruct (build_go (dflt c) items st) as [st1 its] eqn:Eg.
      destruct (Hgo items st st1 its ltac:(lia) Eg) as (X1 & Hits).
      rewrite (snap_new_obj _ _ _ _ _ n H). f_equal. apply Hits.
      unfold new_obj, alloc in H. inversion H; subst. apply ext_alloc.
Qed.

Theorem snap_build : forall c t st st' v n,
  fix2 c = true -> build (dflt c) t st = (st', v) -> snap n st' v = clean_trunc n t.
Proof. intros c t st st' v n Hc. apply (snap_build_n c Hc (tsize t)). lia. Qed.

(* MODEL-ONLY: for the five build-based reader models the snapshot of the result (up to the depth to which the sharing
   pass compares snapshots) is clean_trunc of the given result tree with the sharing markers resolved: it does not
   depend on the store nor on the reader object *)
Theorem read_result_function_of_document_partial : forall c rk ri t st st' ri' s n,
  fix2 c = true -> (rk =? R_SCC)%Z = false -> (n <= S FUEL)%nat -> read c rk ri t st = (st', ri', s) ->
  snap n st' s = clean_trunc n (unshare (mark_defaults rk t)).
Proof.
  intros c rk ri t st st' ri' s n Hc Hk Hn H. unfold read in H. rewrite Hk in H. cbv zeta in H.
  destruct (build (dflt c) (unshare (mark_defaults rk t)) st) as [st1 s1] eqn:Eb.
  destruct (build_inv c _ st st st1 s1 Hc (inv_refl st) Eb) as (I1 & L1 & V1).
  destruct (share_set_ok st st1 s1 (mark_defaults rk t) I1 V1) as (_ & _ & S2).
  inversion H; subst. rewrite S2 by exact Hn. eapply snap_build; eauto.
Qed.

(* ---- every operation keeps the store well formed (needed to chain the write theorems through ANY history) ---------- *)
Lemma items_of_below : forall st v, wf st -> items_below (length st) (items_of st v).
Proof.
  intros st v Hwf. destruct v as [| | |l]; simpl; try constructor.
  destruct (get st l) as [o|] eqn:Hg; [apply (Hwf l o Hg)|constructor].
Qed.

Lemma assoc_below : forall n k its x, items_below n its -> assoc k its = Some x -> below n x.
Proof.
  intros n k its x H. induction H as [|[k' v'] t [A B] Ht IH]; simpl; [discriminate|].
  destruct (val_eqb k k'); [intros E; inversion E; subst; exact B|exact IH].
Qed.

Lemma field_below : forall st v k, wf st -> below (length st) (field st v k).
Proof.
  intros st v k Hwf. unfold field. destruct (assoc k (items_of st v)) as [x|] eqn:E; [|exact I].
  eapply assoc_below; [apply items_of_below; auto|exact E].
Qed.

Lemma elems_below : forall st v, wf st -> Forall (below (length st)) (elems st v).
Proof.
  intros st v Hwf. unfold elems. pose proof (items_of_below st v Hwf) as H. unfold items_below in H.
  induction H as [|[k x] t [A B] Ht IH]; simpl; [constructor|]. destruct k; simpl; auto.
Qed.

Lemma the_cap_below : forall st s li ci, wf st -> below (length st) (the_cap st s li ci).
Proof.
  intros st s li ci Hwf. unfold the_cap. apply nth_mod_P; [|exact I]. apply elems_below; auto.
Qed.

Lemma wf_set_items : forall st v its, wf st -> items_below (length st) its -> wf (set_items st v its).
Proof.
  intros st v its Hwf Hits. unfold set_items. destruct v as [| | |l]; auto.
  destruct (get st l) as [o|] eqn:Hg; auto. intros l' o' Hg'. rewrite length_upd.
  destruct (Nat.eq_dec l l') as [->|Hne].
  - rewrite get_upd_same in Hg' by (eapply get_some_lt; eauto). inversion Hg'; subst. exact Hits.
  - rewrite get_upd_other in Hg' by assumption. apply (Hwf l' o' Hg').
Qed.

Lemma assoc_set_below : forall n k x its, items_below n its -> below n k -> below n x -> items_below n (assoc_set k x its).
Proof.
  intros n k x its H Hk Hx. induction H as [|[k' v'] t [A B] Ht IH]; simpl.
  - constructor; [split; assumption|constructor].
  - destruct (val_eqb k k'); constructor; auto; split; auto.
Qed.

Lemma wf_set_field : forall st v k x, wf st -> below (length st) k -> below (length st) x -> wf (set_field st v k x).
Proof.
  intros. unfold set_field. apply wf_set_items; auto. apply assoc_set_below; auto. apply items_of_below; auto.
Qed.

Lemma vkey_below : forall n t, below n (vkey_of_tree t).
Proof. intros n []; exact I. Qed.

Lemma remove_nth_elem_below : forall n k its, items_below n its -> items_below n (remove_nth_elem k its).
Proof.
  intros n k its H. revert k. induction H as [|[a x] t AB Ht IH]; intros k; simpl; [constructor|].
  destruct a; try (constructor; [exact AB|apply IH]). destruct k; [exact Ht|constructor; [exact AB|apply IH]].
Qed.

Lemma build_wf : forall c t st st' v,
  fix2 c = true -> wf st -> build (dflt c) t st = (st', v) ->
  wf st' /\ (length st <= length st')%nat /\ below (length st') v.
Proof.
  intros c t st st' v Hc Hwf H.
  destruct (build_inv c t st st st' v Hc (inv_refl _) H) as (I1 & L1 & V1).
  split; [eapply inv_wf; eauto|]. split; [exact L1|]. eapply inr_below; eauto.
Qed.

Theorem do_edit_wf : forall c st s e,
  fix2 c = true -> wf st -> wf (do_edit c st s e) /\ (length st <= length (do_edit c st s e))%nat.
Proof.
  intros c st s e Hc Hwf.
  destruct e as [sel rules|sel k v|li ci f v|li ci node|li ci k v|li ci lay|li ci ni f v|li ci|li ci ni k v]; cbn [do_edit].
  - destruct (build (dflt c) rules st) as [st1 r] eqn:Eb.
    destruct (build_wf c _ _ _ _ Hc Hwf Eb) as (W1 & L1 & V1).
    split; [apply wf_set_field; auto; apply vkey_below|rewrite length_set_field; exact L1].
  - destruct (field st (field st s (VInt 2)) (vkey_of_tree sel)); try (split; [assumption|lia]).
    split; [apply wf_set_field; auto; apply vkey_below|rewrite length_set_field; lia].
  - split; [apply wf_set_field; auto; [exact I|apply vkey_below]|rewrite length_set_field; lia].
  - destruct (build (dflt c) node st) as [st1 n] eqn:Eb.
    destruct (build_wf c _ _ _ _ Hc Hwf Eb) as (W1 & L1 & V1).
    split; [|rewrite length_append_item; exact L1].
    unfold append_item. apply wf_set_items; auto. unfold items_below. apply Forall_app.
    split; [apply items_of_below; auto|]. constructor; [split; [exact I|exact V1]|constructor].
  - split; [apply wf_set_field; auto; apply vkey_below|rewrite length_set_field; lia].
  - destruct (build (dflt c) lay st) as [st1 l] eqn:Eb.
    destruct (build_wf c _ _ _ _ Hc Hwf Eb) as (W1 & L1 & V1).
    split; [apply wf_set_field; auto; exact I|rewrite length_set_field; exact L1].
  - destruct (build (dflt c) v st) as [st1 x] eqn:Eb.
    destruct (build_wf c _ _ _ _ Hc Hwf Eb) as (W1 & L1 & V1).
    split; [apply wf_set_field; auto; exact I|rewrite length_set_field; exact L1].
  - split; [|rewrite length_set_items; lia]. apply wf_set_items; auto.
    apply remove_nth_elem_below. apply items_of_below; auto.
  - destruct (field st (nth_mod (elems st (field st (the_cap st s li ci) (VInt 3))) ni VNone) (VInt 2));
      try (split; [assumption|lia]).
    split; [apply wf_set_field; auto; apply vkey_below|rewrite length_set_field; lia].
Qed.

(* one step, any operation, keeps the world well formed (after the repairs) *)
Theorem step_wf_world : forall c w o, repaired c -> wf_world w -> wf_world (fst (step c w o)).
Proof.
  intros c w o [Hc2 Hc3] [Hwf Hsets]. destruct o as [t|rid rk t|wid k wo si|si e]; unfold step.
  - destruct (build (dflt c) t (w_st w)) as [st1 s] eqn:Eb. cbn [fst].
    destruct (build_wf c _ _ _ _ Hc2 Hwf Eb) as (W1 & L1 & V1).
    split; cbn [w_st w_sets]; [exact W1|]. apply Forall_app. split; [|constructor; [exact V1|constructor]].
    eapply Forall_impl; [|exact Hsets]. intros v Hv. eapply below_mono; eauto.
  - set (ri := match lookup rid (w_readers w) with Some r => r | None => rinst0 end).
    destruct (read c rk ri t (w_st w)) as [[st1 ri1] s] eqn:Er. cbn [fst].
    destruct (read_inv c rk ri t (w_st w) st1 ri1 s Hc2 Hc3 Er) as (I1 & V1).
    split; cbn [w_st w_sets]; [eapply inv_wf; eauto|]. apply Forall_app. split.
    + eapply Forall_impl; [|exact Hsets]. intros v Hv. eapply below_mono; [exact Hv|apply (inv_len _ _ I1)].
    + constructor; [eapply inr_below; eauto|constructor].
  - apply (step_write_preserves c w wid k wo si (conj Hwf Hsets)).
  - destruct (nth_error (w_sets w) si) as [s|]; cbn [fst]; [|split; assumption].
    destruct (do_edit_wf c (w_st w) s e Hc2 Hwf) as [W1 L1]. split; cbn [w_st w_sets]; [exact W1|].
    eapply Forall_impl; [|exact Hsets]. intros v Hv. eapply below_mono; eauto.
Qed.

Theorem history_wf_world : forall c ops w, repaired c -> wf_world w -> wf_world (run_world c w ops).
Proof.
  intros c ops. induction ops as [|o t IH]; intros w Hc Hw; simpl; auto. apply IH; auto. apply step_wf_world; auto.
Qed.

(* C09 through ANY history: after arbitrary reads, builds, edits and writes, a write changes no set *)
Theorem write_after_any_history_preserves : forall c ops wid k o si,
  repaired c ->
  let w := run_world c world0 ops in
  let w' := fst (step c w (OWrite wid k o si)) in
  w_sets w' = w_sets w /\ forall fuel, map (snap fuel (w_st w')) (w_sets w) = map (snap fuel (w_st w)) (w_sets w).
Proof.
  intros c ops wid k o si Hc w w'.
  assert (Hw : wf_world w) by (apply history_wf_world; auto; apply wf_world0).
  destruct (step_write_preserves c w wid k o si Hw) as (_ & S & P). split; [exact S|].
  intros fuel. apply map_ext_in. intros v Hv. apply P. destruct Hw as [_ Hs]. rewrite Forall_forall in Hs. auto.
Qed.
