(* C03 (wave 7): xml.sax.saxutils.quoteattr round trip through the strict XML parser, for EVERY string over XML Char,
   and the start tags the DFXP writers assemble from a style dictionary WITH a colour:
     quoteattr s = q ++ body ++ q, q a double or a single quote, q and the less-than sign do not occur in body, and the
     attribute value reading of the strict parser (references decoded, literal white space normalised) of body is exactly s;
   the tokenizer in tag mode walks over a quoted value; parse_attrs reads one attribute (key = quote value quote). *)
From Coq Require Import List ZArith Bool Lia ZifyBool.
From PV Require Import lib.Sx lib.Str model.TextNodes model.TextWrite spec.SpecTextXml.
From PV Require Import proofs.TextStrFacts proofs.TextXmlFacts proofs.TextPayloadFacts.
Import ListNotations.
Open Scope Z_scope.

(* ---- quoteattr, per character ---------------------------------------------------------------------------------- *)
Definition qa1 (c : Z) : str :=
  if c =? 38 then lit "&amp;" else if c =? 62 then lit "&gt;" else if c =? 60 then lit "&lt;"
  else if c =? 10 then lit "&#10;" else if c =? 13 then lit "&#13;" else if c =? 9 then lit "&#9;" else [c].
Definition qq1 (c : Z) : str := if c =? 34 then lit "&quot;" else qa1 c.

Definition qa_data (s : str) : str :=
  replace [9] (lit "&#9;") (replace [13] (lit "&#13;") (replace [10] (lit "&#10;") (xml_escape s))).

Lemma qa_data_flat : forall s, qa_data s = flat_map qa1 s.
Proof.
  intros s. unfold qa_data. rewrite xml_escape_flat. unfold xesc. rewrite !replace_single, !flat_map_flat_map.
  apply flat_map_ext_str. intros x. unfold qa1, xesc1.
  destruct (Z.eqb_spec x 38) as [->|H38]; [vm_compute; reflexivity|].
  destruct (Z.eqb_spec x 62) as [->|H62]; [vm_compute; reflexivity|].
  destruct (Z.eqb_spec x 60) as [->|H60]; [vm_compute; reflexivity|].
  cbn [flat_map]. rewrite app_nil_r. unfold subst1 at 3.
  destruct (Z.eqb_spec x 10) as [->|H10]; [vm_compute; reflexivity|].
  cbn [flat_map]. rewrite app_nil_r. unfold subst1 at 2.
  destruct (Z.eqb_spec x 13) as [->|H13]; [vm_compute; reflexivity|].
  cbn [flat_map]. rewrite app_nil_r. unfold subst1.
  destruct (Z.eqb_spec x 9) as [->|H9]; reflexivity.
Qed.

Lemma qq_data_flat : forall s, replace [34] (lit "&quot;") (qa_data s) = flat_map qq1 s.
Proof.
  intros s. rewrite qa_data_flat, replace_single, flat_map_flat_map. apply flat_map_ext_str. intros x.
  unfold qq1, qa1.
  destruct (Z.eqb_spec x 38) as [->|H38]; [vm_compute; reflexivity|].
  destruct (Z.eqb_spec x 62) as [->|H62]; [vm_compute; reflexivity|].
  destruct (Z.eqb_spec x 60) as [->|H60]; [vm_compute; reflexivity|].
  destruct (Z.eqb_spec x 10) as [->|H10]; [vm_compute; reflexivity|].
  destruct (Z.eqb_spec x 13) as [->|H13]; [vm_compute; reflexivity|].
  destruct (Z.eqb_spec x 9) as [->|H9]; [vm_compute; reflexivity|].
  cbn [flat_map]. rewrite app_nil_r. unfold subst1. destruct (x =? 34); reflexivity.
Qed.

(* the quote character and the text between the quotes *)
Definition qa_quote (s : str) : Z :=
  let d := qa_data s in if mem_ch 34 d then if mem_ch 39 d then 34 else 39 else 34.
Definition qa_body (s : str) : str :=
  let d := qa_data s in if mem_ch 34 d then if mem_ch 39 d then flat_map qq1 s else d else d.

Lemma quoteattr_shape : forall s, quoteattr s = [qa_quote s] ++ qa_body s ++ [qa_quote s].
Proof.
  intros s. unfold quoteattr, qa_quote, qa_body. fold (qa_data s). cbv zeta.
  destruct (mem_ch 34 (qa_data s)); [|reflexivity]. destruct (mem_ch 39 (qa_data s)); [|reflexivity].
  rewrite qq_data_flat. reflexivity.
Qed.

Lemma qa_quote_cases : forall s, qa_quote s = 34 \/ qa_quote s = 39.
Proof. intros s. unfold qa_quote. cbv zeta. destruct (mem_ch 34 _); [destruct (mem_ch 39 _)|]; auto. Qed.

Lemma mem_ch_app : forall c a b, mem_ch c (a ++ b) = mem_ch c a || mem_ch c b.
Proof. intros. unfold mem_ch. apply existsb_app. Qed.

Lemma mem_ch_flat_map : forall c (f : Z -> str) s, (forall x, mem_ch c (f x) = false) -> mem_ch c (flat_map f s) = false.
Proof.
  intros c f s H. induction s as [|x s IH]; [reflexivity|]. cbn [flat_map]. rewrite mem_ch_app, H, IH. reflexivity.
Qed.

Lemma qq1_no34 : forall x, mem_ch 34 (qq1 x) = false.
Proof.
  intros x. unfold qq1. destruct (Z.eqb_spec x 34) as [->|H]; [reflexivity|]. unfold qa1.
  destruct (x =? 38); [reflexivity|]. destruct (x =? 62); [reflexivity|]. destruct (x =? 60); [reflexivity|].
  destruct (x =? 10); [reflexivity|]. destruct (x =? 13); [reflexivity|]. destruct (x =? 9); [reflexivity|].
  unfold mem_ch. cbn [existsb]. rewrite orb_false_r. apply Z.eqb_neq. congruence.
Qed.

Lemma qa1_no60 : forall x, mem_ch 60 (qa1 x) = false.
Proof.
  intros x. unfold qa1.
  destruct (x =? 38); [reflexivity|]. destruct (x =? 62); [reflexivity|].
  destruct (Z.eqb_spec x 60) as [->|H]; [reflexivity|].
  destruct (x =? 10); [reflexivity|]. destruct (x =? 13); [reflexivity|]. destruct (x =? 9); [reflexivity|].
  unfold mem_ch. cbn [existsb]. rewrite orb_false_r. apply Z.eqb_neq. congruence.
Qed.
Lemma qq1_no60 : forall x, mem_ch 60 (qq1 x) = false.
Proof. intros x. unfold qq1. destruct (x =? 34); [reflexivity|apply qa1_no60]. Qed.

Lemma qa1_no13 : forall x, no13 (qa1 x) = true.
Proof.
  intros x. unfold qa1.
  destruct (x =? 38); [reflexivity|]. destruct (x =? 62); [reflexivity|]. destruct (x =? 60); [reflexivity|].
  destruct (x =? 10); [reflexivity|]. destruct (Z.eqb_spec x 13) as [->|H]; [reflexivity|]. destruct (x =? 9); [reflexivity|].
  unfold no13. cbn [forallb]. rewrite andb_true_r. apply negb_true_iff, Z.eqb_neq. exact H.
Qed.
Lemma qq1_no13 : forall x, no13 (qq1 x) = true.
Proof. intros x. unfold qq1. destruct (x =? 34); [reflexivity|apply qa1_no13]. Qed.

Lemma no13_flat_map : forall (f : Z -> str) s, (forall x, no13 (f x) = true) -> no13 (flat_map f s) = true.
Proof.
  intros f s H. induction s as [|x s IH]; [reflexivity|]. cbn [flat_map]. unfold no13 in *. rewrite forallb_app, H, IH. reflexivity.
Qed.

Lemma qa_body_no_quote : forall s, mem_ch (qa_quote s) (qa_body s) = false.
Proof.
  intros s. unfold qa_quote, qa_body. cbv zeta.
  destruct (mem_ch 34 (qa_data s)) eqn:E34; [|exact E34].
  destruct (mem_ch 39 (qa_data s)) eqn:E39; [|exact E39].
  apply mem_ch_flat_map. exact qq1_no34.
Qed.

Lemma qa_body_no_lt : forall s, mem_ch 60 (qa_body s) = false.
Proof.
  intros s. unfold qa_body. cbv zeta. rewrite qa_data_flat.
  destruct (mem_ch 34 _); [destruct (mem_ch 39 _)|]; apply mem_ch_flat_map; try exact qa1_no60. exact qq1_no60.
Qed.

Lemma qa_body_no13 : forall s, no13 (qa_body s) = true.
Proof.
  intros s. unfold qa_body. cbv zeta. rewrite qa_data_flat.
  destruct (mem_ch 34 _); [destruct (mem_ch 39 _)|]; apply no13_flat_map; try exact qa1_no13. exact qq1_no13.
Qed.

(* ---- the strict parser's attribute value reading of the quoted body is the string itself ------------------------- *)
Lemma attr_value_plain : forall c t acc, xml_char c = true -> c <> 60 -> c <> 38 -> c <> 13 -> c <> 10 -> c <> 9 ->
  attr_value (c :: t) None acc = attr_value t None (c :: acc).
Proof.
  intros c t acc Hx H60 H38 H13 H10 H9. cbn [attr_value].
  destruct (Z.eqb_spec c 60); [congruence|]. destruct (Z.eqb_spec c 38); [congruence|]. rewrite Hx. cbn [negb].
  destruct (Z.eqb_spec c 13); [congruence|]. destruct (Z.eqb_spec c 10); [congruence|]. destruct (Z.eqb_spec c 9); [congruence|].
  reflexivity.
Qed.

Lemma attr_value_ref_aux : forall name r v t acc, forallb (fun c => negb (c =? 59)) name = true ->
  ref_value (rev r ++ name) = Some v -> attr_value (name ++ 59 :: t) (Some r) acc = attr_value t None (v :: acc).
Proof.
  induction name as [|c name IH]; intros r v t acc Hn Hr.
  - rewrite app_nil_r in Hr. cbn [app attr_value]. change (59 =? 59) with true. cbv iota. rewrite Hr. reflexivity.
  - cbn [forallb] in Hn. apply andb_true_iff in Hn. destruct Hn as [Hc Hn]. cbn [app attr_value].
    apply negb_true_iff in Hc. rewrite Hc. apply IH; [exact Hn|]. cbn [rev]. rewrite <- app_assoc. exact Hr.
Qed.

Lemma attr_value_ref : forall name v t acc, forallb (fun c => negb (c =? 59)) name = true -> ref_value name = Some v ->
  attr_value ((38 :: name ++ [59]) ++ t) None acc = attr_value t None (v :: acc).
Proof.
  intros name v t acc Hn Hr. cbn [app]. rewrite <- app_assoc. cbn [app attr_value].
  change (38 =? 60) with false. change (38 =? 38) with true. cbv iota.
  apply attr_value_ref_aux; assumption.
Qed.

Lemma attr_value_qa1 : forall c t acc, xml_char c = true -> attr_value (qa1 c ++ t) None acc = attr_value t None (c :: acc).
Proof.
  intros c t acc Hx. unfold qa1.
  destruct (Z.eqb_spec c 38) as [->|H38]; [apply (attr_value_ref (lit "amp") 38); reflexivity|].
  destruct (Z.eqb_spec c 62) as [->|H62]; [apply (attr_value_ref (lit "gt") 62); reflexivity|].
  destruct (Z.eqb_spec c 60) as [->|H60]; [apply (attr_value_ref (lit "lt") 60); reflexivity|].
  destruct (Z.eqb_spec c 10) as [->|H10]; [apply (attr_value_ref (lit "#10") 10); reflexivity|].
  destruct (Z.eqb_spec c 13) as [->|H13]; [apply (attr_value_ref (lit "#13") 13); reflexivity|].
  destruct (Z.eqb_spec c 9) as [->|H9]; [apply (attr_value_ref (lit "#9") 9); reflexivity|].
  cbn [app]. apply attr_value_plain; assumption.
Qed.

Lemma attr_value_qq1 : forall c t acc, xml_char c = true -> attr_value (qq1 c ++ t) None acc = attr_value t None (c :: acc).
Proof.
  intros c t acc Hx. unfold qq1. destruct (Z.eqb_spec c 34) as [->|H]; [apply (attr_value_ref (lit "quot") 34); reflexivity|].
  apply attr_value_qa1. exact Hx.
Qed.

Lemma attr_value_flat : forall (f : Z -> str), (forall c t acc, xml_char c = true -> attr_value (f c ++ t) None acc = attr_value t None (c :: acc)) ->
  forall s acc, forallb xml_char s = true -> attr_value (flat_map f s) None acc = Some (rev acc ++ s).
Proof.
  intros f Hf. induction s as [|c s IH]; intros acc Hs.
  - cbn [flat_map attr_value]. rewrite app_nil_r. reflexivity.
  - cbn [forallb] in Hs. apply andb_true_iff in Hs. destruct Hs as [Hc Hs]. cbn [flat_map].
    rewrite (Hf c _ acc Hc), (IH (c :: acc) Hs). cbn [rev]. rewrite <- app_assoc. reflexivity.
Qed.

Theorem qa_body_value : forall s, forallb xml_char s = true -> attr_value (qa_body s) None [] = Some s.
Proof.
  intros s Hs. unfold qa_body. cbv zeta. rewrite qa_data_flat.
  destruct (mem_ch 34 _); [destruct (mem_ch 39 _)|].
  - apply (attr_value_flat qq1 attr_value_qq1 s [] Hs).
  - apply (attr_value_flat qa1 attr_value_qa1 s [] Hs).
  - apply (attr_value_flat qa1 attr_value_qa1 s [] Hs).
Qed.

(* ---- the tokenizer in tag mode -------------------------------------------------------------------------------- *)
(* the quote automaton of the tag state: None = the tag text ends or is rejected inside s *)
Fixpoint tag_q (s : str) (q : Z) : option Z :=
  match s with
  | [] => Some q
  | c :: t =>
      if q =? 0 then
        if c =? 62 then None else if c =? 60 then None
        else if (c =? 34) || (c =? 39) then tag_q t c else tag_q t 0
      else if c =? q then tag_q t 0 else if c =? 60 then None else tag_q t q
  end.

Lemma trun_tag : forall s acc q out q', tag_q s q = Some q' ->
  trun (mkT (MTag acc q) [] out) s = Some (mkT (MTag (rev s ++ acc) q') [] out).
Proof.
  induction s as [|c s IH]; intros acc q out q' H.
  - cbn [tag_q] in H. injection H as <-. reflexivity.
  - cbn [tag_q] in H. cbn [trun]. unfold tstep, tstep_gen. cbn [ts_mode ts_cur ts_out].
    replace (rev (c :: s) ++ acc) with (rev s ++ c :: acc) by (cbn [rev]; rewrite <- app_assoc; reflexivity).
    destruct (q =? 0).
    + destruct (c =? 62); [discriminate|]. destruct (c =? 60); [discriminate|].
      destruct ((c =? 34) || (c =? 39)); apply IH; exact H.
    + destruct (c =? q); [apply IH; exact H|]. destruct (c =? 60); [discriminate|]. apply IH; exact H.
Qed.

Lemma tag_q_app : forall a b q, tag_q (a ++ b) q = match tag_q a q with Some q1 => tag_q b q1 | None => None end.
Proof.
  induction a as [|c a IH]; intros b q; [reflexivity|]. cbn [app tag_q].
  destruct (q =? 0).
  - destruct (c =? 62); [reflexivity|]. destruct (c =? 60); [reflexivity|]. destruct ((c =? 34) || (c =? 39)); apply IH.
  - destruct (c =? q); [apply IH|]. destruct (c =? 60); [reflexivity|apply IH].
Qed.

Lemma tag_q_quoted : forall d q, q = 34 \/ q = 39 -> mem_ch q d = false -> mem_ch 60 d = false -> tag_q d q = Some q.
Proof.
  induction d as [|c d IH]; intros q Hq Hm H60; [reflexivity|].
  unfold mem_ch in Hm, H60. cbn [existsb] in Hm, H60. apply orb_false_iff in Hm. apply orb_false_iff in H60.
  destruct Hm as [Hc Hm]. destruct H60 as [Hc60 H60]. cbn [tag_q].
  assert (Hq0 : (q =? 0) = false) by (destruct Hq; subst; reflexivity). rewrite Hq0.
  rewrite Z.eqb_sym, Hc. rewrite Z.eqb_sym, Hc60. apply IH; assumption.
Qed.

Lemma tag_q_attr : forall pre q d post, tag_q pre 0 = Some 0 -> q = 34 \/ q = 39 -> mem_ch q d = false -> mem_ch 60 d = false ->
  tag_q (pre ++ q :: d ++ q :: post) 0 = tag_q post 0.
Proof.
  intros pre q d post Hpre Hq Hm H60. rewrite tag_q_app, Hpre.
  assert (E1 : tag_q (q :: d ++ q :: post) 0 = tag_q (d ++ q :: post) q) by (destruct Hq; subst q; reflexivity).
  rewrite E1, tag_q_app, (tag_q_quoted d q Hq Hm H60). cbn [tag_q].
  replace (q =? 0) with false by (destruct Hq; subst q; reflexivity). rewrite Z.eqb_refl. reflexivity.
Qed.

(* a whole tag (less-than, body, greater-than) from character-data mode *)
Lemma markup_of_body : forall body tk, tag_q body 0 = Some 0 -> parse_tag body = Some tk -> no13 body = true ->
  markup ([60] ++ body ++ [62]) tk.
Proof.
  intros body tk Hq Hp H13. split; [|split].
  - intros nbr cur out. exists 0%nat.
    change ([60] ++ body ++ [62]) with (60 :: (body ++ [62])).
    assert (H1 : tstep (mkT (MText nbr false) cur out) 60 = Some (mkT (MTag [] 0) [] (flush cur out))) by reflexivity.
    cbn [trun]. rewrite H1, trun_app, (trun_tag body [] 0 (flush cur out) 0 Hq). cbn [trun].
    assert (H2 : tstep (mkT (MTag (rev body ++ []) 0) [] (flush cur out)) 62 = Some (mkT (MText 0 false) [] (tk :: flush cur out))).
    { unfold tstep, tstep_gen. cbn [ts_mode ts_cur ts_out]. change (0 =? 0) with true. change (62 =? 62) with true. cbv iota.
      rewrite app_nil_r, rev_involutive, Hp. reflexivity. }
    rewrite H2. reflexivity.
  - unfold no13 in *. cbn [app forallb]. rewrite forallb_app, H13. reflexivity.
  - exists ([60] ++ body). rewrite <- app_assoc. reflexivity.
Qed.

(* ---- parse_attrs reads one attribute: blank key = Q raw Q ------------------------------------------------------ *)
Lemma drop_until_app : forall q raw rest, mem_ch q raw = false -> drop_until q (raw ++ q :: rest) = Some rest.
Proof.
  intros q raw rest. induction raw as [|c raw IH]; intros H.
  - cbn [app drop_until]. rewrite Z.eqb_refl. reflexivity.
  - unfold mem_ch in H. cbn [existsb] in H. apply orb_false_iff in H. destruct H as [Hc H]. cbn [app drop_until].
    rewrite Z.eqb_sym, Hc. apply IH. exact H.
Qed.
Lemma take_until_app : forall q raw rest, mem_ch q raw = false -> take_until q (raw ++ q :: rest) = raw.
Proof.
  intros q raw rest. induction raw as [|c raw IH]; intros H.
  - cbn [app take_until]. rewrite Z.eqb_refl. reflexivity.
  - unfold mem_ch in H. cbn [existsb] in H. apply orb_false_iff in H. destruct H as [Hc H]. cbn [app take_until].
    rewrite Z.eqb_sym, Hc. f_equal. apply IH. exact H.
Qed.

Lemma take_while_stop : forall f (k : str) c t, forallb f k = true -> f c = false -> take_while f (k ++ c :: t) = k.
Proof.
  intros f k c t. induction k as [|x k IH]; intros Hk Hc.
  - cbn [app take_while]. rewrite Hc. reflexivity.
  - cbn [forallb] in Hk. apply andb_true_iff in Hk. destruct Hk as [Hx Hk]. cbn [app take_while]. rewrite Hx. f_equal. apply IH; assumption.
Qed.
Lemma drop_while_stop : forall f (k : str) c t, forallb f k = true -> f c = false -> drop_while f (k ++ c :: t) = c :: t.
Proof.
  intros f k c t. induction k as [|x k IH]; intros Hk Hc.
  - cbn [app drop_while]. rewrite Hc. reflexivity.
  - cbn [forallb] in Hk. apply andb_true_iff in Hk. destruct Hk as [Hx Hk]. cbn [app drop_while]. rewrite Hx. apply IH; assumption.
Qed.

Definition key_ok (k : str) : bool :=
  match k with c :: _ => name_start c && forallb name_char k && qname_ok k | [] => false end.

Lemma name_start_facts : forall c, name_start c = true -> xml_ws c = false /\ c <> 47.
Proof. intros c H. unfold name_start, ascii_letter in H. unfold xml_ws. split; lia. Qed.

(* the body of parse_attrs for an input whose first non-blank character is not a slash *)
Lemma parse_attrs_cons : forall f s acc c t, drop_while xml_ws s = c :: t -> c <> 47 ->
  parse_attrs (S f) s acc =
  if (length (c :: t) =? length s)%nat then None else
  match parse_name (c :: t) with
  | None => None
  | Some (k, r) =>
      match drop_while xml_ws r with
      | 61 :: r1 =>
          match drop_while xml_ws r1 with
          | q :: r2 =>
              if (q =? 34) || (q =? 39) then
                match drop_until q r2, attr_value (take_until q r2) None [] with
                | Some r3, Some v => if has_key k acc then None else parse_attrs f r3 ((k, v) :: acc)
                | _, _ => None
                end
              else None
          | [] => None
          end
      | _ => None
      end
  end.
Proof.
  intros f s acc c t Hd Hc. cbn [parse_attrs]. rewrite Hd.
  destruct c as [|p|p]; [reflexivity| |reflexivity].
  do 6 (try (destruct p as [p|p|]; try reflexivity)). congruence.
Qed.

Lemma parse_attrs_one : forall f k raw v q rest acc,
  key_ok k = true -> q = 34 \/ q = 39 -> mem_ch q raw = false -> attr_value raw None [] = Some v -> has_key k acc = false ->
  parse_attrs (S f) (32 :: k ++ 61 :: q :: raw ++ q :: rest) acc = parse_attrs f rest ((k, v) :: acc).
Proof.
  intros f k raw v q rest acc Hk Hq Hm Hv Hh.
  destruct k as [|c k']; [discriminate|]. unfold key_ok in Hk.
  apply andb_true_iff in Hk. destruct Hk as [Hk Hqn]. apply andb_true_iff in Hk. destruct Hk as [Hns Hnc].
  destruct (name_start_facts c Hns) as [Hws H47].
  set (X := q :: raw ++ q :: rest) in *.
  assert (Hd : drop_while xml_ws (32 :: (c :: k') ++ 61 :: X) = c :: k' ++ 61 :: X).
  { cbn [drop_while app]. change (xml_ws 32) with true. cbv iota. rewrite Hws. reflexivity. }
  rewrite (parse_attrs_cons f _ acc c (k' ++ 61 :: X) Hd H47).
  replace (Nat.eqb (length (c :: k' ++ 61 :: X)) (length (32 :: (c :: k') ++ 61 :: X))) with false
    by (symmetry; apply Nat.eqb_neq; cbn [length app]; lia).
  assert (Hpn : parse_name (c :: k' ++ 61 :: X) = Some (c :: k', 61 :: X)).
  { unfold parse_name, parse_name0. rewrite Hns. change (c :: k' ++ 61 :: X) with ((c :: k') ++ 61 :: X).
    rewrite (take_while_stop name_char (c :: k') 61 X Hnc eq_refl), (drop_while_stop name_char (c :: k') 61 X Hnc eq_refl).
    rewrite Hqn. reflexivity. }
  rewrite Hpn. change (drop_while xml_ws (61 :: X)) with (61 :: X). cbv iota.
  assert (HX : drop_while xml_ws X = X) by (unfold X; destruct Hq; subst q; reflexivity).
  rewrite HX. unfold X.
  replace ((q =? 34) || (q =? 39)) with true by (destruct Hq; subst q; reflexivity).
  rewrite (drop_until_app q raw rest Hm), (take_until_app q raw rest Hm), Hv, Hh. reflexivity.
Qed.

Lemma parse_attrs_end : forall f acc, parse_attrs (S f) [] acc = Some (rev acc, false).
Proof. reflexivity. Qed.

(* the same with the fuel written as  S (length input + e) : it stays of that shape *)
Lemma parse_attrs_one_len : forall e k raw v q rest acc,
  key_ok k = true -> q = 34 \/ q = 39 -> mem_ch q raw = false -> attr_value raw None [] = Some v -> has_key k acc = false ->
  parse_attrs (S (length (32 :: k ++ 61 :: q :: raw ++ q :: rest) + e)) (32 :: k ++ 61 :: q :: raw ++ q :: rest) acc =
  parse_attrs (S (length rest + (e + (length k + length raw + 3)))) rest ((k, v) :: acc).
Proof.
  intros e k raw v q rest acc Hk Hq Hm Hv Hh.
  replace (S (length (32 :: k ++ 61 :: q :: raw ++ q :: rest) + e))
    with (S (S (length rest + (e + (length k + length raw + 3))))).
  - apply parse_attrs_one; assumption.
  - cbn [length]. rewrite app_length. cbn [length]. rewrite app_length. cbn [length]. lia.
Qed.

Lemma parse_tag_open : forall body n r, hd 0 body <> 47 -> parse_name body = Some (n, r) ->
  parse_tag body = match parse_attrs (S (length r + 0)) r [] with
                   | Some (a, true) => Some (TkEmpty n a)
                   | Some (a, false) => Some (TkOpen n a)
                   | None => None
                   end.
Proof.
  intros body n r H47 Hn. rewrite Nat.add_0_r. unfold parse_tag. destruct body as [|c t]; [rewrite Hn; reflexivity|].
  cbn [hd] in H47. destruct c as [|p|p]; [rewrite Hn; reflexivity| |rewrite Hn; reflexivity].
  do 6 (try (destruct p as [p|p|]; try (rewrite Hn; reflexivity))). congruence.
Qed.

(* ---- quoteattr round trip, as the strict parser sees it ------------------------------------------------------------ *)
(* an element with one attribute whose value is written by quoteattr: the parser returns exactly the string *)
Theorem quoteattr_tag_roundtrip : forall s, forallb xml_char s = true ->
  parse_tag (lit "a x=" ++ quoteattr s) = Some (TkOpen (lit "a") [(lit "x", s)]).
Proof.
  intros s Hs. rewrite quoteattr_shape.
  change (lit "a x=" ++ [qa_quote s] ++ qa_body s ++ [qa_quote s])
    with (97 :: 32 :: [120] ++ 61 :: qa_quote s :: qa_body s ++ qa_quote s :: []).
  unfold parse_tag. cbv iota.
  assert (Hn : parse_name (97 :: 32 :: [120] ++ 61 :: qa_quote s :: qa_body s ++ [qa_quote s])
               = Some ([97], 32 :: [120] ++ 61 :: qa_quote s :: qa_body s ++ [qa_quote s])) by reflexivity.
  rewrite Hn. cbn [length].
  rewrite (parse_attrs_one _ [120] (qa_body s) s (qa_quote s) [] [] eq_refl (qa_quote_cases s)
             (qa_body_no_quote s) (qa_body_value s Hs) eq_refl).
  destruct (length _); reflexivity.
Qed.

Theorem quoteattr_content_roundtrip : forall s, forallb xml_char s = true ->
  content_parse (lit "<a x=" ++ quoteattr s ++ lit "/>") = Some [XElem (lit "a") [(lit "x", s)] []].
Proof.
  intros s Hs.
  assert (Hp : parse_tag ((lit "a x=" ++ quoteattr s) ++ [47]) = Some (TkEmpty (lit "a") [(lit "x", s)])).
  { replace ((lit "a x=" ++ quoteattr s) ++ [47])
      with (97 :: 32 :: [120] ++ 61 :: qa_quote s :: qa_body s ++ qa_quote s :: [47])
      by (rewrite quoteattr_shape; change (lit "a x=") with [97; 32; 120; 61]; cbn [app]; rewrite <- app_assoc; reflexivity).
    unfold parse_tag. cbv iota.
    assert (Hn : parse_name (97 :: 32 :: [120] ++ 61 :: qa_quote s :: qa_body s ++ qa_quote s :: [47])
                 = Some ([97], 32 :: [120] ++ 61 :: qa_quote s :: qa_body s ++ qa_quote s :: [47])) by reflexivity.
    rewrite Hn. cbn [length].
    rewrite (parse_attrs_one _ [120] (qa_body s) s (qa_quote s) [47] [] eq_refl (qa_quote_cases s)
               (qa_body_no_quote s) (qa_body_value s Hs) eq_refl).
    destruct (length _); reflexivity. }
  assert (Hq : tag_q ((lit "a x=" ++ quoteattr s) ++ [47]) 0 = Some 0).
  { replace ((lit "a x=" ++ quoteattr s) ++ [47]) with (lit "a x=" ++ qa_quote s :: qa_body s ++ qa_quote s :: [47])
      by (rewrite quoteattr_shape; repeat rewrite <- app_assoc; cbn [app]; reflexivity).
    rewrite (tag_q_attr (lit "a x=") _ _ _ eq_refl (qa_quote_cases s) (qa_body_no_quote s) (qa_body_no_lt s)). reflexivity. }
  assert (H13 : no13 ((lit "a x=" ++ quoteattr s) ++ [47]) = true).
  { rewrite quoteattr_shape. unfold no13. rewrite !forallb_app. fold (no13 (qa_body s)). rewrite qa_body_no13.
    destruct (qa_quote_cases s) as [-> | ->]; reflexivity. }
  destruct (markup_of_body _ _ Hq Hp H13) as [Hm _]. destruct (Hm 0%nat [] []) as [n Hn].
  unfold content_parse, xtokens, t_init.
  replace (lit "<a x=" ++ quoteattr s ++ lit "/>") with ([60] ++ ((lit "a x=" ++ quoteattr s) ++ [47]) ++ [62])
    by (rewrite <- !app_assoc; reflexivity).
  rewrite Hn. reflexivity.
Qed.

(* ---- the span start tags of the DFXP writers, style dictionaries with a colour ----------------------------------- *)
Definition color_style (st : style) : bool := match st_color st with None => true | Some c => forallb xml_char c end.

Definition dfxp_atok_c (region : bool) (st : style) : option (list (str * str)) :=
  match (if st_i st then [(lit "tts:fontStyle", lit "italic")] else []) ++
        (match st_color st with Some c => [(lit "tts:color", c)] | None => [] end) ++
        (if region then [(lit "region", lit "bottom")] else []) with
  | [] => None
  | a => Some a
  end.

Lemma dfxp_atok_c_plain : forall region st, plain_style st = true -> dfxp_atok_c region st = dfxp_atok region st.
Proof. intros region [i b u c] H. unfold plain_style in H. cbn [st_color] in H. destruct c; [discriminate|]. reflexivity. Qed.

Lemma no13_app : forall a b, no13 (a ++ b) = no13 a && no13 b.
Proof. intros. unfold no13. apply forallb_app. Qed.

Lemma span_color_markup : forall i region c, forallb xml_char c = true ->
  let st := mkStyle i false false (Some c) in
  markup (lit "<span" ++ (dfxp_style_attrs st ++ extra_of region) ++ lit ">")
         (TkOpen (lit "span") ((if i then [(lit "tts:fontStyle", lit "italic")] else []) ++ [(lit "tts:color", c)] ++
                               (if region then [(lit "region", lit "bottom")] else []))).
Proof.
  intros i region c Hc st.
  set (q := qa_quote c). set (d := qa_body c).
  pose proof (qa_quote_cases c) as Hq. fold q in Hq.
  pose proof (qa_body_no_quote c) as Hnq. fold q d in Hnq.
  pose proof (qa_body_no_lt c) as Hlt. fold d in Hlt.
  pose proof (qa_body_value c Hc) as Hv. fold d in Hv.
  pose proof (qa_body_no13 c) as Hd13. fold d in Hd13.
  assert (Hq0 : (q =? 0) = false) by (destruct Hq as [-> | ->]; reflexivity).
  assert (Eq1 : tag_q [q] 0 = Some q) by (destruct Hq as [-> | ->]; reflexivity).
  assert (Eq2 : forall t, tag_q (q :: t) q = tag_q t 0) by (intros t; cbn [tag_q]; rewrite Hq0, Z.eqb_refl; reflexivity).
  assert (Hq13 : no13 [q] = true) by (destruct Hq as [-> | ->]; reflexivity).
  set (A := if i then lit " tts:fontStyle=""italic""" else []).
  set (E := extra_of region).
  assert (Hbody : lit "<span" ++ (dfxp_style_attrs st ++ E) ++ lit ">" =
                  [60] ++ (lit "span" ++ A ++ 32 :: lit "tts:color" ++ 61 :: q :: d ++ q :: E) ++ [62]).
  { unfold dfxp_style_attrs, st. cbn [st_i st_color]. fold A. rewrite quoteattr_shape. fold q d.
    change (lit " tts:color=") with (32 :: lit "tts:color" ++ [61]).
    repeat rewrite <- app_assoc. cbn [app]. repeat rewrite <- app_assoc. cbn [app]. repeat rewrite <- app_assoc. reflexivity. }
  rewrite Hbody. apply markup_of_body.
  - replace (lit "span" ++ A ++ 32 :: lit "tts:color" ++ 61 :: q :: d ++ q :: E)
      with ((lit "span" ++ A ++ 32 :: lit "tts:color" ++ [61]) ++ q :: d ++ q :: E)
      by (rewrite <- !app_assoc; cbn [app]; rewrite <- !app_assoc; reflexivity).
    rewrite (tag_q_attr _ q d E); try assumption.
    + unfold E. destruct region; reflexivity.
    + unfold A. destruct i; reflexivity.
  - assert (Hn : parse_name (lit "span" ++ A ++ 32 :: lit "tts:color" ++ 61 :: q :: d ++ q :: E) =
                 Some (lit "span", A ++ 32 :: lit "tts:color" ++ 61 :: q :: d ++ q :: E)).
    { unfold A. destruct i; reflexivity. }
    assert (H47 : hd 0 (lit "span" ++ A ++ 32 :: lit "tts:color" ++ 61 :: q :: d ++ q :: E) <> 47)
      by (change (lit "span") with (115 :: lit "pan"); cbn [app hd]; discriminate).
    rewrite (parse_tag_open _ _ _ H47 Hn). clear H47 Hn Hbody.
    unfold A, E. destruct i.
    + change (lit " tts:fontStyle=""italic""" ++ 32 :: lit "tts:color" ++ 61 :: q :: d ++ q :: extra_of region)
        with (32 :: lit "tts:fontStyle" ++ 61 :: 34 :: lit "italic" ++ 34 :: (32 :: lit "tts:color" ++ 61 :: q :: d ++ q :: extra_of region)).
      rewrite (parse_attrs_one_len _ (lit "tts:fontStyle") (lit "italic") (lit "italic") 34 _ []) by (first [reflexivity|left; reflexivity]).
      rewrite (parse_attrs_one_len _ (lit "tts:color") d c q _ _) by (first [reflexivity|assumption]).
      destruct region.
      * change (extra_of true) with (32 :: lit "region" ++ 61 :: 34 :: lit "bottom" ++ 34 :: []).
        rewrite (parse_attrs_one_len _ (lit "region") (lit "bottom") (lit "bottom") 34 [] _) by (first [reflexivity|left; reflexivity]).
        rewrite parse_attrs_end. reflexivity.
      * cbn [extra_of]. rewrite parse_attrs_end. reflexivity.
    + cbn [app].
      rewrite (parse_attrs_one_len _ (lit "tts:color") d c q _ _) by (first [reflexivity|assumption]).
      destruct region.
      * change (extra_of true) with (32 :: lit "region" ++ 61 :: 34 :: lit "bottom" ++ 34 :: []).
        rewrite (parse_attrs_one_len _ (lit "region") (lit "bottom") (lit "bottom") 34 [] _) by (first [reflexivity|left; reflexivity]).
        rewrite parse_attrs_end. reflexivity.
      * cbn [extra_of]. rewrite parse_attrs_end. reflexivity.
  - replace (lit "span" ++ A ++ 32 :: lit "tts:color" ++ 61 :: q :: d ++ q :: E)
      with ((lit "span" ++ A ++ 32 :: lit "tts:color" ++ [61; q]) ++ d ++ q :: E)
      by (repeat rewrite <- app_assoc; cbn [app]; repeat rewrite <- app_assoc; reflexivity).
    assert (E1 : no13 (lit "span" ++ A ++ 32 :: lit "tts:color" ++ [61; q]) = true)
      by (unfold A; destruct i; destruct Hq as [-> | ->]; reflexivity).
    assert (E2 : no13 (q :: E) = true) by (unfold E; destruct region; destruct Hq as [-> | ->]; reflexivity).
    rewrite no13_app, E1, (no13_app d), Hd13, E2. reflexivity.
Qed.

Lemma dfxp_attrs_agree_c : forall region,
  attrs_agree color_style (fun st => dfxp_style_attrs st ++ extra_of region) (dfxp_atok_c region).
Proof.
  intros region [i b u c] H. unfold color_style in H. cbn [st_color] in H. destruct c as [c|].
  - unfold dfxp_atok_c. cbn [st_i st_color].
    assert (Hne : (if i then [(lit "tts:fontStyle", lit "italic")] else []) ++ [(lit "tts:color", c)] ++
                  (if region then [(lit "region", lit "bottom")] else []) <> []) by (destruct i; discriminate).
    destruct ((if i then [(lit "tts:fontStyle", lit "italic")] else []) ++ [(lit "tts:color", c)] ++
              (if region then [(lit "region", lit "bottom")] else [])) as [|a l] eqn:E; [congruence|].
    rewrite <- E. split.
    + unfold dfxp_style_attrs. cbn [st_i st_color]. rewrite quoteattr_shape. destruct i; discriminate.
    + pose proof (span_color_markup i region c H) as Q. cbv zeta in Q.
      unfold dfxp_style_attrs in *. cbn [st_i st_color] in *. exact Q.
  - pose proof (dfxp_attrs_agree region (mkStyle i b u None) eq_refl) as Q.
    rewrite (dfxp_atok_c_plain region (mkStyle i b u None) eq_refl). exact Q.
Qed.

(* DFXPWriter / SinglePositioningDFXPWriter / LegacyDFXPWriter payloads, style dictionaries with any colour over XML Char *)
Theorem dfxp_payload_tokens_c : forall region ns, nodes_ok color_style ns = true ->
  xtokens (dfxp_payload (extra_of region) ns) = Some (abs_tokens [] a_close (dfxp_atok_c region) ns).
Proof.
  intros region ns H. unfold dfxp_payload, dfxp_run.
  rewrite (fold_left_ext2 _ _ ns _ (dfxp_step_gstep (extra_of region))).
  apply (payload_tokens [] color_style _ _ ns eq_refl (dfxp_attrs_agree_c region) H).
Qed.

Theorem legacy_payload_tokens_c : forall ns, nodes_ok color_style ns = true ->
  xtokens (legacy_payload ns) = Some (abs_tokens [] a_close (dfxp_atok_c false) ns).
Proof.
  intros ns H. unfold legacy_payload, legacy_run. rewrite (fold_left_ext2 _ _ ns _ legacy_step_gstep).
  apply (payload_tokens [] color_style dfxp_style_attrs _ ns eq_refl); [|exact H].
  intros st Hst. pose proof (dfxp_attrs_agree_c false st Hst) as Q. cbn [extra_of] in Q.
  destruct (dfxp_atok_c false st); [|rewrite app_nil_r in Q; exact Q].
  rewrite app_nil_r in Q. exact Q.
Qed.

Corollary dfxp_payload_parse_c : forall region ns, nodes_ok color_style ns = true ->
  content_parse (dfxp_payload (extra_of region) ns) = xbuild (abs_tokens [] a_close (dfxp_atok_c region) ns) [] [].
Proof. intros. unfold content_parse. rewrite dfxp_payload_tokens_c by assumption. reflexivity. Qed.

Corollary legacy_payload_parse_c : forall ns, nodes_ok color_style ns = true ->
  content_parse (legacy_payload ns) = xbuild (abs_tokens [] a_close (dfxp_atok_c false) ns) [] [].
Proof. intros. unfold content_parse. rewrite legacy_payload_tokens_c by assumption. reflexivity. Qed.
