(* C08, string level, MicroDVD: the writer model's output document, read back by the reader
   model, gives every cue with its frames floored and its text lines unchanged. *)
From Coq Require Import List ZArith QArith Qround Lia Bool ZifyBool.
From PV Require Import lib.Sx lib.Str lib.Result lib.Dec.
From PV Require Import model.TimeRead spec.SpecTime proofs.TimeStrFacts proofs.TimeReadFacts proofs.TimeDocFacts.
From PV Require Import model.TimeWrite spec.SpecTimeW proofs.TimeWriteFacts.
From PV Require Import model.Chain spec.SpecChain proofs.ChainFacts.
Import ListNotations.
Open Scope Z_scope.
#[local] Ltac Zify.zify_post_hook ::= Z.to_euclidean_division_equations.

(* a text line the MicroDVD format can carry unchanged: no line break, no '|', visible at both ends *)
Definition clean_line (l : str) : bool :=
  no_linebreak l && negb (existsb (Z.eqb 124) l)
  && match l with [] => false | c :: _ => negb (is_space c) end
  && match rev l with [] => false | c :: _ => negb (is_space c) end.

Definition clean_lines (ls : list str) : bool :=
  match ls with [] => false | _ => forallb clean_line ls end.

Lemma clean_line_parts : forall l, clean_line l = true ->
  no_lb l = true /\ lacks 124 l = true /\
  (exists c t, l = c :: t /\ is_space c = false) /\ (exists p z, l = p ++ [z] /\ is_space z = false /\ z <> 124 /\ z <> 10).
Proof.
  intros l H. unfold clean_line in H.
  apply andb_true_iff in H. destruct H as [H H4]. apply andb_true_iff in H. destruct H as [H H3].
  apply andb_true_iff in H. destruct H as [H1 H2].
  assert (L : lacks 124 l = true).
  { unfold lacks. apply forallb_forall. intros y Hy. destruct (y =? 124) eqn:E; [|reflexivity].
    exfalso. apply Z.eqb_eq in E. subst y.
    assert (X : existsb (Z.eqb 124) l = true) by (apply existsb_exists; exists 124; split; [exact Hy|reflexivity]).
    rewrite X in H2. discriminate. }
  split; [exact H1|]. split; [exact L|]. split.
  - destruct l as [|c t]; [discriminate|]. exists c, t. split; [reflexivity|]. destruct (is_space c); [discriminate|reflexivity].
  - destruct (rev l) as [|z rp] eqn:E; [discriminate|].
    exists (rev rp), z. assert (EL : l = rev rp ++ [z]).
    { rewrite <- (rev_involutive l), E. reflexivity. }
    split; [exact EL|]. split; [destruct (is_space z); [discriminate|reflexivity]|].
    assert (Hin : In z l) by (rewrite EL; apply in_or_app; right; left; reflexivity).
    split.
    + intros ->. unfold lacks in L. rewrite forallb_forall in L. specialize (L 124 Hin). discriminate.
    + intros ->. unfold no_linebreak in H1. rewrite forallb_forall in H1. specialize (H1 10 Hin). discriminate.
Qed.

Lemma strip_ends : forall s c t p z, s = c :: t -> s = p ++ [z] -> is_space c = false -> is_space z = false ->
  strip s = s.
Proof.
  intros s c t p z E1 E2 Hc Hz. unfold strip, strip_by, rstrip_by.
  assert (L1 : lstrip_by is_space s = s) by (apply lstrip_by_keep; rewrite E1; exact Hc).
  rewrite L1.
  assert (L2 : lstrip_by is_space (rev s) = rev s).
  { apply lstrip_by_keep. rewrite E2, rev_app_distr. exact Hz. }
  rewrite L2. apply rev_involutive.
Qed.

(* the joined text of clean lines: shape of its two ends, no newline, '|' never last *)
Lemma join_clean : forall ls, clean_lines ls = true ->
  let j := join [124] ls in
  (exists c t, j = c :: t /\ is_space c = false) /\
  (exists p z, j = p ++ [z] /\ is_space z = false /\ z <> 124) /\
  lacks 10 j = true.
Proof.
  intros ls H. unfold clean_lines in H. destruct ls as [|l ls]; [discriminate|].
  cbv zeta. revert l H. induction ls as [|l2 ls IH]; intros l H.
  - cbn [forallb] in H. apply andb_true_iff in H. destruct H as [Hl _].
    destruct (clean_line_parts l Hl) as [Nl [_ [[c [t [E Hc]]] [p [z [E2 [Hz [Hz1 _]]]]]]]].
    cbn [join]. split; [exists c, t; auto|]. split; [exists p, z; auto|].
    unfold lacks. apply (forallb_impl (fun x => negb ((x =? 10) || (x =? 13)))); [|exact Nl].
    intros x Hx. destruct (x =? 10) eqn:E0; [|reflexivity]. apply Z.eqb_eq in E0. subst x. discriminate Hx.
  - cbn [forallb] in H. apply andb_true_iff in H. destruct H as [Hl Hrest].
    destruct (clean_line_parts l Hl) as [Nl [_ [[c [t [E Hc]]] _]]].
    specialize (IH l2 Hrest). destruct IH as [_ [[p [z [E2 [Hz Hz1]]]] L10]].
    change (join [124] (l :: l2 :: ls)) with (l ++ [124] ++ join [124] (l2 :: ls)).
    split; [|split].
    + rewrite E. cbn [app]. eexists. eexists. split; [reflexivity|exact Hc].
    + exists (l ++ [124] ++ p), z. rewrite E2. rewrite <- !app_assoc. split; [reflexivity|]. split; assumption.
    + rewrite !lacks_app. rewrite L10.
      assert (Ll : lacks 10 l = true).
      { unfold lacks. apply (forallb_impl (fun x => negb ((x =? 10) || (x =? 13)))); [|exact Nl].
        intros x Hx. destruct (x =? 10) eqn:E0; [|reflexivity]. apply Z.eqb_eq in E0. subst x. discriminate Hx. }
      rewrite Ll. reflexivity.
Qed.

Lemma no_double_nl : forall j, lacks 10 j = true -> is_infix [10; 10] (j ++ [10]) = false.
Proof.
  induction j as [|c j IH]; intros H; [reflexivity|].
  cbn [lacks forallb] in H. apply andb_true_iff in H. destruct H as [Hc Hj].
  cbn [app is_infix is_prefix]. assert (E : (10 =? c) = false) by lia. rewrite E. cbn [andb orb].
  apply IH. exact Hj.
Qed.

Lemma no_bar_nl : forall j, lacks 10 j = true -> (forall p z, j = p ++ [z] -> z <> 124) ->
  is_infix [124; 10] (j ++ [10]) = false.
Proof.
  induction j as [|c j IH]; intros H HL; [reflexivity|].
  cbn [lacks forallb] in H. apply andb_true_iff in H. destruct H as [Hc Hj].
  cbn [app is_infix is_prefix].
  assert (P : ((124 =? c) && match j ++ [10] with [] => false | y :: _ => (10 =? y) && true end) = false).
  { destruct j as [|d j'].
    - cbn [app]. assert (c <> 124) by (apply (HL [] c); reflexivity). lia.
    - cbn [app]. cbn [lacks forallb] in Hj. apply andb_true_iff in Hj. destruct Hj as [Hd _].
      assert (E : (10 =? d) = false) by lia. rewrite E. cbn [andb]. apply andb_false_r. }
  assert (Q : is_prefix [124; 10] (c :: j ++ [10]) = false).
  { cbn [is_prefix]. destruct (j ++ [10]) as [|y yt] eqn:EJ.
    - destruct (124 =? c); reflexivity.
    - cbn [is_prefix] in *. destruct (124 =? c); [|reflexivity]. cbn [andb] in *.
      destruct (10 =? y); [discriminate P|reflexivity]. }
  cbn [is_prefix] in Q. rewrite Q. cbn [orb].
  apply IH; [exact Hj|]. intros p z E. apply (HL (c :: p) z). rewrite E. reflexivity.
Qed.

Lemma collapse_noop : forall fuel p r s, is_infix p s = false -> collapse fuel p r s = s.
Proof. intros [|f] p r s H; [reflexivity|]. cbn [collapse]. rewrite H. reflexivity. Qed.

Lemma mdvd_content_clean : forall ls, clean_lines ls = true -> mdvd_content ls = join [124] ls ++ [10].
Proof.
  intros ls H. destruct (join_clean ls H) as [[c [t [E1 Hc]]] [[p [z [E2 [Hz Hz1]]]] L10]].
  unfold mdvd_content. rewrite (strip_ends _ c t p z E1 E2 Hc Hz).
  rewrite (collapse_noop _ [10; 10] [10] (join [124] ls ++ [10])) by (apply no_double_nl; exact L10).
  apply collapse_noop. apply no_bar_nl; [exact L10|].
  intros p' z' E'. rewrite E2 in E'. apply app_inj_tail in E'. destruct E' as [_ <-]. exact Hz1.
Qed.

Definition mdvd_cue_of (c : Z * Z * list str) : mdvd_cue :=
  let '(s, e, lines) := c in mkMc 0 (s * 25 / 1000000) 0 (e * 25 / 1000000) lines.

Lemma mdvd_token_padded : forall t, 0 <= t -> mdvd_token (inject_Z t) = padded 0 (t * 25 / 1000000).
Proof.
  intros t Ht. unfold mdvd_token.
  assert (Hq : (0 <= inject_Z t)%Q) by (unfold Qle, inject_Z; cbn [Qnum Qden]; lia).
  rewrite mdvd_frames_floor by exact Hq. rewrite floor_frames_div, Qfloor_inject.
  rewrite dec_z_nonneg by lia. reflexivity.
Qed.

Lemma mdvd_write_cue_render : forall s e ls, 0 <= s -> 0 <= e -> clean_lines ls = true ->
  mdvd_write_cue (s, e, ls) = mdvd_render_cue false (mdvd_cue_of (s, e, ls)).
Proof.
  intros s e ls Hs He Hl. unfold mdvd_write_cue, mdvd_render_cue, mdvd_cue_of, brace.
  cbn [mc_pad0 mc_n0 mc_pad1 mc_n1 mc_lines nl].
  rewrite !mdvd_token_padded by assumption. rewrite mdvd_content_clean by exact Hl.
  cbn [app]. rewrite <- !app_assoc. cbn [app]. reflexivity.
Qed.

Definition text_dom (cs : list (Z * Z * list str)) : bool := forallb (fun c => clean_lines (snd c)) cs.

Definition times_of_caps (cs : list (Z * Z * list str)) : list cue := map (fun c => (fst (fst c), snd (fst c))) cs.

(* MicroDVD write, then read: every cue comes back with both frames floored and its text lines unchanged *)
Theorem mdvd_roundtrip_string : forall cs,
  dom_u 40000 0 (times_of_caps cs) -> text_dom cs = true ->
  mdvd_read (mdvd_write cs)
  = read_result (map (fun c => (fl 40000 (fst (fst c)), fl 40000 (snd (fst c)), snd c)) cs).
Proof.
  intros cs D T.
  assert (W : forall lo l, 0 <= lo -> dom_u 40000 lo (times_of_caps l) -> text_dom l = true ->
              flat_map mdvd_write_cue l = flat_map (mdvd_render_cue false) (map mdvd_cue_of l)
              /\ forallb mdvd_cue_dom (map mdvd_cue_of l) = true
              /\ mdvd_expected_caps None (map mdvd_cue_of l)
                 = map (fun c => (fl 40000 (fst (fst c)), fl 40000 (snd (fst c)), snd c)) l).
  { intros lo l. revert lo. induction l as [|[[s e] ls] l IH]; intros lo Hlo Dl Tl; [repeat split|].
    cbn [times_of_caps map fst snd dom_u] in Dl. destruct Dl as [D1 [D2 [D3 [D4 D5]]]].
    cbn [text_dom forallb snd] in Tl. apply andb_true_iff in Tl. destruct Tl as [Tc Tr].
    destruct (IH e ltac:(lia) D5 Tr) as [I1 [I2 I3]].
    assert (Hs : 0 <= s) by lia. assert (He : 0 <= e) by lia.
    cbn [flat_map map]. rewrite (mdvd_write_cue_render s e ls Hs He Tc), I1.
    split; [reflexivity|].
    assert (CL : forallb clean_line ls = true /\ ls <> []).
    { unfold clean_lines in Tc. destruct ls; [discriminate|]. split; [exact Tc|discriminate]. }
    destruct CL as [CL NE].
    assert (OKL : forallb mdvd_line_ok ls = true).
    { apply forallb_forall. intros x Hx. rewrite forallb_forall in CL. specialize (CL x Hx).
      unfold clean_line in CL. unfold mdvd_line_ok.
      apply andb_true_iff in CL. destruct CL as [CL _]. apply andb_true_iff in CL. destruct CL as [CL _]. exact CL. }
    assert (NEL : forall x, In x ls -> str_eqb x [] = false).
    { intros x Hx. rewrite forallb_forall in CL. specialize (CL x Hx).
      destruct (clean_line_parts x CL) as [_ [_ [[c [t [E _]]] _]]]. rewrite E. reflexivity. }
    split.
    - cbn [forallb]. rewrite I2. rewrite andb_true_r. unfold mdvd_cue_dom, mdvd_cue_of.
      cbn [mc_n0 mc_n1 mc_lines mc_pad0 mc_pad1]. rewrite OKL.
      assert (A : (0 <=? s * 25 / 1000000) = true) by lia. assert (B : (0 <=? e * 25 / 1000000) = true) by lia.
      assert (C : (e * 25 / 1000000 =? 0) = false) by lia.
      rewrite A, B, C. cbn [andb negb]. rewrite andb_false_r. reflexivity.
    - cbn [mdvd_expected_caps flat_map]. fold (mdvd_expected_caps None (map mdvd_cue_of l)). rewrite I3.
      assert (NEc : mdvd_nonempty (mdvd_cue_of (s, e, ls)) = true).
      { unfold mdvd_nonempty, mdvd_cue_of. cbn [mc_lines]. destruct ls as [|x xs]; [congruence|].
        cbn [existsb]. rewrite (NEL x (or_introl eq_refl)). reflexivity. }
      rewrite NEc. cbn [app fst snd]. f_equal. f_equal; [f_equal|].
      + unfold frame_instant, fps_q, mdvd_cue_of. cbn [mc_n0]. rewrite us_frames by lia. unfold fl. lia.
      + unfold frame_instant, fps_q, mdvd_cue_of. cbn [mc_n1]. rewrite us_frames by lia. unfold fl. lia.
      + unfold nonempty_lines, mdvd_cue_of. cbn [mc_lines].
        clear - NEL. induction ls as [|x xs IHx]; [reflexivity|]. cbn [filter].
        rewrite (NEL x (or_introl eq_refl)). cbn [negb]. f_equal. apply IHx. intros y Hy. apply NEL. right. exact Hy. }
  destruct (W 0 cs ltac:(lia) D T) as [W1 [W2 W3]].
  unfold mdvd_write. rewrite W1.
  change (flat_map (mdvd_render_cue false) (map mdvd_cue_of cs)) with (mdvd_render false None (map mdvd_cue_of cs)).
  rewrite mdvd_doc_exact by (first [reflexivity|exact W2]). rewrite W3. reflexivity.
Qed.
