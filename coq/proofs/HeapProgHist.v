(* HeapProgHist.v - the program-based writes inside arbitrary histories; concrete refutations of the variants that break the
   copy discipline. *)
From Coq Require Import List ZArith Bool Arith Lia.
From PV Require Import lib.Sx lib.Str lib.Result model.Store model.Iso model.HeapProg proofs.StoreFacts proofs.IsoFacts
                       proofs.RegionFacts proofs.HeapProgFacts proofs.IsoExamples.
Import ListNotations.
Open Scope Z_scope.

Theorem stepP_wf_world : forall c w o, repaired c -> wf_world w -> wf_world (fst (stepP c w o)).
Proof.
  intros c w o Hc Hw. destruct o as [t|rid rk t|wid k wo si|si e].
  - apply (step_wf_world c w (OBuild t) Hc Hw).
  - apply (step_wf_world c w (ORead rid rk t) Hc Hw).
  - apply (stepP_write_preserves c w wid k wo si Hw).
  - apply (step_wf_world c w (OEdit si e) Hc Hw).
Qed.

Theorem historyP_wf_world : forall c ops w, repaired c -> wf_world w -> wf_world (runP_world c w ops).
Proof.
  intros c ops. induction ops as [|o t IH]; intros w Hc Hw; simpl; auto. apply IH; auto. apply stepP_wf_world; auto.
Qed.

(* after ANY history of reads, builds, edits and (program) writes, a program write changes no caption set *)
Theorem writeP_after_any_history_preserves : forall c ops wid k o si,
  repaired c ->
  let w := runP_world c world0 ops in
  let w' := fst (stepP c w (OWrite wid k o si)) in
  w_sets w' = w_sets w /\ forall fuel, map (snap fuel (w_st w')) (w_sets w) = map (snap fuel (w_st w)) (w_sets w).
Proof.
  intros c ops wid k o si Hc w w'.
  assert (Hw : wf_world w) by (apply historyP_wf_world; auto; apply wf_world0).
  destruct (stepP_write_preserves c w wid k o si Hw) as (_ & S & P). split; [exact S|].
  intros fuel. apply map_ext_in. intros v Hv. apply P. destruct Hw as [_ Hs]. rewrite Forall_forall in Hs. auto.
Qed.

(* ---- the variants: rejected by the analysis AND wrong ---------------------------------------------------------------- *)
Definition input_changed (p : cmd) (o : wopts) (t : tree) : bool :=
  let w1 := run_world fixed world0 [OBuild t] in
  let s := nth 0 (w_sets w1) VNone in
  negb (tree_eqb (snap FUEL (h_st (fst (run_prog p o (w_st w1) s))) s) (snap FUEL (w_st w1) s)).

Definition variants : list cmd :=
  [prog_dfxp_nocopy; prog_dfxp_shallow; prog_sami_nocopy; prog_sami_shallow; prog_legacy_merge_first; prog_single_nocopy].

Theorem variants_rejected_and_wrong :
  forallb (fun p => match check p [] with None => true | Some _ => false end) variants = true /\
  forallb (fun p => input_changed p dflt_opts positioned) variants = true.
Proof. split; vm_compute; reflexivity. Qed.

(* the accepted programs on the same input: they do assign (footprint on their copy), the input keeps its snapshot *)
Example writers_assign_on_their_copy :
  map (fun k => input_changed (prog_of k) dflt_opts positioned) [1; 2; 3; 4; 5; 6; 7; 8]
    = [false; false; false; false; false; false; false; false] /\
  (let w1 := run_world fixed world0 [OBuild positioned] in
   let s := nth 0 (w_sets w1) VNone in
   map (fun k => fp_of (wr_fp (writeP fixed k dflt_opts winst0 (w_st w1) s))) [W_DFXP; W_SAMI]
     = [[(KCaption, 5)]; [(KCaption, 5)]]).
Proof. split; vm_compute; reflexivity. Qed.

(* the analysis is not the trivial one: a program may read the argument freely, and store into what it copied *)
Example analysis_accepts_reads_of_the_argument :
  check (block [CGet 1 0 (EInt 1); CGet 2 1 (EStr (lit "s:en")); CCopy 3 2; CSet 3 (EInt 1) (EReg 3)])%nat [] <> None /\
  check (block [CGet 1 0 (EInt 1); CGet 2 1 (EStr (lit "s:en")); CCopy 3 2; CSet 2 (EInt 1) (EReg 3)])%nat [] = None.
Proof. split; vm_compute; [discriminate|reflexivity]. Qed.

(* ---- instance state: the programs without the line that (re)initialises it ---------------------------------------------- *)
Fixpoint zl_eqb (a b : list Z) : bool :=
  match a, b with
  | [], [] => true
  | x :: s, y :: t => (x =? y) && zl_eqb s t
  | _, _ => false
  end.

Definition span_kinds : list Z := [W_DFXP; W_SAMI; W_LEGACY; W_SINGLE].
Definition rejects_du (p : cmd) : bool := match du p inst_regs with None => true | Some _ => false end.

(* without `self.open_span = False` (and WebVTT without `self.global_layout = ..`) the programs read instance state they have
   not assigned: REJECTED by the analysis; and on the history of defect 15 the reused writer object does emit other tokens
   than a fresh one, while the repaired programs emit the same (same object again = fresh object = first time) *)
Theorem missing_reset_rejected_and_wrong :
  forallb (fun k => rejects_du (prog_with false k)) span_kinds = true /\
  rejects_du prog_vtt_no_global = true /\
  forallb (fun k => let r := runP (mkCfg true true false) world0 (hist15 k) in
                    negb (zl_eqb (tokens_of r 4) (tokens_of r 5))) span_kinds = true /\
  forallb (fun k => let r := runP fixed world0 (hist15 k) in
                    zl_eqb (tokens_of r 4) (tokens_of r 5) && zl_eqb (tokens_of r 4) (tokens_of r 2)) span_kinds = true.
Proof. repeat split; vm_compute; reflexivity. Qed.

(* the two models agree on the tokens and on open_span after every operation of that history (both cfgs) *)
Example programs_render_like_the_store_model :
  forallb (fun k => forallb (fun c =>
     forallb (fun p => zl_eqb (mo_tokens (fst (fst p))) (mo_tokens (fst (snd p)))
                       && Bool.eqb (mo_open (fst (fst p))) (mo_open (fst (snd p))))
             (combine (run c world0 (hist15 k)) (runP c world0 (hist15 k))))
     [fixed; mkCfg true true false]) span_kinds = true.
Proof. vm_compute. reflexivity. Qed.
