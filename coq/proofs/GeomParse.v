(* C18: Size.from_string accepts exactly the size language and returns the denoted value. *)
From Coq Require Import List ZArith QArith Qabs Bool Lia Lqa Field.
From PV Require Import lib.Sx lib.Str lib.Result model.Geometry spec.SpecGeom proofs.GeomStr proofs.GeomEq.
Import ListNotations.
Open Scope Z_scope.

(* ---- units ------------------------------------------------------------------------------------- *)
Lemma unit_of_suffix_iff : forall r u, unit_of_suffix r = Some u <-> r = unit_str u.
Proof.
  intros r u. unfold unit_of_suffix.
  destruct (str_eqb r (lit "px")) eqn:E1; [apply str_eqb_eq in E1; subst; destruct u; cbn; split; intros H; try reflexivity; try discriminate; inversion H|].
  destruct (str_eqb r (lit "em")) eqn:E2; [apply str_eqb_eq in E2; subst; destruct u; cbn; split; intros H; try reflexivity; try discriminate; inversion H|].
  destruct (str_eqb r (lit "%")) eqn:E3; [apply str_eqb_eq in E3; subst; destruct u; cbn; split; intros H; try reflexivity; try discriminate; inversion H|].
  destruct (str_eqb r (lit "c")) eqn:E4; [apply str_eqb_eq in E4; subst; destruct u; cbn; split; intros H; try reflexivity; try discriminate; inversion H|].
  destruct (str_eqb r (lit "pt")) eqn:E5; [apply str_eqb_eq in E5; subst; destruct u; cbn; split; intros H; try reflexivity; try discriminate; inversion H|].
  split; [discriminate|]. intros ->. destruct u; cbn in *; discriminate.
Qed.

Lemma unit_of_suffix_str : forall u, unit_of_suffix (unit_str u) = Some u.
Proof. intros u. apply unit_of_suffix_iff. reflexivity. Qed.

Lemma unit_str_stops : forall u, stops is_digit (unit_str u).
Proof. intros []; reflexivity. Qed.

Lemma unit_str_no_dot : forall u t, unit_str u <> 46 :: t.
Proof. intros [] t; discriminate. Qed.

Lemma unit_str_nonempty : forall u, unit_str u <> [].
Proof. intros []; discriminate. Qed.

Lemma last_app_unit : forall x w, last (x ++ unit_str w) 0 = last (unit_str w) 0.
Proof.
  intros x w. induction x as [|c x IH]; [reflexivity|].
  cbn [app]. destruct (x ++ unit_str w) eqn:E.
  - destruct x; [destruct w|]; discriminate.
  - rewrite <- IH. reflexivity.
Qed.

Lemma last_snoc : forall (r : str) c, last (r ++ [c]) 0 = c.
Proof.
  induction r as [|x r IH]; intros c; [reflexivity|]. cbn [app]. specialize (IH c).
  destruct (r ++ [c]) eqn:E; [destruct r; discriminate|]. exact IH.
Qed.

(* the last character determines the unit *)
Lemma unit_str_last_inj : forall a b u v, a ++ unit_str u = b ++ unit_str v -> a = b /\ u = v.
Proof.
  intros a b u v H.
  assert (Hl : last (a ++ unit_str u) 0 = last (b ++ unit_str v) 0) by (rewrite H; reflexivity).
  rewrite !last_app_unit in Hl.
  assert (u = v) by (destruct u, v; cbn in Hl; try reflexivity; discriminate).
  subst v. split; [|reflexivity]. eapply app_inv_tail. exact H.
Qed.

(* ---- digit strings ------------------------------------------------------------------------------- *)
Lemma all_digits_iff : forall s, all_digits s = true <-> s <> [] /\ forallb is_digit s = true.
Proof.
  intros [|c s]; cbn [all_digits]; split.
  - discriminate. - intros [H _]; contradiction.
  - intros H. split; [discriminate|assumption]. - intros [_ H]; exact H.
Qed.

Lemma int_of_digits_some : forall s, all_digits s = true -> exists i, int_of_digits s = Some i /\ digits_val_acc s 0 = Some i.
Proof.
  intros s H. apply all_digits_iff in H. destruct H as [Hn Hd].
  destruct (digits_val_acc_some s 0 Hd) as [v Hv]. exists v. split; [|exact Hv].
  unfold int_of_digits. destruct s; [contradiction|exact Hv].
Qed.

Lemma digits_free_of_dot : forall s, forallb is_digit s = true -> free_of 46 s.
Proof.
  induction s as [|c s IH]; intros H; [constructor|].
  cbn [forallb] in H. apply andb_true_iff in H. destruct H as [H1 H2].
  unfold free_of. constructor; [apply is_digit_range in H1; lia|apply IH; exact H2].
Qed.

(* ---- the value ------------------------------------------------------------------------------------- *)
Lemma digits_q_compat : forall s a b, (a == b)%Q -> (digits_q s a == digits_q s b)%Q.
Proof.
  induction s as [|c s IH]; intros a b H; cbn [digits_q]; [exact H|]. apply IH. rewrite H. reflexivity.
Qed.

Lemma digits_q_val : forall s acc v, digits_val_acc s acc = Some v -> (digits_q s (inject_Z acc) == inject_Z v)%Q.
Proof.
  induction s as [|c s IH]; intros acc v H; cbn [digits_q digits_val_acc] in *.
  - inversion H; subst. reflexivity.
  - destruct (is_digit c); [|discriminate]. rewrite <- (IH _ _ H). apply digits_q_compat.
    unfold digit_val. rewrite inject_Z_plus, inject_Z_mult. reflexivity.
Qed.

Lemma pow10_pos : forall n, 0 < pow10 n.
Proof. intros n. unfold pow10. apply Z.pow_pos_nonneg; lia. Qed.

Lemma pow10_succ : forall n, pow10 (S n) = 10 * pow10 n.
Proof. intros n. unfold pow10. rewrite Nat2Z.inj_succ, Z.pow_succ_r by lia. reflexivity. Qed.

Lemma inject_Z_nonzero : forall p, 0 < p -> ~ (inject_Z p == 0)%Q.
Proof. intros p Hp H. unfold Qeq in H. cbn in H. lia. Qed.

Lemma frac_q_compat : forall s a b, (a == b)%Q -> (frac_q s a == frac_q s b)%Q.
Proof.
  induction s as [|c s IH]; intros a b H; cbn [frac_q]; [reflexivity|].
  rewrite (IH (a / 10)%Q (b / 10)%Q) by (rewrite H; reflexivity). rewrite H. reflexivity.
Qed.

Lemma frac_q_val : forall s sc f, digits_val_acc s 0 = Some f ->
  (frac_q s sc == sc * 10 * inject_Z f / inject_Z (pow10 (length s)))%Q.
Proof.
  induction s as [|c s IH]; intros sc f H.
  - cbn in H. inversion H; subst. cbn. field.
  - cbn [frac_q length]. cbn [digits_val_acc] in H. destruct (is_digit c) eqn:E; [|discriminate].
    destruct (digits_val_acc_some s 0) as [w Hw].
    { destruct (forallb is_digit s) eqn:F; [reflexivity|]. rewrite digits_val_acc_none in H by assumption. discriminate. }
    rewrite (digits_val_acc_shift _ _ _ Hw) in H. inversion H; subst f. clear H.
    rewrite (IH _ _ Hw). rewrite pow10_succ.
    pose proof (pow10_pos (length s)) as Hp. fold (pow10 (length s)).
    set (P := pow10 (length s)) in *. unfold digit_val.
    repeat (rewrite inject_Z_plus || rewrite inject_Z_mult). change (inject_Z 0) with 0%Q.
    assert (HP : ~ (inject_Z P == 0)%Q).
    { apply inject_Z_nonzero. exact Hp. }
    field. exact HP.
Qed.

Lemma decimal_value_spec : forall ip fp, all_digits ip = true -> (fp = [] \/ all_digits fp = true) ->
  exists v, decimal_value ip fp = Some v /\ (v == denoted ip fp)%Q /\ (0 <= v)%Q.
Proof.
  intros ip fp Hip Hfp. destruct (int_of_digits_some _ Hip) as (i & Hi & Hi').
  unfold decimal_value, denoted. rewrite Hi.
  pose proof (digits_val_nonneg _ _ _ (Z.le_refl 0) Hi') as Hi0.
  pose proof (digits_q_val _ _ _ Hi') as Hq. change (inject_Z 0) with 0%Q in Hq.
  destruct Hfp as [->|Hfp].
  - exists (inject_Z i). split; [reflexivity|]. split.
    + rewrite Hq. cbn [frac_q]. ring.
    + change 0%Q with (inject_Z 0). rewrite <- Zle_Qle. exact Hi0.
  - destruct (int_of_digits_some _ Hfp) as (f & Hf & Hf').
    destruct fp as [|c fp']; [discriminate|]. rewrite Hf.
    eexists. split; [reflexivity|].
    pose proof (digits_val_nonneg _ _ _ (Z.le_refl 0) Hf') as Hf0.
    pose proof (pow10_pos (length (c :: fp'))) as Hp.
    set (P := pow10 (length (c :: fp'))) in *.
    assert (HP : ~ (inject_Z P == 0)%Q).
    { apply inject_Z_nonzero. exact Hp. }
    assert (Hv : (Qred ((i * P + f) # Z.to_pos P) == inject_Z i + inject_Z f / inject_Z P)%Q).
    { rewrite Qred_correct, Qmake_Qdiv, Z2Pos.id by exact Hp.
      rewrite inject_Z_plus, inject_Z_mult. field. exact HP. }
    split.
    + rewrite Hv, Hq, (frac_q_val _ _ _ Hf'). fold P. field. exact HP.
    + rewrite Qred_correct. clearbody P. unfold Qle. cbn [Qnum Qden]. rewrite Z.mul_1_r. cbn. nia.
Qed.

(* ---- the parser accepts exactly the language --------------------------------------------------------- *)
Lemma frac_split_nodot : forall r, (forall t, r <> 46 :: t) -> frac_split r = ([], r).
Proof.
  intros [|c t] H; [reflexivity|]. unfold frac_split. destruct (c =? 46) eqn:E; [|reflexivity].
  exfalso. apply (H t). f_equal. lia.
Qed.

Lemma frac_split_dot : forall fp r, forallb is_digit fp = true -> fp <> [] -> stops is_digit r ->
  frac_split (46 :: fp ++ r) = (fp, r).
Proof.
  intros fp r Hd Hn Hs. unfold frac_split. rewrite Z.eqb_refl.
  rewrite (take_while_app _ _ _ Hd Hs), (drop_while_app _ _ _ Hd Hs). destruct fp; [contradiction|reflexivity].
Qed.

(* accepted strings are in the language *)
Lemma parse_core_sound : forall s z, size_parse_core s = Ok z -> size_lang s.
Proof.
  intros s z H. unfold size_parse_core in H.
  destruct (str_eqb s (lit "0")) eqn:E0; [apply str_eqb_eq in E0; subst; constructor|].
  pose proof (take_drop_while is_digit s) as Hs.
  pose proof (take_while_all is_digit s) as Hip.
  destruct (take_while is_digit s) as [|c ip] eqn:Eip; [discriminate|].
  assert (Hipd : all_digits (c :: ip) = true) by exact Hip.
  destruct (drop_while is_digit s) as [|d t] eqn:Er1.
  - cbn in H. discriminate.
  - unfold frac_split in H. destruct (d =? 46) eqn:Ed.
    + assert (d = 46) by lia. subst d.
      pose proof (take_drop_while is_digit t) as Ht.
      pose proof (take_while_all is_digit t) as Hfp.
      destruct (take_while is_digit t) as [|c2 fp] eqn:Efp.
      * destruct (unit_of_suffix (46 :: t)) as [u|] eqn:Eu; [|discriminate].
        apply unit_of_suffix_iff in Eu. exfalso. eapply unit_str_no_dot. symmetry. exact Eu.
      * destruct (unit_of_suffix (drop_while is_digit t)) as [u|] eqn:Eu; [|discriminate].
        apply unit_of_suffix_iff in Eu. rewrite Eu in Ht. rewrite <- Ht in Hs. rewrite <- Hs.
        change ((c :: ip) ++ 46 :: (c2 :: fp) ++ unit_str u) with ((c :: ip) ++ 46 :: ((c2 :: fp) ++ unit_str u)).
        apply SL_frac; [exact Hipd|exact Hfp].
    + destruct (unit_of_suffix (d :: t)) as [u|] eqn:Eu; [|discriminate].
      apply unit_of_suffix_iff in Eu. rewrite Eu in Hs. rewrite <- Hs. apply SL_int. exact Hipd.
Qed.

(* every string of the language is accepted, with the denoted value and the unit it names *)
Lemma parse_core_int : forall ip u, all_digits ip = true ->
  exists v, size_parse_core (ip ++ unit_str u) = Ok (mkSize v u) /\ (v == denoted ip [])%Q /\ (0 <= v)%Q.
Proof.
  intros ip u Hip. pose proof Hip as Hip'. apply all_digits_iff in Hip'. destruct Hip' as [Hn Hd].
  unfold size_parse_core.
  assert (E0 : str_eqb (ip ++ unit_str u) (lit "0") = false).
  { apply str_eqb_neq. intros E. apply (f_equal (@length Z)) in E. rewrite app_length in E.
    destruct ip; [contradiction|]. destruct u; cbn in E; lia. }
  rewrite E0. rewrite (take_while_app _ _ _ Hd (unit_str_stops u)), (drop_while_app _ _ _ Hd (unit_str_stops u)).
  destruct ip as [|c ip]; [contradiction|].
  destruct (decimal_value_spec (c :: ip) [] Hip (or_introl eq_refl)) as (v & Hv & Hvq & Hv0).
  exists v. split; [|split; assumption].
  rewrite (frac_split_nodot _ (unit_str_no_dot u)), unit_of_suffix_str, Hv. reflexivity.
Qed.

Lemma parse_core_frac : forall ip fp u, all_digits ip = true -> all_digits fp = true ->
  exists v, size_parse_core (ip ++ 46 :: fp ++ unit_str u) = Ok (mkSize v u) /\ (v == denoted ip fp)%Q /\ (0 <= v)%Q.
Proof.
  intros ip fp u Hip Hfp. pose proof Hip as Hip'. apply all_digits_iff in Hip'. destruct Hip' as [Hn Hd].
  pose proof Hfp as Hfp'. apply all_digits_iff in Hfp'. destruct Hfp' as [Hn2 Hd2].
  unfold size_parse_core.
  assert (E0 : str_eqb (ip ++ 46 :: fp ++ unit_str u) (lit "0") = false).
  { apply str_eqb_neq. intros E. apply (f_equal (@length Z)) in E. rewrite app_length in E. cbn [length] in E.
    destruct ip; [contradiction|]. cbn in E. lia. }
  rewrite E0.
  assert (St : stops is_digit (46 :: fp ++ unit_str u)) by reflexivity.
  rewrite (take_while_app _ _ _ Hd St), (drop_while_app _ _ _ Hd St).
  rewrite (frac_split_dot _ _ Hd2 Hn2 (unit_str_stops u)).
  destruct ip as [|c ip]; [contradiction|]. destruct fp as [|c2 fp]; [contradiction|].
  destruct (decimal_value_spec (c :: ip) (c2 :: fp) Hip (or_intror Hfp)) as (v & Hv & Hvq & Hv0).
  exists v. split; [|split; assumption].
  rewrite unit_of_suffix_str, Hv. reflexivity.
Qed.

Lemma parse_core_complete : forall s, size_lang s -> exists z, size_parse_core s = Ok z.
Proof.
  intros s H. destruct H as [|ip u Hip|ip fp u Hip Hfp].
  - eexists. reflexivity.
  - destruct (parse_core_int ip u Hip) as (v & Hv & _). eauto.
  - destruct (parse_core_frac ip fp u Hip Hfp) as (v & Hv & _). eauto.
Qed.

Theorem parse_core_language : forall s, (exists z, size_parse_core s = Ok z) <-> size_lang s.
Proof.
  intros s. split; [intros [z H]; eapply parse_core_sound; eauto|apply parse_core_complete].
Qed.

(* everything else is rejected with the syntax error, never another exception *)
Lemma parse_core_err : forall s e, size_parse_core s = Err e -> e = ESyntax.
Proof.
  intros s e H. unfold size_parse_core in H.
  destruct (str_eqb s (lit "0")); [discriminate|].
  destruct (take_while is_digit s) as [|c0 ip0]; [inversion H; reflexivity|].
  destruct (frac_split (drop_while is_digit s)) as [fp r2].
  destruct (unit_of_suffix r2); [destruct (decimal_value (c0 :: ip0) fp)|]; try discriminate; inversion H; reflexivity.
Qed.

Theorem parse_rejects_with_syntax_error : forall s, ~ size_lang s -> size_parse_core s = Err ESyntax.
Proof.
  intros s H. destruct (size_parse_core s) as [z|e] eqn:E.
  - exfalso. apply H. eapply parse_core_sound; eauto.
  - f_equal. eapply parse_core_err; eauto.
Qed.

(* Size.from_string itself (after the two `fix:` commits the function is the pattern): for ALL strings *)
Theorem from_string_language : forall s,
  ((exists z, size_from_string s = Ok z) <-> size_lang s) /\ (~ size_lang s -> size_from_string s = Err ESyntax)
  /\ (forall e, size_from_string s = Err e -> e = ESyntax).
Proof.
  intros s. unfold size_from_string.
  split; [apply parse_core_language|split; [apply parse_rejects_with_syntax_error|apply parse_core_err]].
Qed.

Theorem from_string_value : forall ip fp u, all_digits ip = true -> (fp = [] \/ all_digits fp = true) ->
  let s := ip ++ (match fp with [] => [] | _ => 46 :: fp end) ++ unit_str u in
  exists v, size_from_string s = Ok (mkSize v u) /\ (v == denoted ip fp)%Q /\ (0 <= v)%Q.
Proof.
  intros ip fp u Hip Hfp s. unfold size_from_string. subst s.
  destruct Hfp as [->|Hfp].
  - cbn [app]. apply parse_core_int. exact Hip.
  - destruct fp as [|c fp]; [discriminate|].
    change ((46 :: c :: fp) ++ unit_str u) with (46 :: (c :: fp) ++ unit_str u). apply parse_core_frac; assumption.
Qed.
