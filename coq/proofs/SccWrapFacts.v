(* C17: facts about the model of textwrap.fill (model/SccWrap.v): every row fits the width, only whitespace
   is removed, words are kept whole unless longer than the width. *)
From Coq Require Import List ZArith Lia Bool ZifyBool Arith.
From PV Require Import lib.Sx lib.Str model.SccWrap.
Import ListNotations.

Definition sumlen (l : list str) : nat := fold_right (fun c n => (length c + n)%nat) 0%nat l.

Lemma sumlen_concat : forall l, length (concat l) = sumlen l.
Proof. induction l; simpl; [reflexivity|]. rewrite app_length, IHl. reflexivity. Qed.
Lemma sumlen_app : forall a b, sumlen (a ++ b) = (sumlen a + sumlen b)%nat.
Proof. induction a; intros; simpl; [reflexivity|]. rewrite IHa. lia. Qed.
Lemma sumlen_rev : forall l, sumlen (rev l) = sumlen l.
Proof. induction l; simpl; [reflexivity|]. rewrite sumlen_app, IHl. simpl. lia. Qed.

Lemma concat_split_chunks : forall s, concat (split_chunks s) = s.
Proof.
  induction s as [|c t IH]; [reflexivity|]. cbn [split_chunks].
  destruct (split_chunks t) as [|[|d ds] rest]; simpl in *.
  - subst. reflexivity.
  - subst. reflexivity.
  - destruct (Bool.eqb (is_sp c) (is_sp d)); simpl; rewrite <- IH; reflexivity.
Qed.

(* ---- take_fit / handle_long / drop: bookkeeping ------------------------------------------------- *)
Lemma take_fit_spec : forall width chunks cur cur_len cur' len' rest,
  take_fit width chunks cur cur_len = (cur', len', rest) ->
  cur_len = sumlen cur -> (cur_len <= width)%nat ->
  len' = sumlen cur' /\ (len' <= width)%nat /\
  concat (rev cur') ++ concat rest = concat (rev cur) ++ concat chunks /\
  (exists taken, cur' = rev taken ++ cur /\ chunks = taken ++ rest) /\
  match rest with c :: _ => (width < len' + length c)%nat | [] => True end.
Proof.
  induction chunks as [|c t IH]; intros cur cur_len cur' len' rest H E L; cbn [take_fit] in H.
  - inversion H; subst. repeat split; auto. exists []. split; reflexivity.
  - destruct (cur_len + length c <=? width)%nat eqn:F.
    + apply IH in H; [|simpl; lia|lia]. destruct H as (H1 & H2 & H3 & (taken & H4 & H5) & H6).
      repeat split; auto.
      * rewrite H3. cbn [rev concat]. rewrite concat_app. cbn [concat]. rewrite app_nil_r, <- app_assoc. reflexivity.
      * exists (c :: taken). subst. cbn [rev]. rewrite <- app_assoc. split; reflexivity.
    + inversion H; subst. repeat split; auto; try lia. exists []. split; reflexivity.
Qed.

Lemma firstn_length_le : forall (A : Type) n (l : list A), (length (firstn n l) <= n)%nat.
Proof. intros. rewrite firstn_length. lia. Qed.

(* ---- rows never exceed the width ------------------------------------------------------------------ *)
Lemma wrap_step_line_le : forall width chunks lines chunks' lines',
  wrap_step width chunks lines = (chunks', lines') ->
  (forall r, In r lines -> (length r <= width)%nat) ->
  (forall r, In r lines' -> (length r <= width)%nat).
Proof.
  intros width chunks lines chunks' lines' H Hl. unfold wrap_step in H.
  destruct (take_fit width (drop_first_ws chunks match lines with [] => false | _ => true end) [] 0%nat)
    as [[cur len] rest] eqn:T.
  apply take_fit_spec in T; [|reflexivity|lia]. destruct T as (T1 & T2 & _).
  assert (B : forall cur' ch3, handle_long width (cur, len, rest) = (cur', ch3) -> (sumlen cur' <= width)%nat).
  { intros cur' ch3 E. unfold handle_long in E. destruct rest as [|c r].
    - inversion E; subst. lia.
    - destruct (width <? length c)%nat.
      + inversion E; subst. simpl. pose proof (firstn_length_le _ (width - sumlen cur) c). lia.
      + inversion E; subst. lia. }
  destruct (handle_long width (cur, len, rest)) as [cur' ch3] eqn:E. specialize (B _ _ eq_refl).
  assert (D : (sumlen (drop_last_ws cur') <= width)%nat).
  { unfold drop_last_ws. destruct cur' as [|l t]; [simpl; lia|]. destruct (is_ws_chunk l); simpl in *; lia. }
  destruct (drop_last_ws cur') as [|x y] eqn:Q.
  - inversion H; subst. exact Hl.
  - assert (G : forall l, (sumlen l <= width)%nat -> (length (concat (rev l)) <= width)%nat)
      by (intros l0 Hl0; rewrite sumlen_concat, sumlen_rev; exact Hl0).
    inversion H; subst. intros r [<-|Hr]; [|auto]. apply (G (x :: y)). exact D.
Qed.

Lemma wrap_loop_le : forall fuel width chunks lines,
  (forall r, In r lines -> (length r <= width)%nat) ->
  forall r, In r (wrap_loop fuel width chunks lines) -> (length r <= width)%nat.
Proof.
  induction fuel as [|f IH]; intros width chunks lines Hl r Hr; cbn [wrap_loop] in Hr.
  - apply Hl. apply in_rev. exact Hr.
  - destruct chunks as [|c t].
    + apply Hl. apply in_rev. exact Hr.
    + destruct (wrap_step width (c :: t) lines) as [chunks' lines'] eqn:S.
      eapply IH; [|exact Hr]. eapply wrap_step_line_le; eauto.
Qed.

Theorem wrap_rows_le : forall width text r, In r (wrap width text) -> (length r <= width)%nat.
Proof. intros width text r H. unfold wrap in H. eapply wrap_loop_le; [|exact H]. intros ? []. Qed.

(* ---- only whitespace is removed --------------------------------------------------------------------- *)
Definition ns (s : str) : str := filter (fun c => negb (is_space c)) s.

Lemma ns_app : forall a b, ns (a ++ b) = ns a ++ ns b.
Proof. intros. apply filter_app. Qed.
Lemma ns_ws_chunk : forall c, is_ws_chunk c = true -> ns c = [].
Proof.
  induction c as [|x t IH]; intros H; [reflexivity|]. simpl in H. apply andb_prop in H. destruct H as [H1 H2].
  simpl. rewrite H1. simpl. auto.
Qed.
Lemma ns_munge : forall s, ns (munge s) = ns s.
Proof.
  induction s as [|c t IH]; [reflexivity|]. simpl. rewrite IH.
  destruct (tw_is_ws c) eqn:W.
  - assert (S1 : is_space c = true) by (unfold tw_is_ws, is_space in *; lia).
    rewrite S1. reflexivity.
  - reflexivity.
Qed.

Definition measure (chunks : list str) : nat := (sumlen chunks + length chunks)%nat.

Lemma wrap_step_spec : forall width chunks lines chunks' lines',
  (1 <= width)%nat -> chunks <> [] ->
  wrap_step width chunks lines = (chunks', lines') ->
  ns (concat (rev lines')) ++ ns (concat chunks') = ns (concat (rev lines)) ++ ns (concat chunks)
  /\ (measure chunks' < measure chunks)%nat.
Proof.
  intros width chunks lines chunks' lines' W NE H. unfold wrap_step in H.
  set (hl := match lines with [] => false | _ => true end) in *.
  assert (D1 : ns (concat (drop_first_ws chunks hl)) = ns (concat chunks)
               /\ (measure (drop_first_ws chunks hl) <= measure chunks)%nat
               /\ (drop_first_ws chunks hl = [] -> (measure (drop_first_ws chunks hl) < measure chunks)%nat)).
  { unfold drop_first_ws. destruct chunks as [|c0 r0]; [congruence|].
    destruct (is_ws_chunk c0 && hl) eqn:Q.
    - apply andb_prop in Q. destruct Q as [Q _]. cbn [concat]. rewrite ns_app, (ns_ws_chunk _ Q).
      unfold measure. simpl. repeat split; intros; lia.
    - repeat split; try lia. intros; discriminate. }
  destruct D1 as (D1 & D2 & D3).
  destruct (take_fit width (drop_first_ws chunks hl) [] 0%nat) as [[cur len] rest] eqn:T.
  apply take_fit_spec in T; [|reflexivity|lia].
  destruct T as (T1 & T2 & T3 & (taken & T4 & T5) & T6). rewrite app_nil_r in T4. subst cur.
  cbn [rev concat app] in T3.
  (* handle_long *)
  assert (HL : forall cur' ch3, handle_long width (rev taken, len, rest) = (cur', ch3) ->
               concat (rev cur') ++ concat ch3 = concat (rev (rev taken)) ++ concat rest
               /\ (measure ch3 <= measure rest)%nat
               /\ (taken = [] -> rest <> [] -> (measure ch3 < measure rest)%nat)).
  { intros cur' ch3 E. unfold handle_long in E. destruct rest as [|c r].
    - inversion E; subst. repeat split; auto. intros; congruence.
    - destruct (width <? length c)%nat eqn:LW.
      + inversion E; subst. cbn [rev concat]. rewrite concat_app. cbn [concat]. rewrite app_nil_r, <- app_assoc.
        rewrite (app_assoc (firstn _ c)), firstn_skipn. repeat split; auto.
        * unfold measure. simpl. rewrite skipn_length. lia.
        * intros -> _. unfold measure. simpl. rewrite skipn_length. simpl in *. lia.
      + inversion E; subst. repeat split; auto. intros -> _. simpl in *. lia. }
  destruct (handle_long width (rev taken, len, rest)) as [cur' ch3] eqn:E.
  destruct (HL _ _ eq_refl) as (H1 & H2 & H3). clear HL.
  (* measure: the chunks taken are gone *)
  assert (M : (measure ch3 < measure chunks)%nat).
  { destruct taken as [|t0 tk].
    - destruct rest as [|c r].
      + simpl in T5. specialize (D3 T5). unfold measure in *. simpl in *. lia.
      + specialize (H3 eq_refl ltac:(discriminate)). simpl in T5. rewrite T5 in D2. lia.
    - rewrite T5 in D2. unfold measure in D2, H2 |- *. rewrite sumlen_app, app_length in D2. simpl in D2. lia. }
  (* drop_last_ws *)
  assert (DL : ns (concat (rev (drop_last_ws cur'))) = ns (concat (rev cur'))).
  { unfold drop_last_ws. destruct cur' as [|l t]; [reflexivity|]. destruct (is_ws_chunk l) eqn:Q; [|reflexivity].
    cbn [rev]. rewrite concat_app, ns_app. cbn [concat]. rewrite app_nil_r, (ns_ws_chunk _ Q), app_nil_r. reflexivity. }
  assert (Key : ns (concat (rev (drop_last_ws cur'))) ++ ns (concat ch3) = ns (concat chunks)).
  { rewrite DL, <- ns_app, H1, T3, D1. reflexivity. }
  destruct (drop_last_ws cur') as [|x y] eqn:Q; inversion H; subst; split; auto.
  - simpl in Key. rewrite Key. reflexivity.
  - cbn [rev] in Key |- *. rewrite (concat_app (rev lines)), ns_app. cbn [concat]. rewrite app_nil_r, <- app_assoc, Key. reflexivity.
Qed.

Lemma wrap_loop_ns : forall fuel width chunks lines, (1 <= width)%nat -> (measure chunks <= fuel)%nat ->
  ns (concat (wrap_loop fuel width chunks lines)) = ns (concat (rev lines)) ++ ns (concat chunks).
Proof.
  induction fuel as [|f IH]; intros width chunks lines W M.
  - destruct chunks; [|unfold measure in M; simpl in M; lia]. simpl. rewrite app_nil_r. reflexivity.
  - cbn [wrap_loop]. destruct chunks as [|c t]; [simpl; rewrite app_nil_r; reflexivity|].
    destruct (wrap_step width (c :: t) lines) as [chunks' lines'] eqn:S.
    apply wrap_step_spec in S; [|lia|discriminate]. destruct S as [S1 S2].
    rewrite IH by lia. exact S1.
Qed.

Theorem wrap_keeps_nonspace : forall width text, (1 <= width)%nat -> ns (concat (wrap width text)) = ns text.
Proof.
  intros width text W. unfold wrap. rewrite wrap_loop_ns; [|exact W|].
  - simpl. rewrite concat_split_chunks. apply ns_munge.
  - unfold measure. rewrite <- sumlen_concat, concat_split_chunks. unfold munge. rewrite map_length. lia.
Qed.

(* ---- rows only contain characters of the (munged) text ------------------------------------------------- *)
Lemma forallb_concat : forall (p : Z -> bool) l, forallb p (concat l) = forallb (forallb p) l.
Proof. induction l as [|a t IH]; [reflexivity|]. cbn [concat forallb]. rewrite forallb_app, IH. reflexivity. Qed.
Lemma forallb_firstn' : forall (p : Z -> bool) n s, forallb p s = true -> forallb p (firstn n s) = true.
Proof.
  induction n as [|n IH]; intros [|x t] H; cbn [firstn forallb] in *; auto.
  apply andb_prop in H. destruct H as [H1 H2]. rewrite H1. apply IH. exact H2.
Qed.
Lemma forallb_skipn' : forall (p : Z -> bool) n s, forallb p s = true -> forallb p (skipn n s) = true.
Proof.
  induction n as [|n IH]; intros [|x t] H; cbn [skipn forallb] in *; auto.
  apply andb_prop in H. destruct H as [_ H2]. apply IH. exact H2.
Qed.

Lemma wrap_step_forallb : forall (p : Z -> bool) width chunks lines chunks' lines',
  wrap_step width chunks lines = (chunks', lines') ->
  forallb (forallb p) chunks = true -> forallb (forallb p) lines = true ->
  forallb (forallb p) chunks' = true /\ forallb (forallb p) lines' = true.
Proof.
  intros p width chunks lines chunks' lines' H Hc Hl. unfold wrap_step in H.
  set (hl := match lines with [] => false | _ => true end) in *.
  assert (D : forallb (forallb p) (drop_first_ws chunks hl) = true).
  { unfold drop_first_ws. destruct chunks as [|c0 r0]; [reflexivity|].
    destruct (is_ws_chunk c0 && hl); [|exact Hc]. cbn [forallb] in Hc. apply andb_prop in Hc. tauto. }
  destruct (take_fit width (drop_first_ws chunks hl) [] 0%nat) as [[cur len] rest] eqn:T.
  apply take_fit_spec in T; [|reflexivity|lia].
  destruct T as (_ & _ & _ & (taken & T4 & T5) & _). rewrite app_nil_r in T4. subst cur.
  rewrite T5, forallb_app in D. apply andb_prop in D. destruct D as [D1 D2].
  assert (HL : forall cur' ch3, handle_long width (rev taken, len, rest) = (cur', ch3) ->
               forallb (forallb p) cur' = true /\ forallb (forallb p) ch3 = true).
  { intros cur' ch3 E. unfold handle_long in E.
    assert (R : forallb (forallb p) (rev taken) = true).
    { rewrite forallb_forall in *. intros x Hx. apply D1. apply in_rev. exact Hx. }
    destruct rest as [|c r]; [inversion E; subst; auto|].
    cbn [forallb] in D2. apply andb_prop in D2. destruct D2 as [C1 C2].
    destruct (width <? length c)%nat; inversion E; subst.
    - split; apply andb_true_intro; split; auto using forallb_firstn', forallb_skipn'.
    - split; [exact R|]. apply andb_true_intro; split; auto. }
  destruct (handle_long width (rev taken, len, rest)) as [cur' ch3] eqn:E.
  destruct (HL _ _ eq_refl) as [H1 H2].
  assert (DL : forallb (forallb p) (drop_last_ws cur') = true).
  { unfold drop_last_ws. destruct cur' as [|l t]; [reflexivity|]. destruct (is_ws_chunk l); [|exact H1].
    cbn [forallb] in H1. apply andb_prop in H1. tauto. }
  destruct (drop_last_ws cur') as [|x y] eqn:Q; inversion H; subst; split; auto.
  apply andb_true_intro. split; [|exact Hl]. rewrite forallb_concat.
  rewrite forallb_forall in *. intros z Hz. apply DL. apply in_rev. exact Hz.
Qed.

Lemma wrap_loop_forallb : forall (p : Z -> bool) fuel width chunks lines,
  forallb (forallb p) chunks = true -> forallb (forallb p) lines = true ->
  forallb (forallb p) (wrap_loop fuel width chunks lines) = true.
Proof.
  induction fuel as [|f IH]; intros width chunks lines Hc Hl; cbn [wrap_loop].
  - rewrite forallb_forall in *. intros x Hx. apply Hl. apply in_rev. exact Hx.
  - destruct chunks as [|c t].
    + rewrite forallb_forall in *. intros x Hx. apply Hl. apply in_rev. exact Hx.
    + destruct (wrap_step width (c :: t) lines) as [chunks' lines'] eqn:S.
      destruct (wrap_step_forallb p _ _ _ _ _ S Hc Hl) as [A B]. apply IH; assumption.
Qed.

Theorem wrap_forallb : forall (p : Z -> bool) width text, forallb p (munge text) = true ->
  forall r, In r (wrap width text) -> forallb p r = true.
Proof.
  intros p width text H. unfold wrap.
  assert (A : forallb (forallb p) (wrap_loop (S (length text + length (split_chunks (munge text)))) width
                                             (split_chunks (munge text)) []) = true).
  { apply wrap_loop_forallb; [|reflexivity]. rewrite <- forallb_concat, concat_split_chunks. exact H. }
  rewrite forallb_forall in A. exact A.
Qed.
